import CppUModel.Model.TeamCity
import CppUModel.Spec.TeamCity
/-!
Helper lemmas for C20: the regenerated branch table of `printEscaped` equals the TeamCity rules,
per-byte lemmas for the three scanners (decode, odd-run check, value reader), digits and source
literals contain nothing that needs escaping, and the message view of the writer.
-/
namespace TeamCity
open Text (Bytes)
open OutEv

/-- a decidable predicate on bytes holds for every byte if it holds for 0..255 -/
theorem all_uint8 (p : UInt8 → Prop) (h : ∀ n : Fin 256, p (UInt8.ofNat n.val)) : ∀ c, p c := by
  intro c
  have := h ⟨c.toNat, c.toNat_lt⟩
  simpa using this

/-- OBLIGATION over the regenerated table: the branch chain of `printEscaped` is the TeamCity
    escaping rule, for every byte. -/
theorem escByte_eq_ref : ∀ c : UInt8, escByte c = escRef c := by
  apply all_uint8
  set_option maxRecDepth 100000 in decide

theorem printEscaped_eq_ref (s : Bytes) : printEscaped s = escapeRef s := by
  unfold printEscaped escapeRef
  congr 1
  funext c
  exact escByte_eq_ref c

theorem escapeRef_append (a b : Bytes) : escapeRef (a ++ b) = escapeRef a ++ escapeRef b := by
  simp [escapeRef]

theorem escapeRef_cons (c : UInt8) (s : Bytes) : escapeRef (c :: s) = escRef c ++ escapeRef s := by
  simp [escapeRef]

/-- the four shapes of an escaped byte -/
theorem escRef_cases (c : UInt8) :
    ((c = 39 ∨ c = 124 ∨ c = 91 ∨ c = 93) ∧ escRef c = [124, c]) ∨
    (c = 13 ∧ escRef c = [124, 114]) ∨ (c = 10 ∧ escRef c = [124, 110]) ∨
    ((c ≠ 39 ∧ c ≠ 124 ∧ c ≠ 91 ∧ c ≠ 93 ∧ c ≠ 13 ∧ c ≠ 10) ∧ escRef c = [c]) := by
  unfold escRef
  by_cases h1 : c = 39 ∨ c = 124 ∨ c = 91 ∨ c = 93
  · left; simp [h1]
  · right
    by_cases h2 : c = 13
    · left; subst h2; simp
    · right
      by_cases h3 : c = 10
      · left; subst h3; simp
      · right
        simp only [not_or] at h1
        simp [h1, h2, h3]

/-! ## decode -/

theorem decodeAux_escRef (c : UInt8) (rest : Bytes) :
    decodeAux false (escRef c ++ rest) = c :: decodeAux false rest := by
  rcases escRef_cases c with ⟨h, e⟩ | ⟨h, e⟩ | ⟨h, e⟩ | ⟨h, e⟩
  · rw [e]
    rcases h with h | h | h | h <;> subst h <;> simp [decodeAux, unescByte]
  · rw [e]; subst h; simp [decodeAux, unescByte]
  · rw [e]; subst h; simp [decodeAux, unescByte]
  · rw [e]; simp [decodeAux, h.2.1]

theorem decodeAux_escapeRef (s rest : Bytes) :
    decodeAux false (escapeRef s ++ rest) = s ++ decodeAux false rest := by
  induction s with
  | nil => simp [escapeRef]
  | cons c s ih => rw [escapeRef_cons, List.append_assoc, decodeAux_escRef, ih]; rfl

/-! ## odd runs -/

theorem oddRunOk_escRef (c : UInt8) (rest : Bytes) :
    oddRunOk false (escRef c ++ rest) = oddRunOk false rest := by
  rcases escRef_cases c with ⟨h, e⟩ | ⟨h, e⟩ | ⟨h, e⟩ | ⟨h, e⟩
  · rw [e]
    rcases h with h | h | h | h <;> subst h <;> simp [oddRunOk]
  · rw [e]; simp [oddRunOk]
  · rw [e]; simp [oddRunOk]
  · rw [e]; simp [oddRunOk, h.1, h.2.1, h.2.2.2.1]

theorem oddRunOk_escapeRef (s rest : Bytes) :
    oddRunOk false (escapeRef s ++ rest) = oddRunOk false rest := by
  induction s with
  | nil => simp [escapeRef]
  | cons c s ih => rw [escapeRef_cons, List.append_assoc, oddRunOk_escRef, ih]

/-- parity of the run of `|` at the end of `pre`, started with parity `odd` -/
def parityAfter : Bool → Bytes → Bool
  | odd, [] => odd
  | odd, c :: rest => if c = 124 then parityAfter (!odd) rest else parityAfter false rest

theorem parityAfter_snoc (pre : Bytes) (c : UInt8) : ∀ odd,
    parityAfter odd (pre ++ [c]) = if c = 124 then !(parityAfter odd pre) else false := by
  induction pre with
  | nil => intro odd; simp [parityAfter]
  | cons d pre ih =>
    intro odd
    simp only [List.cons_append, parityAfter]
    split <;> exact ih _

theorem trailingBars_snoc (pre : Bytes) (c : UInt8) :
    trailingBars (pre ++ [c]) = if c = 124 then trailingBars pre + 1 else 0 := by
  unfold trailingBars
  simp only [List.reverse_append, List.reverse_cons, List.reverse_nil, List.nil_append, List.singleton_append]
  by_cases h : c = 124
  · simp [h]
  · simp [h]

theorem rev_induction {P : Bytes → Prop} (hnil : P []) (hsnoc : ∀ pre c, P pre → P (pre ++ [c])) :
    ∀ l, P l := by
  have h : ∀ l : Bytes, P l.reverse := by
    intro l
    induction l with
    | nil => simpa using hnil
    | cons c l ih => simpa using hsnoc _ c ih
  intro l
  simpa using h l.reverse

theorem parityAfter_eq_trailing (pre : Bytes) :
    parityAfter false pre = decide (trailingBars pre % 2 = 1) := by
  induction pre using rev_induction with
  | hnil => simp [parityAfter, trailingBars]
  | hsnoc pre c ih =>
    rw [parityAfter_snoc, trailingBars_snoc, ih]
    by_cases h : c = 124
    · simp only [h, if_true]
      by_cases h2 : trailingBars pre % 2 = 1
      · simp [h2]; omega
      · simp [h2]; omega
    · simp [h]

/-- what the scanner `oddRunOk` means position by position -/
theorem oddRunOk_split (pre post : Bytes) (c : UInt8) (hc : c = 39 ∨ c = 93) : ∀ odd,
    oddRunOk odd (pre ++ c :: post) = true → parityAfter odd pre = true := by
  induction pre with
  | nil =>
    intro odd h
    have hb : c ≠ 124 := by rcases hc with h | h <;> subst h <;> decide
    simp only [List.nil_append, oddRunOk, hb, if_false, hc, if_true, Bool.and_eq_true] at h
    simpa [parityAfter] using h.1
  | cons d pre ih =>
    intro odd h
    simp only [List.cons_append, oddRunOk] at h
    simp only [parityAfter]
    split
    · rename_i hd; simp only [hd, if_true] at h; exact ih _ h
    · rename_i hd
      simp only [hd, if_false] at h
      split at h
      · simp only [Bool.and_eq_true] at h; exact ih _ h.2
      · exact ih _ h

/-! ## the value reader -/

theorem scanValue_escRef (c : UInt8) (rest acc : Bytes) :
    scanValue false (escRef c ++ rest) acc = scanValue false rest (c :: acc) := by
  rcases escRef_cases c with ⟨h, e⟩ | ⟨h, e⟩ | ⟨h, e⟩ | ⟨h, e⟩
  · rw [e]
    rcases h with h | h | h | h <;> subst h <;> simp [scanValue, unescByte, validEsc]
  · rw [e]; subst h; simp [scanValue, unescByte, validEsc]
  · rw [e]; subst h; simp [scanValue, unescByte, validEsc]
  · rw [e]; simp [scanValue, h.1, h.2.1, h.2.2.1, h.2.2.2.1, h.2.2.2.2.1, h.2.2.2.2.2]

theorem scanValue_escapeRef (v rest : Bytes) : ∀ acc,
    scanValue false (escapeRef v ++ 39 :: rest) acc = some (acc.reverse ++ v, rest) := by
  induction v with
  | nil => intro acc; simp [escapeRef, scanValue]
  | cons c v ih =>
    intro acc
    rw [escapeRef_cons, List.append_assoc, scanValue_escRef, ih]
    simp

/-! ## nothing to escape in digits and in the literals of the source -/

def plain (s : Bytes) : Prop := ∀ c ∈ s, c ≠ 39 ∧ c ≠ 124 ∧ c ≠ 91 ∧ c ≠ 93 ∧ c ≠ 13 ∧ c ≠ 10

instance (s : Bytes) : Decidable (plain s) := by unfold plain; infer_instance

theorem escapeRef_plain (s : Bytes) (h : plain s) : escapeRef s = s := by
  induction s with
  | nil => rfl
  | cons c s ih =>
    rw [escapeRef_cons, ih (fun d hd => h d (List.mem_cons_of_mem _ hd))]
    have hc := h c (List.mem_cons_self ..)
    rcases escRef_cases c with ⟨h', _⟩ | ⟨h', _⟩ | ⟨h', _⟩ | ⟨_, e⟩
    · rcases h' with h' | h' | h' | h' <;> simp [h'] at hc
    · simp [h'] at hc
    · simp [h'] at hc
    · rw [e]; rfl

theorem digit_plain (n : Nat) : plain [digit n] := by
  intro c hc
  simp only [List.mem_singleton] at hc
  subst hc
  unfold digit
  have h : n % 10 < 10 := Nat.mod_lt _ (by decide)
  have : ∀ k, k < 10 → (UInt8.ofNat (48 + k) ≠ 39 ∧ UInt8.ofNat (48 + k) ≠ 124 ∧ UInt8.ofNat (48 + k) ≠ 91 ∧
      UInt8.ofNat (48 + k) ≠ 93 ∧ UInt8.ofNat (48 + k) ≠ 13 ∧ UInt8.ofNat (48 + k) ≠ 10) := by decide
  exact this _ h

theorem plain_append {a b : Bytes} (ha : plain a) (hb : plain b) : plain (a ++ b) := by
  intro c hc
  rcases List.mem_append.mp hc with h | h
  · exact ha c h
  · exact hb c h

theorem plain_cons {c : UInt8} {s : Bytes} (hc : plain [c]) (hs : plain s) : plain (c :: s) :=
  plain_append (a := [c]) hc hs

theorem decAux_plain : ∀ (fuel n : Nat) (acc : Bytes), plain acc → plain (decAux fuel n acc)
  | 0, _, acc, h => by simpa [decAux] using h
  | fuel + 1, n, acc, h => by
    simp only [decAux]
    split
    · exact plain_cons (digit_plain n) h
    · exact decAux_plain fuel (n / 10) _ (plain_cons (digit_plain n) h)

theorem dec_plain (n : Nat) : plain (dec n) := decAux_plain _ _ _ (by intro c hc; simp at hc)

theorem escapeRef_dec (n : Nat) : escapeRef (dec n) = dec n := escapeRef_plain _ (dec_plain n)

/-! ## the regenerated writer is the hand-written one -/

/-- OBLIGATION over the regenerated statement lists (`Gen/TeamCityWriters.lean`): executing the source's statements —
    which field is printed through `printEscaped`, every literal, the order, the guards, where `currtest_` /
    `currGroup_` are assigned — gives, for every state and every callback, exactly the output and the next state of
    the hand-written writer all theorems were first proved about. -/
theorem step_eq_hand (s : St) (e : Ev) : step s e = stepHand s e := by
  cases e with
  | testRun i n =>
    by_cases h : n > 1 <;>
      simp [step, stepHand, exec, Gen.TeamCityWriters.printTestRun, condHolds, condAtomHolds, atomsOut, atomOut, numVal,
        testRunOut, h]
  | testsStarted => rfl
  | groupStarted t =>
    simp [step, stepHand, exec, Gen.TeamCityWriters.printCurrentGroupStarted, atomOut, fieldVal, groupStartedOut]
  | testStarted t =>
    cases hw : t.willRun <;>
      simp [step, stepHand, exec, Gen.TeamCityWriters.printCurrentTestStarted, condHolds, condAtomHolds, atomsOut, atomOut,
        fieldVal, testStartedOut, hw]
  | print text => rfl
  | failure f =>
    by_cases hc : (f.isOutsideTestFile || f.isInHelperFunction) = true
    · simp only [Bool.or_eq_true] at hc
      simp [step, stepHand, exec, Gen.TeamCityWriters.printFailure, condHolds, condAtomHolds, atomsOut, atomOut, fieldVal, numVal,
        failureOut, failurePrefix, hc]
    · simp only [Bool.or_eq_true, not_or, Bool.not_eq_true] at hc
      simp [step, stepHand, exec, Gen.TeamCityWriters.printFailure, condHolds, condAtomHolds, atomsOut, atomOut, fieldVal, numVal,
        failureOut, failurePrefix, hc.1, hc.2]
  | veryVerbose text => rfl
  | testEnded ms c =>
    cases hc : s.currTest <;>
      simp [step, stepHand, exec, Gen.TeamCityWriters.printCurrentTestEnded, guardHolds, atomOut, fieldVal, numVal, testEndedOut, hc]
  | groupEnded ms =>
    by_cases hg : s.currGroup = [] <;>
      simp [step, stepHand, exec, Gen.TeamCityWriters.printCurrentGroupEnded, guardHolds, atomOut, fieldVal, groupEndedOut, hg]
  | testsEnded sm => rfl

/-! ## the message view of the writer -/

/-- the decoded `message` value of a `testFailed` message: optional test location, failure location -/
def failureLocation (f : Failure) : Bytes :=
  (if f.isOutsideTestFile || f.isInHelperFunction then
     lit "TEST failed (" ++ f.testFile ++ lit ":" ++ dec f.testLine ++ lit "): " else []) ++
  f.file ++ lit ":" ++ dec f.line

/-- what the writer says for one event, as messages with their ORIGINAL (unescaped) values -/
def msgsOf (s : St) : Ev → List Msg
  | .testRun i n => if n > 1 then [.text (testRunOut i n)] else []
  | .testsStarted => []
  | .groupStarted t => [.suiteStarted t.group]
  | .testStarted t => .testStarted t.name :: (if !t.willRun then [.testIgnored t.name] else [])
  | .print text => [.text text]
  | .failure f => [.testFailed f.testName (failureLocation f) f.message]
  | .veryVerbose text => if s.veryVerbose then [.text text] else []
  | .testEnded ms _ =>
    match s.currTest with
    | none => []
    | some n => [.testFinished n ms]
  | .groupEnded _ => if s.currGroup == [] then [] else [.suiteFinished s.currGroup]
  | .testsEnded sm => [.text (summaryOut sm)]

def msgStep (s : St) (e : Ev) : St × List Msg := ((step s e).1, msgsOf s e)

/-- the message list of a whole run; `vv` = very verbose mode on -/
def messagesV (vv : Bool) (evs : List Ev) : List Msg := (foldEvents msgStep { veryVerbose := vv } evs).2

/-- the message list of a whole run in the default mode -/
def messages (evs : List Ev) : List Msg := messagesV false evs

theorem escapeRef_lit_plain (x : String) (h : plain (lit x)) : escapeRef (lit x) = lit x :=
  escapeRef_plain _ h

theorem escape_failureLocation (f : Failure) :
    escapeRef (failureLocation f) = failurePrefix f ++ printEscaped f.file ++ lit ":" ++ dec f.line := by
  unfold failureLocation failurePrefix
  have h1 : escapeRef (lit "TEST failed (") = lit "TEST failed (" := escapeRef_plain _ (by decide)
  have h2 : escapeRef (lit ":") = lit ":" := escapeRef_plain _ (by decide)
  have h3 : escapeRef (lit "): ") = lit "): " := escapeRef_plain _ (by decide)
  split <;> simp [escapeRef_append, h1, h2, h3, escapeRef_dec, printEscaped_eq_ref]

theorem step_renders (s : St) (e : Ev) : (step s e).2 = renderAll (msgsOf s e) := by
  cases e with
  | testRun i n => by_cases h : n > 1 <;> simp [step_eq_hand, stepHand, msgsOf, renderAll, Msg.render, testRunOut, h]
  | testsStarted => simp [step_eq_hand, stepHand, msgsOf, renderAll]
  | groupStarted t =>
    simp [step_eq_hand, stepHand, msgsOf, renderAll, Msg.render, groupStartedOut, message, attr, printEscaped_eq_ref, lit]
  | testStarted t =>
    cases hw : t.willRun <;>
      simp [step_eq_hand, stepHand, msgsOf, renderAll, Msg.render, testStartedOut, message, attr, printEscaped_eq_ref, lit, hw]
  | print text => simp [step_eq_hand, stepHand, msgsOf, renderAll, Msg.render]
  | veryVerbose text => cases hv : s.veryVerbose <;> simp [step_eq_hand, stepHand, msgsOf, renderAll, Msg.render, hv]
  | failure f =>
    simp only [step_eq_hand, stepHand, msgsOf, renderAll, Msg.render, failureOut, message, attr, List.flatMap_cons, List.flatMap_nil,
      escape_failureLocation, printEscaped_eq_ref]
    simp [lit]
  | testEnded ms c =>
    cases hc : s.currTest <;>
      simp [step_eq_hand, stepHand, msgsOf, renderAll, Msg.render, testEndedOut, message, attr, printEscaped_eq_ref, lit, hc, escapeRef_dec]
  | groupEnded ms =>
    by_cases hg : s.currGroup = []
    · simp [step_eq_hand, stepHand, msgsOf, renderAll, groupEndedOut, hg]
    · simp [step_eq_hand, stepHand, msgsOf, renderAll, Msg.render, groupEndedOut, message, attr, printEscaped_eq_ref, lit, hg]
  | testsEnded sm => simp [step_eq_hand, stepHand, msgsOf, renderAll, Msg.render]

theorem fold_renders : ∀ (evs : List Ev) (s : St),
    (foldEvents step s evs).2 = renderAll (foldEvents msgStep s evs).2 ∧
    (foldEvents step s evs).1 = (foldEvents msgStep s evs).1
  | [], s => by simp [foldEvents, renderAll]
  | e :: es, s => by
    have ih := fold_renders es (step s e).1
    simp only [foldEvents, msgStep] at ih ⊢
    refine ⟨?_, ih.2⟩
    rw [ih.1, step_renders]
    simp [renderAll]

end TeamCity
