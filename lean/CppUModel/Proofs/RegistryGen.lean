import CppUModel.Proofs.Registry
import CppUModel.Model.RegistryGen
/-!
The regenerated `UtestShellPointerArray` methods (`Gen/PointerArray.lean`) equal the hand-written
array model of `Model/Registry.lean`.  These proofs are re-checked against whatever the translator
produced from the current source.
-/
namespace Registry
open PA

/-! ## loops -/

/-- iterations of a count-up loop whose body falls through -/
def upFrom {σ} (g : Nat → σ → σ) : Nat → Nat → σ → σ
  | 0, _, s => s
  | n + 1, i, s => upFrom g n (i + 1) (g i s)

theorem forLoop_up {σ} (inv : σ → Prop) (cond : Nat → σ → Bool) (body : Nat → σ → Ctl σ)
    (g : Nat → σ → σ) (h : Nat)
    (hcond : ∀ i s, inv s → cond i s = decide (i < h))
    (hbody : ∀ i s, inv s → i < h → body i s = .go (g i s) ∧ inv (g i s)) :
    ∀ (n i : Nat) (s : σ) (fuel : Nat), inv s → i + n = h → n < fuel →
      Rt.forLoop cond (fun i => i + 1) body fuel i s = .go (upFrom g n i s) ∧ inv (upFrom g n i s)
  | 0, i, s, fuel, hs, hi, hf => by
    cases fuel with
    | zero => omega
    | succ f =>
      have : ¬ i < h := by omega
      simp [Rt.forLoop, hcond i s hs, this, upFrom, hs]
  | n + 1, i, s, fuel, hs, hi, hf => by
    cases fuel with
    | zero => omega
    | succ f =>
      have hlt : i < h := by omega
      have hb := hbody i s hs hlt
      simp only [Rt.forLoop, hcond i s hs, hlt, decide_true, if_true, hb.1, upFrom]
      exact forLoop_up inv cond body g h hcond hbody n (i + 1) (g i s) f hb.2 (by omega) (by omega)

/-- iterations of `for (i = i0; i >= 1; --i)` whose body falls through -/
def downFrom {σ} (g : Nat → σ → σ) : Nat → σ → σ
  | 0, s => s
  | i + 1, s => downFrom g i (g (i + 1) s)

theorem forLoop_down {σ} (inv : Nat → σ → Prop) (cond : Nat → σ → Bool) (body : Nat → σ → Ctl σ)
    (g : Nat → σ → σ)
    (hcond : ∀ i s, cond i s = decide (i ≥ 1))
    (hbody : ∀ i s, inv (i + 1) s → body (i + 1) s = .go (g (i + 1) s) ∧ inv i (g (i + 1) s)) :
    ∀ (i : Nat) (s : σ) (fuel : Nat), inv i s → i < fuel →
      Rt.forLoop cond (fun i => i - 1) body fuel i s = .go (downFrom g i s) ∧ inv 0 (downFrom g i s)
  | 0, s, fuel, hs, hf => by
    cases fuel with
    | zero => omega
    | succ f => simp [Rt.forLoop, hcond, downFrom, hs]
  | i + 1, s, fuel, hs, hf => by
    cases fuel with
    | zero => omega
    | succ f =>
      have hb := hbody i s hs
      simp only [Rt.forLoop, hcond, ge_iff_le, Nat.le_add_left, decide_true, if_true, hb.1, downFrom,
        Nat.add_sub_cancel]
      exact forLoop_down inv cond body g hcond hbody i _ f hb.2 (by omega)

/-! ## swap -/

theorem gen_swap_arr (a : Array Nat) (i j : Nat) (hi : i < a.size) (hj : j < a.size) :
    (a.setIfInBounds i (a.getD j 0)).setIfInBounds j (a.getD i 0) = swap a i j := by
  apply Array.ext'
  apply List.ext_getElem?
  intro k
  rw [Array.getElem?_toList, Array.getElem?_toList, swap_getElem? a i j k hi hj]
  simp only [Array.getElem?_setIfInBounds, Array.size_setIfInBounds, Array.getD_eq_getD_getElem?]
  by_cases e1 : k = j
  · subst e1; simp [hi, hj]
  · by_cases e2 : k = i
    · subst e2
      have : ¬ j = k := fun e => e1 e.symm
      simp [hi, hj, this]
      exact fun h => absurd h e1
    · have n1 : ¬ j = k := fun e => e1 e.symm
      have n2 : ¬ i = k := fun e => e2 e.symm
      simp [n1, n2, e1, e2]

/-- the regenerated `swap(index1, index2)` is the model's swap, inside the array -/
theorem gen_swap (s : St) (i j : Nat) (hi : i < s.arr.size) (hj : j < s.arr.size) :
    Gen.PointerArray.swap s i j = .go { s with arr := swap s.arr i j } := by
  simp only [Gen.PointerArray.swap, Rt.get, Rt.set]
  rw [gen_swap_arr s.arr i j hi hj]

/-! ## relinkTestsInOrder -/

/-- the state after `n` more iterations of the relink loop, as the model's `relinkFrom` -/
theorem relink_upFrom (a : Array Nat) (c : Nat) (hc : c = a.size)
    (g : Nat → St → St)
    (hg : ∀ i s, g i s = Rt.setPtr (Rt.addTest s (Rt.get s (s.count - i - 1)) s.ptr)
                           (some (Rt.get s (s.count - i - 1)))) :
    ∀ (n i : Nat) (s : St), s.arr = a → s.count = c → i + n = c →
      (upFrom g n i s).next = (relinkFrom a n s.next s.ptr).1 ∧
      (upFrom g n i s).ptr = (relinkFrom a n s.next s.ptr).2 ∧
      (upFrom g n i s).arr = a ∧ (upFrom g n i s).count = c ∧
      (upFrom g n i s).rands = s.rands ∧ (upFrom g n i s).srands = s.srands
  | 0, i, s, ha, hcnt, hi => by simp [upFrom, relinkFrom, ha, hcnt]
  | n + 1, i, s, ha, hcnt, hi => by
    have hk : n < a.size := by omega
    have hidx : s.count - i - 1 = n := by omega
    have hget : a[n]? = some a[n] := by simp [hk]
    have hgetD : Rt.get s n = a[n] := by simp [Rt.get, ha, hk]
    simp only [upFrom, relinkFrom, hget]
    have hs' : g i s = { s with next := setNext s.next a[n] s.ptr, ptr := some a[n] } := by
      rw [hg, hidx, hgetD]; rfl
    have := relink_upFrom a c hc g hg n (i + 1) (g i s) (by rw [hs']; exact ha) (by rw [hs']; exact hcnt)
      (by omega)
    rw [hs'] at this ⊢
    exact this

/-- the regenerated `relinkTestsInOrder()` is the model's `relink` -/
theorem gen_relink (s : St) (hc : s.count = s.arr.size) :
    ∃ s', Gen.PointerArray.relinkTestsInOrder s = .go s' ∧ s'.next = relink s.arr s.next ∧
      s'.arr = s.arr ∧ s'.count = s.count ∧ s'.rands = s.rands ∧ s'.srands = s.srands := by
  let g : Nat → St → St := fun i s =>
    Rt.setPtr (Rt.addTest s (Rt.get s (s.count - i - 1)) s.ptr) (some (Rt.get s (s.count - i - 1)))
  have hloop := forLoop_up (fun t : St => t.count = s.count)
    (fun i t => decide (i < t.count))
    (fun i t => Ctl.go (g i t)) g s.count
    (by intro i t ht; simp [ht])
    (by intro i t ht _; exact ⟨rfl, ht⟩)
    s.count 0 (Rt.setPtr s none) (s.count + 1) rfl (by omega) (by omega)
  have hup := relink_upFrom s.arr s.count hc g (fun _ _ => rfl) s.count 0 (Rt.setPtr s none) rfl rfl (by omega)
  refine ⟨upFrom g s.count 0 (Rt.setPtr s none), ?_, ?_, hup.2.2.1, hup.2.2.2.1, hup.2.2.2.2.1, hup.2.2.2.2.2⟩
  · have h1 := hloop.1
    unfold Gen.PointerArray.relinkTestsInOrder
    show (Rt.forLoop (fun i t => decide (i < t.count)) (fun i => i + 1) (fun i t => Ctl.go (g i t))
      (s.count + 1) 0 (Rt.setPtr s none)).bind (fun s => Ctl.go s) = _
    rw [h1]
    rfl
  · rw [hup.1]
    simp only [relink, Rt.setPtr, hc]

/-! ## reverse -/

theorem reverse_upFrom (c : Nat) (g : Nat → St → St)
    (hg : ∀ i s, g i s = { s with arr := swap s.arr i (s.count - i - 1) }) :
    ∀ (n i : Nat) (s : St), s.count = c →
      upFrom g n i s = { s with arr := reverseLoop c n i s.arr }
  | 0, i, s, _ => by simp [upFrom, reverseLoop]
  | n + 1, i, s, hcnt => by
    simp only [upFrom, reverseLoop]
    rw [reverse_upFrom c g hg n (i + 1) (g i s) (by rw [hg]; exact hcnt), hg, hcnt]

/-- the regenerated `reverse()` is `reverseArr` followed by `relink`; an empty array returns at once -/
theorem gen_reverse (s : St) (hc : s.count = s.arr.size) :
    ∃ s', (Gen.PointerArray.reverse s).state? = some s' ∧ s'.arr = reverseArr s.arr ∧
      s'.next = (if s.arr.size = 0 then s.next else relink (reverseArr s.arr) s.next) ∧
      s'.rands = s.rands ∧ s'.srands = s.srands := by
  by_cases h0 : s.arr.size = 0
  · refine ⟨s, ?_, ?_, by simp [h0], rfl, rfl⟩
    · simp [Gen.PointerArray.reverse, hc, h0, Ctl.state?]
    · simp [reverseArr, h0]
  · let g : Nat → St → St := fun i t => { t with arr := swap t.arr i (t.count - i - 1) }
    have hloop := forLoop_up (fun t : St => t.count = s.count ∧ t.arr.size = s.arr.size)
      (fun i _ => decide (i < s.count / 2))
      (fun i t => (Gen.PointerArray.swap t i (t.count - i - 1)).call (fun t => Ctl.go t)) g (s.count / 2)
      (by intro i t _; rfl)
      (by intro i t ht hi
          have h1 : i < t.arr.size := by omega
          have h2 : t.count - i - 1 < t.arr.size := by omega
          rw [gen_swap t i _ h1 h2]
          exact ⟨rfl, ht.1, by simp [g, swap_size, ht.2]⟩)
      (s.count / 2) 0 s (s.count + 1) ⟨rfl, rfl⟩ (by omega) (by omega)
    have hup := reverse_upFrom s.count g (fun _ _ => rfl) (s.count / 2) 0 s rfl
    have hsz : (reverseArr s.arr).size = s.arr.size := by
      rw [← Array.length_toList, reverseArr_toList]; simp
    obtain ⟨s', e1, e2, e3, e4, e5, e6⟩ := gen_relink (upFrom g (s.count / 2) 0 s)
      (by rw [hup]; simp only; rw [hc]
          have := reverseArr s.arr
          have : reverseLoop s.arr.size (s.arr.size / 2) 0 s.arr = reverseArr s.arr := by
            simp [reverseArr, h0]
          rw [this, hsz])
    have harr : (upFrom g (s.count / 2) 0 s).arr = reverseArr s.arr := by
      rw [hup]; simp only [reverseArr, h0, if_false, hc]
    refine ⟨s', ?_, by rw [e3, harr], ?_, by rw [e5, hup], by rw [e6, hup]⟩
    · have hne : ¬ s.count = 0 := by omega
      simp only [Gen.PointerArray.reverse, beq_iff_eq, hne, if_false]
      rw [hloop.1]
      simp only [Ctl.bind, e1, Ctl.call, Ctl.state?]
    · rw [e2, harr, hup]
      simp [h0]

/-! ## shuffle -/

theorem shuffle_downFrom (g : Nat → St → St)
    (hg : ∀ i s, g i s = { s with arr := swap s.arr i (s.rands.headD 0 % (i + 1)), rands := s.rands.tail }) :
    ∀ (i : Nat) (s : St), i ≤ s.rands.length →
      downFrom g i s = { s with arr := shuffleLoop i s.rands s.arr, rands := s.rands.drop i }
  | 0, s, _ => by simp [downFrom, shuffleLoop]
  | i + 1, s, h => by
    cases hr : s.rands with
    | nil => rw [hr] at h; simp at h
    | cons r rs =>
      simp only [downFrom]
      rw [shuffle_downFrom g hg i (g (i + 1) s) (by rw [hg]; simp [hr]; simpa [hr] using h), hg]
      simp [hr, shuffleLoop, gen_shuffleModulus]

/-- the regenerated `shuffle(seed)` is `shuffleArr` over the random numbers drawn followed by
    `relink`; it seeds once with `(unsigned int) seed` and consumes `count_ - 1` numbers; an empty
    array returns at once without seeding -/
theorem gen_shuffle (s : St) (seed : Nat) (hc : s.count = s.arr.size)
    (hr : randsNeeded s.arr.size ≤ s.rands.length) :
    ∃ s', (Gen.PointerArray.shuffle s seed).state? = some s' ∧ s'.arr = shuffleArr s.rands s.arr ∧
      s'.next = (if s.arr.size = 0 then s.next else relink (shuffleArr s.rands s.arr) s.next) ∧
      s'.rands = (if s.arr.size = 0 then s.rands else s.rands.drop (randsNeeded s.arr.size)) ∧
      s'.srands = (if s.arr.size = 0 then s.srands else s.srands ++ [seed % 4294967296]) := by
  by_cases h0 : s.arr.size = 0
  · refine ⟨s, ?_, ?_, by simp [h0], by simp [h0], by simp [h0]⟩
    · simp [Gen.PointerArray.shuffle, hc, h0, Ctl.state?]
    · simp [shuffleArr, h0]
  · let g : Nat → St → St := fun i t =>
      { t with arr := swap t.arr i (t.rands.headD 0 % (i + 1)), rands := t.rands.tail }
    let s1 := Rt.srand s (seed % 4294967296)
    have hne : ¬ s.count = 0 := by omega
    have hloop := forLoop_down
      (fun i (t : St) => t.count = s.count ∧ t.arr.size = s.arr.size ∧ i < s.arr.size)
      (fun i _ => decide (i ≥ 1))
      (fun i t => if (t.count == 0) then Ctl.ret t else
        (Gen.PointerArray.swap (Rt.popRand t) i (Rt.peekRand t % (i + 1))).call (fun t => Ctl.go t)) g
      (by intro i t; rfl)
      (by intro i t ht
          have hn : ¬ t.count = 0 := by omega
          have h1 : i + 1 < (Rt.popRand t).arr.size := by simp [Rt.popRand]; omega
          have h2 : Rt.peekRand t % (i + 1 + 1) < (Rt.popRand t).arr.size := by
            have := Nat.mod_lt (Rt.peekRand t) (show 0 < i + 1 + 1 by omega)
            simp [Rt.popRand]; omega
          simp only [beq_iff_eq, hn, if_false]
          rw [gen_swap _ _ _ h1 h2]
          refine ⟨rfl, ht.1, ?_, by omega⟩
          simp [g, swap_size, ht.2.1])
      (s.count - 1) s1 (s.count + 1) ⟨rfl, rfl, by omega⟩ (by omega)
    have hup := shuffle_downFrom g (fun _ _ => rfl) (s.count - 1) s1
      (by simp only [s1, Rt.srand]; rw [hc]; exact hr)
    have hperm := shuffleLoop_perm (s.count - 1) s.rands s.arr
    obtain ⟨s', e1, e2, e3, e4, e5, e6⟩ := gen_relink (downFrom g (s.count - 1) s1)
      (by rw [hup]; simp only [s1, Rt.srand]
          rw [← Array.length_toList, hperm.length_eq]; simpa using hc)
    have harr : (downFrom g (s.count - 1) s1).arr = shuffleArr s.rands s.arr := by
      rw [hup]; simp only [shuffleArr, h0, if_false, hc, s1, Rt.srand]
    refine ⟨s', ?_, by rw [e3, harr], ?_, ?_, ?_⟩
    · have h1 := hloop.1
      unfold Gen.PointerArray.shuffle
      rw [if_neg (by simp [hne])]
      show ((Rt.forLoop (fun i _ => decide (i ≥ 1)) (fun i => i - 1)
        (fun i t => if (t.count == 0) then Ctl.ret t else
          (Gen.PointerArray.swap (Rt.popRand t) i (Rt.peekRand t % (i + 1))).call (fun t => Ctl.go t))
        (s.count + 1) (s.count - 1) s1).bind
          (fun s => (Gen.PointerArray.relinkTestsInOrder s).call (fun s => Ctl.go s))).state? = some s'
      rw [h1]
      simp only [Ctl.bind, e1, Ctl.call, Ctl.state?]
    · rw [e2, harr, hup]; simp [h0, s1, Rt.srand]
    · rw [e5, hup]; simp [h0, s1, Rt.srand, randsNeeded, hc]
    · rw [e6, hup]; simp [h0, s1, Rt.srand]

end Registry
