import CppUModel.Spec.LeakPlugin
/-! Helper lemmas for C07: the run of the model refines the history-level specification. -/
namespace LeakPlugin
open Gen.LeakCode Hist

/-! ### the regenerated code, evaluated -/

theorem isInPeriod_checking (p : Period) : isInPeriod p .checking = (p == .checking) := by
  cases p <;> rfl

theorem isInPeriod_enabled (p : Period) : isInPeriod p .enabled = (p != .disabled) := by
  cases p <;> rfl

theorem preTestAction_eq (w : World) :
    preTestAction w =
      { w with det := { w.det with out := [], cur := .checking },
               plg := { w.plg with failureCount := w.failures } } := rfl

theorem demoteRec_period (r : Rec) : (Detector.demoteRec r).period ≠ .checking := by
  unfold Detector.demoteRec
  cases h : r.period <;> simp [isInPeriod, demoteScan, demoteFrom, demoteTo, h]

theorem demoteRec_id (r : Rec) : (Detector.demoteRec r).id = r.id := by
  unfold Detector.demoteRec; split <;> rfl

theorem demoteRec_num (r : Rec) : (Detector.demoteRec r).num = r.num := by
  unfold Detector.demoteRec; split <;> rfl

/-- the value of the local `leaks` of postTestAction -/
def leaksAtPost (w : World) : Nat := (w.det.recs.filter (fun r => r.period == .checking)).length

/-- the condition of postTestAction's outer `if`, on the state at the end of the teardown -/
def condAtPost (w : World) : Bool :=
  failCond w.plg.ignoreAll w.plg.expected (leaksAtPost w) w.plg.failureCount w.failures

theorem totalMemoryLeaks_checking (d : Detector) :
    d.totalMemoryLeaks .checking = (d.recs.filter (fun r => r.period == .checking)).length := by
  simp [Detector.totalMemoryLeaks, Detector.leaksIn, isInPeriod_checking]

theorem leaksIn_checking (d : Detector) :
    d.leaksIn .checking = d.recs.filter (fun r => r.period == .checking) := by
  simp [Detector.leaksIn, isInPeriod_checking]

theorem verdictStep_recs (w : World) (p : Period) : (verdictStep w p).det.recs = w.det.recs := by
  unfold verdictStep
  by_cases h1 : failCond w.plg.ignoreAll w.plg.expected w.plg.leaks w.plg.failureCount w.failures = true
  · by_cases h2 : w.overloads = true
    · simp [h1, h2, Detector.report]
    · by_cases h3 : warnCond w.plg.ignoreAll w.plg.expected w.plg.leaks w.plg.failureCount w.failures = true
      · simp [h1, h2, h3]
      · simp [h1, h2, h3]
  · simp [h1]

theorem verdictStep_cur (w : World) (p : Period) : (verdictStep w p).det.cur = w.det.cur := by
  unfold verdictStep
  by_cases h1 : failCond w.plg.ignoreAll w.plg.expected w.plg.leaks w.plg.failureCount w.failures = true
  · by_cases h2 : w.overloads = true
    · simp [h1, h2, Detector.report]
    · by_cases h3 : warnCond w.plg.ignoreAll w.plg.expected w.plg.leaks w.plg.failureCount w.failures = true
      · simp [h1, h2, h3]
      · simp [h1, h2, h3]
  · simp [h1]

theorem verdictStep_seq (w : World) (p : Period) : (verdictStep w p).det.seq = w.det.seq := by
  unfold verdictStep
  by_cases h1 : failCond w.plg.ignoreAll w.plg.expected w.plg.leaks w.plg.failureCount w.failures = true
  · by_cases h2 : w.overloads = true
    · simp [h1, h2, Detector.report]
    · by_cases h3 : warnCond w.plg.ignoreAll w.plg.expected w.plg.leaks w.plg.failureCount w.failures = true
      · simp [h1, h2, h3]
      · simp [h1, h2, h3]
  · simp [h1]

theorem verdictStep_plg (w : World) (p : Period) : (verdictStep w p).plg = w.plg := by
  unfold verdictStep
  by_cases h1 : failCond w.plg.ignoreAll w.plg.expected w.plg.leaks w.plg.failureCount w.failures = true
  · by_cases h2 : w.overloads = true
    · simp [h1, h2]
    · by_cases h3 : warnCond w.plg.ignoreAll w.plg.expected w.plg.leaks w.plg.failureCount w.failures = true
      · simp [h1, h2, h3]
      · simp [h1, h2, h3]
  · simp [h1]

theorem verdictStep_overloads (w : World) (p : Period) : (verdictStep w p).overloads = w.overloads := by
  unfold verdictStep
  by_cases h1 : failCond w.plg.ignoreAll w.plg.expected w.plg.leaks w.plg.failureCount w.failures = true
  · by_cases h2 : w.overloads = true
    · simp [h1, h2]
    · by_cases h3 : warnCond w.plg.ignoreAll w.plg.expected w.plg.leaks w.plg.failureCount w.failures = true
      · simp [h1, h2, h3]
      · simp [h1, h2, h3]
  · simp [h1]

theorem post_recs (w : World) : (postTestAction w).det.recs = w.det.recs.map Detector.demoteRec := by
  simp [postTestAction, postSteps, List.foldl, pstep, verdictStep_recs, Detector.demote,
    Detector.stopChecking, stopCheckingSteps, Detector.dsteps, Detector.dstep]

theorem post_cur (w : World) : (postTestAction w).det.cur = .enabled := by
  simp [postTestAction, postSteps, List.foldl, pstep, verdictStep_cur, Detector.demote,
    Detector.stopChecking, stopCheckingSteps, Detector.dsteps, Detector.dstep]

theorem post_seq (w : World) : (postTestAction w).det.seq = w.det.seq := by
  simp [postTestAction, postSteps, List.foldl, pstep, verdictStep_seq, Detector.demote,
    Detector.stopChecking, stopCheckingSteps, Detector.dsteps, Detector.dstep]

theorem post_flags (w : World) :
    (postTestAction w).plg.ignoreAll = false ∧ (postTestAction w).plg.expected = 0 := by
  simp [postTestAction, postSteps, List.foldl, pstep]

theorem post_overloads (w : World) : (postTestAction w).overloads = w.overloads := by
  simp [postTestAction, postSteps, List.foldl, pstep, verdictStep_overloads]

theorem post_leakFail (w : World) (hov : w.overloads = true) :
    (postTestAction w).leakFail =
      if condAtPost w then
        some { entries := w.det.out ++ w.det.recs.filter (fun r => r.period == .checking), total := leaksAtPost w }
      else w.leakFail := by
  simp only [postTestAction, postSteps, List.foldl, pstep, verdictStep, condAtPost, leaksAtPost,
    Detector.stopChecking, stopCheckingSteps, Detector.dsteps, Detector.dstep, totalMemoryLeaks_checking,
    Detector.report, leaksIn_checking, hov]
  split <;> rename_i h <;> simp [h]

theorem post_failures (w : World) (hov : w.overloads = true) :
    (postTestAction w).failures = if condAtPost w then w.failures + 1 else w.failures := by
  simp only [postTestAction, postSteps, List.foldl, pstep, verdictStep, condAtPost, leaksAtPost,
    Detector.stopChecking, stopCheckingSteps, Detector.dsteps, Detector.dstep, totalMemoryLeaks_checking,
    Detector.report, leaksIn_checking, hov]
  split <;> rename_i h <;> simp [h]

/-- without the overloads no failure is ever added by the post action -/
theorem post_no_overloads (w : World) (hov : w.overloads = false) :
    (postTestAction w).leakFail = w.leakFail ∧ (postTestAction w).failures = w.failures := by
  simp only [postTestAction, postSteps, List.foldl, pstep, verdictStep, hov]
  split
  · simp only [Bool.false_eq_true, if_false]
    split <;> exact ⟨rfl, rfl⟩
  · exact ⟨rfl, rfl⟩

/-! ### inside the window: the model run simulates the history -/

/-- the model state `w` inside a test's window represents the history state `h`;
    `f0` is the failure count at the pre action -/
structure Sim (f0 : Nat) (w : World) (h : HState) : Prop where
  ids : w.det.recs.map (·.id) = h.live
  chk : (w.det.recs.filter (fun r => r.period == .checking)).map (·.id) = h.mine
  cur : w.det.cur = .checking
  ab : w.aborted = h.aborted
  fails : w.failures = f0 + h.own
  ign : w.plg.ignoreAll = h.ignore
  exp : w.plg.expected = h.expected
  fc : w.plg.failureCount = f0

theorem isLive_eq (d : Detector) (id : Nat) : d.isLive id = decide (id ∈ d.recs.map (·.id)) := by
  rw [Bool.eq_iff_iff]; simp [Detector.isLive]

theorem map_id_filter_ne (l : List Rec) (id : Nat) :
    (l.filter (fun r => r.id != id)).map (·.id) = (l.map (·.id)).filter (· != id) := by
  induction l with
  | nil => rfl
  | cons r rs ih =>
    by_cases h : r.id = id <;> simp [h, ih]

theorem chk_filter_ne (l : List Rec) (id : Nat) :
    ((l.filter (fun r => r.id != id)).filter (fun r => r.period == .checking)).map (·.id) =
      ((l.filter (fun r => r.period == .checking)).map (·.id)).filter (· != id) := by
  have : (l.filter (fun r => r.id != id)).filter (fun r => r.period == .checking) =
      (l.filter (fun r => r.period == .checking)).filter (fun r => r.id != id) := by
    simp [List.filter_filter, Bool.and_comm]
  rw [this, map_id_filter_ne]

/-- with the repaired failure branch (every field restored from the saved old node) a failed
    realloc leaves the table exactly as it was -/
theorem restoredRec_eq (d : Detector) (old : Rec) (size : Nat) : Detector.restoredRec d old size = old := rfl

theorem reallocFail_eq (d : Detector) (id size : Nat) : d.reallocFail id size = d := by
  unfold Detector.reallocFail
  have : (fun r : Rec => if (r.id == id) = true then Detector.restoredRec d r size else r) = fun r => r := by
    funext r; rw [restoredRec_eq]; split <;> rfl
  rw [this, List.map_id']
  rfl

theorem execCmd_reallocFail (w : World) (id size : Nat) : execCmd w (.reallocFail id size) = w := by
  simp only [execCmd, reallocFail_eq]

theorem sim_doAlloc {f0 : Nat} {w : World} {h : HState} (s : Sim f0 w h) (id size : Nat) :
    Sim f0 (doAlloc w id size) (hAlloc h id) := by
  have hl : w.det.isLive id = decide (id ∈ h.live) := by rw [isLive_eq, s.ids]
  unfold doAlloc hAlloc
  by_cases hm : id ∈ h.live
  · simp only [hl, hm, decide_true, if_true]; exact s
  · simp only [hl, hm, decide_false, Bool.false_eq_true, if_false]
    exact { ids := by simp [Detector.alloc, s.ids]
            chk := by simp [Detector.alloc, s.cur, s.chk]
            cur := s.cur, ab := s.ab, fails := s.fails, ign := s.ign, exp := s.exp, fc := s.fc }

theorem sim_doFree {f0 : Nat} {w : World} {h : HState} (s : Sim f0 w h) (id : Nat) :
    Sim f0 (doFree w id) (hFree h id) :=
  { ids := by simp only [doFree, hFree, Detector.free, map_id_filter_ne, s.ids]
    chk := by simp only [doFree, hFree, Detector.free, chk_filter_ne, s.chk]
    cur := s.cur, ab := s.ab, fails := s.fails, ign := s.ign, exp := s.exp, fc := s.fc }

theorem sim_doRealloc {f0 : Nat} {w : World} {h : HState} (s : Sim f0 w h) (id newId size : Nat) :
    Sim f0 (doRealloc w id newId size) (hexec h (.realloc id newId size)) := by
  have hl : w.det.isLive id = decide (id ∈ h.live) := by rw [isLive_eq, s.ids]
  have hl2 : w.det.isLive newId = decide (newId ∈ h.live) := by rw [isLive_eq, s.ids]
  unfold doRealloc
  simp only [hexec, hl, hl2]
  by_cases h1 : id ∈ h.live
  · by_cases h2 : newId = id
    · subst h2
      simp [h1]
      exact sim_doAlloc (sim_doFree s newId) newId size
    · by_cases h3 : newId ∈ h.live
      · simp [h1, h2, h3]; exact s
      · simp [h1, h2, h3]
        exact sim_doAlloc (sim_doFree s id) newId size
  · simp [h1]; exact s

theorem sim_execCmd {f0 : Nat} {w : World} {h : HState} (s : Sim f0 w h) (c : Cmd) :
    Sim f0 (execCmd w c) (hexec h c) := by
  cases c with
  | alloc id size => exact sim_doAlloc s id size
  | free id => exact sim_doFree s id
  | realloc id newId size => exact sim_doRealloc s id newId size
  | reallocFail id size => rw [execCmd_reallocFail]; exact s
  | expectLeaks n =>
    exact { ids := s.ids, chk := s.chk, cur := s.cur, ab := s.ab, fails := s.fails, ign := s.ign, exp := rfl, fc := s.fc }
  | ignoreLeaks =>
    exact { ids := s.ids, chk := s.chk, cur := s.cur, ab := s.ab, fails := s.fails, ign := rfl, exp := s.exp, fc := s.fc }
  | fail =>
    exact { ids := s.ids, chk := s.chk, cur := s.cur, ab := rfl
            fails := by simp only [execCmd, hexec, s.fails]; omega
            ign := s.ign, exp := s.exp, fc := s.fc }
  | envSeq n =>
    exact { ids := s.ids, chk := s.chk, cur := s.cur, ab := s.ab, fails := s.fails, ign := s.ign, exp := s.exp, fc := s.fc }

theorem sim_stepCmd {f0 : Nat} {w : World} {h : HState} (s : Sim f0 w h) (c : Cmd) :
    Sim f0 (stepCmd w c) (hstep h c) := by
  unfold stepCmd hstep
  rw [s.ab]
  split
  · exact s
  · exact sim_execCmd s c

theorem sim_runCmds {f0 : Nat} : ∀ (cs : List Cmd) {w : World} {h : HState}, Sim f0 w h →
    Sim f0 (runCmds w cs) (hrun h cs)
  | [], _, _, s => s
  | c :: cs, _, _, s => sim_runCmds cs (sim_stepCmd s c)

theorem sim_enterPhase {f0 : Nat} {w : World} {h : HState} (s : Sim f0 w h) (ph : Phase) :
    Sim f0 (enterPhase w ph) (hEnter h ph) := by
  cases ph with
  | body => exact s
  | setup => exact { ids := s.ids, chk := s.chk, cur := s.cur, ab := rfl, fails := s.fails, ign := s.ign, exp := s.exp, fc := s.fc }
  | teardown => exact { ids := s.ids, chk := s.chk, cur := s.cur, ab := rfl, fails := s.fails, ign := s.ign, exp := s.exp, fc := s.fc }

theorem sim_runPhase {f0 : Nat} {w : World} {h : HState} (s : Sim f0 w h) (ph : Phase) (cs : List Cmd) :
    Sim f0 (runPhase w ph cs) (hPhase h ph cs) :=
  sim_runCmds cs (sim_enterPhase s ph)

/-! ### what the scripted commands never touch -/

/-- fields no scripted command changes -/
def Frame (w w' : World) : Prop :=
  w'.det.out = w.det.out ∧ w'.leakFail = w.leakFail ∧ w'.warned = w.warned ∧ w'.overloads = w.overloads ∧
  w'.det.cur = w.det.cur

theorem Frame.refl (w : World) : Frame w w := ⟨rfl, rfl, rfl, rfl, rfl⟩

theorem Frame.trans {a b c : World} (h1 : Frame a b) (h2 : Frame b c) : Frame a c :=
  ⟨h2.1.trans h1.1, h2.2.1.trans h1.2.1, h2.2.2.1.trans h1.2.2.1, h2.2.2.2.1.trans h1.2.2.2.1,
   h2.2.2.2.2.trans h1.2.2.2.2⟩

theorem frame_doAlloc (w : World) (id size : Nat) : Frame w (doAlloc w id size) := by
  by_cases h : w.det.isLive id = true <;> simp [doAlloc, h, Frame, Detector.alloc]

theorem frame_doFree (w : World) (id : Nat) : Frame w (doFree w id) := ⟨rfl, rfl, rfl, rfl, rfl⟩

theorem frame_doRealloc (w : World) (id newId size : Nat) : Frame w (doRealloc w id newId size) := by
  unfold doRealloc
  split
  · exact Frame.refl w
  · split
    · exact Frame.refl w
    · exact (frame_doFree w id).trans (frame_doAlloc _ newId size)

theorem frame_execCmd (w : World) (c : Cmd) : Frame w (execCmd w c) := by
  cases c with
  | alloc id size => exact frame_doAlloc w id size
  | free id => exact frame_doFree w id
  | realloc id newId size => exact frame_doRealloc w id newId size
  | reallocFail id size => rw [execCmd_reallocFail]; exact Frame.refl w
  | _ => exact ⟨rfl, rfl, rfl, rfl, rfl⟩

theorem frame_stepCmd (w : World) (c : Cmd) : Frame w (stepCmd w c) := by
  unfold stepCmd; split
  · exact Frame.refl w
  · exact frame_execCmd w c

theorem frame_runCmds : ∀ (cs : List Cmd) (w : World), Frame w (runCmds w cs)
  | [], w => Frame.refl w
  | c :: cs, w => (frame_stepCmd w c).trans (frame_runCmds cs (stepCmd w c))

theorem frame_enterPhase (w : World) (ph : Phase) : Frame w (enterPhase w ph) := by
  cases ph <;> exact ⟨rfl, rfl, rfl, rfl, rfl⟩

theorem frame_runPhase (w : World) (ph : Phase) (cs : List Cmd) : Frame w (runPhase w ph cs) :=
  (frame_enterPhase w ph).trans (frame_runCmds cs _)

theorem frame_runBody (w : World) (t : Test) : Frame w (runBody w t) :=
  ((frame_runPhase w .setup t.setup).trans (frame_runPhase _ .body t.body)).trans (frame_runPhase _ .teardown t.teardown)

theorem frame_execOutside (w : World) (c : Cmd) : Frame w (execOutside w c) := by
  cases c with
  | alloc id size => exact frame_execCmd w _
  | free id => exact frame_execCmd w _
  | envSeq n => exact frame_execCmd w _
  | _ => exact Frame.refl w

theorem frame_runOutside : ∀ (cs : List Cmd) (w : World), Frame w (runOutside w cs)
  | [], w => Frame.refl w
  | c :: cs, w => (frame_execOutside w c).trans (frame_runOutside cs (execOutside w c))

/-! ### between tests -/

/-- fields the memory operations between two tests leave alone -/
def Frame2 (w w' : World) : Prop :=
  w'.failures = w.failures ∧ w'.plg = w.plg ∧ w'.aborted = w.aborted

theorem frame2_execOutside (w : World) (c : Cmd) : Frame2 w (execOutside w c) := by
  cases c with
  | alloc id size => by_cases h : w.det.isLive id = true <;> simp [execOutside, execCmd, doAlloc, h, Frame2]
  | _ => exact ⟨rfl, rfl, rfl⟩

theorem frame2_runOutside : ∀ (cs : List Cmd) (w : World), Frame2 w (runOutside w cs)
  | [], _ => ⟨rfl, rfl, rfl⟩
  | c :: cs, w =>
    have h1 := frame2_execOutside w c
    have h2 := frame2_runOutside cs (execOutside w c)
    ⟨h2.1.trans h1.1, h2.2.1.trans h1.2.1, h2.2.2.trans h1.2.2⟩

theorem liveIds_execOutside (w : World) (c : Cmd) :
    (execOutside w c).liveIds = hOutside w.liveIds c := by
  cases c with
  | alloc id size =>
    simp only [execOutside, execCmd, doAlloc, hOutside, World.liveIds, isLive_eq]
    by_cases hm : id ∈ w.det.recs.map (·.id)
    · simp only [hm, decide_true, if_true]
    · simp only [hm, decide_false, Bool.false_eq_true, if_false]; simp [Detector.alloc]
  | free id => simp only [execOutside, execCmd, doFree, hOutside, World.liveIds, Detector.free, map_id_filter_ne]
  | _ => rfl

theorem liveIds_runOutside : ∀ (cs : List Cmd) (w : World),
    (runOutside w cs).liveIds = cs.foldl hOutside w.liveIds
  | [], _ => rfl
  | c :: cs, w => by
    simp only [runOutside, List.foldl_cons]
    rw [← liveIds_execOutside]; exact liveIds_runOutside cs (execOutside w c)

theorem clean_execOutside {w : World} (hc : Clean w) (c : Cmd) : Clean (execOutside w c) := by
  have hf := frame_execOutside w c
  have hf2 := frame2_execOutside w c
  refine { noChecking := ?_, notChecking := by rw [hf.2.2.2.2]; exact hc.notChecking, numsBelow := ?_,
           ignoreOff := by rw [hf2.2.1]; exact hc.ignoreOff, expectedZero := by rw [hf2.2.1]; exact hc.expectedZero }
  · cases c with
    | alloc id size =>
      simp only [execOutside, execCmd, doAlloc]; split
      · exact hc.noChecking
      · intro r hr
        simp only [Detector.alloc, List.mem_cons] at hr
        rcases hr with rfl | hr
        · exact hc.notChecking
        · exact hc.noChecking r hr
    | free id =>
      intro r hr; simp only [execOutside, execCmd, doFree, Detector.free, List.mem_filter] at hr
      exact hc.noChecking r hr.1
    | _ => exact hc.noChecking
  · cases c with
    | alloc id size =>
      simp only [execOutside, execCmd, doAlloc]; split
      · exact hc.numsBelow
      · intro r hr
        simp only [Detector.alloc, List.mem_cons] at hr ⊢
        rcases hr with rfl | hr
        · exact Nat.lt_succ_self _
        · exact Nat.lt_succ_of_lt (hc.numsBelow r hr)
    | free id =>
      intro r hr; simp only [execOutside, execCmd, doFree, Detector.free, List.mem_filter] at hr
      exact hc.numsBelow r hr.1
    | envSeq n =>
      intro r hr
      simp only [execOutside, execCmd, Detector.bump] at hr ⊢
      exact Nat.lt_of_lt_of_le (hc.numsBelow r hr) (Nat.le_max_left _ _)
    | _ => exact hc.numsBelow

theorem clean_runOutside : ∀ (cs : List Cmd) {w : World}, Clean w → Clean (runOutside w cs)
  | [], _, hc => hc
  | c :: cs, _, hc => clean_runOutside cs (clean_execOutside hc c)

theorem clean_clearObs {w : World} (hc : Clean w) : Clean (clearObs w) :=
  { noChecking := hc.noChecking, notChecking := hc.notChecking, numsBelow := hc.numsBelow,
    ignoreOff := hc.ignoreOff, expectedZero := hc.expectedZero }

/-! ### one test -/

/-- the state at the test's start: observations forgotten, memory operations between the tests done -/
def atStart (w : World) (t : Test) : World := runOutside (clearObs w) t.before

/-- the state at the end of the teardown, just before the post action -/
def atTeardownEnd (w : World) (t : Test) : World := runBody (preTestAction (atStart w t)) t

theorem runTest_eq (w : World) (t : Test) : runTest w t = postTestAction (atTeardownEnd w t) := rfl

theorem clean_atStart {w : World} (hc : Clean w) (t : Test) : Clean (atStart w t) :=
  clean_runOutside t.before (clean_clearObs hc)

theorem liveIds_atStart (w : World) (t : Test) : (atStart w t).liveIds = liveAtStart w.liveIds t :=
  liveIds_runOutside t.before (clearObs w)

theorem failures_atStart (w : World) (t : Test) : (atStart w t).failures = w.failures :=
  (frame2_runOutside t.before (clearObs w)).1

theorem atStart_obs (w : World) (t : Test) :
    (atStart w t).leakFail = none ∧ (atStart w t).warned = false ∧ (atStart w t).overloads = w.overloads ∧
    (atStart w t).aborted = false := by
  have h := frame_runOutside t.before (clearObs w)
  have h2 := frame2_runOutside t.before (clearObs w)
  exact ⟨h.2.1, h.2.2.1, h.2.2.2.1, h2.2.2⟩

theorem sim_pre {w : World} (hc : Clean w) (hab : w.aborted = false) :
    Sim w.failures (preTestAction w) (start w.liveIds) := by
  rw [preTestAction_eq]
  exact { ids := rfl
          chk := by
            have : w.det.recs.filter (fun r => r.period == .checking) = [] := by
              rw [List.filter_eq_nil_iff]; intro r hr; simpa using hc.noChecking r hr
            simp [this, start]
          cur := rfl, ab := hab, fails := rfl, ign := hc.ignoreOff, exp := hc.expectedZero, fc := rfl }

theorem sim_runBody {f0 : Nat} {w : World} {h : HState} (s : Sim f0 w h) (t : Test) :
    Sim f0 (runBody w t)
      (hPhase (hPhase (hPhase h .setup t.setup) .body t.body) .teardown t.teardown) :=
  sim_runPhase (sim_runPhase (sim_runPhase s .setup t.setup) .body t.body) .teardown t.teardown

/-- the model at the end of the teardown represents the history of the test -/
theorem sim_atTeardownEnd {w : World} (hc : Clean w) (t : Test) :
    Sim w.failures (atTeardownEnd w t) (atEnd w.liveIds t) := by
  have hs := sim_pre (clean_atStart hc t) (atStart_obs w t).2.2.2
  rw [failures_atStart, liveIds_atStart] at hs
  exact sim_runBody hs t

theorem atTeardownEnd_obs (w : World) (t : Test) :
    (atTeardownEnd w t).leakFail = none ∧ (atTeardownEnd w t).warned = false ∧
    (atTeardownEnd w t).overloads = w.overloads ∧ (atTeardownEnd w t).det.out = [] := by
  have h := frame_runBody (preTestAction (atStart w t)) t
  have h0 := atStart_obs w t
  refine ⟨h.2.1.trans ?_, h.2.2.1.trans ?_, h.2.2.2.1.trans ?_, h.1.trans ?_⟩
  · rw [preTestAction_eq]; exact h0.1
  · rw [preTestAction_eq]; exact h0.2.1
  · rw [preTestAction_eq]; exact h0.2.2.1
  · rw [preTestAction_eq]

theorem leaksAtPost_eq {f0 : Nat} {w : World} {h : HState} (s : Sim f0 w h) : leaksAtPost w = h.mine.length := by
  rw [← s.chk, List.length_map]; rfl

theorem condAtPost_eq {f0 : Nat} {w : World} {h : HState} (s : Sim f0 w h) :
    condAtPost w = (h.own == 0 && !h.ignore && h.mine.length != h.expected) := by
  unfold condAtPost failCond
  rw [leaksAtPost_eq s, s.ign, s.exp, s.fc, s.fails]
  rw [Bool.eq_iff_iff]
  simp only [Bool.and_eq_true, Bool.not_eq_true', bne_iff_ne, beq_iff_eq, ne_eq]
  constructor
  · rintro ⟨⟨h1, h2⟩, h3⟩; exact ⟨⟨by omega, h1⟩, fun e => h2 e.symm⟩
  · rintro ⟨⟨h1, h2⟩, h3⟩; exact ⟨⟨h2, fun e => h3 e.symm⟩, by omega⟩

/-! ### allocation numbers -/

/-- every record's allocation number is below the next number; records stamped `checking`
    have numbers from `s0` (the next number at the pre action) on -/
structure NumInv (s0 : Nat) (w : World) : Prop where
  below : ∀ r ∈ w.det.recs, r.num < w.det.seq
  start : s0 ≤ w.det.seq
  fresh : ∀ r ∈ w.det.recs, r.period = .checking → s0 ≤ r.num

theorem numInv_doAlloc {s0 : Nat} {w : World} (h : NumInv s0 w) (id size : Nat) : NumInv s0 (doAlloc w id size) := by
  by_cases hl : w.det.isLive id = true
  · simpa [doAlloc, hl] using h
  · simp only [doAlloc, hl, Bool.false_eq_true, if_false]
    refine { below := ?_, start := Nat.le_succ_of_le h.start, fresh := ?_ }
    · intro r hr
      simp only [Detector.alloc, List.mem_cons] at hr ⊢
      rcases hr with rfl | hr
      · exact Nat.lt_succ_self _
      · exact Nat.lt_succ_of_lt (h.below r hr)
    · intro r hr hp
      simp only [Detector.alloc, List.mem_cons] at hr
      rcases hr with rfl | hr
      · exact h.start
      · exact h.fresh r hr hp

theorem numInv_doFree {s0 : Nat} {w : World} (h : NumInv s0 w) (id : Nat) : NumInv s0 (doFree w id) := by
  refine { below := ?_, start := h.start, fresh := ?_ }
  · intro r hr; simp only [doFree, Detector.free, List.mem_filter] at hr; exact h.below r hr.1
  · intro r hr hp; simp only [doFree, Detector.free, List.mem_filter] at hr; exact h.fresh r hr.1 hp

theorem numInv_doRealloc {s0 : Nat} {w : World} (h : NumInv s0 w) (id newId size : Nat) :
    NumInv s0 (doRealloc w id newId size) := by
  unfold doRealloc
  split
  · exact h
  · split
    · exact h
    · exact numInv_doAlloc (numInv_doFree h id) newId size

theorem numInv_execCmd {s0 : Nat} {w : World} (h : NumInv s0 w) (c : Cmd) : NumInv s0 (execCmd w c) := by
  cases c with
  | alloc id size => exact numInv_doAlloc h id size
  | free id => exact numInv_doFree h id
  | realloc id newId size => exact numInv_doRealloc h id newId size
  | reallocFail id size => rw [execCmd_reallocFail]; exact h
  | envSeq n =>
    refine { below := ?_, start := Nat.le_trans h.start (Nat.le_max_left _ _), fresh := h.fresh }
    intro r hr
    simp only [execCmd, Detector.bump] at hr ⊢
    exact Nat.lt_of_lt_of_le (h.below r hr) (Nat.le_max_left _ _)
  | expectLeaks n => exact ⟨h.below, h.start, h.fresh⟩
  | ignoreLeaks => exact ⟨h.below, h.start, h.fresh⟩
  | fail => exact ⟨h.below, h.start, h.fresh⟩

theorem numInv_stepCmd {s0 : Nat} {w : World} (h : NumInv s0 w) (c : Cmd) : NumInv s0 (stepCmd w c) := by
  unfold stepCmd; split
  · exact h
  · exact numInv_execCmd h c

theorem numInv_runCmds {s0 : Nat} : ∀ (cs : List Cmd) {w : World}, NumInv s0 w → NumInv s0 (runCmds w cs)
  | [], _, h => h
  | c :: cs, _, h => numInv_runCmds cs (numInv_stepCmd h c)

theorem numInv_enterPhase {s0 : Nat} {w : World} (h : NumInv s0 w) (ph : Phase) : NumInv s0 (enterPhase w ph) := by
  cases ph <;> exact ⟨h.below, h.start, h.fresh⟩

theorem numInv_runBody {s0 : Nat} {w : World} (h : NumInv s0 w) (t : Test) : NumInv s0 (runBody w t) :=
  numInv_runCmds _ (numInv_enterPhase (numInv_runCmds _ (numInv_enterPhase
    (numInv_runCmds _ (numInv_enterPhase h .setup)) .body)) .teardown)

theorem numInv_pre {w : World} (hc : Clean w) : NumInv w.det.seq (preTestAction w) := by
  rw [preTestAction_eq]
  exact { below := hc.numsBelow, start := Nat.le_refl _
          fresh := fun r hr hp => absurd hp (hc.noChecking r hr) }

theorem numInv_atTeardownEnd {w : World} (hc : Clean w) (t : Test) :
    NumInv (atStart w t).det.seq (atTeardownEnd w t) :=
  numInv_runBody (numInv_pre (clean_atStart hc t)) t

/-! ### after the post action -/

theorem clean_runTest {w : World} (hc : Clean w) (t : Test) : Clean (runTest w t) := by
  rw [runTest_eq]
  have hn := numInv_atTeardownEnd hc t
  refine { noChecking := ?_, notChecking := by rw [post_cur]; decide, numsBelow := ?_,
           ignoreOff := (post_flags _).1, expectedZero := (post_flags _).2 }
  · intro r hr
    rw [post_recs, List.mem_map] at hr
    obtain ⟨r0, _, rfl⟩ := hr
    exact demoteRec_period r0
  · intro r hr
    rw [post_recs, List.mem_map] at hr
    obtain ⟨r0, hr0, rfl⟩ := hr
    rw [post_seq, demoteRec_num]
    exact hn.below r0 hr0

theorem liveIds_runTest {w : World} (hc : Clean w) (t : Test) :
    (runTest w t).liveIds = liveAfterTest w.liveIds t := by
  rw [runTest_eq]
  unfold World.liveIds
  rw [post_recs, List.map_map]
  have : ((fun r : Rec => r.id) ∘ Detector.demoteRec) = (fun r : Rec => r.id) := by
    funext r; exact demoteRec_id r
  rw [this]
  exact (sim_atTeardownEnd hc t).ids

theorem overloads_runTest (w : World) (t : Test) : (runTest w t).overloads = w.overloads := by
  rw [runTest_eq, post_overloads]; exact (atTeardownEnd_obs w t).2.2.1

/-! ### sequences of tests -/

theorem runTests_append (w : World) (pre post : List Test) :
    runTests w (pre ++ post) =
      ((runTests (runTests w pre).1 post).1, (runTests w pre).2 ++ (runTests (runTests w pre).1 post).2) := by
  induction pre generalizing w with
  | nil => rfl
  | cons t ts ih => simp only [List.cons_append, runTests, ih, List.cons_append]

theorem runTests_length (w : World) (ts : List Test) : (runTests w ts).2.length = ts.length := by
  induction ts generalizing w with
  | nil => rfl
  | cons t ts ih => simp [runTests, ih]

theorem clean_runTests {w : World} (hc : Clean w) (ts : List Test) : Clean (runTests w ts).1 := by
  induction ts generalizing w with
  | nil => exact hc
  | cons t ts ih => exact ih (clean_runTest hc t)

theorem liveIds_runTests {w : World} (hc : Clean w) (ts : List Test) :
    (runTests w ts).1.liveIds = liveAfter w.liveIds ts := by
  induction ts generalizing w with
  | nil => rfl
  | cons t ts ih =>
    simp only [runTests, liveAfter, List.foldl_cons]
    rw [ih (clean_runTest hc t), liveIds_runTest hc t]; rfl

theorem overloads_runTests (w : World) (ts : List Test) : (runTests w ts).1.overloads = w.overloads := by
  induction ts generalizing w with
  | nil => rfl
  | cons t ts ih => simp only [runTests]; rw [ih, overloads_runTest]

/-- the verdict of the test at position `pre.length` of a sequence is the verdict of running
    that test in the state the tests before it leave behind -/
theorem verdict_at (w : World) (pre : List Test) (t : Test) (post : List Test) :
    (runTests w (pre ++ t :: post)).2[pre.length]? =
      some (verdictOf (runTests w pre).1 (runTest (runTests w pre).1 t)) := by
  rw [runTests_append]
  simp only [runTests]
  rw [List.getElem?_append_right (by rw [runTests_length]; exact Nat.le_refl _)]
  simp [runTests_length]

/-! ### history level: frees of a block that is not the test's own do not matter -/

/-- `h` (all commands) and `h'` (the frees of `id` left out) agree on everything the verdict
    depends on -/
structure Rel (id : Nat) (h h' : HState) : Prop where
  mine : h'.mine = h.mine
  own : h'.own = h.own
  ign : h'.ignore = h.ignore
  exp : h'.expected = h.expected
  ab : h'.aborted = h.aborted
  notMine : id ∉ h.mine
  live : ∀ x, x ≠ id → (x ∈ h.live ↔ x ∈ h'.live)

theorem rel_hFree_same {id : Nat} {h h' : HState} (r : Rel id h h') : Rel id (hFree h id) h' := by
  have hm : h.mine.filter (· != id) = h.mine := by
    rw [List.filter_eq_self]; intro x hx
    have : x ≠ id := fun e => r.notMine (e ▸ hx)
    simpa using this
  exact { mine := by simp only [hFree, hm]; exact r.mine
          own := r.own, ign := r.ign, exp := r.exp, ab := r.ab
          notMine := by simp only [hFree, hm]; exact r.notMine
          live := by
            intro x hx
            simp only [hFree, List.mem_filter, bne_iff_ne, ne_eq, hx, not_false_eq_true, and_true]
            exact r.live x hx }

theorem rel_hstep_free {id : Nat} {h h' : HState} (r : Rel id h h') : Rel id (hstep h (.free id)) h' := by
  unfold hstep; split
  · exact r
  · exact rel_hFree_same r

theorem rel_hAlloc {id : Nat} {h h' : HState} (r : Rel id h h') (x : Nat) (hx : x ≠ id) :
    Rel id (hAlloc h x) (hAlloc h' x) := by
  have hl := r.live x hx
  unfold hAlloc
  by_cases hm : x ∈ h.live
  · have hm' : x ∈ h'.live := hl.mp hm
    simp only [hm, hm', if_true]; exact r
  · have hm' : x ∉ h'.live := fun e => hm (hl.mpr e)
    simp only [hm, hm', if_false]
    exact { mine := by simp [r.mine], own := r.own, ign := r.ign, exp := r.exp, ab := r.ab
            notMine := by
              intro e; rcases List.mem_cons.mp e with e | e
              · exact hx e.symm
              · exact r.notMine e
            live := by
              intro y hy
              simp only [List.mem_cons]
              rw [r.live y hy] }

theorem rel_hFree {id : Nat} {h h' : HState} (r : Rel id h h') (x : Nat) : Rel id (hFree h x) (hFree h' x) :=
  { mine := by simp only [hFree, r.mine], own := r.own, ign := r.ign, exp := r.exp, ab := r.ab
    notMine := by
      intro e; simp only [hFree, List.mem_filter] at e; exact r.notMine e.1
    live := by
      intro y hy
      simp only [hFree, List.mem_filter]
      rw [r.live y hy] }

theorem rel_hstep_other {id : Nat} {h h' : HState} (r : Rel id h h') (c : Cmd)
    (hc : c ≠ .free id) (ha : leavesAlone id c = true) : Rel id (hstep h c) (hstep h' c) := by
  unfold hstep
  rw [r.ab]
  split
  · exact r
  · cases c with
    | alloc x sz =>
      have hx : x ≠ id := by simpa [leavesAlone] using ha
      exact rel_hAlloc r x hx
    | free x => exact rel_hFree r x
    | realloc x y sz =>
      have hxy : x ≠ id ∧ y ≠ id := by simpa [leavesAlone] using ha
      have hlx := r.live x hxy.1
      have hly := r.live y hxy.2
      simp only [hexec]
      by_cases h1 : x ∈ h.live
      · have h1' : x ∈ h'.live := hlx.mp h1
        by_cases h2 : y ≠ x ∧ y ∈ h.live
        · have h2' : y ≠ x ∧ y ∈ h'.live := ⟨h2.1, hly.mp h2.2⟩
          simp only [h1, h1', not_true_eq_false, if_false]
          rw [if_pos h2, if_pos h2']; exact r
        · have h2' : ¬ (y ≠ x ∧ y ∈ h'.live) := fun e => h2 ⟨e.1, hly.mpr e.2⟩
          simp only [h1, h1', not_true_eq_false, if_false]
          rw [if_neg h2, if_neg h2']
          exact rel_hAlloc (rel_hFree r x) y hxy.2
      · have h1' : x ∉ h'.live := fun e => h1 (hlx.mpr e)
        simp only [h1, h1', not_false_eq_true, if_true]; exact r
    | reallocFail x sz => exact r
    | expectLeaks n =>
      exact { mine := r.mine, own := r.own, ign := r.ign, exp := rfl, ab := r.ab, notMine := r.notMine, live := r.live }
    | ignoreLeaks =>
      exact { mine := r.mine, own := r.own, ign := rfl, exp := r.exp, ab := r.ab, notMine := r.notMine, live := r.live }
    | fail =>
      exact { mine := r.mine, own := by simp only [hexec, r.own], ign := r.ign, exp := r.exp, ab := rfl
              notMine := r.notMine, live := r.live }
    | envSeq n => exact r

theorem rel_hrun {id : Nat} : ∀ (cs : List Cmd) {h h' : HState}, Rel id h h' → neverAllocs id cs →
    Rel id (hrun h cs) (hrun h' (dropFrees id cs))
  | [], _, _, r, _ => r
  | c :: cs, h, h', r, hn => by
    have hn' : neverAllocs id cs := fun c' hm => hn c' (List.mem_cons_of_mem _ hm)
    by_cases hc : c = .free id
    · subst hc
      have : dropFrees id (Cmd.free id :: cs) = dropFrees id cs := by simp [dropFrees]
      rw [this]
      exact rel_hrun cs (rel_hstep_free r) hn'
    · have : dropFrees id (c :: cs) = c :: dropFrees id cs := by simp [dropFrees, hc]
      rw [this]
      exact rel_hrun cs (rel_hstep_other r c hc (hn c List.mem_cons_self)) hn'

theorem rel_hEnter {id : Nat} {h h' : HState} (r : Rel id h h') (ph : Phase) : Rel id (hEnter h ph) (hEnter h' ph) := by
  cases ph with
  | body => exact r
  | setup => exact { mine := r.mine, own := r.own, ign := r.ign, exp := r.exp, ab := rfl, notMine := r.notMine, live := r.live }
  | teardown => exact { mine := r.mine, own := r.own, ign := r.ign, exp := r.exp, ab := rfl, notMine := r.notMine, live := r.live }

theorem rel_atEnd (live : List Nat) (t : Test) (id : Nat)
    (hs : neverAllocs id t.setup) (hb : neverAllocs id t.body) (ht : neverAllocs id t.teardown) :
    Rel id (atEnd live t) (atEnd live (Test.dropFrees t id)) := by
  have r0 : Rel id (start (liveAtStart live t)) (start (liveAtStart live t)) :=
    { mine := rfl, own := rfl, ign := rfl, exp := rfl, ab := rfl, notMine := by simp [start], live := fun _ _ => Iff.rfl }
  exact rel_hrun _ (rel_hEnter (rel_hrun _ (rel_hEnter (rel_hrun _ (rel_hEnter r0 .setup) hs) .body) hb) .teardown) ht

/-! ### the leak failure, whenever there is one -/

theorem leakFail_runTest {w : World} (hc : Clean w) (t : Test) :
    (runTest w t).leakFail =
      if w.overloads && shouldFail w.liveIds t then
        some { entries := (atTeardownEnd w t).det.recs.filter (fun r => r.period == .checking),
               total := (blocksOf w.liveIds t).length }
      else none := by
  have hs := sim_atTeardownEnd hc t
  have ho := atTeardownEnd_obs w t
  rw [runTest_eq]
  cases hov : w.overloads with
  | false =>
    rw [(post_no_overloads _ (ho.2.2.1.trans hov)).1, ho.1]; simp
  | true =>
    rw [post_leakFail _ (ho.2.2.1.trans hov), condAtPost_eq hs, ho.1, ho.2.2.2, leaksAtPost_eq hs]
    simp [shouldFail, ownFailures, ignores, blocksOf, Hist.expected]

theorem failures_runTest {w : World} (hc : Clean w) (t : Test) :
    (runTest w t).failures =
      w.failures + ownFailures w.liveIds t + (if w.overloads && shouldFail w.liveIds t then 1 else 0) := by
  have hs := sim_atTeardownEnd hc t
  have ho := atTeardownEnd_obs w t
  rw [runTest_eq]
  cases hov : w.overloads with
  | false =>
    rw [(post_no_overloads _ (ho.2.2.1.trans hov)).2, hs.fails]; simp [ownFailures]
  | true =>
    rw [post_failures _ (ho.2.2.1.trans hov), condAtPost_eq hs, hs.fails]
    simp only [shouldFail, ownFailures, ignores, blocksOf, Hist.expected, Bool.true_and]
    split <;> omega

theorem seq_le_execOutside (w : World) (c : Cmd) : w.det.seq ≤ (execOutside w c).det.seq := by
  cases c with
  | alloc id size =>
    by_cases h : w.det.isLive id = true <;> simp [execOutside, execCmd, doAlloc, h, Detector.alloc]
  | envSeq n => simp only [execOutside, execCmd, Detector.bump]; exact Nat.le_max_left _ _
  | _ => exact Nat.le_refl _

theorem seq_le_runOutside : ∀ (cs : List Cmd) (w : World), w.det.seq ≤ (runOutside w cs).det.seq
  | [], _ => Nat.le_refl _
  | c :: cs, w => Nat.le_trans (seq_le_execOutside w c) (seq_le_runOutside cs (execOutside w c))

theorem seq_le_runTest {w : World} (hc : Clean w) (t : Test) : w.det.seq ≤ (runTest w t).det.seq := by
  rw [runTest_eq, post_seq]
  exact Nat.le_trans (seq_le_runOutside t.before (clearObs w)) (numInv_atTeardownEnd hc t).start

theorem seq_le_runTests {w : World} (hc : Clean w) (ts : List Test) : w.det.seq ≤ (runTests w ts).1.det.seq := by
  induction ts generalizing w with
  | nil => exact Nat.le_refl _
  | cons t ts ih => exact Nat.le_trans (seq_le_runTest hc t) (ih (clean_runTest hc t))

/-! ### the blocks of a test are distinct -/

theorem mine_inv_hAlloc (h : HState) (id : Nat) (hn : h.mine.Nodup) (hsub : ∀ x ∈ h.mine, x ∈ h.live) :
    (hAlloc h id).mine.Nodup ∧ ∀ x ∈ (hAlloc h id).mine, x ∈ (hAlloc h id).live := by
  unfold hAlloc
  by_cases hm : id ∈ h.live
  · simp only [hm, if_true]; exact ⟨hn, hsub⟩
  · simp only [hm, if_false]
    refine ⟨List.nodup_cons.mpr ⟨fun e => hm (hsub id e), hn⟩, ?_⟩
    intro x hx
    rcases List.mem_cons.mp hx with rfl | hx
    · exact List.mem_cons_self
    · exact List.mem_cons_of_mem _ (hsub x hx)

theorem mine_inv_hFree (h : HState) (id : Nat) (hn : h.mine.Nodup) (hsub : ∀ x ∈ h.mine, x ∈ h.live) :
    (hFree h id).mine.Nodup ∧ ∀ x ∈ (hFree h id).mine, x ∈ (hFree h id).live := by
  refine ⟨hn.filter _, ?_⟩
  intro x hx
  simp only [hFree, List.mem_filter] at hx ⊢
  exact ⟨hsub x hx.1, hx.2⟩

theorem mine_inv_hexec (h : HState) (c : Cmd) (hn : h.mine.Nodup) (hsub : ∀ x ∈ h.mine, x ∈ h.live) :
    (hexec h c).mine.Nodup ∧ ∀ x ∈ (hexec h c).mine, x ∈ (hexec h c).live := by
  cases c with
  | alloc id sz => exact mine_inv_hAlloc h id hn hsub
  | free id => exact mine_inv_hFree h id hn hsub
  | realloc id newId sz =>
    simp only [hexec]
    split
    · exact ⟨hn, hsub⟩
    · split
      · exact ⟨hn, hsub⟩
      · have h1 := mine_inv_hFree h id hn hsub
        exact mine_inv_hAlloc _ newId h1.1 h1.2
  | _ => exact ⟨hn, hsub⟩

theorem mine_inv_hrun : ∀ (cs : List Cmd) (h : HState), h.mine.Nodup → (∀ x ∈ h.mine, x ∈ h.live) →
    (hrun h cs).mine.Nodup ∧ ∀ x ∈ (hrun h cs).mine, x ∈ (hrun h cs).live
  | [], _, hn, hsub => ⟨hn, hsub⟩
  | c :: cs, h, hn, hsub => by
    simp only [hrun, List.foldl_cons]
    unfold hstep
    split
    · exact mine_inv_hrun cs h hn hsub
    · have := mine_inv_hexec h c hn hsub
      exact mine_inv_hrun cs _ this.1 this.2

theorem mine_inv_hPhase (h : HState) (ph : Phase) (cs : List Cmd) (hn : h.mine.Nodup) (hsub : ∀ x ∈ h.mine, x ∈ h.live) :
    (hPhase h ph cs).mine.Nodup ∧ ∀ x ∈ (hPhase h ph cs).mine, x ∈ (hPhase h ph cs).live := by
  unfold hPhase
  apply mine_inv_hrun
  · cases ph <;> exact hn
  · cases ph <;> exact hsub

theorem blocksOf_nodup_sub (live : List Nat) (t : Test) :
    (blocksOf live t).Nodup ∧ ∀ x ∈ blocksOf live t, x ∈ liveAfterTest live t := by
  unfold blocksOf liveAfterTest atEnd
  have h0 : (start (liveAtStart live t)).mine.Nodup ∧
      ∀ x ∈ (start (liveAtStart live t)).mine, x ∈ (start (liveAtStart live t)).live := by simp [start]
  have h1 := mine_inv_hPhase _ .setup t.setup h0.1 h0.2
  have h2 := mine_inv_hPhase _ .body t.body h1.1 h1.2
  exact mine_inv_hPhase _ .teardown t.teardown h2.1 h2.2

/-! ### history level: failed reallocs do not matter -/

theorem hrun_dropReallocFails : ∀ (cs : List Cmd) (h : HState),
    hrun h (cs.filter (fun c => !isReallocFail c)) = hrun h cs
  | [], _ => rfl
  | c :: cs, h => by
    cases c with
    | reallocFail id sz =>
      have h1 : hstep h (.reallocFail id sz) = h := by unfold hstep; split <;> rfl
      simp only [List.filter_cons, isReallocFail, Bool.not_true, Bool.false_eq_true, if_false, hrun, List.foldl_cons, h1]
      exact hrun_dropReallocFails cs h
    | _ =>
      simp only [List.filter_cons, isReallocFail, Bool.not_false, if_true, hrun, List.foldl_cons]
      exact hrun_dropReallocFails cs _

theorem atEnd_dropReallocFails (live : List Nat) (t : Test) :
    atEnd live (Test.dropReallocFails t) = atEnd live t := by
  simp only [atEnd, hPhase, Test.dropReallocFails, hrun_dropReallocFails]
  rfl

theorem init_recs (ov : Bool) : (World.init ov).det.recs = [] := rfl

theorem init_clean (ov : Bool) : Clean (World.init ov) :=
  { noChecking := by intro r hr; rw [init_recs] at hr; cases hr
    notChecking := by show (Period.enabled ≠ Period.checking); decide
    numsBelow := by intro r hr; rw [init_recs] at hr; cases hr
    ignoreOff := rfl, expectedZero := rfl }

/-! ### the post action on any state that represents a history state -/

theorem condAtPost_verdictAt {f0 : Nat} {w : World} {h : HState} (s : Sim f0 w h) : condAtPost w = verdictAt h := by
  rw [condAtPost_eq s]; rfl

theorem leakFail_post {f0 : Nat} {w : World} {h : HState} (s : Sim f0 w h) (h1 : w.leakFail = none)
    (h2 : w.det.out = []) :
    (postTestAction w).leakFail =
      if w.overloads && verdictAt h then
        some { entries := w.det.recs.filter (fun r => r.period == .checking), total := h.mine.length }
      else none := by
  cases hov : w.overloads with
  | false => rw [(post_no_overloads _ hov).1, h1]; simp
  | true =>
    rw [post_leakFail _ hov, condAtPost_verdictAt s, h1, h2, leaksAtPost_eq s]
    simp

theorem failures_post {f0 : Nat} {w : World} {h : HState} (s : Sim f0 w h) :
    (postTestAction w).failures = f0 + h.own + (if w.overloads && verdictAt h then 1 else 0) := by
  cases hov : w.overloads with
  | false => rw [(post_no_overloads _ hov).2, s.fails]; simp
  | true =>
    rw [post_failures _ hov, condAtPost_verdictAt s, s.fails]
    simp only [Bool.true_and]
    split <;> omega

theorem post_warned (w : World) :
    (postTestAction w).warned =
      (w.warned || (condAtPost w && !w.overloads &&
        warnCond w.plg.ignoreAll w.plg.expected (leaksAtPost w) w.plg.failureCount w.failures)) := by
  simp only [postTestAction, postSteps, List.foldl, pstep, verdictStep, condAtPost, leaksAtPost,
    Detector.stopChecking, stopCheckingSteps, Detector.dsteps, Detector.dstep, totalMemoryLeaks_checking]
  cases hov : w.overloads <;>
    cases hc : failCond w.plg.ignoreAll w.plg.expected
      (List.filter (fun r => r.period == Period.checking) w.det.recs).length w.plg.failureCount w.failures <;>
    cases hw : warnCond w.plg.ignoreAll w.plg.expected
      (List.filter (fun r => r.period == Period.checking) w.det.recs).length w.plg.failureCount w.failures <;>
    simp [hov, hc, hw]

/-! ### constructor / destructor of the test object: memory operations inside the window -/

theorem sim_execMem {f0 : Nat} {w : World} {h : HState} (s : Sim f0 w h) (c : Cmd) :
    Sim f0 (execMem w c) (hMem h c) := by
  cases c with
  | alloc id size => exact sim_doAlloc s id size
  | free id => exact sim_doFree s id
  | realloc id newId size => exact sim_doRealloc s id newId size
  | reallocFail id size => simp only [execMem, execCmd_reallocFail, hMem]; exact s
  | envSeq n => exact sim_execCmd s (.envSeq n)
  | expectLeaks n => exact s
  | ignoreLeaks => exact s
  | fail => exact s

theorem sim_runMem {f0 : Nat} : ∀ (cs : List Cmd) {w : World} {h : HState}, Sim f0 w h →
    Sim f0 (runMem w cs) (hRunMem h cs)
  | [], _, _, s => s
  | c :: cs, _, _, s => sim_runMem cs (sim_execMem s c)

theorem frame_execMem (w : World) (c : Cmd) : Frame w (execMem w c) := by
  cases c with
  | alloc id size => exact frame_doAlloc w id size
  | free id => exact frame_doFree w id
  | realloc id newId size => exact frame_doRealloc w id newId size
  | reallocFail id size => exact frame_execCmd w _
  | envSeq n => exact frame_execCmd w _
  | _ => exact Frame.refl w

theorem frame_runMem : ∀ (cs : List Cmd) (w : World), Frame w (runMem w cs)
  | [], w => Frame.refl w
  | c :: cs, w => (frame_execMem w c).trans (frame_runMem cs (execMem w c))

theorem numInv_execMem {s0 : Nat} {w : World} (h : NumInv s0 w) (c : Cmd) : NumInv s0 (execMem w c) := by
  cases c with
  | alloc id size => exact numInv_doAlloc h id size
  | free id => exact numInv_doFree h id
  | realloc id newId size => exact numInv_doRealloc h id newId size
  | reallocFail id size => exact numInv_execCmd h (.reallocFail id size)
  | envSeq n => exact numInv_execCmd h (.envSeq n)
  | expectLeaks n => exact h
  | ignoreLeaks => exact h
  | fail => exact h

theorem numInv_runMem {s0 : Nat} : ∀ (cs : List Cmd) {w : World}, NumInv s0 w → NumInv s0 (runMem w cs)
  | [], _, h => h
  | c :: cs, _, h => numInv_runMem cs (numInv_execMem h c)

/-- the state just before the post action of a test with an allocating test object -/
def atDtorEnd (w : World) (t : TestObj) : World :=
  runMem (runBody (runMem (preTestAction (atStart w t.test)) t.ctor) t.test) t.dtor

/-- the regenerated call order of `runOneTestInCurrentProcess`, unfolded: pre actions, constructor,
    setup/body/teardown, destructor, post actions -/
theorem runTestObj_eq (w : World) (t : TestObj) : runTestObj w t = postTestAction (atDtorEnd w t) := rfl

theorem sim_atDtorEnd {w : World} (hc : Clean w) (t : TestObj) :
    Sim w.failures (atDtorEnd w t) (atEndObj w.liveIds t) := by
  have hs := sim_pre (clean_atStart hc t.test) (atStart_obs w t.test).2.2.2
  rw [failures_atStart, liveIds_atStart] at hs
  exact sim_runMem t.dtor (sim_runBody (sim_runMem t.ctor hs) t.test)

theorem atDtorEnd_obs (w : World) (t : TestObj) :
    (atDtorEnd w t).leakFail = none ∧ (atDtorEnd w t).warned = false ∧
    (atDtorEnd w t).overloads = w.overloads ∧ (atDtorEnd w t).det.out = [] := by
  have h : Frame (preTestAction (atStart w t.test)) (atDtorEnd w t) :=
    ((frame_runMem t.ctor _).trans (frame_runBody _ t.test)).trans (frame_runMem t.dtor _)
  have h0 := atStart_obs w t.test
  refine ⟨h.2.1.trans ?_, h.2.2.1.trans ?_, h.2.2.2.1.trans ?_, h.1.trans ?_⟩
  · rw [preTestAction_eq]; exact h0.1
  · rw [preTestAction_eq]; exact h0.2.1
  · rw [preTestAction_eq]; exact h0.2.2.1
  · rw [preTestAction_eq]

theorem numInv_atDtorEnd {w : World} (hc : Clean w) (t : TestObj) :
    NumInv (atStart w t.test).det.seq (atDtorEnd w t) :=
  numInv_runMem t.dtor (numInv_runBody (numInv_runMem t.ctor (numInv_pre (clean_atStart hc t.test))) t.test)

theorem leakFail_runTestObj {w : World} (hc : Clean w) (t : TestObj) :
    (runTestObj w t).leakFail =
      if w.overloads && shouldFailObj w.liveIds t then
        some { entries := (atDtorEnd w t).det.recs.filter (fun r => r.period == .checking),
               total := (blocksOfObj w.liveIds t).length }
      else none := by
  have ho := atDtorEnd_obs w t
  rw [runTestObj_eq, leakFail_post (sim_atDtorEnd hc t) ho.1 ho.2.2.2, ho.2.2.1]
  rfl

theorem failures_runTestObj {w : World} (hc : Clean w) (t : TestObj) :
    (runTestObj w t).failures =
      w.failures + (atEndObj w.liveIds t).own + (if w.overloads && shouldFailObj w.liveIds t then 1 else 0) := by
  rw [runTestObj_eq, failures_post (sim_atDtorEnd hc t), (atDtorEnd_obs w t).2.2.1]
  rfl

theorem clean_runTestObj {w : World} (hc : Clean w) (t : TestObj) : Clean (runTestObj w t) := by
  rw [runTestObj_eq]
  have hn := numInv_atDtorEnd hc t
  refine { noChecking := ?_, notChecking := by rw [post_cur]; decide, numsBelow := ?_,
           ignoreOff := (post_flags _).1, expectedZero := (post_flags _).2 }
  · intro r hr
    rw [post_recs, List.mem_map] at hr
    obtain ⟨r0, _, rfl⟩ := hr
    exact demoteRec_period r0
  · intro r hr
    rw [post_recs, List.mem_map] at hr
    obtain ⟨r0, hr0, rfl⟩ := hr
    rw [post_seq, demoteRec_num]
    exact hn.below r0 hr0

theorem liveIds_runTestObj {w : World} (hc : Clean w) (t : TestObj) :
    (runTestObj w t).liveIds = liveAfterTestObj w.liveIds t := by
  rw [runTestObj_eq]
  unfold World.liveIds
  rw [post_recs, List.map_map]
  have : ((fun r : Rec => r.id) ∘ Detector.demoteRec) = (fun r : Rec => r.id) := by
    funext r; exact demoteRec_id r
  rw [this]
  exact (sim_atDtorEnd hc t).ids

theorem clean_setOverloads {w : World} (hc : Clean w) (b : Bool) : Clean (setOverloads w b) :=
  { noChecking := hc.noChecking, notChecking := hc.notChecking, numsBelow := hc.numsBelow,
    ignoreOff := hc.ignoreOff, expectedZero := hc.expectedZero }

end LeakPlugin
