import CppUModel.Proofs.Mock
/-! Output parameters, full statement (C08): the caller's buffers with the consumed expectation's
    bytes copied over their beginning — nothing else is ever written. -/
namespace Mock

/-- the registered output buffers as the caller handed them in -/
def regs (buf : List UInt8) (pre : List Seg) : List (String × List UInt8) := (outNames pre).map (fun n => (n, buf))

theorem regs_snoc_inp (buf : List UInt8) (pre : List Seg) (n : String) (v : Val) : regs buf (pre ++ [.inp n v]) = regs buf pre := by
  simp [regs, outNames]
theorem regs_snoc_obj (buf : List UInt8) (pre : List Seg) (o : Nat) : regs buf (pre ++ [.obj o]) = regs buf pre := by
  simp [regs, outNames]
theorem regs_snoc_out (buf : List UInt8) (pre : List Seg) (n : String) : regs buf (pre ++ [.out n]) = regs buf pre ++ [(n, buf)] := by
  simp [regs, outNames]

/-- while no expectation is the match the buffers are untouched; while one is, they are the
    untouched buffers with its bytes copied in -/
structure BufExact (R : List (String × List UInt8)) (cs : CS) : Prop where
  nom : anyMatch cs.es = false → cs.call.bufs = R
  mat : ∀ x ∈ cs.es, x.isMatch = true → cs.call.bufs = copyOutputs x R

theorem complete_bufExact {R : List (String × List UInt8)} {cs : CS} (hb : cs.call.bufs = R)
    (hnom : ∀ x ∈ cs.es, x.isMatch = false) (hplain : ∀ x ∈ cs.es, x.iop = false) : BufExact R (complete cs) := by
  unfold complete
  cases hfind : cs.es.find? isMF with
  | some e =>
    obtain ⟨l1, l2, hl, _, _, hmod⟩ := find_decomp hfind
    simp only [hmod]
    refine ⟨fun h => ?_, ?_⟩
    · rw [anyMatch_of_pos (by rfl : e.take.isMatch = true)] at h; cases h
    · intro y hy hym
      simp only [List.mem_append, List.mem_cons] at hy
      rcases hy with hy | rfl | hy
      · rw [hnom y (by rw [hl]; simp [hy])] at hym; cases hym
      · rw [hb]; rfl
      · rw [hnom y (by rw [hl]; simp [hy])] at hym; cases hym
  | none =>
    have : cs.es.find? isM = none := by
      rw [find_congr' (fun a ha => isM_eq_isMF (hplain a ha)), hfind]
    simp only [this]
    exact ⟨fun _ => hb, fun y hy hym => by rw [hnom y hy] at hym; cases hym⟩

/-- a complete match that is compatible with a prefix of the call cannot be in conflict with an
    expectation that has the whole call's signature -/
theorem prefix_no_conflict {c : Call} {pre rest : List Seg} {x f : Exp} (hsegs : c.segs = pre ++ rest)
    (hwx : WFExp x) (hwf : WFExp f) (hcx : compat x pre = true) (hvx : covered x pre = true)
    (hf : fits f c = true) : conflict x f = false := by
  simp only [fits, Bool.and_eq_true, compat, List.all_eq_true] at hf
  obtain ⟨⟨_, hfc⟩, _⟩ := hf
  simp only [compat, List.all_eq_true] at hcx
  simp only [covered, Bool.and_eq_true, List.all_eq_true] at hvx
  obtain ⟨⟨hxi, _⟩, hxo⟩ := hvx
  have hsub : ∀ s ∈ pre, s ∈ c.segs := fun s hs => by rw [hsegs]; simp [hs]
  apply Bool.eq_false_iff.mpr
  intro hcon
  simp only [conflict, Bool.or_eq_true, List.any_eq_true, Bool.and_eq_true, beq_iff_eq, bne_iff_ne] at hcon
  rcases hcon with ⟨p, hp, q, hq, hn, hv⟩ | hobj
  · have hin : p.name ∈ inNames pre := by simpa using hxi p hp
    obtain ⟨v, hv'⟩ := mem_segs_of_inNames hin
    have h1 : x.hasInput p.name v = true := hcx _ hv'
    have h2 : f.hasInput q.name v = true := by rw [← hn]; exact hfc _ (hsub _ hv')
    exact hv (by rw [val_of_hasInput hwx hp h1, val_of_hasInput hwf hq h2])
  · cases hox : x.obj with
    | none => simp [hox] at hobj
    | some a =>
      cases hof : f.obj with
      | none => simp [hox, hof] at hobj
      | some b =>
        simp only [hox, hof, bne_iff_ne] at hobj
        have hne : (objsOf pre).isEmpty = false := by
          simp only [hox, Option.isNone_some, Bool.false_or, Bool.not_eq_true'] at hxo
          exact hxo
        obtain ⟨o, ho⟩ := mem_segs_of_objs hne
        have h1 : x.relatesToObject o = true := hcx _ ho
        have h2 : f.relatesToObject o = true := hfc _ (hsub _ ho)
        simp only [Exp.relatesToObject, hox, hof, beq_iff_eq] at h1 h2
        exact hobj (by rw [h1, h2])

/-- when the call is going to be fulfilled, whatever is the match already has the call's signature -/
theorem match_is_wanted {c : Call} {pre rest : List Seg} {cs : CS} (hsegs : c.segs = pre ++ rest) (hinv : Inv c pre cs)
    (hun : ∀ a ∈ cs.es, ∀ b ∈ cs.es, a.name = b.name → sameSig a b = true ∨ conflict a b = true)
    (hwfe : ∀ a ∈ cs.es, WFExp a) (hW : cs.es.any (wants c) = true) :
    ∀ x ∈ cs.es, x.isMatch = true → wants c x = true := by
  intro x hx hxm
  simp only [List.any_eq_true] at hW
  obtain ⟨f, hf, hfw⟩ := hW
  obtain ⟨_, hal, hco, _, hcov⟩ := (hinv.elems x hx).mtch hxm
  have hff : fits f c = true := by simp only [wants, Bool.and_eq_true] at hfw; exact hfw.2
  have hname : x.name = f.name := by
    simp only [alive, Bool.and_eq_true, beq_iff_eq] at hal
    simp only [fits, Bool.and_eq_true, beq_iff_eq] at hff
    rw [hal.2, hff.1.1]
  have hcm : x.canMatch = true := by simp only [alive, Bool.and_eq_true] at hal; exact hal.1
  rcases hun x hx f hf hname with hs | hc
  · simp only [wants, Bool.and_eq_true]
    exact ⟨hcm, fits_of_sameSig (hinv.elems x hx).plain (hinv.elems f hf).plain hs hff⟩
  · rw [prefix_no_conflict hsegs (hwfe x hx) (hwfe f hf) hco hcov hff] at hc; cases hc

theorem no_match_before_param {c : Call} {pre rest : List Seg} {cs : CS} (hsegs : c.segs = pre ++ rest) (hinv : Inv c pre cs)
    (hun : ∀ a ∈ cs.es, ∀ b ∈ cs.es, a.name = b.name → sameSig a b = true ∨ conflict a b = true)
    (hwfe : ∀ a ∈ cs.es, WFExp a) (hW : cs.es.any (wants c) = true)
    (hnew : ∀ e, e.iop = false → wants c e = true → covered e pre = false) : ∀ x ∈ cs.es, x.isMatch = false := by
  intro x hx
  cases hxm : x.isMatch with
  | false => rfl
  | true =>
    have hw := match_is_wanted hsegs hinv hun hwfe hW x hx hxm
    have h1 := hnew x (hinv.elems x hx).plain hw
    rw [((hinv.elems x hx).mtch hxm).2.2.2.2] at h1; cases h1

theorem plain_of_inv {c : Call} {pre : List Seg} {cs : CS} (hinv : Inv c pre cs) : Plain cs.es :=
  fun x hx => (hinv.elems x hx).plain

theorem checkParam_bufExact {c : Call} {pre : List Seg} {s : Seg} {pass : Exp → Exp} {msg : String} {cs : CS}
    {R : List (String × List UInt8)}
    (hinv : Inv c pre cs) (hb : cs.call.bufs = R)
    (hpn : ∀ e, (pass e).norm = e.norm) (hpm : ∀ e, (pass e).isMatch = e.isMatch)
    (hf : (checkParam cs (fun e => compatSeg e s) pass msg).fail = none) :
    BufExact R (checkParam cs (fun e => compatSeg e s) pass msg) := by
  unfold checkParam at hf ⊢
  rw [if_neg (state_ne_failed hinv)] at hf ⊢
  simp only at hf ⊢
  split
  · apply complete_bufExact
    · exact hb
    · intro y hy
      simp only [List.mem_map] at hy
      obtain ⟨z, ⟨w, ⟨x, _, rfl⟩, rfl⟩, rfl⟩ := hy
      rw [ite_pass_isMatch pass hpm]
      exact discard_prune_isMatch s x
    · have hn : (((cs.es.map discardE).map (fun e => if e.cand && !compatSeg e s then ({ e.reset with cand := false } : Exp) else e)).map
          (fun e => if e.cand then pass e else e)).map Exp.norm = cs.es.map Exp.norm := by
        rw [map_map_norm _ (fun e => by split; exact hpn e; rfl), map_map_norm _ (fun e => by split; rw [norm_cand, norm_reset]; rfl),
          map_map_norm _ norm_discardE]
      exact plain_transfer hn (plain_of_inv hinv)
  · next hc =>
    rw [if_neg hc] at hf
    exact absurd hf (failCall_fail_ne _ _ (by simp) hinv.nofail)

theorem onObject_bufExact {c : Call} {pre : List Seg} {o : Nat} {cs : CS} {R : List (String × List UInt8)}
    (hinv : Inv c pre cs) (hb : BufExact R cs) (hf : (onObject cs o).fail = none) : BufExact R (onObject cs o) := by
  have hmap : (cs.es.map (fun e => if e.cand && !e.relatesToObject o then ({ e.reset with cand := false } : Exp) else e)).map
        (fun e => if e.cand then ({ e with passedObj := true } : Exp) else e) = cs.es.map (objE o) := by
    simp only [List.map_map]; rfl
  have hmatch2 : anyMatch (cs.es.map (objE o)) = anyMatch cs.es := by
    simp only [anyMatch, List.any_map, Function.comp_def, objE_isMatch]
  unfold onObject at hf ⊢
  rw [if_neg (state_ne_failed hinv)] at hf ⊢
  simp only at hf ⊢
  split
  · next hc =>
    rw [if_pos hc] at hf
    exact absurd hf (failCall_fail_ne _ _ (state_ne_failed (cs := cs) hinv) hinv.nofail)
  · rw [hmap, hmatch2]
    cases hm : anyMatch cs.es with
    | true =>
      simp only [if_true]
      refine ⟨fun h => ?_, ?_⟩
      · rw [hmatch2, hm] at h; cases h
      · intro y hy hym
        simp only [List.mem_map] at hy
        obtain ⟨x, hx, rfl⟩ := hy
        rw [objE_isMatch] at hym
        rw [copyOutputs_static (objE_norm o x)]
        exact hb.mat x hx hym
    | false =>
      simp only [Bool.false_eq_true, if_false]
      apply complete_bufExact
      · exact hb.nom hm
      · intro y hy
        simp only [List.mem_map] at hy
        obtain ⟨x, hx, rfl⟩ := hy
        rw [objE_isMatch]; exact (anyMatch_false_iff _).mp hm x hx
      · exact plain_transfer (map_map_norm _ (objE_norm o) _) (plain_of_inv hinv)

theorem withName_bufExact {c : Call} {es : List Exp} (k : Nat) (hplain : Plain es) (buf : List UInt8)
    (hf : (withName { es := beginCall es, call := newCall k, fail := none } c.name).fail = none) :
    BufExact (regs buf []) (withName { es := beginCall es, call := newCall k, fail := none } c.name) := by
  have hmap : (beginCall es).map (fun e => ({ e with cand := e.cand && e.name == c.name } : Exp)) = es.map (initE c.name) := by
    simp only [beginCall, List.map_map]; rfl
  unfold withName at hf ⊢
  simp only [hmap] at hf ⊢
  split
  · apply complete_bufExact
    · rfl
    · intro y hy
      simp only [List.mem_map] at hy
      obtain ⟨e, _, rfl⟩ := hy
      rfl
    · intro y hy
      simp only [List.mem_map] at hy
      obtain ⟨e, he, rfl⟩ := hy
      exact hplain e he
  · next hc =>
    rw [if_neg hc] at hf
    exact absurd hf (failCall_fail_ne _ _ (by simp) rfl)


theorem segsFrom_bufExact {c : Call} {es : List Exp} (buf : List UInt8) (hwf : WFCall c)
    (hun : Unambiguous es) (hwfe : ∀ e ∈ es, WFExp e) (hW : es.any (wants c) = true) :
    ∀ (rest pre : List Seg) (cs : CS), c.segs = pre ++ rest → Inv c pre cs → BufExact (regs buf pre) cs →
      cs.es.map Exp.norm = es.map Exp.norm →
      (segsFrom cs buf rest).fail = none → BufExact (regs buf c.segs) (segsFrom cs buf rest)
  | [], pre, cs, hsegs, _, hb, _, _ => by
    have : c.segs = pre := by simpa using hsegs
    rw [this]; exact hb
  | s :: rest, pre, cs, hsegs, hinv, hb, hnorm, hfail => by
    have hsegs' : c.segs = (pre ++ [s]) ++ rest := by simp [hsegs]
    have hkw : ∀ e, wants c e = true → compatSeg e s = true := fun e hw => compatSeg_of_wants hw (by rw [hsegs]; simp)
    have hunC := unambiguous_transfer hnorm hun
    have hwfC := wfexp_transfer hnorm hwfe
    have hWC : cs.es.any (wants c) = true := by rw [any_wants_congr c hnorm]; exact hW
    simp only [segsFrom, hinv.nofail, Option.isSome_none, Bool.false_eq_true, if_false] at hfail ⊢
    have hstepfail : (applySeg cs buf s).fail = none := by
      cases hf : (applySeg cs buf s).fail with
      | none => rfl
      | some m =>
        have hne : (applySeg cs buf s).fail ≠ none := by rw [hf]; simp
        rw [segsFrom_failed _ _ _ hne, hf] at hfail; cases hfail
    have hstep : Inv c (pre ++ [s]) (applySeg cs buf s) ∧ BufExact (regs buf (pre ++ [s])) (applySeg cs buf s) ∧
        (applySeg cs buf s).es.map Exp.norm = es.map Exp.norm := by
      cases s with
      | inp n v =>
        have i := checkParam_inv (s := .inp n v) (msg := msgUnexpectedInput cs.es cs.call.name n) hinv
          (fun e => norm_passInput e n) (fun _ => rfl) (fun _ => rfl)
          (fun e he => flagsOK_passInput n v he) (not_covered_inp hsegs hwf) hkw
        have hnom := no_match_before_param hsegs hinv hunC hwfC hWC (not_covered_inp hsegs hwf)
        have hbb : cs.call.bufs = regs buf (pre ++ [.inp n v]) := by
          rw [regs_snoc_inp]; exact hb.nom ((anyMatch_false_iff _).mpr hnom)
        exact ⟨i.1 hstepfail,
          checkParam_bufExact (s := .inp n v) (msg := msgUnexpectedInput cs.es cs.call.name n) hinv hbb
            (fun e => norm_passInput e n) (fun _ => rfl) hstepfail,
          i.2.2.1.trans hnorm⟩
      | out n =>
        have hinv' : Inv c pre { cs with call := { cs.call with bufs := cs.call.bufs ++ [(n, buf)] } } :=
          inv_congr (cs := cs) rfl rfl rfl hinv
        have i := checkParam_inv (s := .out n) (msg := msgUnexpectedOutput cs.es cs.call.name n) hinv'
          (fun e => norm_passOutput e n) (fun _ => rfl) (fun _ => rfl)
          (fun e he => flagsOK_passOutput n he) (not_covered_out hsegs hwf) hkw
        have hnom := no_match_before_param hsegs hinv hunC hwfC hWC (not_covered_out hsegs hwf)
        have hbb : cs.call.bufs ++ [(n, buf)] = regs buf (pre ++ [.out n]) := by
          rw [regs_snoc_out, hb.nom ((anyMatch_false_iff _).mpr hnom)]
        exact ⟨i.1 hstepfail,
          checkParam_bufExact (s := .out n) (msg := msgUnexpectedOutput cs.es cs.call.name n) hinv' hbb
            (fun e => norm_passOutput e n) (fun _ => rfl) hstepfail,
          i.2.2.1.trans hnorm⟩
      | obj o =>
        have hkw' : ∀ e, wants c e = true → e.relatesToObject o = true := fun e hw => hkw e hw
        have i := onObject_inv hinv (objs_pre_nil hsegs hwf) hkw'
        refine ⟨i.1 hstepfail, ?_, i.2.2.1.trans hnorm⟩
        rw [regs_snoc_obj]
        exact onObject_bufExact hinv hb hstepfail
    exact segsFrom_bufExact buf hwf hun hwfe hW rest (pre ++ [s]) (applySeg cs buf s) hsegs' hstep.1 hstep.2.1 hstep.2.2 hfail

/-- **outputs of one call, exactly**: after a fulfilled call the registered output buffers are the
    caller's buffers with the consumed expectation's bytes copied over their beginning -/
theorem callFull_outputs_full {es : List Exp} {c : Call} (k : Nat) (buf : List UInt8)
    (hclean : Clean es) (hplain : Plain es) (hun : Unambiguous es) (hwfe : ∀ e ∈ es, WFExp e) (hwf : WFCall c)
    (hok : (callFull es k c.name c.segs buf).fail = none) :
    ∃ x, es.find? (wants c) = some x ∧
      (callFull es k c.name c.segs buf).call.bufs = copyOutputs x ((outNames c.segs).map (fun n => (n, buf))) := by
  obtain ⟨s1, s2⟩ := callFull_spec (c := c) k buf hclean hplain hun hwfe hwf
  have hany : es.any (wants c) = true := by
    cases ha : es.any (wants c) with
    | true => rfl
    | false => exact absurd hok (s2 ha)
  obtain ⟨_, _, _, xn, hxn, _, y, hy, hym, hyn⟩ := s1 hany
  -- the first wanted expectation of `es` itself
  have hfm : (es.map Exp.norm).find? (wants c) = (es.find? (wants c)).map Exp.norm := by
    rw [List.find?_map]; congr 1
    exact find_congr' (fun a _ => wants_norm c a)
  rw [hfm] at hxn
  cases hfx : es.find? (wants c) with
  | none => rw [hfx] at hxn; cases hxn
  | some x =>
    rw [hfx] at hxn
    simp only [Option.map_some, Option.some.injEq] at hxn
    -- the state before the finishing check
    obtain ⟨a1, _, a3, a4, a5⟩ := withName_inv (c := c) k hclean hplain
    have hsf : (segsFrom (withName { es := beginCall es, call := newCall k, fail := none } c.name) buf c.segs).fail = none := by
      cases hf : (segsFrom (withName { es := beginCall es, call := newCall k, fail := none } c.name) buf c.segs).fail with
      | none => rfl
      | some m =>
        have := callCheck_fail_some _ m hf
        unfold callFull at hok
        rw [this] at hok; cases hok
    have hwfail : (withName { es := beginCall es, call := newCall k, fail := none } c.name).fail = none := by
      cases hf : (withName { es := beginCall es, call := newCall k, fail := none } c.name).fail with
      | none => rfl
      | some m =>
        have hne : (withName { es := beginCall es, call := newCall k, fail := none } c.name).fail ≠ none := by rw [hf]; simp
        rw [segsFrom_failed _ _ _ hne, hf] at hsf; cases hsf
    have hinv0 := a1 hwfail
    obtain ⟨b1, _, _, b4, b5⟩ := segsFrom_inv buf hwf c.segs [] _ (by simp) hinv0
    have hinv := b1 hsf
    have hbuf := segsFrom_bufExact (es := es) buf hwf hun hwfe hany c.segs [] _ (by simp) hinv0
      (withName_bufExact k hplain buf hwfail) a3 hsf
    -- the match element of the final list comes from the match element before finishing
    have hanym : anyMatch (segsFrom (withName { es := beginCall es, call := newCall k, fail := none } c.name) buf c.segs).es = true := by
      cases hm : anyMatch (segsFrom (withName { es := beginCall es, call := newCall k, fail := none } c.name) buf c.segs).es with
      | true => rfl
      | false =>
        exfalso
        have hst : (segsFrom (withName { es := beginCall es, call := newCall k, fail := none } c.name) buf c.segs).call.state = .inProgress := by
          rw [hinv.st, hm]; rfl
        have hes : (callFull es k c.name c.segs buf).es.any (fun e => e.isMatch) = false := by
          unfold callFull callCheck
          rw [if_neg (by rw [b4, a4]; simp)]
          simp only [hst]
          unfold finishInProgress
          simp only
          have hnom := (anyMatch_false_iff _).mp hm
          split
          · rw [(failCall_meta _ _).2.2]; exact (anyMatch_false_iff _).mpr hnom |> fun h => by simpa [anyMatch] using h
          · split
            · next e he =>
              exfalso
              have hmem := List.mem_of_find?_eq_some he
              have hp := List.find?_some he
              have hplainE := (hinv.elems e hmem).plain
              rw [isM_eq_isMF hplainE] at hp
              have hc : e.cand = true := by simp [isMF] at hp; exact hp.1
              have hfl := ((hinv.elems e hmem).cand hc).2.2.2
              rw [isMF_of_flagsOK hfl hplainE, hc, hinv.noMF hm e hmem hc] at hp
              cases hp
            · split
              · rw [(failCall_meta _ _).2.2]; simpa [anyMatch] using hm
              · rw [(failCall_meta _ _).2.2]; simpa [anyMatch] using hm
        have := List.any_eq_false.mp hes y hy
        exact this hym
    have hst : (segsFrom (withName { es := beginCall es, call := newCall k, fail := none } c.name) buf c.segs).call.state = .succeed := by
      rw [hinv.st, hanym]; rfl
    have hes : (callFull es k c.name c.segs buf).es
        = (segsFrom (withName { es := beginCall es, call := newCall k, fail := none } c.name) buf c.segs).es.map (finishE k) := by
      unfold callFull callCheck
      rw [if_neg (by rw [b4, a4]; simp)]
      simp only [hst, b5, a5, resetCands, List.map_map]
      rfl
    rw [hes] at hy
    simp only [List.mem_map] at hy
    obtain ⟨m, hm, rfl⟩ := hy
    have hmm : m.isMatch = true := by
      cases hmi : m.isMatch with
      | true => rfl
      | false =>
        have := finishE_nomatch k hmi
        rw [this] at hym
        split at hym
        · simp [Exp.reset, hmi] at hym
        · rw [hmi] at hym; cases hym
    have hb0 := hbuf.mat m hm hmm
    have hmc := ((hinv.elems m hm).mtch hmm).1
    rw [finishE_match k hmm hmc, norm_callWasMade] at hyn
    refine ⟨x, rfl, ?_⟩
    unfold callFull
    rw [callCheck_bufs, hb0]
    show copyOutputs m (regs buf c.segs) = copyOutputs x (regs buf c.segs)
    have e1 : copyOutputs m (regs buf c.segs) = copyOutputs (m.norm.bump k) (regs buf c.segs) := by rw [copyOutputs_bump, copyOutputs_norm]
    have e2 : copyOutputs x (regs buf c.segs) = copyOutputs (xn.bump k) (regs buf c.segs) := by rw [copyOutputs_bump, ← hxn, copyOutputs_norm]
    rw [e1, e2, hyn]

end Mock
