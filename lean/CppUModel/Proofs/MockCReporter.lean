import CppUModel.Spec.MockCReporter
namespace MockC.Rep
open MockC

theorem gen_tables : genTables = Req.tables := by decide

theorem req_mock_c : mockReporter Req.tables.calls "mock_c" = .c := by decide
theorem req_mock_scope_c : mockReporter Req.tables.calls "mock_scope_c" = .c := by decide

theorem failEvents_c (flag hf : Bool) :
    failEvents Req.tables.reps Req.tables.terms (classOf Req.tables.cCls .c) flag hf = evs flag hf .longjmp := by
  cases flag <;> cases hf <;> decide

theorem failEvents_std (flag hf : Bool) :
    failEvents Req.tables.reps Req.tables.terms (classOf Req.tables.cCls .std) flag hf = evs flag hf .exception := by
  cases flag <;> cases hf <;> decide

theorem evs_isCrash (flag hf : Bool) (a b : Exit) : (evs flag hf a).map Ev.isCrash = (evs flag hf b).map Ev.isCrash := by
  cases flag <;> cases hf <;> simp [evs, Ev.isCrash]

theorem evs_isEmpty (flag hf : Bool) (a b : Exit) : (evs flag hf a).isEmpty = (evs flag hf b).isEmpty := by
  cases flag <;> cases hf <;> simp [evs]

theorem evs_longjmp (flag hf : Bool) : ∀ e ∈ evs flag hf .longjmp, e = Ev.crash ∨ e = Ev.exit .longjmp := by
  cases flag <;> cases hf <;> simp [evs]

theorem lookup_map_c (l : List (String × Rk)) (s : String) :
    (l.map (fun p => (p.1, Rk.c))).lookup s = (l.lookup s).map (fun _ => Rk.c) := by
  induction l with
  | nil => rfl
  | cons p rest ih =>
    obtain ⟨k, v⟩ := p
    simp only [List.map_cons, List.lookup_cons]
    cases h : (s == k) <;> simp [ih]

theorem lookup_mem (l : List (String × Rk)) (s : String) (r : Rk) (h : l.lookup s = some r) : (s, r) ∈ l ∨ ∃ p ∈ l, p.2 = r := by
  induction l with
  | nil => simp at h
  | cons p rest ih =>
    obtain ⟨k, v⟩ := p
    simp only [List.lookup_cons] at h
    cases hs : (s == k) with
    | true =>
      simp only [hs, Option.some.injEq] at h
      exact Or.inr ⟨(k, v), List.mem_cons_self, h⟩
    | false =>
      simp only [hs] at h
      rcases ih h with h1 | ⟨q, hq, hq2⟩
      · exact Or.inl (List.mem_cons_of_mem _ h1)
      · exact Or.inr ⟨q, List.mem_cons_of_mem _ hq, hq2⟩

theorem sim_fail (c x : RWorld) (sim : Sim c x) :
    Sim (failVia Req.tables c .c) (failVia Req.tables x .std) := by
  simp only [failVia, failEvents_c, failEvents_std, flagOf]
  refine { active := sim.active, active_std := sim.active_std, cur := sim.cur, cur_std := sim.cur_std, flag := sim.flag,
           failed := ?_, crashes := ?_, c_exits := ?_ }
  · simp only [sim.flag, sim.failed, evs_isEmpty x.crashStd x.hasFailed .longjmp .exception]
  · simp only [List.map_append, sim.crashes, sim.flag, sim.failed, evs_isCrash x.crashStd x.hasFailed .longjmp .exception]
  · intro e he
    rcases List.mem_append.mp he with he | he
    · exact sim.c_exits e he
    · exact evs_longjmp _ _ e he

theorem stepSim (c x : RWorld) (o : ROp) (sim : Sim c x) :
    Sim (stepCWith Req.tables c o) (stepXWith Req.tables x o) := by
  cases o with
  | mockGlobal =>
    simp only [stepCWith, stepXWith, req_mock_c, select]
    exact { active := (by simp [sim.active]), active_std := (fun p hp => by
              rcases List.mem_cons.mp hp with hp | hp
              · rw [hp]
              · exact sim.active_std p hp),
            cur := rfl, cur_std := (fun p hp => by simp only [Option.some.injEq] at hp; rw [← hp]),
            flag := sim.flag, failed := sim.failed, crashes := sim.crashes, c_exits := sim.c_exits }
  | mockScope s =>
    simp only [stepCWith, stepXWith, req_mock_scope_c, select]
    exact { active := (by simp [sim.active]), active_std := (fun p hp => by
              rcases List.mem_cons.mp hp with hp | hp
              · rw [hp]
              · exact sim.active_std p hp),
            cur := rfl, cur_std := (fun p hp => by simp only [Option.some.injEq] at hp; rw [← hp]),
            flag := sim.flag, failed := sim.failed, crashes := sim.crashes, c_exits := sim.c_exits }
  | crashOnFailure b =>
    cases hx : x.cur with
    | none =>
      have hc : c.cur = none := by rw [sim.cur, hx]; rfl
      simpa [stepCWith, stepXWith, hx, hc] using sim
    | some p =>
      have hp := sim.cur_std p hx
      have hc : c.cur = some (p.1, Rk.c) := by rw [sim.cur, hx]; rfl
      obtain ⟨s, r⟩ := p
      simp only at hp
      subst hp
      simp only [stepCWith, stepXWith, hx, hc, setFlag]
      exact { active := sim.active, active_std := sim.active_std, cur := (by simp),
              cur_std := (fun p hp => by simp only [Option.some.injEq] at hp; rw [← hp]), flag := rfl, failed := sim.failed,
              crashes := sim.crashes, c_exits := sim.c_exits }
  | fail =>
    cases hx : x.cur with
    | none =>
      have hc : c.cur = none := by rw [sim.cur, hx]; rfl
      simpa [stepCWith, stepXWith, hx, hc] using sim
    | some p =>
      have hp := sim.cur_std p hx
      have hc : c.cur = some (p.1, Rk.c) := by rw [sim.cur, hx]; rfl
      obtain ⟨s, r⟩ := p
      simp only at hp
      subst hp
      simp only [stepCWith, stepXWith, hx, hc]
      exact sim_fail c x sim
  | failIn s =>
    have hl : c.active.lookup s = (x.active.lookup s).map (fun _ => Rk.c) := by rw [sim.active, lookup_map_c]
    cases hx : x.active.lookup s with
    | none =>
      simp only [stepCWith, stepXWith, hl, hx, Option.map_none]
      exact sim
    | some r =>
      have hr : r = Rk.std := by
        rcases lookup_mem _ _ _ hx with h1 | ⟨q, hq, hq2⟩
        · exact sim.active_std _ h1
        · rw [← hq2]; exact sim.active_std q hq
      subst hr
      simp only [stepCWith, stepXWith, hl, hx, Option.map_some]
      exact sim_fail c x sim
  | newTest =>
    simp only [stepCWith, stepXWith]
    exact { active := sim.active, active_std := sim.active_std, cur := sim.cur, cur_std := sim.cur_std, flag := sim.flag,
            failed := rfl, crashes := sim.crashes, c_exits := sim.c_exits }

theorem sim_init : Sim {} {} :=
  { active := rfl, active_std := (fun p hp => by cases hp), cur := rfl, cur_std := (fun p hp => by cases hp), flag := rfl,
    failed := rfl, crashes := rfl, c_exits := (fun e he => by cases he) }

theorem runSim : ∀ (os : List ROp) (c x : RWorld), Sim c x → Sim (runC c os) (runX x os)
  | [], _, _, sim => sim
  | o :: rest, c, x, sim => by
    simp only [runC, runX, List.foldl_cons]
    have h := stepSim c x o sim
    have hc : stepC c o = stepCWith Req.tables c o := by simp [stepC, gen_tables]
    have hx : stepX x o = stepXWith Req.tables x o := by simp [stepX, gen_tables]
    rw [hc, hx]
    exact runSim rest _ _ h

end MockC.Rep
