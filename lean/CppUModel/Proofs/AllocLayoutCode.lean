import CppUModel.Model.AllocLayoutCode
import CppUModel.Proofs.AllocLayoutInv
/-!
Helper lemmas (C05): executing the REGENERATED statement lists of `Gen/AllocLayoutCode.lean` with the
interpreter of `Model/AllocLayoutCode.lean` agrees with the hand model of `Model/AllocLayout.lean`.
The proofs compute with the concrete lists: a source edit that changes a list breaks them.
-/
set_option linter.unusedSimpArgs false
set_option linter.unusedVariables false
namespace AllocLayout
open Gen.AllocLayoutCode

/-- two results agree: same events and outcome, and — unless the outcome is undefined behaviour,
    after which nothing is claimed — the same state -/
def Agree (x y : State × List Ev × Outcome) : Prop :=
  x.2 = y.2 ∧ (y.2.2.isUb = false → x.1 = y.1)

theorem dropBlock_fresh {m : List Block} {id : Nat} (h : Fresh m id) : dropBlock m id = m := by
  unfold dropBlock
  apply List.filter_eq_self.mpr
  intro b hb
  have := h b hb
  simp [this]

theorem allocMemoryCode_agree (c : Cfg) (img : NodeImage) (s : State) (fam : Nat) (size : W) (sep0 : Bool) (a1 a2 : Ans)
    (hf : a1.Fresh s.mem) :
    Agree (allocMemoryGen c img s fam size sep0 a1 a2) (allocMemory c img s fam size sep0 a1 a2) := by
  unfold allocMemoryGen allocMemory Agree
  cases hrej : rejectsAlloc c size
  · cases a1 with
    | null => simp [allocMemoryCode, runMid, stepMid, leaf, finish, hrej]
    | fail => simp [allocMemoryCode, runMid, stepMid, leaf, finish, hrej]
    | block id bytes =>
      cases hsep : forcedSep c sep0
      · simp [allocMemoryCode, storeCode, runMid, stepMid, runLeaf, leaf, finish, hrej, hsep, createNodeStep, account, store, initWith]
        cases hw : writeNode c img ({ id := id, bytes := bytes } :: s.mem) { id := id, size := size, fam := fam, sep := false, nodeId := 0, number := s.seq } with
        | none => simp [Outcome.isUb]
        | some m1 =>
          simp only []
          cases hg : writeGuard c m1 { id := id, size := size, fam := fam, sep := false, nodeId := 0, number := s.seq } with
          | none => simp [Outcome.isUb]
          | some m2 => simp
      · cases a2 with
        | null =>
          have hfr : Fresh s.mem id := hf
          simp [allocMemoryCode, storeCode, runMid, stepMid, runLeaf, leaf, finish, hrej, hsep, createNodeStep, dropBlock_cons, dropBlock_fresh hfr]
        | fail => simp [allocMemoryCode, storeCode, runMid, stepMid, runLeaf, leaf, finish, hrej, hsep, createNodeStep, account]
        | block nid nb =>
          simp [allocMemoryCode, storeCode, runMid, stepMid, runLeaf, leaf, finish, hrej, hsep, createNodeStep, account, store, initWith]
          cases hw : writeNode c img ({ id := nid, bytes := nb } :: { id := id, bytes := bytes } :: s.mem) { id := id, size := size, fam := fam, sep := true, nodeId := nid, number := s.seq } with
          | none => simp [Outcome.isUb]
          | some m1 =>
            simp only []
            cases hg : writeGuard c m1 { id := id, size := size, fam := fam, sep := true, nodeId := nid, number := s.seq } with
            | none => simp [Outcome.isUb]
            | some m2 => simp
  · simp [allocMemoryCode, runMid, stepMid, leaf, finish, hrej]

/-- everything after the old record has been taken out of the table -/
theorem reallocRest_agree (e : Env) (r : Regs) (old : Option Rec)
    (hnew : r.newMem = .unset) (hold : r.old = old)
    (hmem : r.memory = old.map (·.id)) (hrj : e.rej = false):
    Agree (finish (runTop e [.callReallocInner, .ifFailedRetrack, .returnNew] r))
      (reallocRest e.c e.img r.st e.fam old e.size r.sep e.ar e.a2 r.evs) := by
  obtain ⟨c, img, fam, size, rej, a1, a2, ar⟩ := e
  obtain ⟨st, evs, sep, memory, newMem, node, stored, removed, old'⟩ := r
  simp only [] at hnew hold hmem hrj
  subst hnew hold hmem
  unfold Agree reallocRest
  cases ar with
  | null =>
    cases old' with
    | none => simp [runTop, stepTop, stepMid, afterInner, runMid, reallocInnerCode, leaf, finish, ptrId]
    | some o =>
      simp [runTop, stepTop, stepMid, afterInner, runMid, reallocInnerCode, reallocRetrackCode, leaf, finish, ptrId, retrack, createNodeStep]
      cases sep
      · simp [initWith]
        generalize writeNode c img _ _ = w
        cases w <;> simp [Outcome.isUb]
      · cases a2 with
        | null => simp [initWith, Outcome.isUb]
        | fail => simp [initWith, Outcome.isUb]
        | block k kb =>
          simp [initWith]
          generalize writeNode c img _ _ = w
          cases w <;> simp [Outcome.isUb]
  | moved nid nb =>
    cases old' with
    | none =>
      simp [runTop, stepTop, stepMid, afterInner, runMid, runLeaf, storeCode, reallocInnerCode, reallocRetrackCode, leaf, finish, ptrId, account, createNodeStep, memAfterRealloc]
      cases sep
      · simp [initWith, store]
        generalize writeNode c img _ _ = w
        cases w with
        | none => simp [Outcome.isUb]
        | some m1 =>
          simp only []
          generalize writeGuard c m1 _ = g
          cases g <;> simp [Outcome.isUb]
      · cases a2 with
        | null => simp [initWith, store, Outcome.isUb]
        | fail => simp [initWith, store, Outcome.isUb]
        | block k kb =>
          simp [initWith, store]
          generalize writeNode c img _ _ = w
          cases w with
          | none => simp [Outcome.isUb]
          | some m1 =>
            simp only []
            generalize writeGuard c m1 _ = g
            cases g <;> simp [Outcome.isUb]
    | some o =>
      simp [runTop, stepTop, stepMid, afterInner, runMid, runLeaf, storeCode, reallocInnerCode, reallocRetrackCode, leaf, finish, ptrId, account, createNodeStep, memAfterRealloc]
      cases sep
      · simp [initWith, store]
        generalize writeNode c img _ _ = w
        cases w with
        | none => simp [Outcome.isUb]
        | some m1 =>
          simp only []
          generalize writeGuard c m1 _ = g
          cases g <;> simp [Outcome.isUb]
      · cases a2 with
        | null => simp [initWith, store, Outcome.isUb]
        | fail => simp [initWith, store, Outcome.isUb]
        | block k kb =>
          simp [initWith, store]
          generalize writeNode c img _ _ = w
          cases w with
          | none => simp [Outcome.isUb]
          | some m1 =>
            simp only []
            generalize writeGuard c m1 _ = g
            cases g <;> simp [Outcome.isUb]

theorem runTop_append (e : Env) : ∀ (xs ys : List AStep) (r : Regs),
    runTop e (xs ++ ys) r = (match runTop e xs r with | .next r' => runTop e ys r' | .done res => .done res)
  | [], ys, r => by simp [runTop]
  | x :: xs, ys, r => by
    simp only [List.cons_append, runTop]
    cases stepTop e r x with
    | next r' => simp only []; exact runTop_append e xs ys r'
    | done res => rfl

/-- the declaration `MemoryLeakDetectorNode oldNode;` does nothing: wherever it stands, it can be left out -/
theorem runTop_drop_decl (e : Env) : ∀ (xs : List AStep) (r : Regs),
    runTop e (xs.filter (fun s => s != .declOldNode)) r = runTop e xs r
  | [], r => rfl
  | x :: xs, r => by
    by_cases hx : x = .declOldNode
    · subst hx
      simp only [List.filter, bne_self_eq_false, runTop, stepTop, stepMid, leaf]
      exact runTop_drop_decl e xs r
    · have hne : (x != AStep.declOldNode) = true := by simp [hx]
      simp only [List.filter, hne, runTop]
      cases stepTop e r x with
      | next r' => simp only []; exact runTop_drop_decl e xs r'
      | done res => rfl

theorem takeOld_eq (c : Cfg) (img : NodeImage) (fam : Nat) (size : W) (a2 : Ans) (ar : RAns) (s : State) (sep0 : Bool)
    (ptr : Option Nat) :
    runTop ⟨c, img, fam, size, false, .null, a2, ar⟩ [.forceSepIfNoCheck, .guardReturnNull, .ifMemoryTakeOld]
        { st := s, sep := sep0, memory := ptr } =
      (match ptr with
       | none => .next ⟨s, [], forcedSep c sep0, none, .unset, .unset, none, .unset, none⟩
       | some id =>
         match removeRec s.tracked id with
         | none => .done (s, [.misuse "nonallocated"], .null)
         | some (o, rest) =>
           match checkForCorruption c s.mem o fam (forcedSep c sep0) with
           | (_, evs', true) => .done ({ s with tracked := rest }, evs', .ub "inline node released as a block")
           | (m1, evs', false) =>
             .next ⟨{ s with tracked := rest, mem := m1 }, evs', forcedSep c sep0, some id, .unset, .unset, none, .found o, some o⟩) := by
  cases ptr with
  | none => simp [runTop, stepTop, stepMid, leaf]
  | some id =>
    simp only [runTop, stepTop, stepMid, leaf, Bool.false_eq_true, if_false, Option.isSome, if_true, reallocTakeOldCode, runMid]
    cases hrem : removeRec s.tracked id with
    | none => simp
    | some p =>
      obtain ⟨o, rest⟩ := p
      simp only []
      generalize checkForCorruption c s.mem o fam (forcedSep c sep0) = q
      obtain ⟨m1, evs', b⟩ := q
      cases b <;> simp

theorem reallocMemoryCode_agree (c : Cfg) (img : NodeImage) (s : State) (fam : Nat) (ptr : Option Nat) (size : W)
    (sep0 : Bool) (ar : RAns) (a2 : Ans) :
    Agree (reallocMemoryGen c img s fam ptr size sep0 ar a2) (reallocMemory c img s fam ptr size sep0 ar a2) := by
  unfold reallocMemoryGen reallocMemory
  cases hrej : rejectsRealloc c size
  · -- wherever the (effect-free) declaration of `oldNode` stands
    have hcode : reallocMemoryCode.filter (fun s => s != .declOldNode) = [.forceSepIfNoCheck, .guardReturnNull, .ifMemoryTakeOld] ++
        [.callReallocInner, .ifFailedRetrack, .returnNew] := by decide
    rw [← runTop_drop_decl, hcode, runTop_append, takeOld_eq]
    simp only [Bool.false_eq_true, if_false]
    cases ptr with
    | none =>
      exact reallocRest_agree ⟨c, img, fam, size, false, .null, a2, ar⟩ ⟨s, [], forcedSep c sep0, none, .unset, .unset, none, .unset, none⟩ none rfl rfl rfl rfl
    | some id =>
      simp only []
      cases hrem : removeRec s.tracked id with
      | none => simp [Agree, finish]
      | some p =>
        obtain ⟨o, rest⟩ := p
        have hoid : o.id = id := (removeRec_perm s.tracked id o rest hrem).2
        simp only []
        generalize checkForCorruption c s.mem o fam (forcedSep c sep0) = q
        obtain ⟨m1, evs', b⟩ := q
        cases b
        · simp only []
          exact reallocRest_agree ⟨c, img, fam, size, false, .null, a2, ar⟩
            ⟨{ s with tracked := rest, mem := m1 }, evs', forcedSep c sep0, some id, .unset, .unset, none, .found o, some o⟩ (some o) rfl rfl
            (by simp [hoid]) rfl
        · simp [Agree, finish]
  · rw [← runTop_drop_decl]
    have hcode : reallocMemoryCode.filter (fun s => s != .declOldNode) = [.forceSepIfNoCheck, .guardReturnNull, .ifMemoryTakeOld] ++
        [.callReallocInner, .ifFailedRetrack, .returnNew] := by decide
    rw [hcode]
    simp [runTop, stepTop, stepMid, leaf, hrej, finish, Agree]

theorem deallocMemoryCode_agree (c : Cfg) (s : State) (fam : Nat) (ptr : Option Nat) (sep0 : Bool) :
    Agree (deallocMemoryGen c s fam ptr sep0) (deallocMemory c s fam ptr sep0) := by
  unfold deallocMemoryGen deallocMemory Agree
  cases ptr with
  | none => simp [deallocMemoryCode, runTop, stepTop, stepMid, leaf, finishVoid]
  | some id =>
    simp only [deallocMemoryCode, deallocAliveCode, runTop, stepTop, stepMid, leaf, runMid]
    cases hrem : removeRec s.tracked id with
    | none => simp [finishVoid]
    | some p =>
      obtain ⟨o, rest⟩ := p
      simp only []
      generalize checkForCorruption c s.mem o fam (forcedSep c sep0) = q
      obtain ⟨m1, evs', b⟩ := q
      cases b <;> simp [finishVoid, Outcome.isUb]

end AllocLayout
