import CppUModel.Proofs.JUnit
/-!
Helper lemmas for C16, part 2: the structured view of a written file (`reportOf`), the file bytes
are its rendering, the collector's counters agree with its node list for ANY event list, and the
state of the collector after the events of one scripted test / of the registry loop.
-/
set_option linter.unusedSimpArgs false
namespace JUnit
open Text (Bytes)
open OutEv

/-! ## the structured view of what is written -/

/-- the decoded `message` of a failure element: `file:line: message` -/
def failureMessage (f : Failure) : Bytes :=
  f.file ++ lit ":" ++ fmtInt (castInt f.line) ++ lit ": " ++ f.message

def caseOf (package group : Bytes) (total : Nat) (n : Node) : Case :=
  { classname := package ++ (if package.isEmpty then [] else lit ".") ++ group
    name := n.name
    assertions := castInt ((n.checkCount : Int) - (total : Int))
    secs := castInt (n.execTime / 1000 : Nat)
    millis := n.execTime % 1000
    file := n.file
    line := castInt n.line
    failure := n.failure.map failureMessage
    skipped := n.ignored }

def casesOf (package group : Bytes) : Nat → List Node → List Case
  | _, [] => []
  | total, n :: rest => caseOf package group total n :: casesOf package group n.checkCount rest

def suiteOf (s : St) : Suite :=
  { failures := castInt s.failureCount
    name := s.group
    tests := castInt s.testCount
    secs := castInt (s.groupExecTime / 1000 : Nat)
    millis := s.groupExecTime % 1000
    timestamp := s.timeString
    cases := casesOf s.package s.group s.totalCheckCount s.nodesRev.reverse
    stdout := s.stdOutput }

theorem fmtInt_eq_showInt (z : Int) : fmtInt z = showInt z := rfl

theorem fmtTime_eq_showTime (ms : Nat) : fmtTime ms = showTime (castInt (ms / 1000 : Nat)) (ms % 1000) := rfl

theorem encode_failureMessage (f : Failure) :
    encodeRef (failureMessage f) =
      encodeRef f.file ++ lit ":" ++ fmtInt (castInt f.line) ++ lit ": " ++ encodeRef f.message := by
  unfold failureMessage
  have h1 : encodeRef (lit ":") = lit ":" := encodeRef_plain _ (by decide)
  have h2 : encodeRef (lit ": ") = lit ": " := encodeRef_plain _ (by decide)
  simp only [encodeRef_append, h1, h2, encodeRef_plain _ (fmtInt_plain _)]

theorem encode_classname (package group : Bytes) :
    encodeRef (package ++ (if package.isEmpty then [] else lit ".") ++ group) =
      encodeRef package ++ (if package.isEmpty then [] else lit ".") ++ encodeRef group := by
  have h1 : encodeRef (lit ".") = lit "." := encodeRef_plain _ (by decide)
  simp only [encodeRef_append]
  split <;> simp [h1, encodeRef_nil]

/-! ## the regenerated statement lists render the structured report -/

theorem castInt_small (n : Nat) (h : n < 2147483648) : castInt (n : Int) = (n : Int) := by
  unfold castInt
  have h1 : (n : Int) % 4294967296 = n := by omega
  rw [h1]
  split
  · rfl
  · omega

set_option maxRecDepth 100000 in
theorem zeroPad3_dec : ∀ n, n < 1000 → zeroPad 3 (dec n) = pad3 n := by decide

/-- `%03d` of `(int)(x % 1000)` is the three digits -/
theorem fmtPad3_millis (ms : Nat) : fmtPad 3 (castInt ((ms % 1000 : Nat) : Int)) = pad3 (ms % 1000) := by
  have hlt : ms % 1000 < 1000 := Nat.mod_lt _ (by decide)
  rw [castInt_small _ (by omega)]
  unfold fmtPad
  have : ¬ ((ms % 1000 : Nat) : Int) < 0 := by omega
  rw [if_neg this]
  simp only [Int.natAbs_natCast]
  exact zeroPad3_dec _ hlt

theorem lit_empty : lit "" = [] := by decide

theorem showTime_eq (secs : Int) (m : Nat) : showTime secs m = showInt secs ++ lit "." ++ pad3 m := by
  have : lit "." = [46] := by decide
  rw [this]; rfl

/-- OBLIGATION over the regenerated `writeTestCases` / `writeFailure` statement lists -/
theorem testCase_renders (s : St) (total : Nat) (n : Node) :
    testCase s total n = (caseOf s.package s.group total n).render := by
  simp only [testCase, interp, Gen.JUnitTemplates.caseOpen, Gen.JUnitTemplates.caseSkipped, Gen.JUnitTemplates.caseClose,
    Gen.JUnitTemplates.failureElem, List.flatMap_cons, List.flatMap_nil, itemBytes, evalField, evalNum, evalN,
    List.append_nil, Case.render, caseOf, encode_classname, fmtInt_eq_showInt, encodeXmlText_eq_ref, fmtPad3_millis,
    showTime_eq, lit_empty]
  cases hf : n.failure with
  | none => simp only [Option.map_none, List.append_assoc]; split <;> rfl
  | some f =>
    simp only [Option.map_some, encode_failureMessage, fmtInt_eq_showInt, List.append_assoc]

theorem testCases_renders (s : St) : ∀ (nodes : List Node) (total : Nat),
    testCases s total nodes = (casesOf s.package s.group total nodes).flatMap Case.render
  | [], _ => rfl
  | n :: rest, total => by
    simp [testCases, casesOf, testCase_renders, testCases_renders s rest]

theorem header_renders (s : St) :
    interp (Ctx.ofSt s) Gen.JUnitTemplates.xmlHeader = lit "<?xml version=\"1.0\" encoding=\"UTF-8\" ?>\n" := by
  simp only [interp, Gen.JUnitTemplates.xmlHeader, List.flatMap_cons, List.flatMap_nil, itemBytes, List.append_nil]

theorem summary_renders (s : St) :
    interp (Ctx.ofSt s) Gen.JUnitTemplates.suiteSummary =
      lit "<testsuite errors=\"0\" failures=\"" ++ showInt (castInt s.failureCount) ++
      lit "\" hostname=\"localhost\" name=\"" ++ encodeRef s.group ++ lit "\" tests=\"" ++ showInt (castInt s.testCount) ++
      lit "\" time=\"" ++ showTime (castInt (s.groupExecTime / 1000 : Nat)) (s.groupExecTime % 1000) ++
      lit "\" timestamp=\"" ++ s.timeString ++ lit "\">\n" := by
  simp only [interp, Gen.JUnitTemplates.suiteSummary, List.flatMap_cons, List.flatMap_nil, itemBytes, evalField, evalNum,
    evalN, Ctx.ofSt, List.append_nil, fmtInt_eq_showInt, encodeXmlText_eq_ref, fmtPad3_millis, showTime_eq, List.append_assoc]

theorem properties_renders (s : St) :
    interp (Ctx.ofSt s) Gen.JUnitTemplates.properties = lit "<properties>\n" ++ lit "</properties>\n" := by
  simp only [interp, Gen.JUnitTemplates.properties, List.flatMap_cons, List.flatMap_nil, itemBytes, List.append_nil]

theorem ending_renders (s : St) :
    interp (Ctx.ofSt s) Gen.JUnitTemplates.fileEnding =
      lit "<system-out>" ++ encodeRef s.stdOutput ++ lit "</system-out>\n" ++ lit "<system-err></system-err>\n" ++
      lit "</testsuite>\n" := by
  simp only [interp, Gen.JUnitTemplates.fileEnding, List.flatMap_cons, List.flatMap_nil, itemBytes, evalField, Ctx.ofSt,
    List.append_nil, encodeXmlText_eq_ref, List.append_assoc]

/-- OBLIGATION over all regenerated writer statement lists and the regenerated order of the writer calls:
    what is written between open and close is the rendering of the structured report -/
theorem fileBytes_renders (s : St) : fileBytes s = (suiteOf s).render := by
  simp only [fileBytes, Gen.JUnitTemplates.groupFile, List.flatMap_cons, List.flatMap_nil, sectionBytes, header_renders,
    summary_renders, properties_renders, ending_renders, testCases_renders, List.append_nil]
  unfold Suite.render suiteOf
  simp only [List.append_assoc]

/-- OBLIGATION over the regenerated `resetTestGroupResult`: exactly the test count, the failure count, the
    group name and the node list are cleared (NOT the check-count offset, NOT the captured output) -/
@[simp] theorem reset_eq (s : St) : reset s = { s with testCount := 0, failureCount := 0, group := [], nodesRev := [] } := rfl

/-- OBLIGATION over the regenerated `printCurrentGroupEnded`: take the group time, write, then reset -/
@[simp] theorem groupEnded_eq (s : St) (ms : Nat) :
    groupEnded s ms = (onGroupEnded s ms, [writeGroup { s with groupExecTime := ms }]) := rfl

/-! ## structured fold -/

def reportOf (s : St) : Bytes × Suite := (createFileName s.package s.group, suiteOf s)

def reportsOf (s : St) : Ev → List (Bytes × Suite)
  | .groupEnded ms => if s.crashed then [] else [reportOf { s with groupExecTime := ms }]
  | _ => []

def rstep (s : St) (e : Ev) : St × List (Bytes × Suite) := ((step s e).1, reportsOf s e)

def toFile (r : Bytes × Suite) : File := { name := r.1, bytes := r.2.render }

theorem step_files (s : St) (e : Ev) : (step s e).2 = (reportsOf s e).map toFile := by
  unfold step reportsOf
  cases hc : s.crashed
  · cases e <;> simp [toFile, reportOf, writeGroup, fileBytes_renders, groupEnded_eq, hc]
  · cases e <;> simp

theorem fold_files : ∀ (evs : List Ev) (s : St),
    (foldEvents step s evs).2 = (foldEvents rstep s evs).2.map toFile ∧
    (foldEvents step s evs).1 = (foldEvents rstep s evs).1
  | [], s => by simp [foldEvents]
  | e :: es, s => by
    have ih := fold_files es (step s e).1
    simp only [foldEvents, rstep] at ih ⊢
    exact ⟨by rw [ih.1, step_files]; simp, ih.2⟩

def reportsFrom (s : St) (evs : List Ev) : List (Bytes × Suite) := (foldEvents rstep s evs).2
def stFrom (s : St) (evs : List Ev) : St := (foldEvents rstep s evs).1

theorem reportsFrom_nil (s : St) : reportsFrom s [] = [] := rfl
theorem stFrom_nil (s : St) : stFrom s [] = s := rfl
theorem reportsFrom_cons (s : St) (e : Ev) (es : List Ev) :
    reportsFrom s (e :: es) = reportsOf s e ++ reportsFrom (step s e).1 es := rfl
theorem stFrom_cons (s : St) (e : Ev) (es : List Ev) : stFrom s (e :: es) = stFrom (step s e).1 es := rfl
theorem reportsFrom_append (s : St) (a b : List Ev) :
    reportsFrom s (a ++ b) = reportsFrom s a ++ reportsFrom (stFrom s a) b := by
  simp [reportsFrom, stFrom, foldEvents_append]
theorem stFrom_append (s : St) (a b : List Ev) : stFrom s (a ++ b) = stFrom (stFrom s a) b := by
  simp [stFrom, foldEvents_append]

/-! ## counters agree with the node list, for every event list -/

def failedNodes (ns : List Node) : Nat := (ns.filter fun n => n.failure.isSome).length

def CountsOk (s : St) : Prop :=
  s.testCount = s.nodesRev.length ∧ s.failureCount = failedNodes s.nodesRev

def suiteCountsOk (su : Suite) : Prop :=
  su.tests = castInt su.cases.length ∧
  su.failures = castInt (su.cases.filter fun c => c.failure.isSome).length

theorem casesOf_length (p g : Bytes) : ∀ (ns : List Node) (t : Nat), (casesOf p g t ns).length = ns.length
  | [], _ => rfl
  | n :: rest, t => by simp [casesOf, casesOf_length p g rest]

theorem casesOf_failed (p g : Bytes) : ∀ (ns : List Node) (t : Nat),
    ((casesOf p g t ns).filter fun c => c.failure.isSome).length = failedNodes ns
  | [], _ => rfl
  | n :: rest, t => by
    have ih := casesOf_failed p g rest n.checkCount
    unfold failedNodes at ih ⊢
    simp only [casesOf, List.filter_cons, caseOf, Option.isSome_map]
    cases n.failure <;> simp [ih]

theorem failedNodes_reverse (ns : List Node) : failedNodes ns.reverse = failedNodes ns := by
  simp [failedNodes, List.filter_reverse]

theorem countsOk_step (s : St) (e : Ev) (h : CountsOk s) : CountsOk (step s e).1 := by
  unfold step
  cases hc : s.crashed
  · obtain ⟨h1, h2⟩ := h
    cases e with
    | testRun i n => exact ⟨h1, h2⟩
    | testsStarted => exact ⟨h1, h2⟩
    | groupStarted t => exact ⟨h1, h2⟩
    | testStarted t =>
      simp only [Bool.false_eq_true, if_false, onTestStarted, CountsOk, List.length_cons, failedNodes, newNode,
        List.filter_cons, Option.isSome_none]
      exact ⟨by omega, by simpa [failedNodes] using h2⟩
    | print x => exact ⟨h1, h2⟩
    | veryVerbose x => exact ⟨h1, h2⟩
    | failure f =>
      simp only [Bool.false_eq_true, if_false, onFailure]
      cases hn : s.nodesRev with
      | nil => simp [CountsOk, hn] at h1 h2 ⊢; exact ⟨h1, h2⟩
      | cons n rest =>
        simp only
        cases hf : n.failure with
        | none =>
          simp only [CountsOk, hn, List.length_cons, failedNodes, List.filter_cons, hf, Option.isSome_none,
            Option.isSome_some] at h1 h2 ⊢
          simp at h2 ⊢
          exact ⟨h1, by omega⟩
        | some g => simp only [CountsOk, hn] at h1 h2 ⊢; exact ⟨h1, h2⟩
    | testEnded ms c =>
      simp only [Bool.false_eq_true, if_false, onTestEnded]
      cases hn : s.nodesRev with
      | nil => simp [CountsOk, hn] at h1 h2 ⊢; exact ⟨h1, h2⟩
      | cons n rest =>
        simp only [CountsOk, hn, List.length_cons, failedNodes, List.filter_cons] at h1 h2 ⊢
        refine ⟨h1, ?_⟩
        cases hf : n.failure <;> simp_all
    | groupEnded ms => simp [groupEnded_eq, onGroupEnded, reset_eq, CountsOk, failedNodes]
    | testsEnded sm => exact ⟨h1, h2⟩
  · simpa using h

theorem reportsOf_countsOk (s : St) (e : Ev) (h : CountsOk s) : ∀ r ∈ reportsOf s e, suiteCountsOk r.2 := by
  intro r hr
  cases e <;> simp only [reportsOf, List.not_mem_nil] at hr
  case groupEnded ms =>
    split at hr
    · simp at hr
    · simp only [List.mem_singleton] at hr
      subst hr
      obtain ⟨h1, h2⟩ := h
      constructor <;>
        simp [reportOf, suiteOf, casesOf_length, casesOf_failed, failedNodes_reverse, h1, h2]

theorem fold_countsOk : ∀ (evs : List Ev) (s : St), CountsOk s →
    (∀ r ∈ reportsFrom s evs, suiteCountsOk r.2) ∧ CountsOk (stFrom s evs)
  | [], s, h => by simp [reportsFrom_nil, stFrom_nil, h]
  | e :: es, s, h => by
    have ih := fold_countsOk es (step s e).1 (countsOk_step s e h)
    refine ⟨?_, ih.2⟩
    intro r hr
    rw [reportsFrom_cons, List.mem_append] at hr
    rcases hr with hr | hr
    · exact reportsOf_countsOk s e h r hr
    · exact ih.1 r hr

end JUnit

namespace JUnit
open Text (Bytes)
open OutEv

/-! ## file names -/

theorem replaceBytes_eq_map (repl : UInt8) : ∀ (forb : List UInt8) (s : Bytes), forb.contains repl = false →
    replaceBytes repl forb s = s.map fun c => if forb.contains c then repl else c
  | [], s, _ => by simp [replaceBytes]
  | c1 :: rest, s, h => by
    have h' : (repl == c1) = false ∧ rest.contains repl = false := by
      simpa [List.contains_cons, Bool.or_eq_false_iff] using h
    have hne : repl ≠ c1 := by
      intro e; have := h'.1; simp [e] at this
    rw [replaceBytes, replaceBytes_eq_map repl rest _ h'.2, Text.replaceByte, List.map_map]
    apply List.map_congr_left
    intro c _
    simp only [Function.comp, List.contains_cons]
    by_cases hc : c = c1
    · subst hc; simp [h'.2]
    · have : (c == c1) = false := by simpa using hc
      simp [hc, this]

/-- OBLIGATION over the regenerated table: the replacement character is not itself forbidden -/
theorem replacement_not_forbidden :
    Gen.EscapeTables.fileNameForbidden.contains Gen.EscapeTables.fileNameReplacement = false := by decide

/-- OBLIGATION over the regenerated table: same forbidden set, same replacement, same literal pieces as the
    specification of the file name -/
theorem file_name_tables :
    (∀ c : UInt8, Gen.EscapeTables.fileNameForbidden.contains c = forbiddenInFileNames.contains c) ∧
    Gen.EscapeTables.fileNameReplacement = 95 ∧ Gen.EscapeTables.fileNamePrefix = lit "cpputest_" ∧
    Gen.EscapeTables.fileNamePackageSep = lit "_" ∧ Gen.EscapeTables.fileNameSuffix = lit ".xml" := by
  refine ⟨?_, by decide, by decide, by decide, by decide⟩
  apply all_uint8
  set_option maxRecDepth 100000 in decide

theorem encodeFileName_eq_sanitize (s : Bytes) : encodeFileName s = sanitize s := by
  unfold encodeFileName sanitize
  rw [replaceBytes_eq_map _ _ _ replacement_not_forbidden]
  apply List.map_congr_left
  intro c _
  rw [file_name_tables.1 c, file_name_tables.2.1]

theorem createFileName_eq_expected (package group : Bytes) :
    createFileName package group = expectedFileName package group := by
  unfold createFileName expectedFileName
  rw [encodeFileName_eq_sanitize, file_name_tables.2.2.1, file_name_tables.2.2.2.1, file_name_tables.2.2.2.2]

theorem sanitize_clean (s : Bytes) : ∀ c ∈ sanitize s, forbiddenInFileNames.contains c = false := by
  intro c hc
  simp only [sanitize, List.mem_map] at hc
  obtain ⟨d, _, rfl⟩ := hc
  by_cases h : forbiddenInFileNames.contains d = true
  · simp only [h, if_true]; decide
  · simp only [h]; simpa using h

end JUnit
