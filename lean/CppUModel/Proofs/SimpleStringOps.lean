import CppUModel.Proofs.SimpleStringFmt
import CppUModel.Model.SimpleStringOps
/-!
# Operation scripts keep the allocator pairing invariant (helper lemmas and the step theorem)
-/
namespace SStr
open CStr Text TextExt

/-! ### stores -/

def owned (st : Store) : List (Nat × Nat) := st.map fun p => (p.2.id, p.2.size)

def labels (st : Store) : List String := st.map (·.1)

theorem has_iff_mem_labels (st : Store) (l : String) : st.has l = true ↔ l ∈ labels st := by
  simp [Store.has, labels]

/-- a label that is present splits the store around its (first) entry -/
theorem get?_split : ∀ (st : Store) (l : String) (x : Obj), st.get? l = some x →
    ∃ s1 s2, st = s1 ++ (l, x) :: s2 ∧ l ∉ labels s1
  | [], _, _, h => by simp [Store.get?] at h
  | (k, o) :: rest, l, x, h => by
    by_cases hk : k = l
    · subst hk
      simp [Store.get?] at h
      subst h
      exact ⟨[], rest, rfl, by simp [labels]⟩
    · have hne : ((k, o).1 == l) = false := by simpa using hk
      simp only [Store.get?, List.find?_cons, hne] at h
      obtain ⟨s1, s2, he, hn⟩ := get?_split rest l x h
      refine ⟨(k, o) :: s1, s2, by simp [he], ?_⟩
      simp only [labels, List.map_cons, List.mem_cons, not_or]
      exact ⟨fun h => hk h.symm, hn⟩

theorem put_split {s1 s2 : Store} {l : String} {x r : Obj} (h1 : l ∉ labels s1) (h2 : l ∉ labels s2) :
    Store.put (s1 ++ (l, x) :: s2) l r = s1 ++ (l, r) :: s2 := by
  have hhas : Store.has (s1 ++ (l, x) :: s2) l = true := by
    rw [has_iff_mem_labels]; simp [labels]
  have hm : ∀ (s : Store), l ∉ labels s → s.map (fun p => if p.1 == l then (l, r) else p) = s := by
    intro s hs
    induction s with
    | nil => rfl
    | cons p s ih =>
      simp only [labels, List.map_cons, List.mem_cons, not_or] at hs
      have : (p.1 == l) = false := by simpa using fun h => hs.1 h.symm
      simp only [List.map_cons, this, Bool.false_eq_true, if_false]
      rw [ih (by simpa [labels] using hs.2)]
  simp only [Store.put, hhas, if_true, List.map_append, List.map_cons, beq_self_eq_true, hm s1 h1, hm s2 h2]

theorem del_split {s1 s2 : Store} {l : String} {x : Obj} (h1 : l ∉ labels s1) (h2 : l ∉ labels s2) :
    Store.del (s1 ++ (l, x) :: s2) l = s1 ++ s2 := by
  have hm : ∀ (s : Store), l ∉ labels s → s.filter (fun p => p.1 != l) = s := by
    intro s hs
    apply List.filter_eq_self.mpr
    intro p hp
    simp only [bne_iff_ne, ne_eq]
    intro he
    exact hs (by simp only [labels, List.mem_map]; exact ⟨p, hp, he⟩)
  simp [Store.del, List.filter_append, hm s1 h1, hm s2 h2]

theorem put_fresh {st : Store} {l : String} (r : Obj) (h : st.has l = false) : st.put l r = st ++ [(l, r)] := by
  simp [Store.put, h]

/-! ### the invariant of operation scripts -/

def Fits (st : Store) : Prop := ∀ p ∈ st, p.2.size ≤ npos

/-- every live object holds a C string, its recorded size is its buffer's size, labels are
    distinct, and the allocator's outstanding buffers are exactly the objects' buffers under
    their recorded sizes -/
structure Good (st : Store) (w : World) : Prop where
  holds : ∀ p ∈ st, ∃ a, Holds p.2 a
  sized : ∀ p ∈ st, Sized p.2
  fits : Fits st
  nodup : (labels st).Nodup
  owns : Owns w (owned st)

theorem Good.init : Good [] {} :=
  ⟨by simp, by simp, by simp [Fits], by simp [labels], by simpa [owned] using Owns.init⟩

theorem holds_length_lt {o : Obj} {a : Bytes} (h : Holds o a) (hs : Sized o) (hf : o.size ≤ npos) : a.length < npos := by
  have := CAt.length_lt h
  rw [Sized] at hs
  omega

theorem Owns.emit_out {w : World} {L} (h : Owns w L) (s : String) :
    Owns { w with log := w.log ++ [.out s] } L := by
  obtain ⟨L0, h1, h2, h3⟩ := h
  exact ⟨L0, by simp [liveAfter_append, h1, liveAfter, liveStep], h2, h3⟩

@[simp] theorem out_run (s : String) (w : World) : out s w = .ok ((), { w with log := w.log ++ [.out s] }) := rfl
@[simp] theorem outVal_run (o : Obj) (w : World) :
    outVal o w = .ok ((), { w with log := w.log ++ [.out ("val " ++ Proto.hex (cview o.buf))] }) := rfl

theorem mem_split_cases {s1 s2 : Store} {l : String} {x : Obj} {p : String × Obj}
    (h : p ∈ s1 ++ (l, x) :: s2) : p ∈ s1 ∨ p = (l, x) ∨ p ∈ s2 := by
  simpa using h

/-- creating object `l` -/
theorem create_good {st : Store} {w : World} {l : String} {m : M Obj} {P : Obj → Prop}
    (hg : Good st w) (hm : Creates m w P) (hP : ∀ r, P r → ∃ a, Holds r a) {st' : Store} {w' : World}
    (hs : create st l m w = .ok (st', w')) (hfit : Fits st') : Good st' w' := by
  obtain ⟨r, w1, hr, hp, hsz, ho⟩ := hm
  simp only [create] at hs
  by_cases hh : st.has l = true
  · simp [hh, bad] at hs
  · have hh' : st.has l = false := Bool.eq_false_iff.mpr hh
    simp only [hh', Bool.false_eq_true, if_false, bind_run, hr, outVal_run, pure_run, put_fresh r hh'] at hs
    injection hs with hs; injection hs with h1 h2; subst h1 h2
    refine ⟨?_, ?_, hfit, ?_, ?_⟩
    · intro p hp'
      rcases List.mem_append.mp hp' with hp' | hp'
      · exact hg.holds p hp'
      · simp at hp'; subst hp'; exact hP r hp
    · intro p hp'
      rcases List.mem_append.mp hp' with hp' | hp'
      · exact hg.sized p hp'
      · simp at hp'; subst hp'; exact hsz
    · simp only [labels, List.map_append, List.map_cons, List.map_nil]
      rw [List.nodup_append]
      refine ⟨hg.nodup, by simp, ?_⟩
      intro a ha b hb
      simp at hb; subst hb
      intro hab; subst hab
      exact hh ((has_iff_mem_labels st _).mpr ha)
    · have := (ho _ hg.owns).emit_out ("val " ++ Proto.hex (cview r.buf))
      refine this.perm ?_
      simp only [owned, List.map_append, List.map_cons, List.map_nil]
      exact (List.perm_append_singleton _ _).symm

/-- giving object `l` (currently `x`) a new buffer -/
theorem put_good {st : Store} {w w1 : World} {l : String} {x r : Obj}
    (hg : Good st w) (hx : st.get? l = some x) (hh : ∃ a, Holds r a) (hsz : Sized r)
    (ho : ∀ L, Owns w ((x.id, x.size) :: L) → Owns w1 ((r.id, r.size) :: L))
    (hfit : Fits (st.put l r)) : Good (st.put l r) w1 := by
  obtain ⟨s1, s2, he, hn1⟩ := get?_split st l x hx
  have hnd := hg.nodup
  rw [he] at hnd
  simp only [labels, List.map_append, List.map_cons] at hnd
  have hn2 : l ∉ labels s2 := by
    have := (List.nodup_append.mp hnd).2.1
    simp only [List.nodup_cons] at this
    exact this.1
  rw [he, put_split hn1 hn2] at hfit ⊢
  refine ⟨?_, ?_, hfit, ?_, ?_⟩
  · intro p hp'
    rcases mem_split_cases hp' with h | h | h
    · exact hg.holds p (by rw [he]; simp [h])
    · subst h; exact hh
    · exact hg.holds p (by rw [he]; simp [h])
  · intro p hp'
    rcases mem_split_cases hp' with h | h | h
    · exact hg.sized p (by rw [he]; simp [h])
    · subst h; exact hsz
    · exact hg.sized p (by rw [he]; simp [h])
  · simpa [labels] using hnd
  · have hown := hg.owns
    rw [he] at hown
    have hperm : (owned (s1 ++ (l, x) :: s2)).Perm ((x.id, x.size) :: (owned s1 ++ owned s2)) := by
      simp only [owned, List.map_append, List.map_cons]
      exact List.perm_middle
    refine (ho _ (hown.perm hperm)).perm ?_
    simp only [owned, List.map_append, List.map_cons]
    exact List.perm_middle.symm

theorem Good.silent {st : Store} {w w' : World} (hg : Good st w) (h : ∀ L, Owns w L → Owns w' L) : Good st w' :=
  ⟨hg.holds, hg.sized, hg.fits, hg.nodup, h _ hg.owns⟩

theorem get?_mem {st : Store} {l : String} {x : Obj} (h : st.get? l = some x) : (l, x) ∈ st := by
  obtain ⟨s1, s2, he, _⟩ := get?_split st l x h
  rw [he]; simp

theorem Good.holds_of_get {st : Store} {w : World} (hg : Good st w) {l : String} {x : Obj} (h : st.get? l = some x) :
    ∃ a, Holds x a := hg.holds _ (get?_mem h)

theorem Good.sized_of_get {st : Store} {w : World} (hg : Good st w) {l : String} {x : Obj} (h : st.get? l = some x) :
    Sized x := hg.sized _ (get?_mem h)

theorem Good.lt_of_get {st : Store} {w : World} (hg : Good st w) {l : String} {x : Obj} {a : Bytes}
    (h : st.get? l = some x) (ha : Holds x a) : a.length < npos :=
  holds_length_lt ha (hg.sized_of_get h) (hg.fits _ (get?_mem h))

theorem put_same {st : Store} {l : String} {x : Obj} (hnd : (labels st).Nodup) (h : st.get? l = some x) :
    st.put l x = st := by
  obtain ⟨s1, s2, he, hn1⟩ := get?_split st l x h
  rw [he] at hnd
  simp only [labels, List.map_append, List.map_cons] at hnd
  have hn2 : l ∉ labels s2 := by
    have := (List.nodup_append.mp hnd).2.1
    simp only [List.nodup_cons] at this
    exact this.1
  rw [he, put_split hn1 hn2]

/-- deleting object `l` -/
theorem del_good {st : Store} {w w1 : World} {l : String} {x : Obj}
    (hg : Good st w) (hx : st.get? l = some x)
    (ho : ∀ L, Owns w ((x.id, x.size) :: L) → Owns w1 L) : Good (st.del l) w1 := by
  obtain ⟨s1, s2, he, hn1⟩ := get?_split st l x hx
  have hnd := hg.nodup
  rw [he] at hnd
  simp only [labels, List.map_append, List.map_cons] at hnd
  have hn2 : l ∉ labels s2 := by
    have := (List.nodup_append.mp hnd).2.1
    simp only [List.nodup_cons] at this
    exact this.1
  rw [he, del_split hn1 hn2]
  refine ⟨?_, ?_, ?_, ?_, ?_⟩
  · intro p hp'
    rcases List.mem_append.mp hp' with h | h
    · exact hg.holds p (by rw [he]; simp [h])
    · exact hg.holds p (by rw [he]; simp [h])
  · intro p hp'
    rcases List.mem_append.mp hp' with h | h
    · exact hg.sized p (by rw [he]; simp [h])
    · exact hg.sized p (by rw [he]; simp [h])
  · intro p hp'
    rcases List.mem_append.mp hp' with h | h
    · exact hg.fits p (by rw [he]; simp [h])
    · exact hg.fits p (by rw [he]; simp [h])
  · have := List.nodup_append.mp hnd
    simp only [labels, List.map_append]
    rw [List.nodup_append]
    refine ⟨this.1, (List.nodup_cons.mp this.2.1).2, ?_⟩
    intro a ha b hb
    exact this.2.2 a ha b (List.mem_cons_of_mem _ hb)
  · have hown := hg.owns
    rw [he] at hown
    have hperm : (owned (s1 ++ (l, x) :: s2)).Perm ((x.id, x.size) :: (owned s1 ++ owned s2)) := by
      simp only [owned, List.map_append, List.map_cons]
      exact List.perm_middle
    have := ho _ (hown.perm hperm)
    simpa [owned] using this

theorem delAll_owns : ∀ (xs : List (String × Obj)) (w : World) (L : List (Nat × Nat)), Owns w (owned xs ++ L) →
    ∃ w', delAll xs w = .ok ((), w') ∧ Owns w' L
  | [], w, L, h => ⟨w, rfl, by simpa [owned] using h⟩
  | p :: rest, w, L, h => by
    simp only [delAll, bind_run, dtor_run]
    have h' : Owns (w.free p.2.id p.2.size) (owned rest ++ L) := by
      have : Owns w ((p.2.id, p.2.size) :: (owned rest ++ L)) := by simpa [owned] using h
      exact this.free_head
    exact delAll_owns rest _ L h'

/-! ### computations that leave the allocator alone -/

/-- whatever `m` requests from the allocator it gives back (with the requested size) -/
def Silent {α} (m : M α) : Prop := ∀ w a w', m w = .ok (a, w') → ∀ L, Owns w L → Owns w' L

theorem silent_pure {α} (a : α) : Silent (pure a : M α) := by
  intro w b w' h L hL
  simp only [pure_run] at h
  injection h with h; injection h with _ h2; subst h2; exact hL

theorem silent_liftE {α} (e : Except Err α) : Silent (liftE e) := by
  intro w b w' h L hL
  cases e with
  | error e => simp at h
  | ok a =>
    simp only [liftE_ok] at h
    injection h with h; injection h with _ h2; subst h2; exact hL

theorem silent_out (s : String) : Silent (out s) := by
  intro w b w' h L hL
  simp only [out_run] at h
  injection h with h; injection h with _ h2; subst h2; exact hL.emit_out s

theorem silent_bind {α β} {x : M α} {f : α → M β} (hx : Silent x) (hf : ∀ a, Silent (f a)) : Silent (x >>= f) := by
  intro w b w' h L hL
  simp only [bind_run] at h
  cases hxw : x w with
  | error e => simp [hxw] at h
  | ok p =>
    obtain ⟨a, w1⟩ := p
    simp only [hxw] at h
    exact hf a w1 b w' h L (hx w a w1 hxw L hL)

theorem silent_of_returns {α} {m : M α} (h : ∀ w, ∃ v, Returns m w v) : Silent m := by
  intro w a w' hm L hL
  obtain ⟨v, w1, h1, h2⟩ := h w
  rw [h1] at hm
  injection hm with hm; injection hm with _ h3; subst h3
  exact h2 L hL

theorem silent_outVal (o : Obj) : Silent (outVal o) := silent_out _
theorem silent_outNat (n : Nat) : Silent (outNat n) := silent_out _
theorem silent_outBool (b : Bool) : Silent (outBool b) := silent_out _
theorem silent_outInt (i : Int) : Silent (outInt i) := silent_out _

/-- a query followed by `pure st` -/
theorem query_good {st st' : Store} {w w' : World} {m : M Unit} (hg : Good st w) (hm : Silent m)
    (hs : (do m; pure st : M Store) w = .ok (st', w')) : Good st' w' := by
  simp only [bind_run] at hs
  cases hmw : m w with
  | error e => simp [hmw] at hs
  | ok p =>
    obtain ⟨u, w1⟩ := p
    simp only [hmw, pure_run] at hs
    injection hs with hs; injection hs with h1 h2; subst h1 h2
    exact hg.silent (hm w u w1 hmw)

theorem query2_good {st st' : Store} {w w' : World} {a b : String} {f : Obj → Obj → M Unit} (hg : Good st w)
    (hf : ∀ x y, st.get? a = some x → st.get? b = some y → Silent (f x y))
    (hs : query2 st a b f w = .ok (st', w')) : Good st' w' := by
  simp only [query2] at hs
  cases hx : st.get? a with
  | none => simp [hx, bad] at hs
  | some x =>
    cases hy : st.get? b with
    | none => simp [hx, hy, bad] at hs
    | some y =>
      simp only [hx, hy] at hs
      exact query_good hg (hf x y hx hy) hs

theorem dtorAllRev_owns : ∀ (items : List Obj) (w : World) (L : List (Nat × Nat)), Owns w (ownedObjs items ++ L) →
    ∃ w', dtorAllRev items w = .ok ((), w') ∧ Owns w' L
  | [], w, L, h => ⟨w, rfl, by simpa [ownedObjs] using h⟩
  | o :: rest, w, L, h => by
    have h' : Owns w (ownedObjs rest ++ ((o.id, o.size) :: L)) := by
      refine h.perm ?_
      simp only [ownedObjs, List.map_cons, List.cons_append]
      exact List.perm_middle.symm
    obtain ⟨w1, h1, h2⟩ := dtorAllRev_owns rest w _ h'
    exact ⟨w1.free o.id o.size, by simp only [dtorAllRev, bind_run, h1, dtor_run], h2.free_head⟩

theorem dtorAllRev_inv {items : List Obj} {W w'' : World} {a : Unit} {L : List (Nat × Nat)}
    (h : dtorAllRev items W = .ok (a, w'')) (ho : Owns W (ownedObjs items ++ L)) : Owns w'' L := by
  obtain ⟨w7, h7, ho7⟩ := dtorAllRev_owns items W L ho
  rw [h7] at h
  injection h with h; injection h with _ h; subst h
  exact ho7

theorem silent_outTokens : ∀ (items : List Obj) (i : Nat), Silent (outTokens items i)
  | [], _ => silent_pure ()
  | _ :: rest, i => silent_bind (silent_out _) (fun _ => silent_outTokens rest (i + 1))

/-- the whole `split` operation of the scripts (collection constructed, filled, read past its end,
    destroyed) leaves nothing outstanding -/
theorem split_op_silent {x y : Obj} {a d : Bytes} (hx : Holds x a) (hy : Holds y d) :
    Silent (do
      let col ← collCtor
      let col ← split x y col
      outTokens col.items 0
      out s!"ntok {col.items.length}"
      let r ← collGet col col.items.length
      out ("oobtok " ++ Proto.hex (cview r.2.buf))
      collDtor r.1 : M Unit) := by
  intro w u w' hrun L hL
  obtain ⟨items, w1, hs1, hs2, hs3⟩ := split_ok hx hy (mkObj w.next []) (w.alloc 1)
  simp only [bind_run, collCtor, ctorEmpty_ok, pure_run, hs1] at hrun
  -- printing the tokens
  cases ht : outTokens items 0 w1 with
  | error e => simp [ht] at hrun
  | ok p =>
    obtain ⟨_, w2⟩ := p
    have ho2 := silent_outTokens items 0 w1 () w2 ht _ (hs3 _ (hL.alloc 1))
    simp only [ht, out_run] at hrun
    have hget : items[items.length]? = none := by simp
    simp only [collGet, hget, bind_run, ctorEmpty_ok, assign_ok _ (holds_mkObj nulFree_nil), dtor_run, pure_run,
      collDtor] at hrun
    -- the collection's destructor
    have ho3 := (ho2.emit_out (s!"ntok {items.length}"))
    have hperm : (ownedObjs items ++ (w.next, 1) :: L).Perm ((w.next, 1) :: (ownedObjs items ++ L)) :=
      List.perm_middle
    have ho4 := ((((ho3.perm hperm).alloc 1).free_2nd).alloc 1).free_2nd
    split at hrun
    · simp at hrun
    · next a w'' heq =>
      injection hrun with hrun; injection hrun with _ hrun; subst hrun
      have ho6 := dtorAllRev_inv heq ((ho4.emit_out _).perm List.perm_middle.symm)
      exact ho6.free_head

/-- `m` returns the store `st` and leaves the allocator alone -/
def QueryLike (m : M Store) (st : Store) : Prop :=
  ∀ w s w', m w = .ok (s, w') → s = st ∧ ∀ L, Owns w L → Owns w' L

theorem ql_pure (st : Store) : QueryLike (pure st) st := by
  intro w s w' h
  simp only [pure_run] at h
  injection h with h; injection h with h1 h2; subst h1 h2
  exact ⟨rfl, fun _ hL => hL⟩

theorem ql_bind {α} {x : M α} {f : α → M Store} {st : Store} (hx : Silent x) (hf : ∀ a, QueryLike (f a) st) :
    QueryLike (x >>= f) st := by
  intro w s w' h
  simp only [bind_run] at h
  cases hxw : x w with
  | error e => simp [hxw] at h
  | ok p =>
    obtain ⟨a, w1⟩ := p
    simp only [hxw] at h
    obtain ⟨h1, h2⟩ := hf a w1 s w' h
    exact ⟨h1, fun L hL => h2 L (hx w a w1 hxw L hL)⟩

theorem ql_good {st st' : Store} {w w' : World} {m : M Store} (hg : Good st w) (hm : QueryLike m st)
    (hs : m w = .ok (st', w')) : Good st' w' := by
  obtain ⟨h1, h2⟩ := hm w st' w' hs
  subst h1
  exact hg.silent h2

theorem get?_put_other {st : Store} {a b : String} (r : Obj) (hab : a ≠ b) (ha : st.has a = true) :
    (st.put a r).get? b = st.get? b := by
  simp only [Store.put, ha, if_true, Store.get?]
  congr 1
  induction st with
  | nil => rfl
  | cons p st ih =>
    have ih' : List.find? (fun x => x.1 == b) (List.map (fun p => if (p.1 == a) = true then (a, r) else p) st) =
        List.find? (fun x => x.1 == b) st := by
      by_cases hst : Store.has st a = true
      · exact ih hst
      · have hm : ∀ q ∈ st, (q.1 == a) = false := by
          intro q hq
          apply Bool.eq_false_iff.mpr
          intro hqa
          exact hst (by simp only [Store.has, List.any_eq_true]; exact ⟨q, hq, hqa⟩)
        have : List.map (fun p => if (p.1 == a) = true then (a, r) else p) st = st.map id :=
          List.map_congr_left (fun q hq => by simp [hm q hq])
        rw [this, List.map_id]
    by_cases hpa : (p.1 == a) = true
    · have hpb : (p.1 == b) = false := by
        have : p.1 = a := by simpa using hpa
        simp [this, hab]
      have hab' : (a == b) = false := by simpa using hab
      simp only [List.map_cons, hpa, if_true, List.find?_cons, hab', hpb]
      exact ih'
    · simp only [List.map_cons, hpa, Bool.false_eq_true, if_false, List.find?_cons]
      rw [ih']

theorem labels_put {st : Store} {a : String} (r : Obj) (ha : st.has a = true) : labels (st.put a r) = labels st := by
  simp only [Store.put, ha, if_true, labels, List.map_map]
  apply List.map_congr_left
  intro p _
  by_cases hp : p.1 = a
  · simp [hp]
  · simp [hp]

theorem padStringsToSameLength_cases {str1 str2 : Obj} {a b : Bytes} (h1 : Holds str1 a) (h2 : Holds str2 b)
    (c : UInt8) (w : World) :
    (∃ r w', padStringsToSameLength str1 str2 c w = .ok ((str1, r), w') ∧ (∃ t, Holds r t) ∧ Sized r ∧
        ∀ L, Owns w ((str2.id, str2.size) :: L) → Owns w' ((r.id, r.size) :: L)) ∨
    (∃ r w', padStringsToSameLength str1 str2 c w = .ok ((r, str2), w') ∧ (∃ t, Holds r t) ∧ Sized r ∧
        ∀ L, Owns w ((str1.id, str1.size) :: L) → Owns w' ((r.id, r.size) :: L)) := by
  simp only [padStringsToSameLength, bind_run, size_ok h1, size_ok h2, liftE_ok]
  by_cases hgt : a.length > b.length
  · left
    simp only [hgt, if_true, bind_run]
    obtain ⟨r, w', hr, hh, hs, ho⟩ := padFirst_replaces h2 (a.length - b.length) c w
    simp only [hr, pure_run]
    exact ⟨r, w', rfl, ⟨_, hh⟩, hs, ho⟩
  · right
    simp only [hgt, if_false, bind_run]
    obtain ⟨r, w', hr, hh, hs, ho⟩ := padFirst_replaces h1 (b.length - a.length) c w
    simp only [hr, pure_run]
    exact ⟨r, w', rfl, ⟨_, hh⟩, hs, ho⟩

theorem has_of_get {st : Store} {l : String} {x : Obj} (h : st.get? l = some x) : st.has l = true := by
  rw [has_iff_mem_labels]
  simp only [labels, List.mem_map]
  exact ⟨(l, x), get?_mem h, rfl⟩

theorem holds_exists_of_mk {i : Nat} {a : Bytes} (h : NulFree a) : ∃ b, Holds (mkObj i a) b := ⟨a, holds_mkObj h⟩

theorem create_of_creates {st : Store} {w : World} {l : String} {m : M Obj} {a : Bytes}
    (hg : Good st w) (hm : Creates m w (fun r => Holds r a)) {st' : Store} {w' : World}
    (hs : create st l m w = .ok (st', w')) (hfit : Fits st') : Good st' w' :=
  create_good hg hm (fun _ h => ⟨a, h⟩) hs hfit

theorem pc_ctorRepeat (src : Buf) (sp k : Nat) : PC (ctorRepeat src sp k) := by
  intro w r w' h
  cases hl : StrLen src sp with
  | error e => simp [ctorRepeat, hl] at h
  | ok n =>
    obtain ⟨a, ha, _⟩ := StrLen_inv hl
    obtain ⟨r0, w0, h0, hh, hs, ho⟩ := ctorRepeat_creates ha k w
    rw [h0] at h
    injection h with h; injection h with h1 h2; subst h1 h2
    exact ⟨⟨_, hh⟩, hs, ho⟩

theorem replaceStr_pc {self : Obj} (hself : HasStr self) (hsz : Sized self) (to : Buf) (tp : Nat) (wb : Buf) (wp : Nat) :
    ∀ w r w', replaceStr self to tp wb wp w = .ok (r, w') →
      HasStr r ∧ Sized r ∧ ∀ L, Owns w ((self.id, self.size) :: L) → Owns w' ((r.id, r.size) :: L) := by
  intro w r w' h
  obtain ⟨a, ha⟩ := hself
  cases hl : StrLen to tp with
  | error e => simp [replaceStr, size_ok ha, hl] at h
  | ok n =>
    cases hl2 : StrLen wb wp with
    | error e => simp [replaceStr, size_ok ha, hl, hl2] at h
    | ok n2 =>
      obtain ⟨pat, hpat, _⟩ := StrLen_inv hl
      obtain ⟨rep, hrep, _⟩ := StrLen_inv hl2
      obtain ⟨r0, w0, h0, hh, hs, ho⟩ := replaceStr_replaces ha hsz hpat hrep w
      rw [h0] at h
      injection h with h; injection h with h1 h2; subst h1 h2
      exact ⟨⟨_, hh⟩, hs, ho⟩

/-- `replace(char, char)` for ANY replacement byte (a NUL shortens the string): in place -/
theorem replaceChar_any {self : Obj} {a : Bytes} (h : Holds self a) (to w : UInt8) :
    ∃ r, replaceChar self to w = .ok r ∧ Holds r (cut (Text.replaceByte a to w)) ∧ r.id = self.id ∧
      r.size = self.size ∧ r.buf.length = self.buf.length := by
  obtain ⟨b, h1, h2, post, h3⟩ := replaceChar_ok h to w
  refine ⟨_, h1, ?_, rfl, rfl, h2⟩
  show CAt b 0 _
  rw [h3]; exact cat_cut _ _

theorem pc_runFmt {st : Store} {w0 : World} (hg : Good st w0) : ∀ f : Fmt, PC (runFmt st f)
  | .plain => pc_stringFromFormat
  | .vplain => pc_vStringFromFormat
  | .cstr h => pc_ctorCStr h 0
  | .orNull h => pc_stringFromOrNull h
  | .printableOrNull h => pc_printableStringFromOrNull h
  | .copyOf a => by
    simp only [runFmt]
    cases hx : st.get? a with
    | none => intro w r w' h; simp at h
    | some o => exact pc_ctorCopy (hg.holds_of_get hx)
  | .pointer => pc_stringFromPointer
  | .hexSC neg => pc_hexStringFromSignedChar neg
  | .brackets => pc_with_temp pc_stringFromFormat (fun o ho => pc_brackets ho)
  | .bracketsSC neg => pc_with_temp (pc_hexStringFromSignedChar neg) (fun o ho => pc_brackets ho)
  | .bracketsStr a => by
    simp only [runFmt]
    cases hx : st.get? a with
    | none => intro w r w' h; simp at h
    | some o => exact pc_with_temp (pc_ctorCopy (hg.holds_of_get hx)) (fun o ho => pc_brackets ho)
  | .binary n => pc_stringFromBinary n
  | .binaryOrNull isNull n => pc_stringFromBinaryOrNull isNull n
  | .binarySize n => pc_stringFromBinaryWithSize false n
  | .binarySizeOrNull isNull n => pc_stringFromBinaryWithSizeOrNull isNull n
  | .masked v m k => pc_stringFromMaskedBits v m k

/-- creating object `l` from a computation in partial-correctness form -/
theorem create_of_pc {st : Store} {w : World} {l : String} {m : M Obj} (hg : Good st w) (hm : PC m)
    {st' : Store} {w' : World} (hs : create st l m w = .ok (st', w')) (hfit : Fits st') : Good st' w' := by
  simp only [create] at hs
  by_cases hh : st.has l = true
  · simp [hh, bad] at hs
  · have hh' : st.has l = false := Bool.eq_false_iff.mpr hh
    simp only [hh', Bool.false_eq_true, if_false] at hs
    obtain ⟨r, w1, hr, hs2⟩ := bind_ok_inv hs
    obtain ⟨⟨a, ha⟩, hsz, ho⟩ := hm _ _ _ hr
    have hc : Creates m w (fun o => Holds o a) := ⟨r, w1, hr, ha, hsz, ho⟩
    have hs' : create st l m w = .ok (st', w') := by
      simp only [create, hh', Bool.false_eq_true, if_false]; exact hs
    exact create_of_creates hg hc hs' hfit

/-! ### SimpleStringCollection -/

/-- every element and the `empty_` member are well-formed strings -/
def CollGood (col : Coll) : Prop :=
  (∀ o ∈ col.items, HasStr o ∧ Sized o) ∧ HasStr col.empty ∧ Sized col.empty

/-- the buffers a collection owns: one per element and one for `empty_` -/
def collOwned (col : Coll) : List (Nat × Nat) := (col.empty.id, col.empty.size) :: ownedObjs col.items

theorem dtorAllRev_total : ∀ (items : List Obj) (w : World), ∃ w', dtorAllRev items w = .ok ((), w')
  | [], w => ⟨w, rfl⟩
  | o :: rest, w => by
    obtain ⟨w1, h1⟩ := dtorAllRev_total rest w
    exact ⟨w1.free o.id o.size, by simp only [dtorAllRev, bind_run, h1, dtor_run]⟩

theorem dtorAllRev_owns' : ∀ (items : List Obj) (w w' : World) (L : List (Nat × Nat)),
    dtorAllRev items w = .ok ((), w') → Owns w (ownedObjs items ++ L) → Owns w' L
  | [], w, w', L, h, ho => by
    simp only [dtorAllRev, pure_run] at h
    injection h with h; injection h with _ h2; subst h2
    simpa [ownedObjs] using ho
  | o :: rest, w, w', L, h, ho => by
    simp only [dtorAllRev] at h
    obtain ⟨u, w1, h1, h2⟩ := bind_ok_inv h
    rw [dtor_run] at h2
    injection h2 with h2; injection h2 with _ h3; subst h3
    have ho' : Owns w (ownedObjs rest ++ ((o.id, o.size) :: L)) := by
      refine ho.perm ?_
      simp only [ownedObjs, List.map_cons, List.cons_append]
      exact List.perm_middle.symm
    exact (dtorAllRev_owns' rest w w1 _ h1 ho').free_head

/-- `allocate(n)`: the old elements are destroyed, `size()` becomes `n`, every element is the
    empty string; `empty_` is untouched -/
theorem collAllocate_ok (col : Coll) (n : Nat) (w : World) :
    ∃ items w', collAllocate col n w = .ok (⟨items, col.empty⟩, w') ∧ items.length = n ∧
      (∀ o ∈ items, Holds o [] ∧ Sized o) ∧
      ∀ L, Owns w (ownedObjs col.items ++ L) → Owns w' (ownedObjs items ++ L) := by
  obtain ⟨w1, h1⟩ := dtorAllRev_total col.items w
  obtain ⟨items, w2, h2, hl, hh, ho⟩ := ctorEmptyN_ok n w1
  refine ⟨items, w2, by simp only [collAllocate, bind_run, h1, h2, pure_run], hl, hh, fun L hL => ?_⟩
  exact ho L (dtorAllRev_owns' _ _ _ _ h1 hL)

/-- `col[i]` inside the range is the element, nothing else happens -/
theorem collGet_in_range {col : Coll} {i : Nat} {o : Obj} (h : col.items[i]? = some o) (w : World) :
    collGet col i w = .ok ((col, o), w) := by
  simp only [collGet, h, pure_run]

/-- `col[i]` past the end: `empty_` is reset to `""` and returned — so it reads as the empty
    string whatever was stored through an out-of-range index before -/
theorem collGet_out_of_range {col : Coll} {i : Nat} (h : col.items[i]? = none) (w : World) :
    collGet col i w =
      .ok ((⟨col.items, mkObj (w.next + 1) []⟩, mkObj (w.next + 1) []),
           (((w.alloc 1).free col.empty.id col.empty.size).alloc 1).free w.next 1) := by
  simp only [collGet, h, bind_run, ctorEmpty_ok, assign_ok _ (holds_mkObj nulFree_nil), dtor_run, pure_run]
  simp

/-- `col[i] = v` inside the range replaces that element's buffer -/
theorem collAssign_in_range {col : Coll} {i : Nat} {o value : Obj} {v : Bytes} (h : col.items[i]? = some o)
    (hv : Holds value v) (w : World) :
    collAssign col i value w =
      .ok (⟨col.items.set i (mkObj w.next v), col.empty⟩, (w.free o.id o.size).alloc (v.length + 1)) := by
  simp only [collAssign, h, bind_run, assign_ok o hv, pure_run]

/-- `col[i] = v` past the end lands in `empty_` (and is forgotten by the next out-of-range access) -/
theorem collAssign_out_of_range {col : Coll} {i : Nat} {value : Obj} {v : Bytes} (h : col.items[i]? = none)
    (hv : Holds value v) (w : World) :
    collAssign col i value w =
      .ok (⟨col.items, mkObj (w.next + 2) v⟩,
           (((((w.alloc 1).free col.empty.id col.empty.size).alloc 1).free w.next 1).free (w.next + 1) 1).alloc
             (v.length + 1)) := by
  simp only [collAssign, h, bind_run, ctorEmpty_ok, assign_ok _ (holds_mkObj nulFree_nil), dtor_run,
    assign_ok _ hv, pure_run]
  simp

theorem ownedObjs_split {items : List Obj} {i : Nat} {o : Obj} (h : items[i]? = some o) (o' : Obj) :
    (ownedObjs items).Perm ((o.id, o.size) :: ownedObjs (items.take i ++ items.drop (i + 1))) ∧
    (ownedObjs (items.set i o')).Perm ((o'.id, o'.size) :: ownedObjs (items.take i ++ items.drop (i + 1))) := by
  have hi : i < items.length := by
    rcases Nat.lt_or_ge i items.length with h' | h'
    · exact h'
    · rw [List.getElem?_eq_none h'] at h; cases h
  have e1 : items = items.take i ++ o :: items.drop (i + 1) := by
    conv => lhs; rw [← List.take_append_drop i items, List.drop_eq_getElem_cons hi]
    rw [List.getElem?_eq_getElem hi] at h
    rw [Option.some.inj h]
  have e2 : items.set i o' = items.take i ++ o' :: items.drop (i + 1) := by
    rw [List.set_eq_take_append_cons_drop, if_pos hi]
  constructor
  · conv => lhs; rw [e1]
    simp only [ownedObjs, List.map_append, List.map_cons]
    exact List.perm_middle
  · rw [e2]
    simp only [ownedObjs, List.map_append, List.map_cons]
    exact List.perm_middle

theorem collGood_set {col : Coll} (hc : CollGood col) (i : Nat) {o' : Obj} (h : HasStr o' ∧ Sized o') :
    CollGood ⟨col.items.set i o', col.empty⟩ := by
  refine ⟨fun o ho => ?_, hc.2⟩
  rcases List.mem_or_eq_of_mem_set ho with h1 | h1
  · exact hc.1 o h1
  · subst h1; exact h

/-- the actions of a `coll` operation keep the collection well-formed and its buffers paired -/
theorem runColl_pc {st : Store} {w0 : World} (hg : Good st w0) : ∀ (acts : List CollAct) (col : Coll) (w : World)
    (col' : Coll) (w' : World), CollGood col → runColl st acts col w = .ok (col', w') →
    CollGood col' ∧ ∀ L, Owns w (collOwned col ++ L) → Owns w' (collOwned col' ++ L)
  | [], col, w, col', w', hc, h => by
    simp only [runColl, pure_run] at h
    injection h with h; injection h with h1 h2; subst h1 h2
    exact ⟨hc, fun L hL => hL⟩
  | .alloc n :: rest, col, w, col', w', hc, h => by
    simp only [runColl] at h
    obtain ⟨c1, w1, h1, h2⟩ := bind_ok_inv h
    obtain ⟨items, w1', ha, _, hh, ho⟩ := collAllocate_ok col n w
    rw [ha] at h1
    injection h1 with h1; injection h1 with e1 e2; subst e1 e2
    have hc1 : CollGood ⟨items, col.empty⟩ := ⟨fun o ho' => ⟨⟨_, (hh o ho').1⟩, (hh o ho').2⟩, hc.2⟩
    obtain ⟨hc2, ho2⟩ := runColl_pc hg rest _ _ _ _ hc1 h2
    refine ⟨hc2, fun L hL => ho2 L ?_⟩
    have g := ho ((col.empty.id, col.empty.size) :: L) (hL.perm (by
      simp only [collOwned, List.cons_append]; exact List.perm_middle.symm))
    exact g.perm (by simp only [collOwned, List.cons_append]; exact List.perm_middle)
  | .set i a :: rest, col, w, col', w', hc, h => by
    simp only [runColl] at h
    cases hx : st.get? a with
    | none => simp [hx] at h
    | some x =>
      simp only [hx] at h
      obtain ⟨v, hv⟩ := hg.holds_of_get hx
      obtain ⟨c1, w1, h1, h2⟩ := bind_ok_inv h
      cases hi : col.items[i]? with
      | some o =>
        rw [collAssign_in_range hi hv] at h1
        injection h1 with h1; injection h1 with e1 e2; subst e1 e2
        have hc1 := collGood_set hc i (o' := mkObj w.next v) ⟨hasStr_mk _ hv.nulFree, sized_mkObj _ _⟩
        obtain ⟨hc2, ho2⟩ := runColl_pc hg rest _ _ _ _ hc1 h2
        refine ⟨hc2, fun L hL => ho2 L ?_⟩
        obtain ⟨p1, p2⟩ := ownedObjs_split hi (mkObj w.next v)
        have g1 : Owns w ((o.id, o.size) :: (col.empty.id, col.empty.size) ::
            (ownedObjs (col.items.take i ++ col.items.drop (i + 1)) ++ L)) := by
          refine hL.perm ?_
          simp only [collOwned, List.cons_append]
          exact ((List.Perm.cons _ (p1.append_right L)).trans (List.Perm.swap _ _ _))
        have g2 := (g1.free_head).alloc (v.length + 1)
        refine g2.perm ?_
        simp only [collOwned, List.cons_append, mkObj_id, mkObj_size, free_next]
        exact ((List.Perm.swap _ _ _).trans (List.Perm.cons _ (p2.append_right L).symm))
      | none =>
        rw [collAssign_out_of_range hi hv] at h1
        injection h1 with h1; injection h1 with e1 e2; subst e1 e2
        have hc1 : CollGood ⟨col.items, mkObj (w.next + 2) v⟩ := ⟨hc.1, hasStr_mk _ hv.nulFree, sized_mkObj _ _⟩
        obtain ⟨hc2, ho2⟩ := runColl_pc hg rest _ _ _ _ hc1 h2
        refine ⟨hc2, fun L hL => ho2 L ?_⟩
        have g1 : Owns w ((col.empty.id, col.empty.size) :: (ownedObjs col.items ++ L)) := by
          simpa [collOwned] using hL
        have g2 := ((g1.alloc 1).free_2nd).alloc 1
        have g3 := ((g2.free_2nd).free_head).alloc (v.length + 1)
        simpa [collOwned] using g3
  | .get i :: rest, col, w, col', w', hc, h => by
    simp only [runColl] at h
    obtain ⟨r, w1, h1, h2⟩ := bind_ok_inv h
    simp only [bind_run, out_run] at h2
    cases hi : col.items[i]? with
    | some o =>
      rw [collGet_in_range hi] at h1
      injection h1 with h1; injection h1 with e1 e2; subst e1 e2
      obtain ⟨hc2, ho2⟩ := runColl_pc hg rest _ _ _ _ hc h2
      exact ⟨hc2, fun L hL => ho2 L (hL.emit_out _)⟩
    | none =>
      rw [collGet_out_of_range hi] at h1
      injection h1 with h1; injection h1 with e1 e2; subst e1 e2
      have hc1 : CollGood ⟨col.items, mkObj (w.next + 1) []⟩ := ⟨hc.1, hasStr_mk _ nulFree_nil, sized_mkObj _ _⟩
      obtain ⟨hc2, ho2⟩ := runColl_pc hg rest _ _ _ _ hc1 h2
      refine ⟨hc2, fun L hL => ho2 L ?_⟩
      have g1 : Owns w ((col.empty.id, col.empty.size) :: (ownedObjs col.items ++ L)) := by
        simpa [collOwned] using hL
      have g2 := (((g1.alloc 1).free_2nd).alloc 1).free_2nd
      have g3 := g2.emit_out ("cval " ++ Proto.hex (cview (mkObj (w.next + 1) []).buf))
      simpa [collOwned] using g3
  | .size :: rest, col, w, col', w', hc, h => by
    simp only [runColl, bind_run, out_run] at h
    obtain ⟨hc2, ho2⟩ := runColl_pc hg rest _ _ _ _ hc h
    exact ⟨hc2, fun L hL => ho2 L (hL.emit_out _)⟩

/-- the whole `coll` operation leaves the store alone and nothing outstanding -/
theorem coll_op_ql {st : Store} {w0 : World} (hg : Good st w0) (acts : List CollAct) :
    QueryLike (do let col ← collCtor; let col ← runColl st acts col; collDtor col; pure st : M Store) st := by
  intro w s w' h
  simp only [collCtor] at h
  obtain ⟨c0, w1, h1, h2⟩ := bind_ok_inv h
  simp only [bind_run, ctorEmpty_ok, pure_run] at h1
  injection h1 with h1; injection h1 with e1 e2; subst e1 e2
  obtain ⟨c1, w2, h3, h4⟩ := bind_ok_inv h2
  have hc0 : CollGood ⟨[], mkObj w.next []⟩ := ⟨by simp, hasStr_mk _ nulFree_nil, sized_mkObj _ _⟩
  obtain ⟨hc1, ho1⟩ := runColl_pc hg acts _ _ _ _ hc0 h3
  obtain ⟨u0, w3', h4a, h4b⟩ := bind_ok_inv h4
  simp only [pure_run] at h4b
  injection h4b with h4b; injection h4b with e1 e2; subst e1 e2
  refine ⟨rfl, fun L hL => ?_⟩
  have g1 := ho1 L (by simpa [collOwned, ownedObjs] using hL.alloc 1)
  simp only [collDtor] at h4a
  obtain ⟨u1, w3, h5, h6⟩ := bind_ok_inv h4a
  rw [dtor_run] at h6
  injection h6 with h6; injection h6 with _ e2; subst e2
  have g2 : Owns w2 (ownedObjs c1.items ++ ((c1.empty.id, c1.empty.size) :: L)) := by
    refine g1.perm ?_
    simp only [collOwned, List.cons_append]; exact List.perm_middle.symm
  exact (dtorAllRev_owns' _ _ _ _ h5 g2).free_head

/-- **one operation keeps the invariant** — EVERY operation of the scripts, formatted construction
    included, whatever `vsnprintf` answered: if the operation succeeds in a good state (and the
    result stays within `size_t`), the state after it is good again: every object holds a string,
    recorded sizes are buffer sizes, and the allocator's outstanding buffers are exactly the live
    objects' buffers — every temporary was released once, with its requested size. -/
theorem step_good {st st' : Store} {w w' : World} {op : Op} (hg : Good st w)
    (hs : step st op w = .ok (st', w')) (hfit : Fits st') : Good st' w' := by
  cases op with
  | junk b =>
    simp only [step] at hs
    injection hs with hs; injection hs with h1 h2; subst h1 h2
    exact hg.silent (fun L hL => by obtain ⟨L0, a, b, c⟩ := hL; exact ⟨L0, a, b, c⟩)
  | new l h => exact create_of_pc hg (pc_ctorCStr h 0) hs hfit
  | newnull l => exact create_of_creates hg (ctorNull_creates w) hs hfit
  | rep l h k => exact create_of_pc hg (pc_ctorRepeat h 0 k) hs hfit
  | copy l a =>
    simp only [step] at hs
    cases hx : st.get? a with
    | none => simp [hx, bad] at hs
    | some x =>
      simp only [hx] at hs
      obtain ⟨s, hxs⟩ := hg.holds_of_get hx
      exact create_of_creates hg (ctorCopy_creates hxs w) hs hfit
  | assign l a =>
    simp only [step] at hs
    cases hx : st.get? l with
    | none => simp [hx, bad] at hs
    | some x =>
      cases hy : st.get? a with
      | none => simp [hx, hy, bad] at hs
      | some y =>
        simp only [hx, hy] at hs
        by_cases hla : (l == a) = true
        · simp only [hla, if_true] at hs
          exact query_good hg (silent_outVal x) hs
        · simp only [hla, Bool.false_eq_true, if_false] at hs
          obtain ⟨s, hys⟩ := hg.holds_of_get hy
          simp only [bind_run, assign_ok x hys, outVal_run, pure_run] at hs
          injection hs with hs; injection hs with h1 h2; subst h1 h2
          refine (put_good hg hx (holds_exists_of_mk hys.nulFree) (sized_mkObj _ _) (fun L hL => ?_) hfit).silent
            (fun L hL => hL.emit_out _)
          have := (hL.free_head).alloc (s.length + 1)
          simpa using this
  | plus l a b =>
    simp only [step] at hs
    cases hx : st.get? a with
    | none => simp [hx, bad] at hs
    | some x =>
      cases hy : st.get? b with
      | none => simp [hx, hy, bad] at hs
      | some y =>
        simp only [hx, hy] at hs
        obtain ⟨s, hxs⟩ := hg.holds_of_get hx
        obtain ⟨t, hyt⟩ := hg.holds_of_get hy
        exact create_of_creates hg (plus_creates hxs hyt w) hs hfit
  | pluseq l a =>
    simp only [step] at hs
    cases hx : st.get? l with
    | none => simp [hx, bad] at hs
    | some x =>
      cases hy : st.get? a with
      | none => simp [hx, hy, bad] at hs
      | some y =>
        simp only [hx, hy] at hs
        obtain ⟨s, hxs⟩ := hg.holds_of_get hx
        obtain ⟨t, hyt⟩ := hg.holds_of_get hy
        obtain ⟨r, w1, hr, hh, hsz, ho⟩ := appendC_replaces hxs hyt w
        simp only [bind_run, hr, outVal_run, pure_run] at hs
        injection hs with hs; injection hs with h1 h2; subst h1 h2
        exact (put_good hg hx ⟨_, hh⟩ hsz ho hfit).silent (fun L hL => hL.emit_out _)
  | pluseqc l h =>
    simp only [step] at hs
    cases hx : st.get? l with
    | none => simp [hx, bad] at hs
    | some x =>
      simp only [hx] at hs
      obtain ⟨r, w1, hr, hs2⟩ := bind_ok_inv hs
      obtain ⟨hh, hsz, ho⟩ := appendC_pc (hg.holds_of_get hx) _ _ _ _ _ hr
      simp only [bind_run, outVal_run, pure_run] at hs2
      injection hs2 with hs2; injection hs2 with h1 h2; subst h1 h2
      exact (put_good hg hx hh hsz ho hfit).silent (fun L hL => hL.emit_out _)
  | del l =>
    simp only [step] at hs
    cases hx : st.get? l with
    | none => simp [hx, bad] at hs
    | some x =>
      simp only [hx, bind_run, dtor_run, pure_run] at hs
      injection hs with hs; injection hs with h1 h2; subst h1 h2
      exact del_good hg hx (fun L hL => hL.free_head)
  | delall =>
    simp only [step, bind_run] at hs
    have hperm := List.mergeSort_perm st (fun a b => decide (a.1 ≤ b.1))
    have hown : Owns w (owned (st.mergeSort (fun a b => decide (a.1 ≤ b.1))) ++ []) := by
      simp only [List.append_nil]
      exact hg.owns.perm (hperm.symm.map _)
    obtain ⟨w1, h1, h2⟩ := delAll_owns _ w [] hown
    simp only [h1, pure_run] at hs
    injection hs with hs; injection hs with h3 h4; subst h3 h4
    exact ⟨by simp, by simp, by simp [Fits], by simp [labels], by simpa [owned] using h2⟩
  | eq a b => exact query2_good hg (fun x y _ _ => silent_bind (silent_liftE _) (fun r => silent_outBool _)) hs
  | ne a b => exact query2_good hg (fun x y _ _ => silent_bind (silent_liftE _) (fun r => silent_outBool _)) hs
  | eqnc a b =>
    refine query2_good hg (fun x y hx hy => ?_) hs
    obtain ⟨s, hxs⟩ := hg.holds_of_get hx
    obtain ⟨t, hyt⟩ := hg.holds_of_get hy
    exact silent_bind (silent_of_returns fun w => ⟨_, equalsNoCase_returns hxs hyt w⟩) (fun r => silent_outBool _)
  | contains a b => exact query2_good hg (fun x y _ _ => silent_bind (silent_liftE _) (fun r => silent_outBool _)) hs
  | containsnc a b =>
    refine query2_good hg (fun x y hx hy => ?_) hs
    obtain ⟨s, hxs⟩ := hg.holds_of_get hx
    obtain ⟨t, hyt⟩ := hg.holds_of_get hy
    exact silent_bind (silent_of_returns fun w => ⟨_, containsNoCase_returns hxs hyt w⟩) (fun r => silent_outBool _)
  | starts a b => exact query2_good hg (fun x y _ _ => silent_bind (silent_liftE _) (fun r => silent_outBool _)) hs
  | ends a b => exact query2_good hg (fun x y _ _ => silent_bind (silent_liftE _) (fun r => silent_outBool _)) hs
  | count a b => exact query2_good hg (fun x y _ _ => silent_bind (silent_liftE _) (fun r => silent_outNat _)) hs
  | find a c =>
    simp only [step] at hs
    cases hx : st.get? a with
    | none => simp [hx, bad] at hs
    | some x =>
      simp only [hx] at hs
      exact ql_good hg (ql_bind (silent_liftE _) fun r => ql_bind (silent_outNat _) fun _ => ql_pure st) hs
  | findfrom a p c =>
    simp only [step] at hs
    cases hx : st.get? a with
    | none => simp [hx, bad] at hs
    | some x =>
      simp only [hx] at hs
      exact ql_good hg (ql_bind (silent_liftE _) fun r => ql_bind (silent_outNat _) fun _ => ql_pure st) hs
  | «at» a p =>
    simp only [step] at hs
    cases hx : st.get? a with
    | none => simp [hx, bad] at hs
    | some x =>
      simp only [hx] at hs
      exact ql_good hg (ql_bind (silent_liftE _) fun r => ql_bind (silent_out _) fun _ => ql_pure st) hs
  | size a =>
    simp only [step] at hs
    cases hx : st.get? a with
    | none => simp [hx, bad] at hs
    | some x =>
      simp only [hx] at hs
      exact ql_good hg (ql_bind (silent_liftE _) fun r => ql_bind (silent_outNat _) fun _ => ql_pure st) hs
  | isempty a =>
    simp only [step] at hs
    cases hx : st.get? a with
    | none => simp [hx, bad] at hs
    | some x =>
      simp only [hx] at hs
      exact ql_good hg (ql_bind (silent_liftE _) fun r => ql_bind (silent_outBool _) fun _ => ql_pure st) hs
  | cstr a =>
    simp only [step] at hs
    cases hx : st.get? a with
    | none => simp [hx, bad] at hs
    | some x =>
      simp only [hx] at hs
      exact ql_good hg (ql_bind (silent_outVal _) fun _ => ql_pure st) hs
  | substr l a p n =>
    simp only [step] at hs
    cases hx : st.get? a with
    | none => simp [hx, bad] at hs
    | some x =>
      simp only [hx] at hs
      obtain ⟨s, hxs⟩ := hg.holds_of_get hx
      exact create_of_creates hg (subString_creates hxs p n w) hs hfit
  | substr1 l a p =>
    simp only [step] at hs
    cases hx : st.get? a with
    | none => simp [hx, bad] at hs
    | some x =>
      simp only [hx] at hs
      obtain ⟨s, hxs⟩ := hg.holds_of_get hx
      exact create_of_creates hg (subString1_creates hxs (hg.lt_of_get hx hxs) p w) hs hfit
  | fromtill l a c1 c2 =>
    simp only [step] at hs
    cases hx : st.get? a with
    | none => simp [hx, bad] at hs
    | some x =>
      simp only [hx] at hs
      obtain ⟨s, hxs⟩ := hg.holds_of_get hx
      exact create_of_creates hg (subStringFromTill_creates hxs (hg.lt_of_get hx hxs) c1 c2 w) hs hfit
  | lower l a =>
    simp only [step] at hs
    cases hx : st.get? a with
    | none => simp [hx, bad] at hs
    | some x =>
      simp only [hx] at hs
      obtain ⟨s, hxs⟩ := hg.holds_of_get hx
      exact create_of_creates hg (lowerCase_creates hxs w) hs hfit
  | printable l a =>
    simp only [step] at hs
    cases hx : st.get? a with
    | none => simp [hx, bad] at hs
    | some x =>
      simp only [hx] at hs
      exact create_of_pc hg (pc_printable x) hs hfit
  | split a d =>
    refine query2_good hg (fun x y hx hy => ?_) hs
    obtain ⟨s, hxs⟩ := hg.holds_of_get hx
    obtain ⟨t, hyt⟩ := hg.holds_of_get hy
    exact split_op_silent hxs hyt
  | fmt l f => exact create_of_pc hg (pc_runFmt hg f) hs hfit
  | replc a c1 c2 =>
    simp only [step] at hs
    cases hx : st.get? a with
    | none => simp [hx, bad] at hs
    | some x =>
      simp only [hx] at hs
      obtain ⟨s, hxs⟩ := hg.holds_of_get hx
      obtain ⟨r, hr, hh, hid, hsz, hlen⟩ := replaceChar_any hxs c1 c2
      simp only [bind_run, hr, liftE_ok, outVal_run, pure_run] at hs
      injection hs with hs; injection hs with h1 h2; subst h1 h2
      have hsx := hg.sized_of_get hx
      refine (put_good hg hx ⟨_, hh⟩ (by rw [Sized] at hsx ⊢; omega) (fun L hL => ?_) hfit).silent
        (fun L hL => hL.emit_out _)
      rw [hid, hsz]; exact hL
  | repl a h1 h2 =>
    simp only [step] at hs
    cases hx : st.get? a with
    | none => simp [hx, bad] at hs
    | some x =>
      simp only [hx] at hs
      obtain ⟨r, w1, hr, hs2⟩ := bind_ok_inv hs
      obtain ⟨hh, hsz, ho⟩ := replaceStr_pc (hg.holds_of_get hx) (hg.sized_of_get hx) _ _ _ _ _ _ _ hr
      simp only [bind_run, outVal_run, pure_run] at hs2
      injection hs2 with hs2; injection hs2 with h1 h2; subst h1 h2
      exact (put_good hg hx hh hsz ho hfit).silent (fun L hL => hL.emit_out _)
  | pad a b c =>
    simp only [step] at hs
    cases hx : st.get? a with
    | none => simp [hx, bad] at hs
    | some x =>
      cases hy : st.get? b with
      | none => simp [hx, hy, bad] at hs
      | some y =>
        simp only [hx, hy] at hs
        obtain ⟨s, hxs⟩ := hg.holds_of_get hx
        obtain ⟨t, hyt⟩ := hg.holds_of_get hy
        by_cases hab : (a == b) = true
        · simp only [hab, if_true] at hs
          obtain ⟨r, w1, hr, hh, hsz, ho⟩ := padFirst_replaces hxs 0 c w
          simp only [bind_run, hr, outVal_run, pure_run] at hs
          injection hs with hs; injection hs with h1 h2; subst h1 h2
          exact ((put_good hg hx ⟨_, hh⟩ hsz ho hfit).silent (fun L hL => hL.emit_out _)).silent
            (fun L hL => hL.emit_out _)
        · simp only [hab, Bool.false_eq_true, if_false] at hs
          have hab' : a ≠ b := by simpa using hab
          rcases padStringsToSameLength_cases hxs hyt c w with ⟨r, w1, hr, hh, hsz, ho⟩ | ⟨r, w1, hr, hh, hsz, ho⟩
          · simp only [bind_run, hr, outVal_run, pure_run] at hs
            injection hs with hs; injection hs with h1 h2; subst h1 h2
            rw [put_same hg.nodup hx] at hfit ⊢
            exact ((put_good hg hy hh hsz ho hfit).silent (fun L hL => hL.emit_out _)).silent
              (fun L hL => hL.emit_out _)
          · simp only [bind_run, hr, outVal_run, pure_run] at hs
            injection hs with hs; injection hs with h1 h2; subst h1 h2
            have hy' : (st.put a r).get? b = some y := by rw [get?_put_other r hab' (has_of_get hx)]; exact hy
            have hnd1 : (labels (st.put a r)).Nodup := by rw [labels_put r (has_of_get hx)]; exact hg.nodup
            rw [put_same hnd1 hy'] at hfit ⊢
            exact ((put_good hg hx hh hsz ho hfit).silent (fun L hL => hL.emit_out _)).silent
              (fun L hL => hL.emit_out _)
  | copybuf a n =>
    simp only [step] at hs
    cases hx : st.get? a with
    | none => simp [hx, bad] at hs
    | some x =>
      simp only [hx] at hs
      exact ql_good hg (ql_bind (silent_liftE _) fun r => ql_bind (silent_out _) fun _ => ql_pure st) hs
  | copybufnull a n =>
    simp only [step] at hs
    cases hx : st.get? a with
    | none => simp [hx, bad] at hs
    | some x =>
      simp only [hx] at hs
      exact ql_good hg (ql_bind (silent_liftE _) fun r => ql_bind (silent_out _) fun _ => ql_pure st) hs
  | strlen h => exact ql_good hg (ql_bind (silent_liftE _) fun r => ql_bind (silent_outNat _) fun _ => ql_pure st) hs
  | strcmp h1 h2 => exact ql_good hg (ql_bind (silent_liftE _) fun r => ql_bind (silent_outInt _) fun _ => ql_pure st) hs
  | strncmp h1 h2 n => exact ql_good hg (ql_bind (silent_liftE _) fun r => ql_bind (silent_outInt _) fun _ => ql_pure st) hs
  | strncpy d s n =>
    simp only [step] at hs
    cases d with
    | none => exact ql_good hg (ql_bind (silent_out _) fun _ => ql_pure st) hs
    | some d => exact ql_good hg (ql_bind (silent_liftE _) fun r => ql_bind (silent_out _) fun _ => ql_pure st) hs
  | strstr h1 h2 => exact ql_good hg (ql_bind (silent_liftE _) fun r => ql_bind (silent_out _) fun _ => ql_pure st) hs
  | memcmp h1 h2 n => exact ql_good hg (ql_bind (silent_liftE _) fun r => ql_bind (silent_outInt _) fun _ => ql_pure st) hs
  | atoi h => exact ql_good hg (ql_bind (silent_liftE _) fun r => ql_bind (silent_outInt _) fun _ => ql_pure st) hs
  | atou h => exact ql_good hg (ql_bind (silent_liftE _) fun r => ql_bind (silent_outNat _) fun _ => ql_pure st) hs
  | tolower c => exact ql_good hg (ql_bind (silent_out _) fun _ => ql_pure st) hs
  | coll acts =>
    simp only [step] at hs
    exact ql_good hg (coll_op_ql hg acts) hs
  | selfassignc l =>
    simp only [step] at hs
    cases hx : st.get? l with
    | none => simp [hx, bad] at hs
    | some x =>
      simp only [hx] at hs
      obtain ⟨v, hv⟩ := hg.holds_of_get hx
      simp only [bind_run, ctorCStr_ok hv, assign_ok x (holds_mkObj hv.nulFree), dtor_run, outVal_run, pure_run] at hs
      injection hs with hs; injection hs with h1 h2; subst h1 h2
      refine (put_good hg hx (hasStr_mk _ hv.nulFree) (sized_mkObj _ _) (fun L hL => ?_) hfit).silent
        (fun L hL => hL.emit_out _)
      have g := (((hL.alloc (v.length + 1)).free_2nd).alloc (v.length + 1)).free_2nd
      simpa using g
  | selfrepl l h =>
    simp only [step] at hs
    cases hx : st.get? l with
    | none => simp [hx, bad] at hs
    | some x =>
      simp only [hx] at hs
      obtain ⟨r, w1, hr, hs2⟩ := bind_ok_inv hs
      obtain ⟨hh, hsz, ho⟩ := replaceStr_pc (hg.holds_of_get hx) (hg.sized_of_get hx) _ _ _ _ _ _ _ hr
      simp only [bind_run, outVal_run, pure_run] at hs2
      injection hs2 with hs2; injection hs2 with h1 h2; subst h1 h2
      exact (put_good hg hx hh hsz ho hfit).silent (fun L hL => hL.emit_out _)
  | selfreplw l h =>
    simp only [step] at hs
    cases hx : st.get? l with
    | none => simp [hx, bad] at hs
    | some x =>
      simp only [hx] at hs
      obtain ⟨r, w1, hr, hs2⟩ := bind_ok_inv hs
      obtain ⟨hh, hsz, ho⟩ := replaceStr_pc (hg.holds_of_get hx) (hg.sized_of_get hx) _ _ _ _ _ _ _ hr
      simp only [bind_run, outVal_run, pure_run] at hs2
      injection hs2 with hs2; injection hs2 with h1 h2; subst h1 h2
      exact (put_good hg hx hh hsz ho hfit).silent (fun L hL => hL.emit_out _)
  | skip => exact ql_good hg (ql_pure st) hs


/-! ### whole histories -/

/-- a successful execution of a script (any operations, any `vsnprintf` answers), every
    intermediate store within `size_t` -/
inductive Run : Store → World → List Op → Store → World → Prop
  | nil (st : Store) (w : World) : Run st w [] st w
  | cons {st : Store} {w : World} {op : Op} {ops : List Op} {st1 : Store} {w1 : World} {st2 : Store} {w2 : World}
      (vs : List VsnRes) :                      -- what `vsnprintf` will answer during this operation
      step st op { w with vsn := vs } = .ok (st1, w1) → Fits st1 →
      Run st1 w1 ops st2 w2 → Run st w (op :: ops) st2 w2

theorem Good.setVsn {st : Store} {w : World} (hg : Good st w) (vs : List VsnRes) : Good st { w with vsn := vs } :=
  hg.silent (fun L hL => by obtain ⟨L0, a, b, c⟩ := hL; exact ⟨L0, a, b, c⟩)

theorem run_good {st st' : Store} {w w' : World} {ops : List Op} (hr : Run st w ops st' w') (hg : Good st w) :
    Good st' w' := by
  induction hr with
  | nil => exact hg
  | cons vs hs hfit _ ih => exact ih (step_good (hg.setVsn vs) hs hfit)

theorem run_append {st st1 st2 : Store} {w w1 w2 : World} {ops1 ops2 : List Op}
    (h1 : Run st w ops1 st1 w1) (h2 : Run st1 w1 ops2 st2 w2) : Run st w (ops1 ++ ops2) st2 w2 := by
  induction h1 with
  | nil => exact h2
  | cons vs hs hfit _ ih => exact Run.cons vs hs hfit (ih h2)

end SStr
