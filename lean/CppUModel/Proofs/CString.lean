import CppUModel.Base.CString
import CppUModel.Spec.TextExt
/-!
# The C-like primitives equal their textbook meaning (helper lemmas and the refinement proofs)

`CAt b p a` says: at offset `p` of buffer `b` there is the C string `a` (NUL-free bytes, then a
terminator, then anything).  Every theorem has the form
`CAt … → primitive … = .ok (textbook value)`: the primitive terminates, stays inside the
buffers (`.ok`), and returns the value of the list definition of `Spec/Text.lean` /
`Spec/TextExt.lean` — for all buffers, offsets, strings and counts.
-/
namespace CStr
open Text TextExt

/-! ### reading through `drop` -/

theorem rd_of_drop {b : Buf} {p : Nat} {x : UInt8} {rest : Buf} (h : b.drop p = x :: rest) :
    rd b p = .ok x := by
  have : b[p]? = some x := by
    have := List.getElem?_drop (xs := b) (i := p) (j := 0)
    rw [h] at this; simpa using this.symm
  simp [rd, this]

theorem drop_succ_of_drop {b : Buf} {p : Nat} {x : UInt8} {rest : Buf} (h : b.drop p = x :: rest) :
    b.drop (p + 1) = rest := by
  have := List.drop_drop (l := b) (i := 1) (j := p)
  rw [h] at this; simpa using this.symm

theorem drop_add_of_drop {b : Buf} {p : Nat} {u v : Buf} (h : b.drop p = u ++ v) :
    b.drop (p + u.length) = v := by
  have := List.drop_drop (l := b) (i := u.length) (j := p)
  rw [h] at this; simpa using this.symm

theorem lt_length_of_drop {b : Buf} {p : Nat} {x : UInt8} {rest : Buf} (h : b.drop p = x :: rest) :
    p < b.length := by
  rcases Nat.lt_or_ge p b.length with hp | hp
  · exact hp
  · rw [List.drop_eq_nil_of_le hp] at h; cases h

theorem length_of_drop {b : Buf} {p : Nat} {s : Buf} (h : b.drop p = s) (hs : s ≠ []) :
    p + s.length = b.length := by
  subst h
  have : p < b.length := by
    rcases Nat.lt_or_ge p b.length with hp | hp
    · exact hp
    · exact absurd (List.drop_eq_nil_of_le hp) hs
  simp; omega

/-! ### NUL-free strings -/

theorem nulFree_nil : NulFree [] := by simp [NulFree]

theorem nulFree_cons {x : UInt8} {a : Bytes} : NulFree (x :: a) ↔ x ≠ 0 ∧ NulFree a := by
  simp [NulFree]

theorem nulFree_append {a b : Bytes} : NulFree (a ++ b) ↔ NulFree a ∧ NulFree b := by
  simp only [NulFree, List.mem_append]
  constructor
  · intro h; exact ⟨fun c hc => h c (Or.inl hc), fun c hc => h c (Or.inr hc)⟩
  · rintro ⟨h1, h2⟩ c (hc | hc)
    · exact h1 c hc
    · exact h2 c hc

theorem nulFree_drop {a : Bytes} (h : NulFree a) (k : Nat) : NulFree (a.drop k) :=
  fun c hc => h c (List.mem_of_mem_drop hc)

theorem nulFree_take {a : Bytes} (h : NulFree a) (k : Nat) : NulFree (a.take k) :=
  fun c hc => h c (List.mem_of_mem_take hc)

theorem nulFree_map {a : Bytes} {f : UInt8 → UInt8} (hf : ∀ c, c ≠ 0 → f c ≠ 0) (h : NulFree a) :
    NulFree (a.map f) := by
  intro c hc
  simp only [List.mem_map] at hc
  obtain ⟨d, hd, rfl⟩ := hc
  exact hf d (h d hd)

theorem cut_of_nulFree {a : Bytes} (h : NulFree a) : cut a = a := by
  induction a with
  | nil => rfl
  | cons x a ih =>
    have ⟨hx, ha⟩ := nulFree_cons.mp h
    simp [cut, List.takeWhile_cons, hx]
    exact ih ha

theorem cut_append_zero {a post : Bytes} (h : NulFree a) : cut (a ++ 0 :: post) = a := by
  induction a with
  | nil => simp [cut]
  | cons x a ih =>
    have ⟨hx, ha⟩ := nulFree_cons.mp h
    simp [cut, List.takeWhile_cons, hx]
    exact ih ha

theorem nulFree_cut (a : Bytes) : NulFree (cut a) := by
  induction a with
  | nil => exact nulFree_nil
  | cons x a ih =>
    by_cases hx : x = 0
    · simp [cut, hx, NulFree]
    · have : cut (x :: a) = x :: cut a := by simp [cut, hx]
      rw [this]; exact nulFree_cons.mpr ⟨hx, ih⟩

theorem length_takeWhile_le (p : UInt8 → Bool) (a : Bytes) : (a.takeWhile p).length ≤ a.length := by
  induction a with
  | nil => simp
  | cons x a ih => by_cases hp : p x = true <;> simp [List.takeWhile_cons, hp]; omega

/-! ### "the C string `a` sits at offset `p` of `b`" -/

def CAt (b : Buf) (p : Nat) (a : Bytes) : Prop := NulFree a ∧ ∃ post, b.drop p = a ++ 0 :: post

theorem CAt.nulFree {b p a} (h : CAt b p a) : NulFree a := h.1

theorem CAt.nil_rd {b p} (h : CAt b p []) : rd b p = .ok 0 := by
  obtain ⟨_, post, hd⟩ := h
  exact rd_of_drop (by simpa using hd)

theorem CAt.cons_rd {b p x a} (h : CAt b p (x :: a)) : rd b p = .ok x := by
  obtain ⟨_, post, hd⟩ := h
  exact rd_of_drop (by simpa using hd)

theorem CAt.cons_ne {b p x a} (h : CAt b p (x :: a)) : x ≠ 0 := (nulFree_cons.mp h.1).1

theorem CAt.tail {b p x a} (h : CAt b p (x :: a)) : CAt b (p + 1) a := by
  obtain ⟨hn, post, hd⟩ := h
  exact ⟨(nulFree_cons.mp hn).2, post, drop_succ_of_drop (by simpa using hd)⟩

theorem CAt.drop {b p a} (h : CAt b p a) (k : Nat) (hk : k ≤ a.length) : CAt b (p + k) (a.drop k) := by
  induction k generalizing p a with
  | zero => simpa using h
  | succ k ih =>
    cases a with
    | nil => simp at hk
    | cons x a =>
      have := ih (h.tail) (by simpa using hk)
      simpa [Nat.add_assoc, Nat.add_comm 1 k] using this

theorem CAt.length_lt {b p a} (h : CAt b p a) : p + a.length < b.length := by
  obtain ⟨_, post, hd⟩ := h
  have := length_of_drop hd (by simp)
  simp at this; omega

/-- a freshly built exact-size buffer `a ++ [0]` -/
theorem CAt.mk_cz {a : Bytes} (h : NulFree a) : CAt (a ++ [0]) 0 a := ⟨h, [], by simp⟩

theorem CAt.of_append {a slack : Bytes} (h : NulFree a) : CAt (a ++ 0 :: slack) 0 a := ⟨h, slack, by simp⟩

theorem CAt.of_prefix {pre a slack : Bytes} (h : NulFree a) : CAt (pre ++ a ++ 0 :: slack) pre.length a :=
  ⟨h, slack, by simp⟩

/-- two strings at the same place are the same string -/
theorem CAt.unique {b p a a'} (h : CAt b p a) (h' : CAt b p a') : a = a' := by
  obtain ⟨hn, post, hd⟩ := h
  obtain ⟨hn', post', hd'⟩ := h'
  have : cut (b.drop p) = a := by rw [hd]; exact cut_append_zero hn
  rw [hd'] at this
  rw [cut_append_zero hn'] at this
  exact this.symm

/-! ### StrLen -/

theorem strLenLoop_ok : ∀ (a : Bytes) (b : Buf) (p n f : Nat), CAt b p a →
    a.length < f → strLenLoop b f p n = .ok (n + a.length)
  | [], b, p, n, f, h, hf => by
    cases f with
    | zero => simp at hf
    | succ f => simp [strLenLoop, h.nil_rd]
  | x :: a, b, p, n, f, h, hf => by
    cases f with
    | zero => simp at hf
    | succ f =>
      simp only [strLenLoop, h.cons_rd, h.cons_ne, if_false]
      rw [strLenLoop_ok a b (p + 1) (n + 1) f h.tail (by simpa using hf)]
      simp; omega

/-- **StrLen** returns the length, for every C string anywhere in any buffer -/
theorem StrLen_ok {b : Buf} {p : Nat} {a : Bytes} (h : CAt b p a) : StrLen b p = .ok a.length := by
  have := strLenLoop_ok a b p 0 (b.length + 1) h (by have := h.length_lt; omega)
  simpa [StrLen] using this

/-! ### StrCmp -/

theorem cmp_self (a : Bytes) : Text.cmp a a = 0 := by
  induction a with
  | nil => rfl
  | cons x a ih => simp [Text.cmp, ih]

/-- `cmp` is zero exactly for equal strings (NUL-free: a proper prefix differs at the terminator) -/
theorem cmp_eq_zero_iff : ∀ {a b : Bytes}, NulFree a → NulFree b → (Text.cmp a b = 0 ↔ a = b)
  | [], [], _, _ => by simp [Text.cmp]
  | [], y :: b, _, hb => by
    have hy := (nulFree_cons.mp hb).1
    have : y.toNat ≠ 0 := fun h => hy (UInt8.toNat_inj.mp (by simpa using h))
    simp [Text.cmp]; omega
  | x :: a, [], ha, _ => by
    have hx := (nulFree_cons.mp ha).1
    have : x.toNat ≠ 0 := fun h => hx (UInt8.toNat_inj.mp (by simpa using h))
    simp [Text.cmp]; omega
  | x :: a, y :: b, ha, hb => by
    by_cases hxy : x = y
    · subst hxy
      simp [Text.cmp, cmp_eq_zero_iff (nulFree_cons.mp ha).2 (nulFree_cons.mp hb).2]
    · have : x.toNat ≠ y.toNat := fun h => hxy (UInt8.toNat_inj.mp h)
      simp [Text.cmp, hxy]; omega

theorem strCmpLoop_ok : ∀ (a1 a2 : Bytes) (b1 b2 : Buf) (p1 p2 f : Nat), CAt b1 p1 a1 → CAt b2 p2 a2 →
    a1.length < f → strCmpLoop b1 b2 f p1 p2 = .ok (Text.cmp a1 a2)
  | [], [], b1, b2, p1, p2, f, h1, h2, hf => by
    cases f with
    | zero => simp at hf
    | succ f => simp [strCmpLoop, h1.nil_rd, h2.nil_rd, Text.cmp]
  | [], y :: a2, b1, b2, p1, p2, f, h1, h2, hf => by
    cases f with
    | zero => simp at hf
    | succ f => simp [strCmpLoop, h1.nil_rd, h2.cons_rd, Text.cmp]
  | x :: a1, [], b1, b2, p1, p2, f, h1, h2, hf => by
    cases f with
    | zero => simp at hf
    | succ f =>
      have hx := h1.cons_ne
      simp [strCmpLoop, h1.cons_rd, h2.nil_rd, Text.cmp, hx]
  | x :: a1, y :: a2, b1, b2, p1, p2, f, h1, h2, hf => by
    cases f with
    | zero => simp at hf
    | succ f =>
      have hx := h1.cons_ne
      by_cases hxy : x = y
      · subst hxy
        simp only [strCmpLoop, h1.cons_rd, h2.cons_rd, Text.cmp, hx, ne_eq, not_false_eq_true, and_self, if_true]
        exact strCmpLoop_ok a1 a2 b1 b2 (p1 + 1) (p2 + 1) f h1.tail h2.tail (by simpa using hf)
      · simp [strCmpLoop, h1.cons_rd, h2.cons_rd, Text.cmp, hxy]

/-- **StrCmp** returns the textbook comparison value -/
theorem StrCmp_ok {b1 b2 : Buf} {p1 p2 : Nat} {a1 a2 : Bytes} (h1 : CAt b1 p1 a1) (h2 : CAt b2 p2 a2) :
    StrCmp b1 p1 b2 p2 = .ok (Text.cmp a1 a2) :=
  strCmpLoop_ok a1 a2 b1 b2 p1 p2 (b1.length + 1) h1 h2 (by have := h1.length_lt; omega)

/-- `StrCmp … = 0` iff the two strings are equal -/
theorem StrCmp_zero_iff_eq {b1 b2 : Buf} {p1 p2 : Nat} {a1 a2 : Bytes} (h1 : CAt b1 p1 a1) (h2 : CAt b2 p2 a2) :
    StrCmp b1 p1 b2 p2 = .ok 0 ↔ a1 = a2 := by
  rw [StrCmp_ok h1 h2]
  constructor
  · intro h; exact (cmp_eq_zero_iff h1.1 h2.1).mp (by injection h)
  · intro h; rw [(cmp_eq_zero_iff h1.1 h2.1).mpr h]

/-! ### StrNCmp -/

theorem StrNCmp_ok : ∀ (n : Nat) (a1 a2 : Bytes) (b1 b2 : Buf) (p1 p2 : Nat), CAt b1 p1 a1 → CAt b2 p2 a2 →
    StrNCmp b1 p1 b2 p2 n = .ok (Text.ncmp n a1 a2)
  | 0, _, _, _, _, _, _, _, _ => by simp [StrNCmp, Text.ncmp]
  | n + 1, [], [], b1, b2, p1, p2, h1, h2 => by simp [StrNCmp, h1.nil_rd, h2.nil_rd, Text.ncmp]
  | n + 1, [], y :: a2, b1, b2, p1, p2, h1, h2 => by simp [StrNCmp, h1.nil_rd, h2.cons_rd, Text.ncmp]
  | n + 1, x :: a1, [], b1, b2, p1, p2, h1, h2 => by
    have hx := h1.cons_ne
    simp [StrNCmp, h1.cons_rd, h2.nil_rd, Text.ncmp, hx]
  | n + 1, x :: a1, y :: a2, b1, b2, p1, p2, h1, h2 => by
    have hx := h1.cons_ne
    by_cases hxy : x = y
    · subst hxy
      simp only [StrNCmp, h1.cons_rd, h2.cons_rd, Text.ncmp, hx, ne_eq, not_false_eq_true, and_self, if_true]
      exact StrNCmp_ok n a1 a2 b1 b2 (p1 + 1) (p2 + 1) h1.tail h2.tail
    · simp [StrNCmp, h1.cons_rd, h2.cons_rd, Text.ncmp, hxy]

/-- `ncmp n` is zero exactly when the first `n` bytes agree -/
theorem ncmp_eq_zero_iff : ∀ (n : Nat) {a b : Bytes}, NulFree a → NulFree b →
    (Text.ncmp n a b = 0 ↔ a.take n = b.take n)
  | 0, _, _, _, _ => by simp [Text.ncmp]
  | n + 1, [], [], _, _ => by simp [Text.ncmp]
  | n + 1, [], y :: b, _, hb => by
    have hy := (nulFree_cons.mp hb).1
    have : y.toNat ≠ 0 := fun h => hy (UInt8.toNat_inj.mp (by simpa using h))
    simp [Text.ncmp]; omega
  | n + 1, x :: a, [], ha, _ => by
    have hx := (nulFree_cons.mp ha).1
    have : x.toNat ≠ 0 := fun h => hx (UInt8.toNat_inj.mp (by simpa using h))
    simp [Text.ncmp]; omega
  | n + 1, x :: a, y :: b, ha, hb => by
    by_cases hxy : x = y
    · subst hxy
      simp [Text.ncmp, ncmp_eq_zero_iff n (nulFree_cons.mp ha).2 (nulFree_cons.mp hb).2]
    · have : x.toNat ≠ y.toNat := fun h => hxy (UInt8.toNat_inj.mp h)
      simp [Text.ncmp, hxy]; omega

theorem isPrefixOf_iff_take {b a : Bytes} : b.isPrefixOf a = true ↔ a.take b.length = b := by
  rw [List.isPrefixOf_iff_prefix]
  constructor
  · intro h; exact List.prefix_iff_eq_take.mp h |>.symm
  · intro h; rw [← h]; exact List.take_prefix _ _

/-- comparing the first `|b|` positions gives 0 exactly when `b` is a prefix of `a` -/
theorem ncmp_length_eq_zero_iff {a b : Bytes} (ha : NulFree a) (hb : NulFree b) :
    Text.ncmp b.length a b = 0 ↔ b.isPrefixOf a = true := by
  rw [ncmp_eq_zero_iff _ ha hb, isPrefixOf_iff_take]
  simp

/-! ### StrNCpy -/

theorem wr_ok {b : Buf} {i : Nat} (v : UInt8) (h : i < b.length) : wr b i v = .ok (b.set i v) := by
  simp [wr, h]

theorem wr_append {pre : Buf} {x : UInt8} {post : Buf} (v : UInt8) :
    wr (pre ++ x :: post) pre.length v = .ok (pre ++ v :: post) := by
  simp [wr]

/-- general form: `dst = pre ++ mid ++ post`, the copy overwrites exactly `mid` -/
theorem StrNCpy_ok_aux : ∀ (n : Nat) (a : Bytes) (src : Buf) (sp : Nat) (pre mid post : Buf),
    CAt src sp a → mid.length = min n (a.length + 1) →
    StrNCpy (pre ++ mid ++ post) pre.length src sp n = .ok (pre ++ (cz a).take n ++ post)
  | 0, a, src, sp, pre, mid, post, _, hm => by
    have : mid = [] := by simpa using hm
    simp [StrNCpy, this]
  | n + 1, [], src, sp, pre, mid, post, h, hm => by
    have hm' : mid.length = 1 := by simpa using hm
    match mid, hm' with
    | [m], _ =>
      have e : pre ++ [m] ++ post = pre ++ m :: post := by simp
      rw [e]
      simp only [StrNCpy, h.nil_rd, wr_append]
      simp [cz]
  | n + 1, x :: a, src, sp, pre, mid, post, h, hm => by
    have hx := h.cons_ne
    have hm' : mid.length = min n (a.length + 1) + 1 := by simp at hm ⊢; omega
    match mid, hm' with
    | m :: mid', hm'' =>
      have e : pre ++ m :: mid' ++ post = pre ++ m :: (mid' ++ post) := by simp
      rw [e]
      simp only [StrNCpy, h.cons_rd, wr_append, hx, if_false]
      have ih := StrNCpy_ok_aux n a src (sp + 1) (pre ++ [x]) mid' post h.tail (by simpa using hm'')
      simp only [List.length_append, List.length_cons, List.length_nil, List.append_assoc,
        List.cons_append, List.nil_append] at ih
      rw [ih]
      simp [cz]

/-- **StrNCpy** writes `(cz src).take n` at `dp` and touches nothing else (no zero padding) -/
theorem StrNCpy_ok {dst src : Buf} {dp sp n : Nat} {a : Bytes} (h : CAt src sp a)
    (hfit : dp + min n (a.length + 1) ≤ dst.length) :
    StrNCpy dst dp src sp n =
      .ok (dst.take dp ++ (cz a).take n ++ dst.drop (dp + min n (a.length + 1))) := by
  have hsplit : dst = dst.take dp ++ (dst.drop dp).take (min n (a.length + 1)) ++ dst.drop (dp + min n (a.length + 1)) := by
    rw [List.append_assoc, ← List.drop_drop, List.take_append_drop, List.take_append_drop]
  have hl : (dst.take dp).length = dp := by simp; omega
  have := StrNCpy_ok_aux n a src sp (dst.take dp) ((dst.drop dp).take (min n (a.length + 1)))
    (dst.drop (dp + min n (a.length + 1))) h (by simp; omega)
  rw [hl, ← hsplit] at this
  exact this

/-- the textbook form for a copy to the front of the destination -/
theorem StrNCpy_front {dst src : Buf} {sp n : Nat} {a : Bytes} (h : CAt src sp a)
    (hfit : min n (a.length + 1) ≤ dst.length) :
    StrNCpy dst 0 src sp n = .ok (TextExt.strNCpy dst a n) := by
  have := StrNCpy_ok (dst := dst) (dp := 0) (n := n) h (by simpa using hfit)
  simpa [TextExt.strNCpy] using this

/-! ### StrStr -/

theorem strStr_isSome_eq_isInfix : ∀ (a b : Bytes), (TextExt.strStr a b).isSome = Text.isInfix a b
  | [], b => by cases b <;> simp [TextExt.strStr, Text.isInfix]
  | x :: t, b => by
    by_cases hp : b.isPrefixOf (x :: t)
    · simp [TextExt.strStr, Text.isInfix, hp]
    · simp [TextExt.strStr, Text.isInfix, hp, strStr_isSome_eq_isInfix t b]

/-- what `strStr` returns is the LEAST position at which `b` occurs -/
theorem strStr_some_iff : ∀ (a b : Bytes) (i : Nat), TextExt.strStr a b = some i ↔
    (i ≤ a.length ∧ b.isPrefixOf (a.drop i) = true ∧ ∀ j < i, b.isPrefixOf (a.drop j) = false)
  | [], b, i => by
    cases b with
    | nil =>
      simp [TextExt.strStr]
      constructor
      · intro h; subst h; simp
      · rintro ⟨h, _⟩; exact h.symm
    | cons y b => simp [TextExt.strStr]
  | x :: t, b, i => by
    by_cases hp : b.isPrefixOf (x :: t)
    · simp only [TextExt.strStr, hp, if_true, Option.some.injEq]
      constructor
      · intro h; subst h; simp [hp]
      · rintro ⟨_, _, h3⟩
        rcases Nat.eq_zero_or_pos i with h0 | h0
        · exact h0.symm
        · have := h3 0 h0; simp [hp] at this
    · have hp' : b.isPrefixOf (x :: t) = false := Bool.eq_false_iff.mpr hp
      simp only [TextExt.strStr, hp, Bool.false_eq_true, if_false, Option.map_eq_some_iff]
      constructor
      · rintro ⟨k, hk, rfl⟩
        obtain ⟨h1, h2, h3⟩ := (strStr_some_iff t b k).mp hk
        refine ⟨by simp; omega, by simpa using h2, ?_⟩
        intro j hj
        cases j with
        | zero => simpa using hp'
        | succ j => simpa using h3 j (by omega)
      · rintro ⟨h1, h2, h3⟩
        cases i with
        | zero => simp [hp'] at h2
        | succ k =>
          refine ⟨k, (strStr_some_iff t b k).mpr ⟨by simpa using h1, by simpa using h2, ?_⟩, rfl⟩
          intro j hj
          simpa using h3 (j + 1) (by omega)

theorem strStr_nil_right (a : Bytes) : TextExt.strStr a [] = some 0 := by
  cases a <;> simp [TextExt.strStr]

theorem strStrLoop_ok : ∀ (a1 : Bytes) (a2 : Bytes) (b1 b2 : Buf) (p1 p2 f : Nat), CAt b1 p1 a1 → CAt b2 p2 a2 →
    a2 ≠ [] → a1.length < f →
    strStrLoop b1 b2 p2 f p1 = .ok ((TextExt.strStr a1 a2).map (· + p1))
  | [], a2, b1, b2, p1, p2, f, h1, h2, hne, hf => by
    cases f with
    | zero => simp at hf
    | succ f =>
      cases a2 with
      | nil => exact absurd rfl hne
      | cons y a2 => simp [strStrLoop, h1.nil_rd, TextExt.strStr]
  | x :: a1, a2, b1, b2, p1, p2, f, h1, h2, hne, hf => by
    cases f with
    | zero => simp at hf
    | succ f =>
      have hx := h1.cons_ne
      simp only [strStrLoop, h1.cons_rd, hx, if_false, StrLen_ok h2, StrNCmp_ok _ _ _ _ _ _ _ h1 h2]
      by_cases hp : a2.isPrefixOf (x :: a1)
      · have := (ncmp_length_eq_zero_iff h1.1 h2.1).mpr hp
        simp [this, TextExt.strStr, hp]
      · have : Text.ncmp a2.length (x :: a1) a2 ≠ 0 := fun h => hp ((ncmp_length_eq_zero_iff h1.1 h2.1).mp h)
        simp only [this, if_false, TextExt.strStr, hp, Bool.false_eq_true]
        rw [strStrLoop_ok a1 a2 b1 b2 (p1 + 1) p2 f h1.tail h2 hne (by simpa using hf)]
        cases TextExt.strStr a1 a2 <;> simp; omega

/-- **StrStr** returns the first position at which the pattern occurs (as an offset in `b1`),
    or NULL — the empty pattern is found at the start -/
theorem StrStr_ok {b1 b2 : Buf} {p1 p2 : Nat} {a1 a2 : Bytes} (h1 : CAt b1 p1 a1) (h2 : CAt b2 p2 a2) :
    StrStr b1 p1 b2 p2 = .ok ((TextExt.strStr a1 a2).map (· + p1)) := by
  cases a2 with
  | nil => simp [StrStr, h2.nil_rd, strStr_nil_right]
  | cons y a2 =>
    have hy := h2.cons_ne
    simp only [StrStr, h2.cons_rd, hy, if_false]
    exact strStrLoop_ok a1 (y :: a2) b1 b2 p1 p2 (b1.length + 1) h1 h2 (by simp) (by have := h1.length_lt; omega)

/-- `StrStr` finds something iff the pattern is an infix -/
theorem StrStr_isSome_iff_isInfix {b1 b2 : Buf} {p1 p2 : Nat} {a1 a2 : Bytes} (h1 : CAt b1 p1 a1) (h2 : CAt b2 p2 a2) :
    (StrStr b1 p1 b2 p2).map Option.isSome = .ok (Text.isInfix a1 a2) := by
  rw [StrStr_ok h1 h2]
  simp [Except.map, ← strStr_isSome_eq_isInfix]

/-! ### MemCmp -/

theorem MemCmp_ok : ∀ (n : Nat) (b1 b2 : Buf) (p1 p2 : Nat), n ≤ (b1.drop p1).length → n ≤ (b2.drop p2).length →
    MemCmp b1 p1 b2 p2 n = .ok (TextExt.memCmp n (b1.drop p1) (b2.drop p2))
  | 0, _, _, _, _, _, _ => by simp [MemCmp, TextExt.memCmp]
  | n + 1, b1, b2, p1, p2, h1, h2 => by
    match hd1 : b1.drop p1, hd2 : b2.drop p2 with
    | [], _ => rw [hd1] at h1; simp at h1
    | _ :: _, [] => rw [hd2] at h2; simp at h2
    | x :: r1, y :: r2 =>
      rw [hd1] at h1; rw [hd2] at h2
      simp only [MemCmp, rd_of_drop hd1, rd_of_drop hd2, TextExt.memCmp]
      by_cases hxy : x = y
      · subst hxy
        simp only [ne_eq, not_true_eq_false, if_false, if_true]
        rw [MemCmp_ok n b1 b2 (p1 + 1) (p2 + 1) (by rw [drop_succ_of_drop hd1]; simpa using h1)
          (by rw [drop_succ_of_drop hd2]; simpa using h2), drop_succ_of_drop hd1, drop_succ_of_drop hd2]
      · simp [hxy]

/-! ### character classes, ToLower -/

theorem toNat_lt (c : UInt8) : c.toNat < 256 := c.toNat_lt

theorem ToLower_eq_lowerByte (c : UInt8) : ToLower c = Text.lowerByte c := by
  simp only [ToLower, isUpper, Text.lowerByte, Bool.and_eq_true, decide_eq_true_eq]

theorem isSpace_eq_isBlank (c : UInt8) : isSpace c = TextExt.isBlank c := by
  have h := c.toNat_lt
  simp only [isSpace, TextExt.isBlank]
  by_cases h1 : c = 32
  · subst h1; decide
  · have e1 : (8 < c) = (9 ≤ c) := by
      simp only [UInt8.lt_iff_toNat_lt, UInt8.le_iff_toNat_le]; apply propext; constructor <;> intro h <;> simp at * <;> omega
    have e2 : (c < 14) = (c ≤ 13) := by
      simp only [UInt8.lt_iff_toNat_lt, UInt8.le_iff_toNat_le]; apply propext; constructor <;> intro h <;> simp at * <;> omega
    simp [e1, e2]

theorem isDigit_eq (c : UInt8) : isDigit c = TextExt.isDigit c := rfl

theorem lowerByte_ne_zero (c : UInt8) (h : c ≠ 0) : Text.lowerByte c ≠ 0 := by
  simp only [Text.lowerByte]
  split
  · next hc =>
    intro h0
    have h1 : (65 : UInt8).toNat ≤ c.toNat := UInt8.le_iff_toNat_le.mp hc.1
    have h2 : c.toNat ≤ (90 : UInt8).toNat := UInt8.le_iff_toNat_le.mp hc.2
    have : (c + 32).toNat = 0 := by rw [h0]; rfl
    rw [UInt8.toNat_add] at this
    simp at h1 h2 this
    omega
  · exact h

/-! ### AtoU / AtoI -/

theorem skipSpaces_ok : ∀ (a : Bytes) (b : Buf) (p f : Nat), CAt b p a → a.length < f →
    skipSpaces b f p = .ok (p + (a.takeWhile TextExt.isBlank).length)
  | [], b, p, f, h, hf => by
    cases f with
    | zero => simp at hf
    | succ f =>
      have : isSpace 0 = false := by decide
      simp [skipSpaces, h.nil_rd, this]
  | x :: a, b, p, f, h, hf => by
    cases f with
    | zero => simp at hf
    | succ f =>
      simp only [skipSpaces, h.cons_rd, isSpace_eq_isBlank, List.takeWhile_cons]
      by_cases hb : TextExt.isBlank x = true
      · simp only [hb, if_true]
        rw [skipSpaces_ok a b (p + 1) f h.tail (by simpa using hf)]
        simp; omega
      · simp [hb]

theorem dropWhile_eq_drop_takeWhile (p : UInt8 → Bool) (a : Bytes) :
    a.dropWhile p = a.drop (a.takeWhile p).length := by
  induction a with
  | nil => rfl
  | cons x a ih =>
    by_cases hp : p x = true
    · simp [List.dropWhile_cons, List.takeWhile_cons, hp, ih]
    · simp [List.dropWhile_cons, List.takeWhile_cons, hp]

theorem isDigit_zero : TextExt.isDigit 0 = false := by decide

/-- wrap-around at every step equals wrap-around of the final value -/
theorem digitsVal_mod (ds : Bytes) : ∀ (r : Nat),
    TextExt.digitsVal (r % 4294967296) ds % 4294967296 = TextExt.digitsVal r ds % 4294967296 := by
  induction ds with
  | nil => intro r; simp [TextExt.digitsVal]
  | cons d ds ih =>
    intro r
    simp only [TextExt.digitsVal, List.foldl_cons] at ih ⊢
    rw [← ih ((r % 4294967296) * 10 + (d.toNat - 48)), ← ih (r * 10 + (d.toNat - 48))]
    congr 2
    omega

theorem atoULoop_ok' : ∀ (a : Bytes) (b : Buf) (p f r : Nat), CAt b p a → a.length < f → r < 4294967296 →
    atoULoop b f p r = .ok (if a.takeWhile TextExt.isDigit = [] then r
      else TextExt.digitsVal r (a.takeWhile TextExt.isDigit) % 4294967296)
  | [], b, p, f, r, h, hf, _ => by
    cases f with
    | zero => simp at hf
    | succ f => simp [atoULoop, h.nil_rd, isDigit_eq, isDigit_zero]
  | x :: a, b, p, f, r, h, hf, hr => by
    cases f with
    | zero => simp at hf
    | succ f =>
      simp only [atoULoop, h.cons_rd, isDigit_eq, List.takeWhile_cons]
      by_cases hd : TextExt.isDigit x = true
      · simp only [hd, if_true]
        rw [atoULoop_ok' a b (p + 1) f _ h.tail (by simpa using hf) (Nat.mod_lt _ (by decide))]
        split
        · next he => simp [he, TextExt.digitsVal]
        · simp only [TextExt.digitsVal, List.foldl_cons, reduceCtorEq, if_false]
          exact congrArg Except.ok (digitsVal_mod _ _)
      · simp [hd]

/-- **AtoU** = blanks skipped, leading digits, value mod 2^32 (a sign gives 0) -/
theorem AtoU_ok {b : Buf} {p : Nat} {a : Bytes} (h : CAt b p a) : AtoU b p = .ok (TextExt.atou a) := by
  have hs := skipSpaces_ok a b p (b.length + 1) h (by have := h.length_lt; omega)
  simp only [AtoU, hs]
  have h' := h.drop (a.takeWhile TextExt.isBlank).length (length_takeWhile_le _ _)
  rw [atoULoop_ok' _ b _ (b.length + 1) 0 h' (by
    have := h.length_lt; simp; omega) (by decide)]
  simp only [TextExt.atou, TextExt.leadingNumber, dropWhile_eq_drop_takeWhile]
  split
  · next he => simp [he, TextExt.digitsVal]
  · rfl

theorem digitsVal_ge (ds : Bytes) : ∀ r, r ≤ TextExt.digitsVal r ds := by
  induction ds with
  | nil => intro r; simp [TextExt.digitsVal]
  | cons d ds ih =>
    intro r
    simp only [TextExt.digitsVal, List.foldl_cons] at ih ⊢
    exact Nat.le_trans (by omega) (ih _)

theorem atoILoop_ok : ∀ (a : Bytes) (b : Buf) (p f r : Nat), CAt b p a → a.length < f →
    TextExt.digitsVal r (a.takeWhile TextExt.isDigit) ≤ 2147483647 →
    atoILoop b f p r = .ok (TextExt.digitsVal r (a.takeWhile TextExt.isDigit))
  | [], b, p, f, r, h, hf, _ => by
    cases f with
    | zero => simp at hf
    | succ f => simp [atoILoop, h.nil_rd, isDigit_eq, isDigit_zero, TextExt.digitsVal]
  | x :: a, b, p, f, r, h, hf, hfit => by
    cases f with
    | zero => simp at hf
    | succ f =>
      simp only [atoILoop, h.cons_rd, isDigit_eq, List.takeWhile_cons] at hfit ⊢
      by_cases hd : TextExt.isDigit x = true
      · simp only [hd, if_true, TextExt.digitsVal, List.foldl_cons] at hfit ⊢
        have hge := digitsVal_ge (a.takeWhile TextExt.isDigit) (r * 10 + (x.toNat - 48))
        simp only [TextExt.digitsVal] at hge
        have : ¬ (r * 10 + (x.toNat - 48) > 2147483647) := by omega
        simp only [this, if_false]
        exact atoILoop_ok a b (p + 1) f _ h.tail (by simpa using hf) hfit
      · simp [hd, TextExt.digitsVal]

/-- **AtoI** = blanks skipped, one optional sign, leading digits — whenever the magnitude fits `int`
    (beyond that the C code overflows a signed `int`; the model reports `Err.overflow`) -/
theorem AtoI_ok {b : Buf} {p : Nat} {a : Bytes} (h : CAt b p a) (hfit : TextExt.atoiMagnitude a ≤ 2147483647) :
    AtoI b p = .ok (TextExt.atoi a) := by
  have hs := skipSpaces_ok a b p (b.length + 1) h (by have := h.length_lt; omega)
  have h' := h.drop (a.takeWhile TextExt.isBlank).length (length_takeWhile_le _ _)
  have hlen : (a.drop (a.takeWhile TextExt.isBlank).length).length < b.length + 1 := by
    have := h.length_lt; simp; omega
  simp only [AtoI, hs]
  simp only [TextExt.atoi, TextExt.atoiMagnitude, dropWhile_eq_drop_takeWhile] at hfit ⊢
  generalize hrest : a.drop (a.takeWhile TextExt.isBlank).length = rest at h' hfit hlen
  match rest, h', hfit, hlen with
  | [], h', hfit, hlen =>
    simp only [h'.nil_rd]
    rw [atoILoop_ok [] b _ _ 0 (by simpa using h') (by simp) (by simp [TextExt.digitsVal])]
    simp [TextExt.leadingNumber, TextExt.digitsVal]
  | x :: r, h', hfit, hlen =>
    simp only [h'.cons_rd]
    by_cases h45 : x = 45
    · subst h45
      simp only [true_or, if_true] at hfit ⊢
      rw [atoILoop_ok r b _ _ 0 h'.tail (by simp at hlen; omega) (by simpa [TextExt.leadingNumber] using hfit)]
      simp [TextExt.leadingNumber]
    · by_cases h43 : x = 43
      · subst h43
        simp only [or_true, if_true] at hfit ⊢
        rw [atoILoop_ok r b _ _ 0 h'.tail (by simp at hlen; omega) (by simpa [TextExt.leadingNumber] using hfit)]
        simp [TextExt.leadingNumber]
      · have hfit' : TextExt.leadingNumber (x :: r) ≤ 2147483647 := by
          split at hfit
          all_goals first | exact hfit | simp_all
        simp only [h45, h43, or_self, if_false]
        rw [atoILoop_ok (x :: r) b _ _ 0 h' (by simpa using hlen) (by simpa [TextExt.leadingNumber] using hfit')]
        simp only [h45, if_false]
        congr 1
        split
        · next heq => injection heq with h1 _; exact absurd h1 h45
        · next heq => injection heq with h1 _; exact absurd h1 h43
        · simp [TextExt.leadingNumber]

/-! ### AtoI on a string given by its parts: blanks, optional sign, digits, rest -/

theorem dropWhile_append_of_all {p : UInt8 → Bool} : ∀ (xs ys : Bytes), (∀ c ∈ xs, p c = true) →
    (∀ c, ys.head? = some c → p c = false) → (xs ++ ys).dropWhile p = ys
  | [], ys, _, hy => by
    cases ys with
    | nil => rfl
    | cons y t => simp [List.dropWhile_cons, hy y rfl]
  | x :: xs, ys, hx, hy => by
    have : p x = true := hx x (by simp)
    simp only [List.cons_append, List.dropWhile_cons, this, if_true]
    exact dropWhile_append_of_all xs ys (fun c hc => hx c (by simp [hc])) hy

theorem takeWhile_append_of_all {p : UInt8 → Bool} : ∀ (xs ys : Bytes), (∀ c ∈ xs, p c = true) →
    (∀ c, ys.head? = some c → p c = false) → (xs ++ ys).takeWhile p = xs
  | [], ys, _, hy => by
    cases ys with
    | nil => rfl
    | cons y t => simp [List.takeWhile_cons, hy y rfl]
  | x :: xs, ys, hx, hy => by
    have : p x = true := hx x (by simp)
    simp only [List.cons_append, List.takeWhile_cons, this, if_true]
    rw [takeWhile_append_of_all xs ys (fun c hc => hx c (by simp [hc])) hy]

/-- `digitsVal` is the positional (Horner) value: appending a digit multiplies by ten and adds it -/
theorem digitsVal_append (acc : Nat) (ds : Bytes) (d : UInt8) :
    TextExt.digitsVal acc (ds ++ [d]) = TextExt.digitsVal acc ds * 10 + (d.toNat - 48) := by
  simp [TextExt.digitsVal, List.foldl_append]

theorem leadingNumber_parts (digits rest : Bytes) (hd : ∀ c ∈ digits, TextExt.isDigit c = true)
    (hr : ∀ c, rest.head? = some c → TextExt.isDigit c = false) :
    TextExt.leadingNumber (digits ++ rest) = TextExt.digitsVal 0 digits := by
  simp only [TextExt.leadingNumber, takeWhile_append_of_all digits rest hd hr]

/-- the textbook reading of `blanks sign digits rest`: the digits' value with the sign -/
theorem atoi_parts (blanks sign digits rest : Bytes) (hb : ∀ c ∈ blanks, TextExt.isBlank c = true)
    (hs : sign = [] ∨ sign = [43] ∨ sign = [45])
    (hd : ∀ c ∈ digits, TextExt.isDigit c = true)
    (hr : ∀ c, rest.head? = some c → TextExt.isDigit c = false)
    (hfirst : sign = [] → ∀ c, (digits ++ rest).head? = some c → TextExt.isBlank c = false ∧ c ≠ 43 ∧ c ≠ 45) :
    TextExt.atoi (blanks ++ sign ++ digits ++ rest) =
        (if sign = [45] then - (TextExt.digitsVal 0 digits : Int) else (TextExt.digitsVal 0 digits : Int)) ∧
      TextExt.atoiMagnitude (blanks ++ sign ++ digits ++ rest) = TextExt.digitsVal 0 digits := by
  have hln := leadingNumber_parts digits rest hd hr
  rcases hs with rfl | rfl | rfl
  · -- no sign
    have hdrop : (blanks ++ [] ++ digits ++ rest).dropWhile TextExt.isBlank = digits ++ rest := by
      simp only [List.append_nil, List.append_assoc]
      exact dropWhile_append_of_all blanks (digits ++ rest) hb (fun c hc => (hfirst rfl c hc).1)
    simp only [TextExt.atoi, TextExt.atoiMagnitude, hdrop]
    cases hdr : digits ++ rest with
    | nil => simp [hdr] at hln ⊢; simp [TextExt.leadingNumber, TextExt.digitsVal] at hln ⊢; omega
    | cons c t =>
      have hc := hfirst rfl c (by rw [hdr]; rfl)
      rw [hdr] at hln
      have h45 : c ≠ 45 := hc.2.2
      have h43 : c ≠ 43 := hc.2.1
      constructor
      · split
        · next heq => injection heq with e _; exact absurd e h45
        · next heq => injection heq with e _; exact absurd e h43
        · simp [hln]
      · split
        · next heq => injection heq with e _; exact absurd e h45
        · next heq => injection heq with e _; exact absurd e h43
        · exact hln
  · have hdrop : (blanks ++ [43] ++ digits ++ rest).dropWhile TextExt.isBlank = 43 :: (digits ++ rest) := by
      have : blanks ++ [43] ++ digits ++ rest = blanks ++ (43 :: (digits ++ rest)) := by simp
      rw [this]
      exact dropWhile_append_of_all blanks _ hb (fun c hc => by
        simp only [List.head?_cons, Option.some.injEq] at hc; subst hc; decide)
    simp only [TextExt.atoi, TextExt.atoiMagnitude, hdrop, hln]
    simp
  · have hdrop : (blanks ++ [45] ++ digits ++ rest).dropWhile TextExt.isBlank = 45 :: (digits ++ rest) := by
      have : blanks ++ [45] ++ digits ++ rest = blanks ++ (45 :: (digits ++ rest)) := by simp
      rw [this]
      exact dropWhile_append_of_all blanks _ hb (fun c hc => by
        simp only [List.head?_cons, Option.some.injEq] at hc; subst hc; decide)
    simp only [TextExt.atoi, TextExt.atoiMagnitude, hdrop, hln]
    simp

/-- **AtoI, general form**: for every C string `blanks ++ sign ++ digits ++ rest` (any number of
    blanks 0x20/9…13, at most one sign, any number of digits, anything that does not start with
    a digit — and, without a sign, nothing blank or sign-like right after the blanks) whose
    digit value fits `int`, `AtoI` returns that value with the sign -/
theorem AtoI_parts {b : Buf} {p : Nat} (blanks sign digits rest : Bytes)
    (h : CAt b p (blanks ++ sign ++ digits ++ rest))
    (hb : ∀ c ∈ blanks, TextExt.isBlank c = true) (hs : sign = [] ∨ sign = [43] ∨ sign = [45])
    (hd : ∀ c ∈ digits, TextExt.isDigit c = true)
    (hr : ∀ c, rest.head? = some c → TextExt.isDigit c = false)
    (hfirst : sign = [] → ∀ c, (digits ++ rest).head? = some c → TextExt.isBlank c = false ∧ c ≠ 43 ∧ c ≠ 45)
    (hfit : TextExt.digitsVal 0 digits ≤ 2147483647) :
    AtoI b p = .ok (if sign = [45] then - (TextExt.digitsVal 0 digits : Int) else (TextExt.digitsVal 0 digits : Int)) := by
  obtain ⟨h1, h2⟩ := atoi_parts blanks sign digits rest hb hs hd hr hfirst
  rw [AtoI_ok h (by rw [h2]; exact hfit), h1]

end CStr
