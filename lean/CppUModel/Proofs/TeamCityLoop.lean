import CppUModel.Model.TeamCityLoop
/-!
The registry loop executed from its regenerated statement list (`Model/TeamCityLoop.lean`) produces exactly the events of
the hand-written loop `OutEv.loop` / `OutEv.runAll` (Model/OutputEvents.lean).
-/
namespace RunLoop
open OutEv
open Gen.RunAllTestsLoop (Stmt Cond body before after groupStartInit)

/-- OBLIGATION over `Gen.RunAllTestsLoop.body`: one pass through the source's loop body = one step of the hand-written loop
    (same events, same counters, same `groupStart`, same group time stamp), for every test, filter and state. -/
theorem body_eq (flt : Option Filter) (t : Script) (rest : List Script) (gs : Bool) (g0 t0 : Nat) (r : R) :
    stmtsRun flt t rest body ⟨gs, g0, t0, r⟩ =
      (⟨endOfGroup t rest, if gs then r.clock else g0, if shouldRun flt t.info then r.clock else t0, bodyR flt t r⟩,
       startEvs gs t ++ bodyEvs flt t r ++ endEvs t rest (if gs then r.clock else g0) (bodyR flt t r)) := by
  cases gs <;> cases hs : shouldRun flt t.info <;> cases he : endOfGroup t rest <;> cases hw : t.info.willRun <;>
    simp [stmtsRun, stmtRun, condRun, actsRun, actRun, body, startEvs, bodyEvs, bodyR, endEvs, testEvs, afterTest, countTest,
      countFiltered, hs, he, hw]

theorem loopGen_eq (flt : Option Filter) : ∀ (tests : List Script) (gs : Bool) (g0 t0 : Nat) (r : R),
    loopGen flt ⟨gs, g0, t0, r⟩ tests = loop flt gs g0 r tests
  | [], gs, g0, t0, r => by simp [loopGen, after, actsRun, actRun, loop]
  | t :: rest, gs, g0, t0, r => by
    simp only [loopGen, loop, body_eq]
    rw [loopGen_eq flt rest]

/-- OBLIGATION over `Gen/RunAllTestsLoop.lean`: `runAllTests` executed from the source's statement list sends the output
    exactly the events of the hand-written `OutEv.runAll`, for every registry content and name filter. -/
theorem runAllGen_eq (flt : Option Filter) (tests : List Script) : runAllGen flt tests = runAll flt tests := by
  simp [runAllGen, runAll, before, actsRun, actRun, initLS, groupStartInit, loopGen_eq]

theorem runRepeatedGen_eq (n : Nat) (flt : Option Filter) (tests : List Script) :
    runRepeatedGen n flt tests = runRepeated n flt tests := by
  simp [runRepeatedGen, runRepeated, runAllGen_eq]

end RunLoop
