import CppUModel.Model.CommandLine
/-! Helper lemmas for the C12 theorems (core Lean only). -/
namespace CommandLine
open Text

/-! ## bytes -/

theorem digit_cases (d : UInt8) (h : isDigitB d = true) :
    d = 48 ∨ d = 49 ∨ d = 50 ∨ d = 51 ∨ d = 52 ∨ d = 53 ∨ d = 54 ∨ d = 55 ∨ d = 56 ∨ d = 57 := by
  simp only [isDigitB, Bool.and_eq_true, decide_eq_true_eq] at h
  have h1 : 48 ≤ d.toNat := by simpa using UInt8.le_iff_toNat_le.mp h.1
  have h2 : d.toNat ≤ 57 := by simpa using UInt8.le_iff_toNat_le.mp h.2
  have : d.toNat = 48 ∨ d.toNat = 49 ∨ d.toNat = 50 ∨ d.toNat = 51 ∨ d.toNat = 52 ∨ d.toNat = 53 ∨
      d.toNat = 54 ∨ d.toNat = 55 ∨ d.toNat = 56 ∨ d.toNat = 57 := by omega
  rcases this with h|h|h|h|h|h|h|h|h|h <;> simp [← UInt8.toNat_inj, h]

theorem digit_not_space (d : UInt8) (h : isDigitB d = true) : isSpaceB d = false := by
  rcases digit_cases d h with rfl|rfl|rfl|rfl|rfl|rfl|rfl|rfl|rfl|rfl <;> rfl

theorem digit_toNat (d : UInt8) (h : isDigitB d = true) : 48 ≤ d.toNat ∧ d.toNat ≤ 57 := by
  rcases digit_cases d h with rfl|rfl|rfl|rfl|rfl|rfl|rfl|rfl|rfl|rfl <;> decide

theorem identChar_ne (c k : UInt8) (h : isIdentChar c = true) (hk : isIdentChar k = false) : c ≠ k := by
  intro e; subst e; rw [h] at hk; cases hk

theorem ident_ne_nil (v : Ident) : v.val ≠ [] := by
  intro e; have := v.ok; rw [e] at this; cases this

theorem ident_chars (v : Ident) : ∀ c ∈ v.val, isIdentChar c = true := by
  have h := v.ok
  cases hv : v.val with
  | nil => intro c hc; cases hc
  | cons a t =>
    rw [hv] at h
    simp only [isIdent, Bool.and_eq_true, List.all_eq_true] at h
    intro c hc
    cases hc with
    | head => simp [isIdentChar, h.1]
    | tail _ ht => exact h.2 c ht

theorem ident_not_mem (v : Ident) (k : UInt8) (hk : isIdentChar k = false) : k ∉ v.val := by
  intro hm; exact identChar_ne k k (ident_chars v k hm) hk rfl

/-! ## numbers -/

def decFold (acc : Nat) (ds : Bytes) : Nat := ds.foldl (fun a c => a * 10 + (c.toNat - 48)) acc

theorem decVal_eq (ds : Bytes) : decVal ds = decFold 0 ds := rfl

theorem decFold_ge : ∀ (ds : Bytes) (acc : Nat), acc ≤ decFold acc ds
  | [], acc => Nat.le_refl _
  | c :: t, acc => by
    have := decFold_ge t (acc * 10 + (c.toNat - 48))
    simp only [decFold, List.foldl_cons] at this ⊢
    omega

/-- the 32-bit digit loop computes the textbook value as long as that value fits -/
theorem digitsAcc_eq : ∀ (ds : Bytes) (acc : Nat), ds.all isDigitB = true → decFold acc ds < 2 ^ 32 →
    digitsAcc acc ds = decFold acc ds
  | [], acc, _, _ => rfl
  | c :: t, acc, hd, hlt => by
    simp only [List.all_cons, Bool.and_eq_true] at hd
    have hge := decFold_ge t (acc * 10 + (c.toNat - 48))
    have hlt' : decFold (acc * 10 + (c.toNat - 48)) t < 2 ^ 32 := by
      simpa only [decFold, List.foldl_cons] using hlt
    have hsmall : acc * 10 + (c.toNat - 48) < 2 ^ 32 := by omega
    have ih := digitsAcc_eq t (acc * 10 + (c.toNat - 48)) hd.2 hlt'
    simp only [digitsAcc, hd.1, if_true, Nat.mod_eq_of_lt hsmall, ih]
    simp only [decFold, List.foldl_cons]

theorem skipSpaces_digit (c : UInt8) (t : Bytes) (h : isDigitB c = true) : skipSpaces (c :: t) = c :: t := by
  simp [skipSpaces, digit_not_space c h]

theorem number_cons (ds : Bytes) (h : isNumber ds = true) :
    ∃ d t, ds = d :: t ∧ isDigitB d = true ∧ t.all isDigitB = true := by
  cases ds with
  | nil => simp [isNumber] at h
  | cons d t =>
    simp only [isNumber, List.isEmpty_cons, Bool.not_false, Bool.true_and, List.all_cons, Bool.and_eq_true] at h
    exact ⟨d, t, rfl, h.1, h.2⟩

theorem number_all (ds : Bytes) (h : isNumber ds = true) : ds.all isDigitB = true := by
  simp only [isNumber, Bool.and_eq_true] at h; exact h.2

/-- `AtoU` of a digit string whose value fits `unsigned` is the textbook value -/
theorem atou_number (ds : Bytes) (h : isNumber ds = true) (hs : decVal ds < 2 ^ 32) : atou ds = decVal ds := by
  obtain ⟨d, t, rfl, hd, _⟩ := number_cons ds h
  rw [atou, skipSpaces_digit d t hd, digitsAcc_eq _ 0 (number_all _ h) (by rwa [← decVal_eq]), decVal_eq]

/-- `(size_t) AtoI` of a digit string whose value fits `int` is the textbook value -/
theorem atoiSizeT_number (ds : Bytes) (h : isNumber ds = true) (hs : decVal ds < 2 ^ 31) :
    atoiSizeT ds = decVal ds := by
  obtain ⟨d, t, rfl, hd, _⟩ := number_cons ds h
  have h45 : (d == 45) = false := by
    rcases digit_cases d hd with rfl|rfl|rfl|rfl|rfl|rfl|rfl|rfl|rfl|rfl <;> rfl
  have h43 : (d == 43) = false := by
    rcases digit_cases d hd with rfl|rfl|rfl|rfl|rfl|rfl|rfl|rfl|rfl|rfl <;> rfl
  have hlt : decFold 0 (d :: t) < 2 ^ 32 := by rw [← decVal_eq]; omega
  have e : atoiBits (d :: t) = decVal (d :: t) := by
    rw [atoiBits, skipSpaces_digit d t hd]
    simp only [h45, h43, Bool.false_eq_true, if_false]
    rw [digitsAcc_eq _ 0 (number_all _ h) hlt, decVal_eq]
  rw [atoiSizeT, e, intBitsToSizeT, if_pos hs]

/-! ## arguments that are not numbers -/

/-- an argument that neither `AtoI` nor `AtoU` reads a non-zero number from: `-` followed by a
    non-digit (or nothing), or a first byte that is no blank, sign or digit -/
def nonNumeric (a : Bytes) : Bool :=
  match a with
  | [] => true
  | c :: t =>
    if c == 45 then (match t with | [] => true | c2 :: _ => !isDigitB c2)
    else (!isSpaceB c && !isDigitB c && c != 43)

theorem nonNumeric_atou (a : Bytes) (h : nonNumeric a = true) : atou a = 0 := by
  cases a with
  | nil => rfl
  | cons c t =>
    simp only [nonNumeric] at h
    by_cases hc : (c == 45) = true
    · have := eq_of_beq hc; subst this
      simp [atou, skipSpaces, isSpaceB, digitsAcc, isDigitB]
    · simp only [hc, Bool.false_eq_true, if_false, Bool.and_eq_true, Bool.not_eq_true'] at h
      simp [atou, skipSpaces, digitsAcc, h.1.1, h.1.2]

theorem nonNumeric_atoi (a : Bytes) (h : nonNumeric a = true) : atoiSizeT a = 0 := by
  cases a with
  | nil => rfl
  | cons c t =>
    simp only [nonNumeric] at h
    by_cases hc : (c == 45) = true
    · have := eq_of_beq hc; subst this
      simp only [beq_self_eq_true, if_true] at h
      have hs : skipSpaces ((45 : UInt8) :: t) = 45 :: t := by simp [skipSpaces, isSpaceB]
      cases t with
      | nil => simp [atoiSizeT, atoiBits, hs, digitsAcc, intBitsToSizeT]
      | cons c2 t2 =>
        simp only [Bool.not_eq_true'] at h
        simp [atoiSizeT, atoiBits, hs, digitsAcc, h, intBitsToSizeT]
    · simp only [hc, Bool.false_eq_true, if_false, Bool.and_eq_true, Bool.not_eq_true', bne_iff_ne, ne_eq] at h
      have h43 : (c == 43) = false := by simpa using h.2
      have h45 : (c == 45) = false := by simpa using hc
      simp [atoiSizeT, atoiBits, skipSpaces, digitsAcc, h.1.1, h.1.2, h43, h45, intBitsToSizeT]

/-! ## the loop, one step at a time -/

theorem go_cons_ok (env : Env) (c c' : Config) (a : Bytes) (rest : List Bytes) (k : Bool)
    (h : step env c a rest.head? = ⟨c', true, k⟩) : go env c false (a :: rest) = go env c' k rest := by
  simp only [go, h, if_true]

theorem go_cons_reject (env : Env) (c c' : Config) (a : Bytes) (rest : List Bytes) (k : Bool)
    (h : step env c a rest.head? = ⟨c', false, k⟩) : go env c false (a :: rest) = .reject c' := by
  simp [go, h]

theorem go_skip (env : Env) (c : Config) (a : Bytes) (rest : List Bytes) :
    go env c true (a :: rest) = go env c false rest := by
  simp only [go]

/-- one option given as a single argument -/
theorem go_one (env : Env) (c c' : Config) (a : Bytes) (rest : List Bytes)
    (h : step env c a rest.head? = ⟨c', true, false⟩) : go env c false (a :: rest) = go env c' false rest :=
  go_cons_ok env c c' a rest false h

/-- one option given as name and value in two arguments -/
theorem go_two (env : Env) (c c' : Config) (a v : Bytes) (rest : List Bytes)
    (h : step env c a (some v) = ⟨c', true, true⟩) : go env c false (a :: v :: rest) = go env c' false rest := by
  rw [go_cons_ok env c c' a (v :: rest) true (by simpa using h), go_skip]

/-! ## getParameterField -/

theorem field_attached (n : Nat) (name v : Bytes) (next : Option Bytes) (hn : name.length = n) (hv : v ≠ []) :
    getParameterField n (name ++ v) next = ⟨v, false⟩ := by
  have : (name ++ v).length > n := by
    cases v with
    | nil => exact absurd rfl hv
    | cons x t => simp [← hn]
  subst hn
  unfold getParameterField
  rw [if_pos this, List.drop_left]

theorem field_separated (n : Nat) (name v : Bytes) (hn : name.length = n) :
    getParameterField n name (some v) = ⟨v, true⟩ := by
  simp [getParameterField, hn]

theorem field_last (n : Nat) (name : Bytes) (hn : name.length = n) :
    getParameterField n name none = ⟨[], false⟩ := by
  simp [getParameterField, hn]

/-! ## one documented option = one step of the loop -/

/-- what `-r` / `-s` need to know about the argument that follows them -/
def NextOk (next : Option Bytes) : Prop := ∀ a, next = some a → nonNumeric a = true

theorem step_flag (env : Env) (c : Config) (fl : Flag) (next : Option Bytes) :
    step env c fl.lit next = ⟨fl.apply c, true, false⟩ := by
  cases fl <;> rfl

theorem step_repeatDefault (env : Env) (c : Config) (next : Option Bytes) (h : NextOk next) :
    step env c [45, 114] next = ⟨{ c with repeatCount := 2 }, true, false⟩ := by
  have hd : dispatch [45, 114] = some .repeatCount := by decide
  cases next with
  | none => simp [step, hd, runHandler, setRepeatCount, repeatRaw, repeatConsumed]
  | some a =>
    have h0 := nonNumeric_atoi a (h a rfl)
    simp [step, hd, runHandler, setRepeatCount, repeatRaw, repeatConsumed, h0]

theorem dispatch_r_digits (d : UInt8) (t : Bytes) (h : isDigitB d = true) :
    dispatch (45 :: 114 :: d :: t) = some .repeatCount := by
  rcases digit_cases d h with rfl|rfl|rfl|rfl|rfl|rfl|rfl|rfl|rfl|rfl <;> rfl

theorem dispatch_s_digits (d : UInt8) (t : Bytes) (h : isDigitB d = true) :
    dispatch (45 :: 115 :: d :: t) = some .shuffle := by
  rcases digit_cases d h with rfl|rfl|rfl|rfl|rfl|rfl|rfl|rfl|rfl|rfl <;> rfl

theorem step_repeatN_attached (env : Env) (c : Config) (n : Count) (next : Option Bytes) :
    step env c ([45, 114] ++ n.digits) next = ⟨{ c with repeatCount := decVal n.digits }, true, false⟩ := by
  obtain ⟨d, t, e, hd, _⟩ := number_cons n.digits n.num
  have hv := atoiSizeT_number n.digits n.num n.small
  have hp := n.pos
  rw [e] at hv hp ⊢
  have hne : decVal (d :: t) ≠ 0 := by omega
  simp [step, dispatch_r_digits d t hd, runHandler, setRepeatCount, repeatRaw, repeatConsumed, hv, hne]

theorem step_repeatN_separated (env : Env) (c : Config) (n : Count) :
    step env c [45, 114] (some n.digits) = ⟨{ c with repeatCount := decVal n.digits }, true, true⟩ := by
  have hd : dispatch [45, 114] = some .repeatCount := by decide
  have hv := atoiSizeT_number n.digits n.num n.small
  have hne : decVal n.digits ≠ 0 := by have := n.pos; omega
  simp [step, hd, runHandler, setRepeatCount, repeatRaw, repeatConsumed, hv, hne]


theorem timeSeed_ne_zero (t : Nat) : timeSeed t ≠ 0 := by
  unfold timeSeed; split <;> omega

theorem step_shuffleDefault (env : Env) (c : Config) (next : Option Bytes) (h : NextOk next) :
    step env c [45, 115] next = ⟨{ c with shuffling := true, shuffleSeed := timeSeed env.time }, true, false⟩ := by
  have hd : dispatch [45, 115] = some .shuffle := by decide
  have hz := timeSeed_ne_zero env.time
  cases next with
  | none => simp [step, hd, runHandler, setShuffle, shuffleSeedOf, shuffleConsumed, hz]
  | some a =>
    have h0 := nonNumeric_atou a (h a rfl)
    simp [step, hd, runHandler, setShuffle, shuffleSeedOf, shuffleConsumed, h0, hz]

theorem step_shuffleSeed_attached (env : Env) (c : Config) (s : Seed) (next : Option Bytes) :
    step env c ([45, 115] ++ s.digits) next =
      ⟨{ c with shuffling := true, shuffleSeed := decVal s.digits }, true, false⟩ := by
  obtain ⟨d, t, e, hd, _⟩ := number_cons s.digits s.num
  have hv := atou_number s.digits s.num s.small
  have hp := s.pos
  rw [e] at hv hp ⊢
  have hne : decVal (d :: t) ≠ 0 := by omega
  simp [step, dispatch_s_digits d t hd, runHandler, setShuffle, shuffleSeedOf, shuffleConsumed, hv, hne]

theorem step_shuffleSeed_separated (env : Env) (c : Config) (s : Seed) :
    step env c [45, 115] (some s.digits) =
      ⟨{ c with shuffling := true, shuffleSeed := decVal s.digits }, true, true⟩ := by
  have hd : dispatch [45, 115] = some .shuffle := by decide
  have hv := atou_number s.digits s.num s.small
  have hne : decVal s.digits ≠ 0 := by have := s.pos; omega
  simp [step, hd, runHandler, setShuffle, shuffleSeedOf, shuffleConsumed, hv, hne]

theorem step_group_attached (env : Env) (c : Config) (k : FKind) (v : Ident) (next : Option Bytes) :
    step env c (k.lit 103 ++ v.val) next =
      ⟨{ c with groupFilters := k.filter v.val :: c.groupFilters }, true, false⟩ := by
  have hv := ident_ne_nil v
  cases k
  · have hd : dispatch (FKind.sub.lit 103 ++ v.val) = some .groupFilter := rfl
    simp [step, hd, runHandler, addGroup, field_attached 2 (FKind.sub.lit 103) v.val next rfl hv, FKind.filter]
  · have hd : dispatch (FKind.strict.lit 103 ++ v.val) = some .strictGroup := rfl
    simp [step, hd, runHandler, addGroup, field_attached 3 (FKind.strict.lit 103) v.val next rfl hv, FKind.filter]
  · have hd : dispatch (FKind.excl.lit 103 ++ v.val) = some .exclGroup := rfl
    simp [step, hd, runHandler, addGroup, field_attached 3 (FKind.excl.lit 103) v.val next rfl hv, FKind.filter]
  · have hd : dispatch (FKind.exclStrict.lit 103 ++ v.val) = some .exclStrictGroup := rfl
    simp [step, hd, runHandler, addGroup, field_attached 4 (FKind.exclStrict.lit 103) v.val next rfl hv, FKind.filter]

theorem step_group_separated (env : Env) (c : Config) (k : FKind) (v : Bytes) :
    step env c (k.lit 103) (some v) =
      ⟨{ c with groupFilters := k.filter v :: c.groupFilters }, true, true⟩ := by
  cases k <;> rfl

theorem step_name_attached (env : Env) (c : Config) (k : FKind) (v : Ident) (next : Option Bytes) :
    step env c (k.lit 110 ++ v.val) next =
      ⟨{ c with nameFilters := k.filter v.val :: c.nameFilters }, true, false⟩ := by
  have hv := ident_ne_nil v
  cases k
  · have hd : dispatch (FKind.sub.lit 110 ++ v.val) = some .nameFilter := rfl
    simp [step, hd, runHandler, addName, field_attached 2 (FKind.sub.lit 110) v.val next rfl hv, FKind.filter]
  · have hd : dispatch (FKind.strict.lit 110 ++ v.val) = some .strictName := rfl
    simp [step, hd, runHandler, addName, field_attached 3 (FKind.strict.lit 110) v.val next rfl hv, FKind.filter]
  · have hd : dispatch (FKind.excl.lit 110 ++ v.val) = some .exclName := rfl
    simp [step, hd, runHandler, addName, field_attached 3 (FKind.excl.lit 110) v.val next rfl hv, FKind.filter]
  · have hd : dispatch (FKind.exclStrict.lit 110 ++ v.val) = some .exclStrictName := rfl
    simp [step, hd, runHandler, addName, field_attached 4 (FKind.exclStrict.lit 110) v.val next rfl hv, FKind.filter]

theorem step_name_separated (env : Env) (c : Config) (k : FKind) (v : Bytes) :
    step env c (k.lit 110) (some v) =
      ⟨{ c with nameFilters := k.filter v :: c.nameFilters }, true, true⟩ := by
  cases k <;> rfl

theorem step_output_attached (env : Env) (c : Config) (o : OutKind) (next : Option Bytes) :
    step env c ([45, 111] ++ o.lit) next = ⟨{ c with output := o.type }, true, false⟩ := by
  cases o <;> rfl

theorem step_output_separated (env : Env) (c : Config) (o : OutKind) :
    step env c [45, 111] (some o.lit) = ⟨{ c with output := o.type }, true, true⟩ := by
  cases o <;> rfl

theorem step_package_attached (env : Env) (c : Config) (v : Ident) (next : Option Bytes) :
    step env c ([45, 107] ++ v.val) next = ⟨{ c with packageName := v.val }, true, false⟩ := by
  have hv := ident_ne_nil v
  have hd : dispatch (45 :: 107 :: v.val) = some .packageName := rfl
  have hf : getParameterField 2 (45 :: 107 :: v.val) next = ⟨v.val, false⟩ :=
    field_attached 2 [45, 107] v.val next rfl hv
  have hl : v.val.length ≠ 0 := by simpa using hv
  simp [step, hd, runHandler, setPackageName, hf, hl]

theorem step_package_separated (env : Env) (c : Config) (v : Ident) :
    step env c [45, 107] (some v.val) = ⟨{ c with packageName := v.val }, true, true⟩ := by
  have hv := ident_ne_nil v
  have hd : dispatch [45, 107] = some .packageName := by decide
  have hl : v.val.length ≠ 0 := by simpa using hv
  simp [step, hd, runHandler, setPackageName, field_separated 2 [45, 107] v.val rfl, hl]


/-! ## split on "." -/

theorem dot_not_prefix (x : UInt8) (t : Bytes) (h : x ≠ 46) : ([46] : Bytes).isPrefixOf (x :: t) = false := by
  have : ((46 : UInt8) == x) = false := by
    cases hx : (46 : UInt8) == x with
    | false => rfl
    | true => exact absurd (eq_of_beq hx).symm h
  simp [List.isPrefixOf, this]

theorem splitAux_nodot : ∀ (n : Bytes) (fuel : Nat) (cur : Bytes), (46 : UInt8) ∉ n → n.length < fuel →
    splitAux fuel n [46] cur = if (cur.reverse ++ n).isEmpty then [] else [cur.reverse ++ n]
  | [], fuel, cur, _, hf => by
    cases fuel with
    | zero => omega
    | succ f => cases cur <;> simp [splitAux]
  | x :: t, fuel, cur, hn, hf => by
    cases fuel with
    | zero => simp at hf
    | succ f =>
      have hx : x ≠ 46 := fun e => hn (by simp [e])
      have ht : (46 : UInt8) ∉ t := fun m => hn (List.mem_cons_of_mem _ m)
      have ih := splitAux_nodot t f (x :: cur) ht (by simp at hf; omega)
      simp only [splitAux, dot_not_prefix x t hx, Bool.false_eq_true, if_false, ih]
      simp

theorem splitAux_one_dot : ∀ (g n : Bytes) (fuel : Nat) (cur : Bytes), (46 : UInt8) ∉ g → (46 : UInt8) ∉ n → n ≠ [] →
    g.length + n.length + 1 < fuel →
    splitAux fuel (g ++ 46 :: n) [46] cur = [cur.reverse ++ g ++ [46], n]
  | [], n, fuel, cur, _, hn, hne, hf => by
    cases fuel with
    | zero => omega
    | succ f =>
      have h2 := splitAux_nodot n f [] hn (by simp at hf; omega)
      have hne' : n.isEmpty = false := by cases n <;> simp_all
      simp [splitAux, h2, hne']
  | x :: t, n, fuel, cur, hg, hn, hne, hf => by
    cases fuel with
    | zero => omega
    | succ f =>
      have hx : x ≠ 46 := fun e => hg (by simp [e])
      have ht : (46 : UInt8) ∉ t := fun m => hg (List.mem_cons_of_mem _ m)
      have ih := splitAux_one_dot t n f (x :: cur) ht hn hne (by simp at hf; omega)
      simp only [List.cons_append, splitAux, dot_not_prefix x _ hx, Bool.false_eq_true, if_false, ih]
      simp

theorem splitCode_one_dot (g n : Bytes) (hg : (46 : UInt8) ∉ g) (hn : (46 : UInt8) ∉ n) (hne : n ≠ []) :
    splitCode (g ++ [46] ++ n) [46] = [g ++ [46], n] := by
  have e : g ++ [46] ++ n = g ++ 46 :: n := by simp
  have hemp : (g ++ 46 :: n).isEmpty = false := by cases g <;> simp
  rw [e, splitCode, hemp]
  simp only [Bool.false_eq_true, if_false, split]
  rw [splitAux_one_dot g n _ [] hg hn hne (by simp)]
  simp

theorem splitCode_nodot (v : Bytes) (hv : (46 : UInt8) ∉ v) : (splitCode v [46]).length = 1 := by
  unfold splitCode
  cases hemp : v.isEmpty with
  | true => simp
  | false =>
    simp only [Bool.false_eq_true, if_false, split]
    rw [splitAux_nodot v _ [] hv (by simp)]
    simp [hemp]

theorem subString_init (g : Bytes) : subString (g ++ [46]) 0 ((g ++ [46]).length - 1) = g := by
  simp [subString]

/-! ## find -/

theorem findIdx?_skip (p : UInt8 → Bool) : ∀ (g r : Bytes), (∀ x ∈ g, p x = false) →
    (g ++ r).findIdx? p = (r.findIdx? p).map (· + g.length)
  | [], r, _ => by simp
  | x :: t, r, h => by
    have hx : p x = false := h x (by simp)
    have ih := findIdx?_skip p t r (fun y hy => h y (List.mem_cons_of_mem _ hy))
    simp only [List.cons_append, List.findIdx?_cons, hx, Bool.false_eq_true, if_false, ih, Option.map_map, List.length_cons]
    congr 1

theorem not_mem_beq_false (k : UInt8) (g : Bytes) (h : k ∉ g) : ∀ x ∈ g, (x == k) = false := by
  intro x hx
  cases e : x == k with
  | false => rfl
  | true => exact absurd (eq_of_beq e ▸ hx) h

theorem find_after (g r : Bytes) (k : UInt8) (h : k ∉ g) : find (g ++ k :: r) k = some g.length := by
  simp [find, findFrom, findIdx?_skip _ g (k :: r) (not_mem_beq_false k g h), List.findIdx?_cons]

theorem testFormName_eq (g n : Bytes) (hg : (44 : UInt8) ∉ g) (hn : (41 : UInt8) ∉ n) :
    testFormName (g ++ [44, 32] ++ n ++ [41]) = n := by
  have e : g ++ [44, 32] ++ n ++ [41] = g ++ 44 :: (32 :: (n ++ [41])) := by simp
  rw [e, testFormName, subStringFromTill, find_after g _ 44 hg]
  have hd : (g ++ 44 :: 32 :: (n ++ [41])).drop g.length = 44 :: 32 :: (n ++ [41]) := by simp
  have hf : findFrom (g ++ 44 :: 32 :: (n ++ [41])) g.length 41 = some (n.length + 2 + g.length) := by
    rw [findFrom, hd]
    have : ((44 : UInt8) :: 32 :: (n ++ [41])).findIdx? (· == 41) = some (n.length + 2) := by
      have h2 := findIdx?_skip (· == 41) n [41] (not_mem_beq_false 41 n hn)
      simp [List.findIdx?_cons, h2]
    simp [this]
  simp only [hf, hd]
  have : n.length + 2 + g.length - g.length = n.length + 2 := by omega
  rw [this]
  simp [subStringFrom]

theorem testFormGroup_eq (g r : Bytes) (hne : g ≠ []) (hg : (44 : UInt8) ∉ g) :
    testFormGroup (g ++ 44 :: r) = g := by
  cases g with
  | nil => exact absurd rfl hne
  | cons c t =>
    have hf1 : find (c :: (t ++ 44 :: r)) c = some 0 := by simp [find, findFrom, List.findIdx?_cons]
    have hf2 : findFrom (c :: (t ++ 44 :: r)) 0 44 = some (t.length + 1) := by
      have := find_after (c :: t) r 44 hg
      simpa [find] using this
    simp only [List.cons_append, testFormGroup, subStringFromTill, hf1, hf2]
    simp


theorem ident_no_dot (v : Ident) : (46 : UInt8) ∉ v.val := ident_not_mem v 46 (by decide)
theorem ident_no_comma (v : Ident) : (44 : UInt8) ∉ v.val := ident_not_mem v 44 (by decide)
theorem ident_no_paren (v : Ident) : (41 : UInt8) ∉ v.val := ident_not_mem v 41 (by decide)

theorem dotName_value_ne_nil (g n : Ident) : g.val ++ [46] ++ n.val ≠ [] := by
  cases h : g.val <;> simp

/-- the body of `addGroupDotNameFilter` on `g.n` -/
theorem dotNameFilters_ident (s x : Bool) (c : Config) (g n : Ident) :
    dotNameFilters s x c (splitCode (g.val ++ [46] ++ n.val) [46]) =
      some { c with groupFilters := ⟨g.val, s, x⟩ :: c.groupFilters, nameFilters := ⟨n.val, s, x⟩ :: c.nameFilters } := by
  rw [splitCode_one_dot g.val n.val (ident_no_dot g) (ident_no_dot n) (ident_ne_nil n)]
  simp only [dotNameFilters, subString_init]

theorem step_test_attached (env : Env) (c : Config) (k : FKind) (g n : Ident) (next : Option Bytes) :
    step env c (k.lit 116 ++ (g.val ++ [46] ++ n.val)) next =
      ⟨{ c with groupFilters := k.filter g.val :: c.groupFilters,
                nameFilters := k.filter n.val :: c.nameFilters }, true, false⟩ := by
  have hv := dotName_value_ne_nil g n
  cases k
  · have hd : dispatch (FKind.sub.lit 116 ++ (g.val ++ [46] ++ n.val)) = some (.dotName [45, 116] false false) := rfl
    have hf := field_attached 2 (FKind.sub.lit 116) _ next rfl hv
    simp only [step, hd, runHandler, addGroupDotName, List.length_cons, List.length_nil, hf, dotNameFilters_ident, FKind.filter]
  · have hd : dispatch (FKind.strict.lit 116 ++ (g.val ++ [46] ++ n.val)) = some (.dotName [45, 115, 116] true false) := rfl
    have hf := field_attached 3 (FKind.strict.lit 116) _ next rfl hv
    simp only [step, hd, runHandler, addGroupDotName, List.length_cons, List.length_nil, hf, dotNameFilters_ident, FKind.filter]
  · have hd : dispatch (FKind.excl.lit 116 ++ (g.val ++ [46] ++ n.val)) = some (.dotName [45, 120, 116] false true) := rfl
    have hf := field_attached 3 (FKind.excl.lit 116) _ next rfl hv
    simp only [step, hd, runHandler, addGroupDotName, List.length_cons, List.length_nil, hf, dotNameFilters_ident, FKind.filter]
  · have hd : dispatch (FKind.exclStrict.lit 116 ++ (g.val ++ [46] ++ n.val)) = some (.dotName [45, 120, 115, 116] true true) := rfl
    have hf := field_attached 4 (FKind.exclStrict.lit 116) _ next rfl hv
    simp only [step, hd, runHandler, addGroupDotName, List.length_cons, List.length_nil, hf, dotNameFilters_ident, FKind.filter]

theorem step_test_separated (env : Env) (c : Config) (k : FKind) (g n : Ident) :
    step env c (k.lit 116) (some (g.val ++ [46] ++ n.val)) =
      ⟨{ c with groupFilters := k.filter g.val :: c.groupFilters,
                nameFilters := k.filter n.val :: c.nameFilters }, true, true⟩ := by
  cases k
  · have hd : dispatch (FKind.sub.lit 116) = some (.dotName [45, 116] false false) := by decide
    have hf := field_separated 2 (FKind.sub.lit 116) (g.val ++ [46] ++ n.val) rfl
    simp only [step, hd, runHandler, addGroupDotName, List.length_cons, List.length_nil, hf, dotNameFilters_ident, FKind.filter]
  · have hd : dispatch (FKind.strict.lit 116) = some (.dotName [45, 115, 116] true false) := by decide
    have hf := field_separated 3 (FKind.strict.lit 116) (g.val ++ [46] ++ n.val) rfl
    simp only [step, hd, runHandler, addGroupDotName, List.length_cons, List.length_nil, hf, dotNameFilters_ident, FKind.filter]
  · have hd : dispatch (FKind.excl.lit 116) = some (.dotName [45, 120, 116] false true) := by decide
    have hf := field_separated 3 (FKind.excl.lit 116) (g.val ++ [46] ++ n.val) rfl
    simp only [step, hd, runHandler, addGroupDotName, List.length_cons, List.length_nil, hf, dotNameFilters_ident, FKind.filter]
  · have hd : dispatch (FKind.exclStrict.lit 116) = some (.dotName [45, 120, 115, 116] true true) := by decide
    have hf := field_separated 4 (FKind.exclStrict.lit 116) (g.val ++ [46] ++ n.val) rfl
    simp only [step, hd, runHandler, addGroupDotName, List.length_cons, List.length_nil, hf, dotNameFilters_ident, FKind.filter]

theorem step_testForm (env : Env) (c : Config) (i : Bool) (g n : Ident) (next : Option Bytes) :
    step env c (testPrefix i ++ g.val ++ [44, 32] ++ n.val ++ [41]) next =
      ⟨{ c with groupFilters := FKind.strict.filter g.val :: c.groupFilters,
                nameFilters := FKind.strict.filter n.val :: c.nameFilters }, true, false⟩ := by
  have e : testPrefix i ++ g.val ++ [44, 32] ++ n.val ++ [41] = testPrefix i ++ (g.val ++ [44, 32] ++ n.val ++ [41]) := by
    simp
  have hv : g.val ++ [44, 32] ++ n.val ++ [41] ≠ [] := by simp
  have hn := testFormName_eq g.val n.val (ident_no_comma g) (ident_no_paren n)
  have hg : testFormGroup (g.val ++ [44, 32] ++ n.val ++ [41]) = g.val := by
    have e2 : g.val ++ [44, 32] ++ n.val ++ [41] = g.val ++ 44 :: (32 :: (n.val ++ [41])) := by simp
    rw [e2]; exact testFormGroup_eq g.val _ (ident_ne_nil g) (ident_no_comma g)
  rw [e]
  cases i
  · have hd : dispatch (testPrefix false ++ (g.val ++ [44, 32] ++ n.val ++ [41])) = some (.testForm litTEST) := rfl
    have hf := field_attached 5 (testPrefix false) _ next rfl hv
    have hl : litTEST.length = 5 := rfl
    simp only [step, hd, runHandler, addTestForm, hl, hf, hn, hg, FKind.filter]
  · have hd : dispatch (testPrefix true ++ (g.val ++ [44, 32] ++ n.val ++ [41])) = some (.testForm litIGNORE) := rfl
    have hf := field_attached 12 (testPrefix true) _ next rfl hv
    have hl : litIGNORE.length = 12 := rfl
    simp only [step, hd, runHandler, addTestForm, hl, hf, hn, hg, FKind.filter]


theorem flag_lit_nonNumeric (fl : Flag) : nonNumeric fl.lit = true := by cases fl <;> rfl

/-- the first argument of a rendered option is never read as a number by `-r` / `-s` -/
theorem render1_head (o : Opt × Form) : ∃ a t, render1 o = a :: t ∧ nonNumeric a = true := by
  obtain ⟨opt, fm⟩ := o
  cases opt with
  | flag fl => exact ⟨_, _, rfl, flag_lit_nonNumeric fl⟩
  | repeatDefault => exact ⟨_, _, rfl, rfl⟩
  | repeatN n => cases fm <;> exact ⟨_, _, rfl, rfl⟩
  | shuffle => exact ⟨_, _, rfl, rfl⟩
  | shuffleSeed s => cases fm <;> exact ⟨_, _, rfl, rfl⟩
  | group k v => cases fm <;> cases k <;> exact ⟨_, _, rfl, rfl⟩
  | name k v => cases fm <;> cases k <;> exact ⟨_, _, rfl, rfl⟩
  | test k g n => cases fm <;> cases k <;> exact ⟨_, _, rfl, rfl⟩
  | testForm i g n => cases i <;> exact ⟨_, _, rfl, rfl⟩
  | output o => cases fm <;> exact ⟨_, _, rfl, rfl⟩
  | package v => cases fm <;> exact ⟨_, _, rfl, rfl⟩

theorem go_render1 (env : Env) (c : Config) (o : Opt × Form) (rest : List Bytes) (h : NextOk rest.head?) :
    go env c false (render1 o ++ rest) = go env (applyOpt env c o.1) false rest := by
  obtain ⟨opt, fm⟩ := o
  cases opt with
  | flag fl => exact go_one env c _ _ rest (step_flag env c fl _)
  | repeatDefault => exact go_one env c _ _ rest (step_repeatDefault env c _ h)
  | repeatN n =>
    cases fm
    · exact go_one env c _ _ rest (step_repeatN_attached env c n _)
    · exact go_two env c _ _ _ rest (step_repeatN_separated env c n)
  | shuffle => exact go_one env c _ _ rest (step_shuffleDefault env c _ h)
  | shuffleSeed s =>
    cases fm
    · exact go_one env c _ _ rest (step_shuffleSeed_attached env c s _)
    · exact go_two env c _ _ _ rest (step_shuffleSeed_separated env c s)
  | group k v =>
    cases fm
    · exact go_one env c _ _ rest (step_group_attached env c k v _)
    · exact go_two env c _ _ _ rest (step_group_separated env c k v.val)
  | name k v =>
    cases fm
    · exact go_one env c _ _ rest (step_name_attached env c k v _)
    · exact go_two env c _ _ _ rest (step_name_separated env c k v.val)
  | test k g n =>
    cases fm
    · exact go_one env c _ _ rest (step_test_attached env c k g n _)
    · exact go_two env c _ _ _ rest (step_test_separated env c k g n)
  | testForm i g n => exact go_one env c _ _ rest (step_testForm env c i g n _)
  | output o =>
    cases fm
    · exact go_one env c _ _ rest (step_output_attached env c o _)
    · exact go_two env c _ _ _ rest (step_output_separated env c o)
  | package v =>
    cases fm
    · exact go_one env c _ _ rest (step_package_attached env c v _)
    · exact go_two env c _ _ _ rest (step_package_separated env c v)

theorem nextOk_render (os : List (Opt × Form)) (rest : List Bytes) (h : NextOk rest.head?) :
    NextOk (render os ++ rest).head? := by
  cases os with
  | nil => simpa [render] using h
  | cons o os =>
    obtain ⟨a, t, e, hn⟩ := render1_head o
    intro b hb
    simp only [render, List.flatMap_cons, e, List.cons_append, List.head?_cons, Option.some.injEq] at hb
    exact hb ▸ hn

/-- the loop over a rendered option list, followed by anything that does not look like a number -/
theorem go_render (env : Env) : ∀ (os : List (Opt × Form)) (c : Config) (rest : List Bytes), NextOk rest.head? →
    go env c false (render os ++ rest) = go env ((os.map Prod.fst).foldl (applyOpt env) c) false rest
  | [], c, rest, _ => by simp [render]
  | o :: os, c, rest, h => by
    have e : render (o :: os) ++ rest = render1 o ++ (render os ++ rest) := by simp [render]
    rw [e, go_render1 env c o _ (nextOk_render os rest h), go_render env os _ rest h]
    simp


/-! ## rejection -/

theorem step_help (env : Env) (c : Config) (next : Option Bytes) :
    step env c [45, 104] next = ⟨{ c with needHelp := true }, false, false⟩ := rfl

theorem step_unknown (env : Env) (c : Config) (a : Bytes) (next : Option Bytes) (h : dispatch a = none) :
    step env c a next = ⟨c, false, false⟩ := by
  simp [step, h]

/-- no branch of the chain starts with anything but `-`, `T` or `I` -/
theorem dispatch_other_head (c : UInt8) (t : Bytes) (h1 : c ≠ 45) (h2 : c ≠ 84) (h3 : c ≠ 73) :
    dispatch (c :: t) = none := by
  have a1 : (c == 45) = false := by simpa using h1
  have a2 : (c == 84) = false := by simpa using h2
  have a3 : (c == 73) = false := by simpa using h3
  have b1 : ¬ (45 : UInt8) = c := fun e => h1 e.symm
  have b2 : ¬ (84 : UInt8) = c := fun e => h2 e.symm
  have b3 : ¬ (73 : UInt8) = c := fun e => h3 e.symm
  simp [dispatch, table, Entry.hits, startsWith, litTEST, litIGNORE, a1, b1, b2, b3]

theorem dispatch_nil : dispatch [] = none := by decide

theorem dispatch_digit_head (d : UInt8) (t : Bytes) (h : isDigitB d = true) : dispatch (d :: t) = none := by
  rcases digit_cases d h with rfl|rfl|rfl|rfl|rfl|rfl|rfl|rfl|rfl|rfl <;>
    exact dispatch_other_head _ t (by decide) (by decide) (by decide)

/-! ## -t: how many tokens `split(".")` yields -/

/-- the scan ends inside a token (there is something after the last dot) -/
def openEnd (a cur : Bytes) : Bool :=
  match a.getLast? with
  | none => !cur.isEmpty
  | some l => l != 46

theorem openEnd_cons_cons (x y : UInt8) (t cur cur' : Bytes) : openEnd (x :: y :: t) cur = openEnd (y :: t) cur' := by
  simp only [openEnd, List.getLast?_cons_cons]
  cases h : (y :: t).getLast? with
  | none => simp at h
  | some l => rfl

theorem splitAux_length : ∀ (a : Bytes) (fuel : Nat) (cur : Bytes), a.length < fuel →
    (splitAux fuel a [46] cur).length = a.count 46 + (if openEnd a cur then 1 else 0)
  | [], fuel, cur, hf => by
    cases fuel with
    | zero => omega
    | succ f => cases cur <;> simp [splitAux, openEnd]
  | x :: t, fuel, cur, hf => by
    cases fuel with
    | zero => simp at hf
    | succ f =>
      have hf' : t.length < f := by simp at hf; omega
      by_cases hx : x = 46
      · subst hx
        have ih := splitAux_length t f [] hf'
        have ho : openEnd (46 :: t) cur = openEnd t [] := by
          cases t with
          | nil => simp [openEnd]
          | cons y t' => exact openEnd_cons_cons _ _ _ _ _
        simp [splitAux, ih, ho]; omega
      · have ih := splitAux_length t f (x :: cur) hf'
        have ho : openEnd (x :: t) cur = openEnd t (x :: cur) := by
          cases t with
          | nil => simp [openEnd, hx]
          | cons y t' => exact openEnd_cons_cons _ _ _ _ _
        have hc : (x == 46) = false := by simpa using hx
        simp [splitAux, dot_not_prefix x t hx, ih, ho, List.count_cons, hc]

theorem splitCode_length_eq_two (v : Bytes) :
    (splitCode v [46]).length = 2 ↔ v.count 46 + (if openEnd v [] then 1 else 0) = 2 := by
  cases v with
  | nil => simp [splitCode, openEnd]
  | cons x t =>
    have := splitAux_length (x :: t) ((x :: t).length + 1) [] (by simp)
    simp only [splitCode, List.isEmpty_cons, Bool.false_eq_true, if_false, split, this]

theorem dotNameFilters_isSome (s x : Bool) (c : Config) (l : List Bytes) :
    (dotNameFilters s x c l).isSome = true ↔ l.length = 2 := by
  match l with
  | [] => simp [dotNameFilters]
  | [_] => simp [dotNameFilters]
  | [_, _] => simp [dotNameFilters]
  | _ :: _ :: _ :: _ => simp [dotNameFilters]


theorem findFrom_zero_none (a : Bytes) (k : UInt8) (h : k ∉ a) : findFrom a 0 k = none := by
  have := not_mem_beq_false k a h
  simp only [findFrom, List.drop_zero, Option.map_eq_none_iff, List.findIdx?_eq_none_iff]
  intro x hx; simp [this x hx]

theorem find_none (a : Bytes) (k : UInt8) (h : k ∉ a) : find a k = none := findFrom_zero_none a k h

def FKind.isStrict : FKind → Bool
  | .sub => false | .strict => true | .excl => false | .exclStrict => true
def FKind.isExcl : FKind → Bool
  | .sub => false | .strict => false | .excl => true | .exclStrict => true

/-- a `-t` family option with its value in the next argument, for ANY value -/
theorem step_dotName_separated (env : Env) (c : Config) (k : FKind) (v : Bytes) :
    step env c (k.lit 116) (some v) =
      match dotNameFilters k.isStrict k.isExcl c (splitCode v [46]) with
      | some c' => ⟨c', true, true⟩
      | none => ⟨c, false, true⟩ := by
  cases k <;> rfl

/-! ## every string the parser stores is a contiguous part of an argument -/

theorem fromArgs_of_infix {args : List Bytes} {a t : Bytes} (ha : a ∈ args) (h : t <:+: a) : FromArgs args t :=
  Or.inr ⟨a, ha, h⟩

theorem fromArgs_infix {args : List Bytes} {s t : Bytes} (hs : FromArgs args s) (h : t <:+: s) : FromArgs args t := by
  rcases hs with rfl | ⟨a, ha, hsa⟩
  · exact Or.inl (List.infix_nil.mp h)
  · exact Or.inr ⟨a, ha, h.trans hsa⟩

theorem splitAux_infix : ∀ (fuel : Nat) (a d cur t : Bytes), t ∈ splitAux fuel a d cur → t <:+: (cur.reverse ++ a)
  | 0, a, d, cur, t, h => by
    simp only [splitAux] at h
    split at h
    · cases h
    · simp only [List.mem_singleton] at h; subst h; exact (List.prefix_append _ _).isInfix
  | f + 1, [], d, cur, t, h => by
    simp only [splitAux] at h
    split at h
    · cases h
    · simp only [List.mem_singleton] at h; subst h; exact (List.prefix_append _ _).isInfix
  | f + 1, x :: r, d, cur, t, h => by
    simp only [splitAux] at h
    split at h
    · rename_i hp
      simp only [List.mem_cons] at h
      rcases h with rfl | h
      · have hpre : d <+: (x :: r) := List.isPrefixOf_iff_prefix.mp hp
        obtain ⟨rest, hr⟩ := hpre
        rw [← hr, ← List.append_assoc]
        exact (List.prefix_append _ _).isInfix
      · have ih := splitAux_infix f ((x :: r).drop d.length) d [] t h
        simp only [List.reverse_nil, List.nil_append] at ih
        exact ih.trans ((List.drop_suffix _ _).isInfix.trans (List.suffix_append _ _).isInfix)
    · have ih := splitAux_infix f r d (x :: cur) t h
      simpa using ih

theorem splitCode_infix (v d t : Bytes) (h : t ∈ splitCode v d) : t <:+: v := by
  unfold splitCode at h
  split at h
  · simp only [List.mem_singleton] at h; subst h; exact List.nil_infix
  · simpa using splitAux_infix _ v d [] t h

theorem subString_infix (a : Bytes) (p n : Nat) : subString a p n <:+: a := by
  unfold subString
  split
  · exact List.nil_infix
  · exact (List.take_prefix _ _).isInfix.trans (List.drop_suffix _ _).isInfix

theorem subStringFromTill_infix (a : Bytes) (s e : UInt8) : subStringFromTill a s e <:+: a := by
  unfold subStringFromTill
  split
  · exact List.nil_infix
  · split
    · exact (List.drop_suffix _ _).isInfix
    · exact (List.take_prefix _ _).isInfix.trans (List.drop_suffix _ _).isInfix

theorem testFormGroup_infix (w : Bytes) : testFormGroup w <:+: w := by
  cases w with
  | nil => exact List.nil_infix
  | cons c t => exact subStringFromTill_infix _ _ _

theorem testFormName_infix (w : Bytes) : testFormName w <:+: w :=
  (List.drop_suffix _ _).isInfix.trans (subStringFromTill_infix _ _ _)

theorem field_fromArgs (args : List Bytes) (n : Nat) (a : Bytes) (next : Option Bytes) (ha : a ∈ args)
    (hn : ∀ b, next = some b → b ∈ args) : FromArgs args (getParameterField n a next).val := by
  unfold getParameterField
  split
  · exact fromArgs_of_infix ha (List.drop_suffix _ _).isInfix
  · cases next with
    | none => exact Or.inl rfl
    | some b => exact fromArgs_of_infix (hn b rfl) (List.infix_refl _)

theorem strings_addGroup (args : List Bytes) (c : Config) (t : Bytes) (s x : Bool) (h : StringsFromArgs args c)
    (ht : FromArgs args t) : StringsFromArgs args { c with groupFilters := ⟨t, s, x⟩ :: c.groupFilters } := by
  refine ⟨?_, h.2.1, h.2.2⟩
  intro f hf
  simp only [List.mem_cons] at hf
  rcases hf with rfl | hf
  · exact ht
  · exact h.1 f hf

theorem strings_addName (args : List Bytes) (c : Config) (t : Bytes) (s x : Bool) (h : StringsFromArgs args c)
    (ht : FromArgs args t) : StringsFromArgs args { c with nameFilters := ⟨t, s, x⟩ :: c.nameFilters } := by
  refine ⟨h.1, ?_, h.2.2⟩
  intro f hf
  simp only [List.mem_cons] at hf
  rcases hf with rfl | hf
  · exact ht
  · exact h.2.1 f hf

theorem strings_dotName (args : List Bytes) (c c' : Config) (v : Bytes) (s x : Bool) (l : List Bytes)
    (h : StringsFromArgs args c) (hv : FromArgs args v) (hl : ∀ t ∈ l, t <:+: v)
    (hd : dotNameFilters s x c l = some c') : StringsFromArgs args c' := by
  match l, hd with
  | [g, n], hd =>
    simp only [dotNameFilters, Option.some.injEq] at hd
    subst hd
    have hg : FromArgs args (subString g 0 (g.length - 1)) :=
      fromArgs_infix hv ((subString_infix g 0 _).trans (hl g (by simp)))
    have hn : FromArgs args n := fromArgs_infix hv (hl n (by simp))
    exact strings_addName args _ n s x (strings_addGroup args c _ s x h hg) hn

/-- one iteration keeps the invariant -/
theorem step_strings (env : Env) (args : List Bytes) (c : Config) (a : Bytes) (next : Option Bytes)
    (ha : a ∈ args) (hn : ∀ b, next = some b → b ∈ args) (h : StringsFromArgs args c) :
    StringsFromArgs args (step env c a next).cfg := by
  unfold step
  cases hd : dispatch a with
  | none => exact h
  | some hnd =>
    have hf := fun n => field_fromArgs args n a next ha hn
    cases hnd with
    | repeatCount => exact h
    | groupFilter => exact strings_addGroup args c _ _ _ h (hf 2)
    | strictGroup => exact strings_addGroup args c _ _ _ h (hf 3)
    | exclGroup => exact strings_addGroup args c _ _ _ h (hf 3)
    | exclStrictGroup => exact strings_addGroup args c _ _ _ h (hf 4)
    | nameFilter => exact strings_addName args c _ _ _ h (hf 2)
    | strictName => exact strings_addName args c _ _ _ h (hf 3)
    | exclName => exact strings_addName args c _ _ _ h (hf 3)
    | exclStrictName => exact strings_addName args c _ _ _ h (hf 4)
    | dotName l s x =>
      simp only [runHandler, addGroupDotName]
      cases hdn : dotNameFilters s x c (splitCode (getParameterField l.length a next).val [46]) with
      | none => exact h
      | some c' => exact strings_dotName args c c' _ s x _ h (hf _) (fun t ht => splitCode_infix _ _ t ht) hdn
    | shuffle => exact h
    | testForm l =>
      exact strings_addName args _ _ _ _
        (strings_addGroup args c _ _ _ h (fromArgs_infix (hf _) (testFormGroup_infix _)))
        (fromArgs_infix (hf _) (testFormName_infix _))
    | outputType =>
      simp only [runHandler, setOutputType]
      cases outputOf (getParameterField 2 a next).val <;> exact h
    | plugin => exact h
    | packageName =>
      simp only [runHandler, setPackageName]
      split
      · exact h
      · exact ⟨h.1, h.2.1, hf 2⟩
    | _ => exact h

theorem go_strings (env : Env) (args : List Bytes) : ∀ (l : List Bytes) (c : Config) (skip : Bool),
    (∀ a ∈ l, a ∈ args) → StringsFromArgs args c → StringsFromArgs args (go env c skip l).cfg
  | [], c, skip, _, h => by cases skip <;> simpa [go, ParseResult.cfg] using h
  | a :: rest, c, true, hl, h => by
    rw [go_skip]; exact go_strings env args rest c false (fun b hb => hl b (List.mem_cons_of_mem _ hb)) h
  | a :: rest, c, false, hl, h => by
    have hs := step_strings env args c a rest.head? (hl a (by simp))
      (fun b hb => hl b (List.mem_cons_of_mem _ (List.mem_of_mem_head? hb))) h
    simp only [go]
    split
    · exact go_strings env args rest _ _ (fun b hb => hl b (List.mem_cons_of_mem _ hb)) hs
    · exact hs


/-! ## helpers for what the created outputs show (seed line, run headers, JUnit file names, memory formatter) -/

/-- invariant behind "seed 0 is never used": shuffling implies a non-zero seed -/
theorem applyOpt_keeps_seed_nonzero (env : Env) (c : Config) (o : Opt)
    (h : c.shuffling = true → c.shuffleSeed ≠ 0) :
    (applyOpt env c o).shuffling = true → (applyOpt env c o).shuffleSeed ≠ 0 := by
  cases o with
  | flag fl => cases fl <;> simpa [applyOpt, Flag.apply] using h
  | shuffle => intro _; simpa [applyOpt] using timeSeed_ne_zero env.time
  | shuffleSeed s => intro _; have := s.pos; simp [applyOpt]; omega
  | _ => simpa [applyOpt] using h

theorem runHeadersFrom_eq (n : Nat) : ∀ (k i : Nat), runHeadersFrom n i k = (List.range k).map (fun j => (i + j, n))
  | 0, _ => rfl
  | k + 1, i => by
    rw [runHeadersFrom, runHeadersFrom_eq n k (i + 1), List.range_succ_eq_map]
    simp [Nat.add_assoc, Nat.add_comm 1]

theorem mem_insertBytes (x y : Bytes) : ∀ l : List Bytes, y ∈ insertBytes x l ↔ y = x ∨ y ∈ l
  | [] => by simp [insertBytes]
  | z :: zs => by
    unfold insertBytes
    split
    · rename_i h; have : x = z := by simpa using h
      subst this; simp
    · split
      · simp
      · simp only [List.mem_cons, mem_insertBytes x y zs]
        constructor <;> (intro h; rcases h with h | h | h <;> simp [h])

theorem mem_sortUniqueBytes (y : Bytes) : ∀ l : List Bytes, y ∈ sortUniqueBytes l ↔ y ∈ l
  | [] => by simp [sortUniqueBytes]
  | x :: xs => by
    have ih := mem_sortUniqueBytes y xs
    simp only [sortUniqueBytes, List.foldr_cons] at ih ⊢
    rw [mem_insertBytes, ih]; simp

theorem blockNames_sub (c : Config) : ∀ (ps : List ProbeTest) (cur : Option (Bytes × Bool)) (g : Bytes),
    g ∈ blockNames c cur ps → g = [] ∨ (∃ p ∈ ps, p.group = g) ∨ (∃ b, cur = some (g, b))
  | [], none, g => by simp [blockNames]
  | [], some (g', any), g => by
    cases any <;> simp [blockNames] <;> (intro h; simp [h])
  | p :: ps, none, g => by
    intro h
    simp only [blockNames] at h
    rcases blockNames_sub c ps _ g h with h | ⟨q, hq, rfl⟩ | ⟨b, hb⟩
    · exact Or.inl h
    · exact Or.inr (Or.inl ⟨q, List.mem_cons_of_mem _ hq, rfl⟩)
    · simp at hb; exact Or.inr (Or.inl ⟨p, by simp, hb.1⟩)
  | p :: ps, some (g', any), g => by
    intro h
    simp only [blockNames] at h
    split at h
    · rcases blockNames_sub c ps _ g h with h | ⟨q, hq, rfl⟩ | ⟨b, hb⟩
      · exact Or.inl h
      · exact Or.inr (Or.inl ⟨q, List.mem_cons_of_mem _ hq, rfl⟩)
      · simp at hb; exact Or.inr (Or.inr ⟨_, by rw [hb.1]⟩)
    · simp only [List.mem_cons] at h
      rcases h with h | h
      · cases any
        · simp at h; exact Or.inl h
        · simp at h; exact Or.inr (Or.inr ⟨_, by rw [h]⟩)
      · rcases blockNames_sub c ps _ g h with h | ⟨q, hq, rfl⟩ | ⟨b, hb⟩
        · exact Or.inl h
        · exact Or.inr (Or.inl ⟨q, List.mem_cons_of_mem _ hq, rfl⟩)
        · simp at hb; exact Or.inr (Or.inl ⟨p, by simp, hb.1⟩)

theorem blockNames_cur_true (c : Config) : ∀ (ps : List ProbeTest) (g : Bytes), g ∈ blockNames c (some (g, true)) ps
  | [], g => by simp [blockNames]
  | p :: ps, g => by
    simp only [blockNames]
    split
    · simpa using blockNames_cur_true c ps g
    · simp

theorem blockNames_selected (c : Config) : ∀ (ps : List ProbeTest) (cur : Option (Bytes × Bool)) (p : ProbeTest),
    p ∈ ps → selects c p.group p.name = true → p.group ∈ blockNames c cur ps
  | [], _, _ => by simp
  | q :: qs, none, p => by
    intro hp hs
    simp only [blockNames]
    rcases List.mem_cons.mp hp with rfl | hp
    · rw [hs]; exact blockNames_cur_true c qs _
    · exact blockNames_selected c qs _ p hp hs
  | q :: qs, some (g, any), p => by
    intro hp hs
    simp only [blockNames]
    rcases List.mem_cons.mp hp with rfl | hp
    · split
      · rename_i hg
        have : p.group = g := by simpa using hg
        rw [hs, Bool.or_true, ← this]; exact blockNames_cur_true c qs _
      · rw [hs]; exact List.mem_cons_of_mem _ (blockNames_cur_true c qs _)
    · split
      · exact blockNames_selected c qs _ p hp hs
      · exact List.mem_cons_of_mem _ (blockNames_selected c qs _ p hp hs)

/-- a value without `-` after `-pmemoryreport=` is the formatter type as written -/
theorem replaceAllAux_no_dash (pat : Bytes) : ∀ (n : Nat) (t : Bytes), (45 : UInt8) ∉ t → t.length ≤ n →
    replaceAllAux n t (45 :: pat) [] = t
  | 0, t, _, h => by cases t <;> simp_all [replaceAllAux]
  | n + 1, [], _, _ => rfl
  | n + 1, x :: t, hd, hl => by
    have hx : x ≠ 45 := by intro e; exact hd (by simp [e])
    have ht : (45 : UInt8) ∉ t := fun h => hd (List.mem_cons_of_mem _ h)
    have : ¬ ((45 : UInt8) :: pat).isPrefixOf (x :: t) = true := by
      simp [List.isPrefixOf, Ne.symm hx]
    simp only [replaceAllAux, this, if_false, Bool.false_eq_true]
    rw [replaceAllAux_no_dash pat n t ht (by simpa using hl)]

end CommandLine
