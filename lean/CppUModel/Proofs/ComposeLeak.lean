import CppUModel.Proofs.LeakDetector
import CppUModel.Proofs.LeakPlugin
/-!
Helper lemmas of the composition theorems `Props/C07x.lean`:
the abstract detector of `Model/LeakPlugin.lean` (C07) against the table model
`Model/LeakDetector.lean` (C04/C06).

`recOf` reads a `LeakPlugin.Rec` (id, period, allocation number, size) off a table record,
`R s d` says that the abstract detector `d` holds exactly the records of the table state `s`
(as a multiset), the same current period and the same next allocation number.
-/
namespace Compose.Leak
open LeakDetector

abbrev DPeriod := Gen.LeakDetector.Period
abbrev PPeriod := LeakPlugin.Period

/-- the two regenerated copies of `enum MemLeakPeriod` -/
def toPP : DPeriod → PPeriod
  | .all => .all
  | .disabled => .disabled
  | .enabled => .enabled
  | .checking => .checking

def ofPP : PPeriod → DPeriod
  | .all => .all
  | .disabled => .disabled
  | .enabled => .enabled
  | .checking => .checking

@[simp] theorem toPP_ofPP (p : PPeriod) : toPP (ofPP p) = p := by cases p <;> rfl
@[simp] theorem ofPP_toPP (p : DPeriod) : ofPP (toPP p) = p := by cases p <;> rfl

/-- what the abstract detector keeps of a `MemoryLeakDetectorNode` -/
def recOf (n : Node) : LeakPlugin.Rec :=
  { id := n.addr, period := toPP n.period, num := n.number, size := n.size }

/-- The simulation relation: same records (as a multiset: the abstract list is "most recent first",
    the table is ordered by bucket), same current period, same next allocation number; the table
    satisfies its invariant.  The text buffer (`out`) is not table state and is not related. -/
structure R (s : State) (d : LeakPlugin.Detector) : Prop where
  inv : s.Inv
  recs : (s.nodes.map recOf).Perm d.recs
  cur : toPP s.period = d.cur
  seq : s.seq = d.seq

/-- `R` does not look at the text buffer -/
theorem R.congr {s : State} {d d' : LeakPlugin.Detector} (h : R s d) (h1 : d'.recs = d.recs) (h2 : d'.cur = d.cur)
    (h3 : d'.seq = d.seq) : R s d' :=
  { inv := h.inv, recs := by rw [h1]; exact h.recs, cur := by rw [h2]; exact h.cur, seq := by rw [h3]; exact h.seq }

/-! ## list lemmas -/

theorem eraseP_eq_filter {L : List Node} (hnd : (L.map (·.addr)).Nodup) (a : Nat) :
    L.eraseP (fun n => n.addr == a) = L.filter (fun n => n.addr != a) := by
  induction L with
  | nil => rfl
  | cons x xs ih =>
    rw [List.map_cons, List.nodup_cons] at hnd
    by_cases hx : x.addr = a
    · have h1 : (x.addr == a) = true := by simpa using hx
      have h2 : (x.addr != a) = false := by simp [hx]
      rw [List.eraseP_cons_of_pos (p := fun n : Node => n.addr == a) h1,
        List.filter_cons_of_neg (p := fun n : Node => n.addr != a) (by simp [h2])]
      symm
      rw [List.filter_eq_self]
      intro y hy
      have : y.addr ≠ a := by
        intro h
        apply hnd.1
        rw [hx, ← h]
        exact List.mem_map_of_mem hy
      simpa using this
    · have h1 : ¬ ((x.addr == a) = true) := by simpa using hx
      have h2 : (x.addr != a) = true := by simpa using hx
      rw [List.eraseP_cons_of_neg (p := fun n : Node => n.addr == a) h1,
        List.filter_cons_of_pos (p := fun n : Node => n.addr != a) h2, ih hnd.2]

theorem nodes_eraseP_eq_filter {s : State} (inv : s.Inv) (a : Nat) :
    s.nodes.eraseP (fun n => n.addr == a) = s.nodes.filter (fun n => n.addr != a) :=
  eraseP_eq_filter inv.distinct a

theorem map_recOf_filter_ne (L : List Node) (a : Nat) :
    (L.filter (fun n => n.addr != a)).map recOf = (L.map recOf).filter (fun r => r.id != a) := by
  rw [List.filter_map]
  rfl

theorem filter_ne_self_of_absent {L : List Node} {a : Nat} (h : ∀ n ∈ L, n.addr ≠ a) :
    L.filter (fun n => n.addr != a) = L := by
  rw [List.filter_eq_self]
  intro n hn
  simpa using h n hn

/-- putting the (only) record with address `a` back in front is a permutation -/
theorem cons_eraseP_perm {L : List Node} (hnd : (L.map (·.addr)).Nodup) {n : Node} (hn : n ∈ L) :
    (n :: L.eraseP (fun x => x.addr == n.addr)).Perm L := by
  obtain ⟨A, B, rfl⟩ := List.append_of_mem hn
  rw [eraseP_split hnd]
  exact List.perm_middle.symm

/-! ## the two regenerated visibility rules agree -/

theorem isInPeriod_agree (np p : DPeriod) :
    Gen.LeakCode.isInPeriod (toPP np) (toPP p) = Gen.LeakDetector.isInPeriod np p := by
  cases np <;> cases p <;> rfl

theorem isInPeriod_recOf (n : Node) (p : PPeriod) :
    Gen.LeakCode.isInPeriod (recOf n).period p = LeakDetector.isInPeriod (ofPP p) n := by
  have := isInPeriod_agree n.period (ofPP p)
  rw [toPP_ofPP] at this
  exact this

/-- the demotion rule of the abstract detector (regenerated scan/from/to periods) is the table's `demote` -/
theorem recOf_demote (n : Node) : recOf (demote n) = LeakPlugin.Detector.demoteRec (recOf n) := by
  cases n with
  | mk addr size number file line allocator period stage sepNode bytes =>
    cases period <;> rfl

/-! ## what each table operation does to the list of records -/

theorem nodes_store {s : State} (inv : s.Inv) (addr size : Nat) (a : Allocator) (file : String) (line : Nat)
    (sep : Bool) (fill : UInt8) :
    (storeLeakInformation s addr size a file line sep fill).nodes.Perm
      (Spec.newNode (abs s) addr size a file line sep fill :: s.nodes) :=
  Table.Inv.flat_add_perm inv _

theorem recOf_newNode (s : State) (addr size : Nat) (a : Allocator) (file : String) (line : Nat)
    (sep : Bool) (fill : UInt8) :
    recOf (Spec.newNode (abs s) addr size a file line sep fill) =
      { id := addr, period := toPP s.period, num := s.seq, size := size } := rfl

theorem nodes_dealloc {s : State} (inv : s.Inv) (a : Allocator) (addr : Nat) (file : String) (line : Nat) (sep : Bool) :
    (dealloc s a addr file line sep).1.nodes = s.nodes.filter (fun n => n.addr != addr) := by
  unfold dealloc
  by_cases hz : addr = 0
  · simp only [hz, if_true]
    symm
    exact filter_ne_self_of_absent (fun n hn => inv.nonnull n hn)
  · simp only [hz, if_false]
    cases hr : s.table.retrieveNode addr with
    | none =>
      symm
      exact filter_ne_self_of_absent ((retrieve_none_iff inv).mp hr)
    | some n =>
      show State.nodes { s with table := s.table.unlinkNode addr } = _
      rw [nodes_unlink inv addr]
      exact eraseP_eq_filter inv.distinct addr

theorem dealloc_scalars (s : State) (a : Allocator) (addr : Nat) (file : String) (line : Nat) (sep : Bool) :
    (dealloc s a addr file line sep).1.period = s.period ∧ (dealloc s a addr file line sep).1.seq = s.seq := by
  unfold dealloc
  split
  · exact ⟨rfl, rfl⟩
  · split <;> exact ⟨rfl, rfl⟩

/-! ## observables under `R` -/

theorem R.ids_nonzero {s : State} {d : LeakPlugin.Detector} (h : R s d) : ∀ r ∈ d.recs, r.id ≠ 0 := by
  intro r hr
  obtain ⟨n, hn, rfl⟩ := List.mem_map.mp (h.recs.mem_iff.mpr hr)
  exact h.inv.nonnull n hn

theorem R.isLive_eq {s : State} {d : LeakPlugin.Detector} (h : R s d) (id : Nat) :
    d.isLive id = LeakDetector.isLive s id := by
  rw [Bool.eq_iff_iff]
  unfold LeakPlugin.Detector.isLive LeakDetector.isLive
  simp only [List.any_eq_true, beq_iff_eq]
  constructor
  · rintro ⟨r, hr, rfl⟩
    obtain ⟨n, hn, rfl⟩ := List.mem_map.mp (h.recs.mem_iff.mpr hr)
    exact ⟨n, hn, rfl⟩
  · rintro ⟨n, hn, rfl⟩
    exact ⟨recOf n, h.recs.mem_iff.mp (List.mem_map_of_mem hn), rfl⟩

theorem R.ids_nodup {s : State} {d : LeakPlugin.Detector} (h : R s d) : (d.recs.map (·.id)).Nodup := by
  have hp : ((s.nodes.map recOf).map (·.id)).Perm (d.recs.map (·.id)) := h.recs.map _
  refine hp.nodup_iff.mp ?_
  rw [List.map_map]
  exact h.inv.distinct

end Compose.Leak
