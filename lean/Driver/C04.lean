import CppUModel.Base.Proto
import CppUModel.Model.LeakDetector
import CppUModel.Model.LeakDetectorReplay
/-!
Driver for C04: replays `h_c04` traces through the detector model and judges the implementation's
observations with the property's specification oracle: a shadow finite map `address ⇀ record` kept from the
operation lines and the environment's answers alone (independent of the model), against which every
`totals` line, every report and every release is checked.
Imports Base/Model/Gen only.
-/
open LeakDetector.Replay

namespace C04Spec

inductive P | disabled | enabled | checking
deriving DecidableEq, Repr, Inhabited

structure Rec where
  addr : Nat
  num  : Nat
  size : Nat
  file : String
  line : Nat
  type : String          -- hex of alloc_name()
  period : P
  stage : Nat
deriving Repr, Inhabited

structure Shadow where
  live    : List Rec := []
  period  : P := .disabled
  stage   : Nat := 0
  nextNum : Nat := 1
  types   : List (Nat × String) := []      -- allocator index ↦ hex of alloc_name(), as the real object answered
  curNew  : Nat := 0                       -- current allocators of the three families (setCurrent…Allocator)
  curArr  : Nat := 1
  curMal  : Nat := 2
  -- the switch position of the global overloads, as the interface documents it: on / off, saveAndDisable nests
  ovOn    : Bool := true
  ovSaved : Bool := true
  ovDepth : Nat := 0
  stash   : Option (Nat × Nat × Nat) := none      -- GlobalMemoryAllocatorStash: (new, new[], malloc) at the last save
deriving Inhabited

/-- which records a period query sees, as documented: `all` everything, `disabled`/`checking` the records
    stamped with that period, `enabled` everything that was not allocated while disabled -/
def inPeriod (q : String) (r : Rec) : Bool :=
  match q with
  | "all" => true
  | "disabled" => r.period == .disabled
  | "enabled" => r.period != .disabled
  | "checking" => r.period == .checking
  | _ => false

def count (sh : Shadow) (q : String) : Nat := (sh.live.filter (inPeriod q)).length

def isLive (sh : Shadow) (a : Nat) : Bool := sh.live.any (·.addr == a)

def retOf (obs : List (List String)) : Option Nat :=
  (obs.find? (fun l => l.head? == some "ret")).bind (fun l => l[1]? >>= String.toNat?)

def hasFail (obs : List (List String)) (kind : String) : Bool :=
  obs.any (fun l => l.take 2 == ["fail", kind])

def insertNat (x : Nat) : List Nat → List Nat
  | [] => [x]
  | y :: ys => if x ≤ y then x :: y :: ys else y :: insertNat x ys
def sortNat (l : List Nat) : List Nat := l.foldr insertNat []

def leakKey (r : Rec) : String := s!"leak {r.addr} {r.num} {r.size} {r.file} {r.line} {r.type}"

def insertStr (x : String) : List String → List String
  | [] => [x]
  | y :: ys => if x ≤ y then x :: y :: ys else y :: insertStr x ys
def sortStr (l : List String) : List String := l.foldr insertStr []

def checkTotals (sh : Shadow) (obs : List (List String)) : Except String Unit := do
  match obs.find? (fun l => l.head? == some "totals") with
  | some [_, a, d, e, c] =>
    let want := [count sh "all", count sh "disabled", count sh "enabled", count sh "checking"]
    let got := [a, d, e, c].map (fun s => s.toNat?.getD 0)
    if want != got then
      throw s!"totals (all disabled enabled checking) are {got} but the outstanding blocks give {want}"
  | _ => throw "no totals line"

/-- the current allocator of the family an overload form belongs to (`new…`/`del…`, `newa…`/`dela…`, `malloc`/`free`),
    whatever extra arguments the form takes -/
def curOf (sh : Shadow) (form : String) : Nat :=
  if form == "malloc" || form == "free" then sh.curMal
  else if form.startsWith "newa" || form.startsWith "dela" then sh.curArr
  else sh.curNew

def newRec (sh : Shadow) (addr size : Nat) (file : String) (line : Nat) (ai : Nat) : Rec :=
  { addr := addr, num := sh.nextNum, size := size, file := file, line := line,
    type := (sh.types.lookup ai).getD "?", period := sh.period, stage := sh.stage }

def specStep (sh : Shadow) (o : Proto.Op) : Except String Shadow := do
  let obs := o.obs
  if obs.any (fun l => l.head? == some "fail" && l[1]? == some "unparsed") then throw "failure text not understood"
  let sh' ← (match o.op with
    | ["setup"] =>
      let types := obs.filterMap (fun l => match l with
        | ["actual", i, _, an, _] => i.toNat?.map (fun i => (i, an))
        | _ => none)
      pure { sh with types := types }
    | ["skip"] => pure sh
    | ["alloc", ai, size, file, line, _] => do
      let some r := retOf obs | throw "alloc: no result"
      if r == 0 then pure sh
      else
        if isLive sh r then throw s!"environment: the allocator returned the live address {r}"
        pure { sh with live := newRec sh r (size.toNat?.getD 0) file (line.toNat?.getD 0) (ai.toNat?.getD 0) :: sh.live,
                       nextNum := sh.nextNum + 1 }
    | ["ov", "off"] => pure { sh with ovOn := false }
    | ["ov", "plain"] => pure { sh with ovOn := true }
    | ["ov", "threadsafe"] => pure { sh with ovOn := true }
    | ["ov", "save"] =>
      -- saveAndDisableNewDeleteOverloads nests: only the outermost call saves the position and switches off
      if sh.ovDepth == 0 then pure { sh with ovDepth := 1, ovSaved := sh.ovOn, ovOn := false }
      else pure { sh with ovDepth := sh.ovDepth + 1 }
    | ["ov", "restore"] =>
      if sh.ovDepth == 0 then throw "environment: restoreNewDeleteOverloads without a matching saveAndDisableNewDeleteOverloads"
      else if sh.ovDepth == 1 then pure { sh with ovDepth := 0, ovOn := sh.ovSaved }
      else pure { sh with ovDepth := sh.ovDepth - 1 }
    | ["overloads", _] => pure { sh with ovOn := true }
    | ["stash", "save"] => pure { sh with stash := some (sh.curNew, sh.curArr, sh.curMal) }
    | ["stash", "restore"] =>
      match sh.stash with
      | some (n, a, m) => pure { sh with curNew := n, curArr := a, curMal := m }
      | none => pure sh
    -- registry entries 0, 1, 2 are defaultNewAllocator(), defaultNewArrayAllocator(), defaultMallocAllocator()
    | ["setcur-default", "new"] => pure { sh with curNew := 0 }
    | ["setcur-default", "newarray"] => pure { sh with curArr := 1 }
    | ["setcur-default", "malloc"] => pure { sh with curMal := 2 }
    | ["setcur", "new", "null"] => pure { sh with curNew := 0 }
    | ["setcur", "newarray", "null"] => pure { sh with curArr := 1 }
    | ["setcur", "malloc", "null"] => pure { sh with curMal := 2 }
    | ["gacq", form, size, file, line] => do
      -- with the overloads switched off nothing is allocated THROUGH the detector: the outstanding set stays as it is
      -- otherwise a block acquired through any form of an overload is held with the allocator kind of the form's family;
      -- the forms without file/line are recorded at <unknown>:0
      let some r := retOf obs | throw "gacq: no result"
      if !sh.ovOn then pure sh
      else if r == 0 then pure sh
      else
        if isLive sh r then throw s!"environment: the allocator returned the live address {r}"
        let loc := form == "new_fi" || form == "new_fs" || form == "newa_fi" || form == "newa_fs" || form == "malloc"
        pure { sh with live := newRec sh r (size.toNat?.getD 0) (if loc then file else "<unknown>")
                                 (if loc then line.toNat?.getD 0 else 0) (curOf sh form) :: sh.live,
                       nextNum := sh.nextNum + 1 }
    | ["grealloc", addr, size, file, line] => do
      -- cpputest_realloc_location: as reallocMemory with the current malloc allocator; nothing with the overloads off
      let a := addr.toNat?.getD 0
      let some r := retOf obs | throw "grealloc: no result"
      if !sh.ovOn then pure sh
      else if a != 0 && !isLive sh a then
        if !hasFail obs "nonallocated" then throw s!"reallocating {a}, which is not outstanding, was not reported as non-allocated"
        if r != 0 then throw "realloc of an unknown block returned memory"
        pure sh
      else
        if hasFail obs "nonallocated" then throw s!"reallocating the outstanding block {a} was reported as non-allocated"
        if r == 0 then pure sh
        else
          let rest := sh.live.filter (·.addr != a)
          if rest.any (·.addr == r) then throw s!"environment: realloc returned the live address {r}"
          pure { sh with live := newRec sh r (size.toNat?.getD 0) file (line.toNat?.getD 0) sh.curMal :: rest,
                         nextNum := sh.nextNum + 1 }
    | ["grel", _, addr, _, _] => do
      let a := addr.toNat?.getD 0
      if !sh.ovOn then pure sh       -- the pointer goes to the platform free; the harness only lets untracked blocks through
      else if a == 0 then
        if obs.any (fun l => l.head? == some "fail") then throw "releasing NULL was reported"
        pure sh
      else if isLive sh a then
        if hasFail obs "nonallocated" then throw s!"releasing the outstanding block {a} was reported as non-allocated"
        pure { sh with live := sh.live.filter (·.addr != a) }
      else
        if !hasFail obs "nonallocated" then throw s!"releasing {a}, which is not outstanding, was not reported as non-allocated"
        pure sh
    -- the real MemoryLeakWarningPlugin around a test: the checking period starts at the pre action; at the post action it
    -- ends and what the test left behind stops being "checking" (whatever the ignore / expect flags say), so that the next
    -- test's checking period holds exactly the blocks allocated after ITS pre action
    | ["plugin", "create"] => pure { sh with period := .enabled }
    | ["plugin", "pre"] => pure { sh with period := .checking }
    | ["plugin", "post"] =>
      pure { sh with period := .enabled,
                     live := sh.live.map (fun r => if r.period == .checking then { r with period := .enabled } else r) }
    | ["plugin", "final", n] | ["plugin", "refinal", n] => do
      -- the final report is about the blocks allocated while the detector was enabled and not released: "" exactly when
      -- their number is the announced one, otherwise total, entries and the no-leaks answer must agree with that set
      let want := sortStr ((sh.live.filter (inPeriod "enabled")).map leakKey)
      if obs.any (· == ["final", "empty"]) then
        if some want.length != n.toNat? then throw s!"FinalReport({n}) is empty but {want.length} blocks are outstanding"
      else
        if some want.length == n.toNat? then throw s!"FinalReport({n}) reports although exactly {n} blocks are outstanding"
        match obs.find? (fun l => l.head? == some "report") with
        | some ["report", "full"] => pure ()       -- the text buffer is full: the answer may be cut (capacity is not the subject)
        | some ["report", "unparsed", _] =>
          throw s!"FinalReport({n}) is not a report of the {want.length} outstanding blocks (header, entries, total or the no-leaks answer are off)"
        | some ["report", "none"] =>
          if !want.isEmpty then throw s!"FinalReport({n}) says no leaks but {want.length} blocks are outstanding"
        | some ["report", "truncated", k] =>
          if k.toNat? != some want.length then throw s!"FinalReport({n}) states a total of {k}, outstanding: {want.length}"
        | some ["report", "total", k, _] =>
          if k.toNat? != some want.length then throw s!"FinalReport({n}) states a total of {k}, outstanding: {want.length}"
          let got := sortStr ((obs.filter (fun l => l.head? == some "leak")).map (fun l => " ".intercalate l))
          if got != want then
            throw s!"FinalReport({n}) entries differ from the outstanding blocks: missing {(want.filter (fun w => !got.contains w)).take 2} unexpected {(got.filter (fun g => !want.contains g)).take 2}"
        | _ => throw s!"FinalReport({n}) not understood"
      pure sh
    | ["plugin", "ignore"] => pure sh
    | ["plugin", "expect", _] => pure sh
    | ["setcur", "new", ai] => pure { sh with curNew := ai.toNat?.getD 0 }
    | ["setcur", "newarray", ai] => pure { sh with curArr := ai.toNat?.getD 0 }
    | ["setcur", "malloc", ai] => pure { sh with curMal := ai.toNat?.getD 0 }
    | ["free", _, addr, _, _, _] => do
      let a := addr.toNat?.getD 0
      if a == 0 then
        if obs.any (fun l => l.head? == some "fail") then throw "releasing NULL was reported"
        pure sh
      else if isLive sh a then
        if hasFail obs "nonallocated" then throw s!"releasing the outstanding block {a} was reported as non-allocated"
        pure { sh with live := sh.live.filter (·.addr != a) }
      else
        if !hasFail obs "nonallocated" then throw s!"releasing {a}, which is not outstanding, was not reported as non-allocated"
        pure sh
    | ["realloc", ai, addr, size, file, line, _] => do
      let a := addr.toNat?.getD 0
      let some r := retOf obs | throw "realloc: no result"
      if a != 0 && !isLive sh a then
        if !hasFail obs "nonallocated" then throw s!"reallocating {a}, which is not outstanding, was not reported as non-allocated"
        if r != 0 then throw "realloc of an unknown block returned memory"
        pure sh
      else
        if hasFail obs "nonallocated" then throw s!"reallocating the outstanding block {a} was reported as non-allocated"
        if r == 0 then pure sh          -- a failed realloc leaves the old block outstanding
        else
          let rest := sh.live.filter (·.addr != a)
          if rest.any (·.addr == r) then throw s!"environment: realloc returned the live address {r}"
          pure { sh with live := newRec sh r (size.toNat?.getD 0) file (line.toNat?.getD 0) (ai.toNat?.getD 0) :: rest,
                         nextNum := sh.nextNum + 1 }
    | ["period", "start"] => pure { sh with period := .checking }
    | ["period", "stop"] => pure { sh with period := .enabled }
    | ["period", "enable"] => pure { sh with period := .enabled }
    | ["period", "disable"] => pure { sh with period := .disabled }
    | ["typecheck", _] => pure sh
    | ["stage", "inc"] => pure { sh with stage := (sh.stage + 1) % 256 }
    | ["stage", "dec"] => pure { sh with stage := (sh.stage + 255) % 256 }
    | ["stage", "release"] => do
      let named := sortNat ((sh.live.filter (·.stage == sh.stage)).map (·.addr))
      let freed := sortNat (obs.filterMap (fun l => match l with
        | "ufree" :: a :: _ => a.toNat?
        | _ => none))
      if named != freed then throw s!"stage release returned the blocks {freed} but the current stage holds {named}"
      if hasFail obs "nonallocated" then throw "stage release reported a non-allocated block"
      pure { sh with live := sh.live.filter (·.stage != sh.stage) }
    | ["clear", p] => pure { sh with live := sh.live.filter (fun r => !inPeriod p r) }
    | ["drop", a] => do
      if isLive sh (a.toNat?.getD 0) then throw "environment: the client dropped a block that is still outstanding"
      pure sh
    | ["mark"] => pure { sh with live := sh.live.map (fun r => if r.period == .checking then { r with period := .enabled } else r) }
    -- `rereport`: the report asked for again without a startChecking() in between; judged, like every report, by the text
    -- this call produced alone
    | ["report", p] | ["rereport", p] => do
      let want := sortStr ((sh.live.filter (inPeriod p)).map leakKey)
      match obs.find? (fun l => l.head? == some "report") with
      | some ["report", "full"] => pure ()         -- the text buffer is full: the answer may be cut (capacity is not the subject)
      | some ["report", "unparsed", _] =>
        throw s!"report({p}) is not a report of the {want.length} outstanding blocks (header, entries, total or the no-leaks answer are off)"
      | some ["report", "none"] =>
        if !want.isEmpty then throw s!"report({p}) says no leaks but {want.length} blocks are outstanding"
      | some ["report", "truncated", n] =>
        if n.toNat? != some want.length then throw s!"report({p}) states a total of {n}, outstanding: {want.length}"
      | some ["report", "total", n, _] =>
        if want.isEmpty then throw s!"report({p}) lists leaks but nothing is outstanding"
        if n.toNat? != some want.length then throw s!"report({p}) states a total of {n}, outstanding: {want.length}"
        let got := sortStr ((obs.filter (fun l => l.head? == some "leak")).map (fun l => " ".intercalate l))
        if got != want then
          let missing := want.filter (fun w => !got.contains w)
          let extra := got.filter (fun g => !want.contains g)
          throw s!"report({p}) entries differ from the outstanding blocks: missing {missing.take 2} unexpected {extra.take 2}"
      | _ => throw s!"report({p}) not understood"
      pure sh
    | _ => throw "bad-op")
  if o.op != ["setup"] && o.op != ["skip"] then
    checkTotals sh' obs
    -- getCurrentAllocationNumber(): one more than the number of allocations / reallocations that returned memory
    match obs.find? (fun l => l.head? == some "allocnum") with
    | some [_, n] =>
      if n.toNat? != some sh'.nextNum then
        throw s!"the next allocation number is {n} after {sh'.nextNum - 1} successful allocations"
    | _ => throw "no allocnum line"
  return sh'

def specAll (ops : List Proto.Op) : Option String :=
  let rec go (sh : Shadow) (i : Nat) : List Proto.Op → Option String
    | [] => none
    | o :: rest =>
      match specStep sh o with
      | .ok sh' => go sh' (i+1) rest
      | .error e =>
        if e.startsWith "environment:" then none      -- outside the quantifier: the allocator broke its contract
        else some s!"op#{i} {" ".intercalate o.op}: {e}"
  go {} 0 ops

end C04Spec

def main : IO Unit :=
  Proto.driverMain { init := ({} : DState), step := modelStep, spec := C04Spec.specAll }
