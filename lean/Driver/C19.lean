import CppUModel.Base.Proto
import CppUModel.Model.MockC
import CppUModel.Spec.MockC
import CppUModel.Model.MockCNodes
import CppUModel.Model.MockCReporter
import CppUModel.Model.MockCActual
/-!
Driver for C19.

Model replay: every operation of the x-run (the scenario through the C++ interface) is also stepped through the model
of the C layer (`MockC.stepC`, dispatching through the wiring regenerated from MockSupport_c.{h,cpp}) over a
symbolic C++ mock whose answers are the x-run's own observations.  That yields (1) the C++ call the C layer makes,
folded to the documented C++ statement (`call ...`, compared with the call the harness really made) and (2) the
prediction of what the C interface returns (`co ...` lines, compared with the c-run of the real code).

Specification oracle: independent of the model and of the regenerated tables: the c-run and the x-run of the real
code must agree operation by operation (returned values with type tag and defaulting, output bytes), stop at the
same operation, and end with the same verdict and failure text.  Divergences at a return-value getter that is asked
while the C layer's static actual call is not the last call of the selected scope are labelled with the finding they
belong to.
-/
open MockC

/-! ## the symbolic C++ mock: records calls, answers from the x-run -/

structure TM where
  calls : List String := []
  ans   : List (Res Unit Nat) := []
  next  : Nat := 0
  last  : List (String × Nat) := []
  /-- every actual call handed out: id, scope, checked (false = the ignored-call object) -/
  kinds : List (Nat × String × Bool) := []
  /-- a call found no recorded answer: in the x-run the C++ call ended the test before returning -/
  dry   : Bool := false

def renderVal : Val → String
  | .int v => toString v
  | .bool b => if b then "1" else "0"
  | .tok s => s

def renderArgs (args : List Val) : String := " ".intercalate (args.map renderVal)

def logCall (m : TM) (recv meth : String) (args : List Val) : TM :=
  { m with calls := m.calls ++ [(recv ++ " " ++ meth ++ (if args.isEmpty then "" else " " ++ renderArgs args))] }

def popAns (m : TM) : TM × Res Unit Nat :=
  match m.ans with
  | a :: rest => ({ m with ans := rest }, a)
  | [] => ({ m with dry := true }, .unit)

def tmSup (m : TM) (s meth : String) (args : List Val) : TM × Res Unit Nat :=
  let m := logCall m "sup" meth args
  if meth = "expectOneCall(string)" ∨ meth = "expectNCalls(uint,string)" then (m, .ec ())
  else if meth = "actualCall(string)" then
    let id := m.next
    let (m, k) := popAns m
    let checked := match k with | .val (.tok "ignored") => false | _ => true
    -- `MockSupport::actualCall` (statement list regenerated from MockSupport.cpp, `Actual.runSteps`): a checked call
    -- replaces the scope's last call; an ignored one (mocking disabled / ignoreOtherCalls) finishes and deletes it first
    let last := m.last.filter (·.1 ≠ s)
    ({ m with next := id + 1, kinds := (id, s, checked) :: m.kinds,
              last := if checked then (s, id) :: last
                      else if Actual.ignoredCallClearsLast then last else m.last }, .ac id)
  else if meth = "clear()" then
    ({ m with last := if s = "" then [] else m.last.filter (·.1 ≠ s) }, .unit)
  else popAns m

def tmEc (m : TM) (_ : Unit) (meth : String) (args : List Val) : TM × Res Unit Nat :=
  (logCall m "ec" meth args, .ec ())

def tmAc (m : TM) (a : Nat) (meth : String) (args : List Val) : TM × Res Unit Nat :=
  let m := logCall m "ac" meth args
  match m.ans with
  | x :: rest => ({ m with ans := rest }, x)
  | [] => ({ m with dry := true }, .ac a)

@[reducible] def TraceMock : CppMock where
  M := TM
  EC := Unit
  AC := Nat
  mock := fun m s => logCall m "mock" s []
  sup := tmSup
  ec := tmEc
  ac := tmAc
  stopped := fun m => m.dry
  last := fun m s => (m.last.find? (·.1 = s)).map (·.2)

/-! ## parsing -/

def intTypes : List String := ["int", "uint", "long", "ulong", "llong", "ullong", "size"]

def parseArg (ty tok : String) : Val :=
  if ty ∈ intTypes then
    match tok.toInt? with
    | some v => .int v
    | none => .tok tok
  else .tok tok

def tblOf : String → Option Ptr
  | "S" => some .sup
  | "E" => some .exp
  | "A" => some .act
  | _ => none

/-- op words (after `x i` / `c i`) ↦ C statement; argument tokens are typed by the forwarder's parameter list -/
def parseStmt : List String → Option CStmt
  | ["M0"] => some .mockC
  | ["M", s] => some (.mockScope (if s = "-" then "" else s))
  | t :: field :: args =>
    match tblOf t with
    | some tbl =>
      match forwarderOf tbl field with
      | some fw => some (.call tbl field ((args.zip (fw.params.map (·.2))).map (fun (a, ty) => parseArg ty a)))
      | none => some (.call tbl field (args.map .tok))
    | none => none
  | _ => none

def strOfHex (h : String) : String :=
  match Proto.unhex? h with
  | some bs => String.ofList (bs.map (fun b => Char.ofNat b.toNat))
  | none => "?"

def valOfKind (kind tok : String) : Val :=
  if kind = "bool" then .bool (tok ≠ "0")
  else if kind ∈ ["int", "uint", "long", "ulong", "llong", "ullong"] then
    match tok.toInt? with | some v => .int v | none => .tok tok
  else .tok tok

def kindOfType (ty : String) : String :=
  if ty = "bool" then "bool"
  else if ty ∈ ["int", "unsigned int", "long int", "unsigned long int", "long long int", "unsigned long long int"] then "int"
  else "tok"

/-- the x-run's observations of one operation, as answers of the symbolic mock (in the order the C layer asks) -/
def answersOf (obs : List (List String)) : List (Res Unit Nat) :=
  obs.filterMap fun l => match l with
    | ["xo", "has", h] => some (.val (.bool (h ≠ "0")))
    | ["xo", "ret", kind, v] => some (.val (valOfKind kind v))
    | ["xo", "val", ty, p] => let t := strOfHex ty; some (.named ⟨t, valOfKind (kindOfType t) p⟩)
    | ["xo", "ackind", k] => some (.val (.tok k))
    | _ => none

/-! ## rendering the documented C++ statement of a C call (folded from the regenerated forwarder) -/

def ptrName : Ptr → String
  | .sup => "sup" | .exp => "ec" | .act => "ac"

def orDefaultName (r : Ptr) (getter : String) : String :=
  let tbl := if r = .sup then Gen.CMock.supGetters else Gen.CMock.actGetters
  match tbl.find? (fun p => p.2 = .orDefault getter) with
  | some p => p.1
  | none => "?orDefault(" ++ getter ++ ")"

def dfltType (fw : Fwd) : String :=
  match fw.body with
  | .orDefault _ g =>
    match findFwdIn Gen.CMock.forwarders g with
    | some gf => match gf.body with
                 | .ret _ _ _ .boolToInt => "bool"
                 | _ => ((fw.params.find? (·.1 = "defaultValue")).map (·.2)).getD "?"
    | none => "?"
  | _ => "?"

def renderX (fw : Fwd) : XStmt → String
  | .mock s => "call mock " ++ (if s = "" then "-" else s)
  | .call r m args _ => "call " ++ ptrName r ++ " " ++ m ++ (if args.isEmpty then "" else " " ++ renderArgs args)
  | .orDefault r g _ d => "call " ++ ptrName r ++ " " ++ orDefaultName r g ++ "(" ++ dfltType fw ++ ") " ++ renderVal d
  | .invalid w => "call INVALID " ++ w

/-- is the forwarder, reached through `tbl`, one that reads through a static pointer of another table? -/
def bridged (tbl : Ptr) (fw : Fwd) : Bool :=
  match fw.body with
  | .ret .act _ _ _ => tbl == .sup
  | .ret .sup "hasReturnValue" _ _ => tbl == .act
  | .orDefault _ _ => true
  | _ => false

/-! ## model replay -/

structure DState where
  st    : Core TraceMock := { m := {} }
  /-- predictions for the c-run, per operation index -/
  pred  : List (String × List String) := []
  xend  : List String := []
  /-- the reporter plumbing of the C layer (`Rep.stepC`, interpreted from the regenerated mockCalls / reporters /
      terminators): which reporter is active in the selected scope, the crash flags, whether the test already failed -/
  rep   : Rep.RWorld := {}
  /-- operations the C++ run left by its exception, oldest first: (op index, lines if the failure went through the mock
      failure reporter — from the reporter model of the C side —, lines if it was an assertion macro inside the mock
      core (`STRCMP_EQUAL` in MockNamedValue's getters: the test shell's own terminator, the same for both interfaces)) -/
  fails : List (String × List String × List String) := []

def isOrDefault (fw : Fwd) : Bool :=
  match fw.body with
  | .orDefault _ _ => true
  | _ => false

/-- the static actual call is the last call of the selected scope (for a call through the actual-call table, and for
    every `...OrDefault`, an ignored call made on the selected scope counts too: both `has` answer "no") -/
def alignedNow (tbl : Ptr) (fw : Fwd) (st : Core TraceMock) : Bool :=
  match st.cur, st.a with
  | some s, some a =>
    match st.m.kinds.find? (fun k => k.1 == a) with
    | some (_, s', checked) =>
      if checked then TraceMock.last st.m s == some a
      -- an ignored call made on the selected scope left no last call there (`disabled_call_leaves_no_last`): the scope
      -- answers "no return value", so every `...OrDefault` (either table) returns the default without reading the call
      else (tbl == .act || isOrDefault fw) && s == s' && (TraceMock.last st.m s).isNone
    | none => false
  | _, _ => false

/-- `actualCall` was made on the selected scope (enough for `call->hasReturnValue()` of an ignored call) -/
def renderCRes (kind : String) : CRes → List String
  | .none => []
  | .val v => ["co ret " ++ kind ++ " " ++ renderVal v]
  | .valB v => ["co ret " ++ kind ++ " " ++ renderVal v]
  | .cval c => ["co val " ++ c.tag ++ " " ++ renderVal c.payload]
  | .undefined w => ["co UNDEFINED " ++ w]

def kindFromX (obs : List (List String)) : String :=
  match obs.find? (fun l => match l with | ["xo", "ret", _, _] => true | _ => false) with
  | some ["xo", "ret", k, _] => k
  | _ => "bool"

def stmtFwd : CStmt → Option (Ptr × Fwd)
  | .mockC => (findFwdIn Gen.CMock.forwarders "mock_c").map (fun f => (.sup, f))
  | .mockScope _ => (findFwdIn Gen.CMock.forwarders "mock_scope_c").map (fun f => (.sup, f))
  | .call tbl field _ => (forwarderOf tbl field).map (fun f => (tbl, f))

def stmtArgs : CStmt → List Val
  | .mockC => []
  | .mockScope s => [.tok s]
  | .call _ _ args => args

def modelStep (d : DState) (op : List String) (obs : List (List String)) : DState × List String :=
  match op with
  | ["skip"] => (d, [])
  | ["x", "end"] =>
    let lines := obs.filterMap fun l => match l with
      | "xo" :: rest => some ("co " ++ " ".intercalate rest)
      | _ => none
    -- which of the failures were reported through the mock failure reporter: the k-th operation left by an exception
    -- is the k-th failure of the verdict text
    let text := match obs.find? (fun l => l.take 2 == ["xo", "verdict"]) with
      | some [_, _, _, h] => strOfHex h
      | _ => ""
    let blocks := (text.splitOn "Failure in TEST(").drop 1
    let viaReporter := blocks.map (fun b => (b.splitOn "Mock Failure:").length > 1 || (b.splitOn "MockFailure:").length > 1)
    let chosen := (d.fails.zip (viaReporter ++ List.replicate d.fails.length true)).map
      (fun (f, r) => (f.1, if r then f.2.1 else f.2.2))
    let pred := d.pred.map (fun (idx, p) =>
      match chosen.find? (·.1 = idx) with
      | some (_, ls) => (idx, p.flatMap (fun l => if l = "@FAIL@" then ls else [l]))
      | none => (idx, p.filter (· ≠ "@FAIL@")))
    ({ d with xend := lines, pred := pred }, [])
  | ["c", "end"] => (d, d.xend)
  | ["x", _, "T"] =>
    -- teardown starts: the test drops its chain objects; which call is a scope's last one is not known any more
    ({ d with st := { d.st with e := none, a := none, m := { d.st.m with last := [] } } }, [])
  | ["c", _, "T"] => (d, [])
  | "x" :: _ :: "P" :: _ => (d, [])
  | "c" :: _ :: "P" :: _ => (d, [])
  | "x" :: idx :: words =>
    match parseStmt words with
    | none => (d, ["call UNPARSED"])
    | some stmt =>
      match stmtFwd stmt with
      | none => (d, ["call NO-FORWARDER"])
      | some (tbl, fw) =>
        let st0 : Core TraceMock := { d.st with m := { d.st.m with calls := [], ans := answersOf obs, dry := false } }
        let misaligned := bridged tbl fw && !alignedNow tbl fw st0
        let r1 := execCWith forwarderOf Gen.CMock.forwarders TraceMock st0 stmt
        let st1 := r1.1
        let callLine :=
          if misaligned then "call MISALIGNED " ++ "; ".intercalate st1.m.calls
          else renderX fw (Req.meaning tbl fw (stmtArgs stmt))
        -- output bytes and "the reporter crashed the test" are functions of the C++ world: taken from the x-run, in order
        let outs := obs.filterMap fun l => match l with
          | "xo" :: "out" :: rest => some ("co out " ++ " ".intercalate rest)
          | _ => none
        -- the reporter model of the C side: scope selections and crashOnFailure are replayed; a failure at this operation
        -- (the C++ run left it by its exception) goes to the reporter the C layer made active in the selected scope
        let rop : Option Rep.ROp := match stmt with
          | .mockC => some .mockGlobal
          | .mockScope sc => some (.mockScope sc)
          | .call .sup "crashOnFailure" [v] => some (.crashOnFailure (match neZero v with | .bool b => b | _ => false))
          | _ => none
        let rep1 := match rop with | some o => Rep.stepC d.rep o | none => d.rep
        let failedHere := obs.any (· == ["xo", "left", "exception"])
        let rep2' := if failedHere then Rep.stepC rep1 .fail else rep1
        let rep2 := if failedHere then { rep2' with hasFailed := true } else rep2'
        let newEvs := rep2.events.drop rep1.events.length
        let failLines := newEvs.filterMap fun e => match e with
          | .crash => some "co crash"
          | .exit .exception => some "co left exception"
          | .exit .unknown => some "co left UNKNOWN"
          | .exit .longjmp => none
        let res := r1.2
        -- a value-returning forwarder whose C++ call never returned does not return either
        let p := if misaligned then ["co UNPREDICTABLE misaligned"]
                 else (if st1.m.dry || failedHere then [] else renderCRes (kindFromX obs) res) ++
                      (if failedHere then ["@FAIL@"] else []) ++ outs
        ({ d with st := st1, pred := (idx, p) :: d.pred, rep := rep2,
                  fails := if failedHere then d.fails ++ [(idx, failLines, ["co left exception"])] else d.fails }, [callLine])
  | "c" :: idx :: _ =>
    match d.pred.find? (·.1 = idx) with
    | some (_, p) => (d, p)
    | none => (d, ["co UNPREDICTED no x-run counterpart"])
  | _ => (d, ["bad-op"])

/-! ## specification oracle (implementation lines only; hand-written tables only) -/

/-- C++ type string ↦ enumerator of MockValueType_c (from the enum's names) -/
def tagOfType (t : String) : String :=
  match t with
  | "bool" => "MOCKVALUETYPE_BOOL"
  | "int" => "MOCKVALUETYPE_INTEGER"
  | "unsigned int" => "MOCKVALUETYPE_UNSIGNED_INTEGER"
  | "long int" => "MOCKVALUETYPE_LONG_INTEGER"
  | "unsigned long int" => "MOCKVALUETYPE_UNSIGNED_LONG_INTEGER"
  | "long long int" => "MOCKVALUETYPE_LONG_LONG_INTEGER"
  | "unsigned long long int" => "MOCKVALUETYPE_UNSIGNED_LONG_LONG_INTEGER"
  | "double" => "MOCKVALUETYPE_DOUBLE"
  | "const char*" => "MOCKVALUETYPE_STRING"
  | "void*" => "MOCKVALUETYPE_POINTER"
  | "const void*" => "MOCKVALUETYPE_CONST_POINTER"
  | "void (*)()" => "MOCKVALUETYPE_FUNCTIONPOINTER"
  | "const unsigned char*" => "MOCKVALUETYPE_MEMORYBUFFER"
  | _ => "MOCKVALUETYPE_OBJECT"

def truth (s : String) : Bool := s ≠ "0"

/-- is one C observation the same as one C++ observation? -/
def sameObs (c x : List String) : Bool :=
  match c, x with
  | ["co", "ret", "bool", a], ["xo", "ret", "bool", b] => truth a == truth b
  | ["co", "ret", k, a], ["xo", "ret", k', b] => k == k' && a == b
  | ["co", "val", tag, p], ["xo", "val", ty, q] =>
    let t := strOfHex ty
    tag == tagOfType t && (if t = "bool" then truth p == truth q else p == q)
  | "co" :: "out" :: r, "xo" :: "out" :: r' => r == r'
  | ["co", "crash"], ["xo", "crash"] => true
  | _, _ => false

def isResult (l : List String) : Bool :=
  match l with
  | _ :: "ret" :: _ => true
  | _ :: "val" :: _ => true
  | _ :: "out" :: _ => true
  | [_, "crash"] => true
  | _ => false

def sameObsList : List (List String) → List (List String) → Bool
  | [], [] => true
  | c :: cs, x :: xs => sameObs c x && sameObsList cs xs
  | _, _ => false

/-- shadow of the two things the findings depend on, computed from the x-run only -/
structure Shadow where
  cur  : Option String := none
  act  : Option (Nat × String × Bool) := none     -- op index, scope, checked
  last : List (String × Nat) := []
  /-- adaptor nodes exist (installComparator / installCopier since the last removeAll on the global scope) -/
  installed : Bool := false
  /-- removeAllComparatorsAndCopiers was called on a named scope while adaptor nodes existed: the C layer deletes
      every node but only that scope's repository forgets them -/
  dangling : Bool := false
  /-- the operations that matter for the adaptor nodes, for `Nodes.runC` (model of comparatorList_ / copierList_) -/
  aops : List Nodes.AOp := []

def getterFields : List String :=
  ["returnValue", "boolReturnValue", "intReturnValue", "unsignedIntReturnValue", "longIntReturnValue",
   "unsignedLongIntReturnValue", "longLongIntReturnValue", "unsignedLongLongIntReturnValue", "stringReturnValue",
   "doubleReturnValue", "pointerReturnValue", "constPointerReturnValue", "functionPointerReturnValue"]
def orDefaultFields : List String :=
  ["returnBoolValueOrDefault", "returnIntValueOrDefault", "returnUnsignedIntValueOrDefault", "returnLongIntValueOrDefault",
   "returnUnsignedLongIntValueOrDefault", "returnLongLongIntValueOrDefault", "returnUnsignedLongLongIntValueOrDefault",
   "returnStringValueOrDefault", "returnDoubleValueOrDefault", "returnPointerValueOrDefault",
   "returnConstPointerValueOrDefault", "returnFunctionPointerValueOrDefault"]

def aopOf (words : List String) : Option Nodes.AOp :=
  match words with
  | ["M0"] => some (.scope "")
  | ["M", s] => some (.scope (if s = "-" then "" else s))
  | ["S", "installComparator", _] => some .installComparator
  | ["S", "installCopier", _] => some .installCopier
  | "E" :: "withParameterOfType" :: _ => some .expectTyped
  | "E" :: "withOutputParameterOfTypeReturning" :: _ => some .expectTyped
  | ["S", "clear"] => some .clear
  | ["S", "removeAllComparatorsAndCopiers"] => some .removeAll
  | _ => none

/-- an expectation points to an adaptor node the C layer has deleted (model `Nodes.runC` on the operations so far) -/
def heldDangling (sh : Shadow) : Bool :=
  let w := Nodes.runC {} sh.aops
  w.refs.any (fun r => match r.1 with
    | .exp _ => !(w.nodes.live.contains r.2)
    | .repo _ => false)

def shadowStep0 (sh : Shadow) (i : Nat) (words : List String) (obs : List (List String)) : Shadow :=
  match words with
  | ["T"] => { sh with act := none, last := [] }
  | ["M0"] => { sh with cur := some "-" }
  | ["M", s] => { sh with cur := some s }
  | ["S", "actualCall", _] =>
    match sh.cur with
    | some s =>
      let checked := !(obs.any (· == ["xo", "ackind", "ignored"]))
      let last := sh.last.filter (·.1 ≠ s)
      { sh with act := some (i, s, checked), last := if checked then (s, i) :: last else last }
    | none => sh
  | ["S", "installComparator", _] => { sh with installed := true }
  | ["S", "installCopier", _] => { sh with installed := true }
  | ["S", "removeAllComparatorsAndCopiers"] =>
    match sh.cur with
    | some "-" => { sh with installed := false, dangling := false }
    | some _ => { sh with dangling := sh.dangling || sh.installed }
    | none => sh
  | ["S", "clear"] =>
    match sh.cur with
    | some s =>
      let dead := match sh.act with | some (_, s', _) => s == "-" || s == s' | none => false
      { sh with last := if s = "-" then [] else sh.last.filter (·.1 ≠ s), act := if dead then none else sh.act }
    | none => sh
  | _ => sh

def shadowStep (sh : Shadow) (i : Nat) (words : List String) (obs : List (List String)) : Shadow :=
  let sh' := shadowStep0 sh i words obs
  match aopOf words with
  | some a => { sh' with aops := sh'.aops ++ [a] }
  | none => sh'

/-- the finding a crash of the C run belongs to, if any: adaptor nodes deleted while still referenced -/
def crashFinding (sh : Shadow) : Option String :=
  if sh.dangling then some "removeAll-on-scope-frees-adaptors-of-other-scopes"
  else if heldDangling sh then some "removeAll-frees-adaptor-still-held-by-expectation"
  else none

/-- the finding a divergence at this operation belongs to, if any -/
def findingOf (sh : Shadow) (words : List String) : Option String :=
  let lastCur := match sh.cur with | some s => (sh.last.find? (·.1 = s)).map (·.2) | none => none
  let alignedS := match sh.act, sh.cur with
    | some (k, s, true), some c => s == c && lastCur == some k
    | _, _ => false
  -- the static actual call is an ignored call (mocking disabled / ignoreOtherCalls) made on the selected scope: that scope
  -- has no last call (MockSupport::actualCall finishes and deletes the previous one first), both interfaces must answer
  -- "no return value" / the caller's default
  let ignoredHere := match sh.act, sh.cur with
    | some (_, s, false), some c => s == c && lastCur.isNone
    | _, _ => false
  let alignedA := match sh.act, sh.cur with
    | some (_, s, _), some c => s == c
    | _, _ => false
  match words with
  | "S" :: f :: _ =>
    if f ∈ orDefaultFields && ignoredHere then none
    else if (f ∈ getterFields || f ∈ orDefaultFields) && !alignedS then some "support-getter-reads-static-actual-call" else none
  | "A" :: f :: _ =>
    if (f = "hasReturnValue" || f ∈ orDefaultFields) && !alignedA then some "actual-hasReturnValue-reads-current-scope" else none
  | _ => none

structure RunOps where
  ops  : List (Nat × List String × List (List String)) := []    -- index, words, observations
  fin  : Option (List (List String)) := none

def collect (ops : List Proto.Op) (which : String) : RunOps :=
  ops.foldl (fun r o =>
    match o.op with
    | [w, "end"] => if w = which then { r with fin := some o.obs } else r
    | w :: idx :: words =>
      if w = which then
        match idx.toNat? with
        | some i => { r with ops := r.ops ++ [(i, words, o.obs)] }
        | none => r
      else r
    | _ => r) {}

def dfltOf (words : List String) : Option String :=
  match words with
  | [_, f, d] => if f ∈ orDefaultFields then some d else none
  | _ => none

def describeObs (obs : List (List String)) : String :=
  "[" ++ "; ".intercalate (obs.map (" ".intercalate ·)) ++ "]"

def label (f : Option String) (msg : String) : String :=
  match f with
  | some n => "finding=" ++ n ++ " " ++ msg
  | none => msg

def specGo (sh : Shadow) : List (Nat × List String × List (List String)) → List (Nat × List String × List (List String)) →
    RunOps → RunOps → Option String
  | [], [], xr, cr =>
    match xr.fin, cr.fin with
    | some xf, some cf =>
      -- `leaked` (allocations still alive after the run) is not part of the property: model correspondence only
      let strip := fun (l : List (List String)) => (l.map (·.drop 1)).filter (fun w => w.head? != some "leaked")
      -- both runs passed: the default runner's leak check gives the same verdict only if the two runs leave the same
      -- number of allocations alive (the C layer owns the adaptor nodes; the C++ test owns its comparators)
      let leakOf := fun (l : List (List String)) => (l.find? (fun w => (w.drop 1).head? == some "leaked")).map (·.drop 2)
      if strip xf != strip cf then some s!"end of scenario: C run {describeObs cf} / C++ run {describeObs xf}"
      else match leakOf xf, leakOf cf with
        | some a, some b =>
          if a == b then none
          else some s!"end of scenario (both runs pass): allocations still alive after the run: C {b} / C++ {a} — with the runner's leak check only one of the two tests fails"
        | _, _ => none
    | _, none =>
      some (label (crashFinding sh) "the C run did not finish (crash)")
    | none, _ => some "the C++ run did not finish (crash)"
  | (i, w, xo) :: xs, (j, w', co) :: cs, xr, cr =>
    let f := if cr.fin.isNone && cs.isEmpty && (crashFinding sh).isSome then crashFinding sh
             else findingOf sh w
    let opText := " ".intercalate w
    if i != j || w != w' then some s!"op#{i}: the two runs executed different operations ({opText} / {" ".intercalate w'})"
    else
      let xres := xo.filter isResult
      let cres := co.filter isResult
      -- a run that ended inside this operation has no successor
      let xStops := xs.isEmpty && !cs.isEmpty
      let cStops := cs.isEmpty && !xs.isEmpty
      if !sameObsList cres xres then
        some (label f s!"op#{i} {opText}: C {describeObs cres} / C++ {describeObs xres}")
      else if xStops then some (label f s!"op#{i} {opText}: the C++ run ended here, the C run went on")
      else if cStops then some (label f s!"op#{i} {opText}: the C run ended here, the C++ run went on")
      else
        -- defaulting: no return value ⇒ the C interface hands back the caller's default
        let dfltBad :=
          match dfltOf w, xo.find? (fun l => l.take 2 == ["xo", "has"]), cres with
          | some d, some ["xo", "has", "0"], [["co", "ret", k, v]] => if k = "bool" then truth d != truth v else d != v
          | _, _, _ => false
        if dfltBad then some (label f s!"op#{i} {opText}: no return value, but the C interface did not return the default")
        else specGo (shadowStep sh i w xo) xs cs xr cr
  | (i, w, _) :: _, [], _, cr =>
    match cr.fin with
    | some _ => some (label (findingOf sh w) s!"op#{i} {" ".intercalate w}: executed by the C++ run only")
    | none => some (label (if (crashFinding sh).isSome then crashFinding sh else findingOf sh w)
                      s!"op#{i} {" ".intercalate w}: the C run did not finish (crash)")
  | [], (j, w, _) :: _, _, _ => some (label (findingOf sh w) s!"op#{j} {" ".intercalate w}: executed by the C run only")

/-- the statement of an operation, arguments left as tokens (the class `Aligned` does not look at values) -/
def parseStmtRaw : List String → Option CStmt
  | ["M0"] => some .mockC
  | ["M", s] => some (.mockScope (if s = "-" then "" else s))
  | t :: field :: args => (tblOf t).map (fun tbl => .call tbl field (args.map .tok))
  | _ => none

def isPragma (w : List String) : Bool := match w with | "P" :: _ => true | _ => false

def specAll (ops : List Proto.Op) : Option String :=
  let xr0 := collect ops "x"
  let cr0 := collect ops "c"
  let marked := xr0.ops.any (fun o => o.2.1 == ["P", "aligned"])
  let xr := { xr0 with ops := xr0.ops.filter (fun o => !isPragma o.2.1) }
  let cr := { cr0 with ops := cr0.ops.filter (fun o => !isPragma o.2.1) }
  -- the decidable class of `Props/C19.lean` (`aligned_implies_runOk`), computed on the executed statements
  let inClass := Aligned (xr.ops.filterMap (fun o => parseStmtRaw o.2.1))
  if marked && !inClass then some "the generator marked this scenario `aligned` but it is not in the class Aligned"
  else
    match specGo {} xr.ops cr.ops xr cr with
    | none => none
    | some msg =>
      -- inside the class the refinement theorem applies: a divergence there is never one of the two alignment
      -- findings (the third finding is about the lifetime of the adaptor nodes, which the model does not carry)
      if inClass then
        some (((msg.replace "finding=support-getter" "in-class-label=support-getter").replace
                "finding=actual-has" "in-class-label=actual-has") ++ " [scenario is in the class Aligned]")
      else some msg

def main : IO Unit :=
  Proto.driverMain { init := ({} : DState), step := modelStep, spec := specAll }
