import CppUModel.Base.Proto
import CppUModel.Model.OutputOps
import CppUModel.Model.JUnit
import CppUModel.Spec.JUnit
/-!
Driver for C16.  Model replay: the registry described by the operations is run through the runner
model and the JUnit collector/writer model; at `run` the model prints the environment line
(`timestamp`, copied from the implementation) and one `file <hex name> <hex bytes>` line per file.
Specification oracle: every file the implementation wrote is read by the independent report
reader of `Spec/JUnit.lean` (tokenizer + reference decoding) and its content is compared with the
originals taken from the operation lines; grouping is recomputed here, independently of the
runner model.
-/
open OutEv OutOps JUnit

structure DState where
  reg : Reg := {}
  cli : Bool := false        -- `cli`: the run goes through CommandLineTestRunner::runAllTestsMain (same files; its return value is observed)

/-- `CommandLineTestRunner::runAllTests`' return value: the failures of all repetitions, or (when there are none) the number of
    repetitions whose `TestResult::isFailure()` holds because nothing ran -/
def cliExit (evs : List Ev) : Nat :=
  let sums := evs.filterMap fun e => match e with | .testsEnded s => some s | _ => none
  let f := (sums.map fun s => s.failureCount).foldl (· + ·) 0
  if f ≠ 0 then f else (sums.filter fun s => s.runCount + s.ignoredCount == 0).length

def timestampOf (obs : List (List String)) : Text.Bytes :=
  match obs.filterMap (fun l => match l with | ["timestamp", h] => Proto.unhex? h | _ => none) with
  | t :: _ => t
  | [] => []

def modelStep (d : DState) (op : List String) (obs : List (List String)) : DState × List String :=
  match op with
  | ["run"] =>
    let ts := timestampOf obs
    let evs := runRepeated d.reg.repeats d.reg.filter d.reg.scripts
    let fs := JUnit.files d.reg.package ts evs
    (d, (("timestamp " ++ Proto.hex ts) :: fs.map fun f => "file " ++ Proto.hex f.name ++ " " ++ Proto.hex f.bytes) ++
        (if d.cli then [s!"cli-exit {cliExit evs}"] else []))
  | ["skip"] => (d, [])
  | ["cli"] => ({ d with cli := true }, [])
  | ["realtime"] => (d, [])          -- the platform's own time string: still an environment input read from `timestamp`
  | ["timestr", h] => (d, if (Proto.unhex? h).isSome then [] else ["bad-op"])
  | w =>
    match applyOp d.reg w with
    | some r => ({ d with reg := r }, [])
    | none => (d, ["bad-op"])

/-! ## specification oracle -/

def showB (b : Text.Bytes) : String :=
  "\"" ++ String.join (b.map fun c =>
    if c = 34 then "\\\"" else if c = 92 then "\\\\"
    else if 32 ≤ c ∧ c < 127 then String.singleton (Char.ofNat c.toNat)
    else "\\x" ++ Proto.hexByte c) ++ "\""

/-- maximal runs of consecutive scripts with the same group name -/
def groupRuns : List Script → List (Text.Bytes × List Script)
  | [] => []
  | t :: rest =>
    match groupRuns rest with
    | (g, ts) :: more => if g == t.info.group then (g, t :: ts) :: more else (t.info.group, [t]) :: (g, ts) :: more
    | [] => [(t.info.group, [t])]

/-- first failure of the body as (file, line, message); nothing after a `failx` runs; a failure
    without location is located at the test, one without message says "no message" -/
def firstBodyFailure (t : TestInfo) : List Act → Option (Text.Bytes × Nat × Text.Bytes)
  | [] => none
  | .fail f l m :: _ => some (f, l, m)
  | .failExit f l m :: _ => some (f, l, m)
  | .failMsg m :: _ => some (t.file, t.line, m)
  | .failLoc f l :: _ => some (f, l, lit "no message")
  | _ :: as => firstBodyFailure t as

def firstPluginFailure (t : TestInfo) : List Act → Option (Text.Bytes × Nat × Text.Bytes)
  | [] => none
  | .postFail m :: _ => some (t.file, t.line, m)
  | _ :: as => firstPluginFailure t as

/-- first failure a scripted test reports: from its body, else from the plugin's post-test action -/
def firstFailure (t : TestInfo) (acts : List Act) : Option (Text.Bytes × Nat × Text.Bytes) :=
  match firstBodyFailure t acts with
  | some x => some x
  | none => firstPluginFailure t acts

/-- text a scripted test prints (nothing after a `failx` runs) -/
def printedBy : List Act → Text.Bytes
  | [] => []
  | .print f l x :: as => printText f l x ++ printedBy as
  | .failExit _ _ _ :: _ => []
  | _ :: as => printedBy as

def checkCase (pkg group : Text.Bytes) (t : Script) (c : Case) : Option String :=
  let cls := if pkg.isEmpty then group else pkg ++ [46] ++ group
  if c.name ≠ t.info.name then some s!"testcase name {showB c.name}, original {showB t.info.name}"
  else if c.classname ≠ cls then some s!"classname {showB c.classname}, expected {showB cls}"
  else if c.file ≠ t.info.file then some s!"testcase file {showB c.file}, original {showB t.info.file}"
  else if c.line ≠ (t.info.line : Int) then some s!"testcase line {c.line}, original {t.info.line}"
  else if !t.info.willRun then
    (if c.failure.isSome then some s!"ignored test {showB t.info.name} has a failure element"
     else if !c.skipped then some s!"ignored test {showB t.info.name} has no skipped marker" else none)
  else if c.skipped ∧ c.failure.isNone then some s!"test {showB t.info.name} is not ignored but marked skipped"
  else
    match firstFailure t.info t.acts, c.failure with
    | none, none => none
    | none, some m => some s!"test {showB t.info.name} did not fail but has a failure element {showB m}"
    | some _, none => some s!"failed test {showB t.info.name} has no failure element"
    | some (f, l, msg), some m =>
      let want := f ++ [58] ++ dec l ++ [58, 32] ++ msg
      if m = want then none else some s!"failure message decodes to {showB m}, original {showB want}"

def checkCases (pkg group : Text.Bytes) : List Script → List Case → Option String
  | [], [] => none
  | t :: ts, c :: cs =>
    match checkCase pkg group t c with
    | none => checkCases pkg group ts cs
    | some e => some e
  | [], c :: _ => some s!"extra testcase element {showB c.name}"
  | t :: _, [] => some s!"no testcase element for test {showB t.info.name}"

/-- `printedAll` = everything printed up to the end of this group (what the code writes: `stdOutput_` is
    never reset — theorem `JUnit.captured_output_accumulates`), `printedOwn` = by this group only (also
    accepted: a writer that reset the buffer per group would be as faithful) -/
def checkFile (pkg : Text.Bytes) (flt : Option Filter) (g : Text.Bytes) (ts : List Script)
    (printedAll printedOwn : Text.Bytes) (name bytes : Text.Bytes) : Option String :=
  match parseReport bytes with
  | .error e => some s!"file {showB name} is not a well-formed report: {e}"
  | .ok suite =>
    let running := ts.filter fun t => shouldRun flt t.info
    if running.isEmpty then none        -- a group whose tests are all filtered out: outside the quantifier
    else if name ≠ expectedFileName pkg g then some s!"file name {showB name}, expected {showB (expectedFileName pkg g)}"
    else if suite.name ≠ g then some s!"suite name {showB suite.name}, original {showB g}"
    else if suite.tests ≠ (running.length : Int) then some s!"suite says tests={suite.tests}, the group ran {running.length}"
    else
      let failed := (running.filter fun t => t.info.willRun && (firstFailure t.info t.acts).isSome).length
      if suite.failures ≠ (failed : Int) then some s!"suite says failures={suite.failures}, {failed} tests of the group failed"
      else
        match checkCases pkg g running suite.cases with
        | some e => some e
        | none =>
          if suite.stdout = printedAll ∨ suite.stdout = printedOwn then none
          else some s!"captured output decodes to {showB suite.stdout}, original {showB printedAll}"

def printedOfRun (flt : Option Filter) (ts : List Script) : Text.Bytes :=
  (ts.filter fun t => shouldRun flt t.info && t.info.willRun).flatMap fun t => printedBy t.acts

/-- the groups are given with the text the runner itself printed just before them (the "Test run" line of a
    repeated run; this output drops the numbers) -/
def checkFiles (pkg : Text.Bytes) (flt : Option Filter) :
    List (Text.Bytes × Text.Bytes × List Script) → Text.Bytes → List (Text.Bytes × Text.Bytes) → Option String
  | [], _, [] => none
  | [], _, (n, _) :: _ => some s!"file {showB n} written although no group is left"
  | (_, g, _) :: _, _, [] => some s!"no file written for group {showB g}"
  | (pre, g, ts) :: more, printed, (n, b) :: files =>
    let own := printedOfRun flt ts
    match checkFile pkg flt g ts (printed ++ pre ++ own) own n b with
    | some e => some e
    | none => checkFiles pkg flt more (printed ++ pre ++ own) files

/-- the groups of `n` consecutive runs; the first group of each run carries the runner's line -/
def repeatedGroups (n : Nat) (scripts : List Script) : List (Text.Bytes × Text.Bytes × List Script) :=
  let runText : Text.Bytes := if n > 1 then lit "Test run  of \n" else []
  (List.range n).flatMap fun _ =>
    match groupRuns scripts with
    | [] => []
    | (g, ts) :: more => (runText, g, ts) :: more.map fun (g, ts) => ([], g, ts)

def specRun (reg : Reg) (obs : List (List String)) : Option String :=
  if obs.any (fun l => l.head? == some "unclosed" || l.head? == some "double-close" || l.head? == some "write-after-close") then
    some "a report file is not opened, written and closed exactly once"
  else
    let files := obs.filterMap fun l => match l with
      | ["file", n, b] => match Proto.unhex? n, Proto.unhex? b with
        | some n, some b => some (n, b)
        | _, _ => none
      | _ => none
    checkFiles reg.package reg.filter (repeatedGroups reg.repeats reg.scripts) [] files

def specAll (ops : List Proto.Op) : Option String :=
  let rec go (reg : Reg) (i : Nat) : List Proto.Op → Option String
    | [] => none
    | o :: rest =>
      match o.op with
      | ["run"] =>
        match specRun reg o.obs with
        | none => go reg (i + 1) rest
        | some e => some s!"op#{i} run: {e}"
      | w =>
        match applyOp reg w with
        | some r => go r (i + 1) rest
        | none => go reg (i + 1) rest
  go {} 0 ops

def main : IO Unit :=
  Proto.driverMain { init := ({} : DState), step := modelStep, spec := specAll }
