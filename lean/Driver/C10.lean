import CppUModel.Base.Proto
import CppUModel.Model.ThreadSafe
import CppUModel.Spec.ThreadSafe
/-!
Driver for C10.

* model replay: the script lines of a phase (`t <tid> ...`, in file order, which is a valid
  linearisation) are run through the lock-discipline model as WHOLE wrappers (`ThreadSafe.runSys`)
  when the thread-safe overloads are on, and as plain calls otherwise; a `misuse` (and the misuse the
  test's own thread performs during `runm`) is run through `wrapper`, which executes the REGENERATED
  constructor / destructor / releaseBeforeFailing / fail statements (`Gen.ThreadSafe.code`), so the
  model predicts `lockstate free` / `next done` for the code as repaired and `held` / `hang` for a
  tree in which the report no longer gives the lock back.  `misuse <kind> junit` is the same misuse with the
  failure recorded by the real JUnit output: the model runs `wrapperOut` with `Out.alloc = true` (recording
  the failure is one more wrapper call on the reporting thread when `operator new` is on its thread-safe
  function), so a `fail` that records the failure before it released the mutex is predicted to `hang`.
* specification oracle (`spec`): judges the IMPLEMENTATION's observation lines only, with its own
  per-thread shadow sets of labels: no misuse report and no data-race symptom while the threads
  ran, exactly one lock acquisition per operation and as many releases, every underlying
  allocator call made under the lock, outstanding = union of what each thread still holds,
  everything can be released afterwards, and a misuse is reported as a failure, the run continues
  and the lock is free.
Imports Base/Model/Spec/Gen only.
-/
open ThreadSafe

/-! ## parsing shared by model and oracle -/

def labelId? (s : String) : Option Nat :=
  match s.toList with
  | 'b' :: rest => (String.ofList rest).toNat?
  | _ => none

def allocKind? : String → Option Kind
  | "new" | "newnt" | "newdbg" | "newdbgi" => some .new
  | "newarr" | "newarrnt" | "newarrdbg" | "newarrdbgz" => some .newArray
  | "malloc" | "calloc" | "mallocd" => some .malloc
  | _ => none

def releaseKind? : String → Option Kind
  | "delete" | "deletesz" | "deletent" | "deletedbg" | "deletedbgi" => some .new
  | "delarr" | "delarrsz" | "delarrnt" | "delarrdbg" | "delarrdbgi" => some .newArray
  | "free" => some .malloc
  | _ => none

/-! ## model replay -/

/-- which externally visible entry point a script form goes through -/
def entryOf : String → String
  | "new" => "operator new(size_t)"
  | "newnt" => "operator new(size_t,nothrow)"
  | "newdbg" => "operator new(size_t,cstr,size_t)"
  | "newdbgi" => "operator new(size_t,cstr,int)"
  | "newarr" => "operator new[](size_t)"
  | "newarrnt" => "operator new[](size_t,nothrow)"
  | "newarrdbg" => "operator new[](size_t,cstr,int)"
  | "newarrdbgz" => "operator new[](size_t,cstr,size_t)"
  | "delete" => "operator delete(ptr)"
  | "deletesz" => "operator delete(ptr,size_t)"
  | "deletent" => "operator delete(ptr,nothrow)"
  | "deletedbg" => "operator delete(ptr,cstr,size_t)"
  | "deletedbgi" => "operator delete(ptr,cstr,int)"
  | "delarr" => "operator delete[](ptr)"
  | "delarrsz" => "operator delete[](ptr,size_t)"
  | "delarrnt" => "operator delete[](ptr,nothrow)"
  | "delarrdbg" => "operator delete[](ptr,cstr,size_t)"
  | "delarrdbgi" => "operator delete[](ptr,cstr,int)"
  | "malloc" | "calloc" | "mallocd" => "cpputest_malloc_location_with_leak_detection(size_t,cstr,size_t)"
  | "realloc" => "cpputest_realloc_location_with_leak_detection(ptr,size_t,cstr,size_t)"
  | "free" => "cpputest_free_location_with_leak_detection(ptr,cstr,size_t)"
  | _ => "?"

/-- the harness' own start-up: explicit switch, the cycle inside the first `getGlobalDetector()`
    call, and the cycle around the construction of the harness' detector -/
def startPtrs (fresh : Bool) : Ptrs :=
  let p := if fresh then Ptrs.initial.threadSafeOn else Ptrs.initial.defaultOn
  p.save.restore.save.restore

structure DState where
  ptrs     : Ptrs := startPtrs false                            -- the pointer table and its saved copies
  depth    : Nat := 0                                           -- open save scopes
  sys      : Option Sys := some (Sys.idle [])                   -- none: a wrapper blocked (hang)
  nthreads : Nat := 0
  pending  : List (Event × String) := []                        -- reverse file order, with the script form
  owners   : List (Nat × Nat × Kind) := []                      -- label, holding thread, family
  transit  : List (Nat × Nat × Kind) := []                      -- label, receiving thread, family
  reports  : Nat := 0
  scratch  : Nat := 1000000                                     -- ids of blocks made by `misuse`

def ownerOf (d : DState) (l : Nat) : Option (Nat × Kind) :=
  (d.owners.find? (·.1 == l)).map (·.2)

/-- does the function this script form reaches right now take the scoped lock at all? (regenerated tables;
    that it takes it FIRST is a proof obligation, and observed by the harness' `unlocked` counter) -/
def lockedOf (d : DState) (form : String) : Bool := locksAnywhereFn (d.ptrs.target (entryOf form))

/-- the form the harness' main thread uses for an operation it performs itself -/
def formOf : DetOp → String
  | .alloc _ .new => "new"
  | .alloc _ .newArray => "newarr"
  | .alloc _ .malloc => "malloc"
  | .free _ .new _ => "delete"
  | .free _ .newArray _ => "delarr"
  | .free _ .malloc _ => "free"
  | .realloc _ _ _ => "realloc"

def withLock (d : DState) (ops : List DetOp) : List (DetOp × Bool) := ops.map fun op => (op, lockedOf d (formOf op))

/-- accumulator of a replay: system state (none = a wrapper blocked), misuse reports, completed lock releases -/
structure RAcc where
  sys      : Option Sys
  reports  : Nat := 0
  releases : Nat := 0

def countReport (op : DetOp) (s : Sys) (n : Nat) : Nat := if isMisuse op s.det then n + 1 else n

/-- run one detector operation through the function installed for it: a whole locked wrapper (the
    regenerated constructor / destructor / fail statements executed by the model), or the plain call;
    counts misuse reports and the wrappers that gave the lock back -/
def applyOpOut (out : Out) (acc : RAcc) (item : DetOp × Bool) : RAcc :=
  match acc.sys with
  | none => acc
  | some s =>
    if item.2 then
      match wrapperOut out item.1 s with
      | some s' => { sys := some s', reports := countReport item.1 s acc.reports,
                     releases := if s'.lf.lock == .free then acc.releases + 1 else acc.releases }
      | none => { acc with sys := none }
    else { acc with sys := plainCallOut out item.1 s, reports := countReport item.1 s acc.reports }

/-- with the test fixture's string-buffer output: recording a failure does not allocate through operator new -/
def applyOp (acc : RAcc) (item : DetOp × Bool) : RAcc :=
  match acc.sys with
  | none => acc
  | some s =>
    if item.2 then
      match wrapper item.1 s with
      | some s' => { sys := some s', reports := countReport item.1 s acc.reports,
                     releases := if s'.lf.lock == .free then acc.releases + 1 else acc.releases }
      | none => { acc with sys := none }
    else { acc with sys := plainCall item.1 s, reports := countReport item.1 s acc.reports }

/-- the JUnit output of `misuse <kind> junit`: `printFailure` does `new TestFailure(failure)` (debug form of
    `operator new`, the library is compiled with the new macros), through whatever function is installed for it now -/
def junitOut (d : DState) : Out := { alloc := true, locked := lockedOf d "newdbg" }

def overloadedLine (p : Ptrs) : String := s!"overloaded {if p.overloaded then 1 else 0}"

def scriptLine (d : DState) (tid : Nat) (ws : List String) : Option (DState × TOp) :=
  match ws with
  | [k, lab, _] =>
    match labelId? lab with
    | none => none
    | some l =>
      if k == "realloc" then
        some ({ d with owners := (l, tid, Kind.malloc) :: d.owners.filter (·.1 != l) },
              match ownerOf d l with
              | some _ => .det (.realloc l l false)
              | none => .det (.alloc l .malloc))
      else if k == "give" then
        match ownerOf d l, ws[2]? >>= String.toNat? with
        | some (_, fam), some to =>
          some ({ d with owners := d.owners.filter (·.1 != l), transit := (l, to, fam) :: d.transit }, .give l fam to)
        | _, _ => none
      else
        match allocKind? k with
        | some fam => some ({ d with owners := (l, tid, fam) :: d.owners }, .det (.alloc l fam))
        | none => none
  | [k, lab] =>
    match labelId? lab with
    | none => none
    | some l =>
      if k == "take" then
        match d.transit.find? (·.1 == l) with
        | some (_, _, fam) =>
          some ({ d with transit := d.transit.filter (·.1 != l), owners := (l, tid, fam) :: d.owners }, .take l fam)
        | none => none
      else
        match releaseKind? k with
        | some fam => some ({ d with owners := d.owners.filter (·.1 != l) }, .det (.free l fam false))
        | none => none
  | _ => none

def outstandingOf (d : DState) : Nat := match d.sys with | some s => s.det.length | none => 0

/-- the operations a `misuse <kind>` performs: optional allocation, then the offending release -/
def misuseOps (kind : String) (id : Nat) : Option (List DetOp) :=
  match kind with
  | "free_bogus" => some [.free 0 .malloc false]
  | "delete_bogus" => some [.free 0 .new false]
  | "delarr_bogus" => some [.free 0 .newArray false]
  | "realloc_bogus" => some [.realloc 0 id false]
  | "new_free" => some [.alloc id .new, .free id .malloc false]
  | "malloc_delete" => some [.alloc id .malloc, .free id .new false]
  | "new_delarr" => some [.alloc id .new, .free id .newArray false]
  | "newarr_delete" => some [.alloc id .newArray, .free id .new false]
  | "corrupt_free" => some [.alloc id .malloc, .free id .malloc true]
  | "corrupt_delete" => some [.alloc id .new, .free id .new true]
  | "corrupt_delarr" => some [.alloc id .newArray, .free id .newArray true]
  | "corrupt_realloc" => some [.alloc id .malloc, .realloc id (id + 1) true]
  | "new_realloc" => some [.alloc id .new, .realloc id (id + 1) false]
  | "newarr_realloc" => some [.alloc id .newArray, .realloc id (id + 1) false]
  | "newarr_free" => some [.alloc id .newArray, .free id .malloc false]
  | "malloc_delarr" => some [.alloc id .malloc, .free id .newArray false]
  | _ => none

/-- a concurrent phase: the scripts in file order (a valid linearisation), every operation through the
    function installed for its entry point; `main` = the operations of a misuse the test's own thread
    performs while the workers run (they concern scratch blocks only, so any position in the
    linearisation gives the same observations; the model puts them last) -/
def runPhase (d : DState) (main : Option (List DetOp)) : DState × List String :=
  let sched := d.pending.reverse
  let dops : List (DetOp × Bool) := (sched.filterMap fun (e, form) =>
    match e.2 with
    | .det op => some (op, lockedOf d form)
    | _ => none)
  let mops := match main with | some ops => withLock d ops | none => []
  let r := dops.foldl applyOp { sys := d.sys }
  let r2 := mops.foldl applyOp { r with reports := 0 }
  let d' := { d with sys := r2.sys, pending := [], reports := r.reports }
  let helds := (List.range d.nthreads).map fun t =>
    s!"held {t} {(d.owners.filter (fun o => o.2.1 == t)).length}"
  let locks := ((dops ++ mops).filter (·.2)).length
  match r2.sys with
  | none => (d', ["hang"])
  | some _ =>
    (d', [s!"ops {sched.length}"] ++ helds ++
      [s!"outstanding {outstandingOf d'}", s!"reports {r.reports}", s!"locks {locks}",
       s!"unlocks {r2.releases}", "unlocked 0", "overlap 0", "pattern 0"] ++
      (match main with
       | some _ => [s!"reported {r2.reports}", s!"left-by-jump {if r2.reports > 0 then 1 else 0}"]
       | none => []))

def modelStep (d : DState) (op : List String) (_obs : List (List String)) : DState × List String :=
  match op with
  | ["fresh"] => ({ d with ptrs := startPtrs true }, [overloadedLine (startPtrs true)])
  | ["on"] => ({ d with ptrs := d.ptrs.threadSafeOn }, [overloadedLine d.ptrs.threadSafeOn])
  | ["off"] => ({ d with ptrs := d.ptrs.defaultOn }, [overloadedLine d.ptrs.defaultOn])
  | ["save"] => ({ d with ptrs := d.ptrs.save, depth := d.depth + 1 }, [overloadedLine d.ptrs.save])
  | ["restore"] => ({ d with ptrs := d.ptrs.restore, depth := d.depth - 1 }, [overloadedLine d.ptrs.restore])
  | ["threads", n, _] => ({ d with nthreads := n.toNat?.getD 0, pending := [] }, [])
  | "t" :: tid :: rest =>
    match tid.toNat? with
    | none => (d, ["bad-op"])
    | some t =>
      match scriptLine d t rest with
      | some (d', top) => ({ d' with pending := ((t, top), rest.headD "") :: d'.pending }, [])
      | none => (d, ["bad-op"])
  | ["run"] => runPhase d none
  | ["runm", kind] =>
    match misuseOps kind d.scratch with
    | some ops => runPhase { d with scratch := d.scratch + 10 } (some ops)
    | none => (d, ["bad-op"])
  | ["cleanup"] =>
    let dops := withLock d ((d.owners ++ d.transit).map fun o => DetOp.free o.1 o.2.2 false)
    let r := dops.foldl applyOp { sys := d.sys }
    let d' := { d with sys := r.sys, owners := [], transit := [], pending := [] }
    match r.sys with
    | none => (d', ["hang"])
    | some _ => (d', [s!"outstanding {outstandingOf d'}", s!"reports {r.reports}"])
  | ["misuse", kind] =>
    match misuseOps kind d.scratch, d.sys with
    | some ops, some s0 =>
      let r := (withLock d ops).foldl applyOp { sys := some s0 }
      match r.sys with
      | none => ({ d with sys := none }, ["hang"])
      | some s1 =>
        let head := [s!"reported {r.reports}", s!"left-by-jump {if r.reports > 0 then 1 else 0}",
                     s!"lockstate {if s1.lf.lock == .free then "free" else "held"}"]
        -- the next allocation (new + delete, malloc + free in a helper thread)
        let nxt := [DetOp.alloc (d.scratch + 2) .new, .free (d.scratch + 2) .new false,
                    .alloc (d.scratch + 3) .malloc, .free (d.scratch + 3) .malloc false]
        let r2 := (withLock d nxt).foldl applyOp { sys := some s1 }
        match r2.sys with
        | none => ({ d with sys := none, scratch := d.scratch + 10 }, head ++ ["next hang"])
        | some s2 =>
          let d' := { d with sys := some s2, scratch := d.scratch + 10 }
          (d', head ++ ["next done", s!"outstanding {outstandingOf d'}"])
    | _, _ => (d, ["bad-op"])
  | ["misuse", kind, "junit"] =>
    match misuseOps kind d.scratch, d.sys with
    | some ops, some s0 =>
      -- the same operations; the failure is recorded by an output that allocates through operator new
      let r := (withLock d ops).foldl (applyOpOut (junitOut d)) { sys := some s0 }
      match r.sys with
      | none => ({ d with sys := none }, ["hang"])
      | some s1 =>
        let head := [s!"reported {r.reports}", s!"left-by-jump {if r.reports > 0 then 1 else 0}",
                     s!"lockstate {if s1.lf.lock == .free then "free" else "held"}"]
        let nxt := [DetOp.alloc (d.scratch + 2) .new, .free (d.scratch + 2) .new false,
                    .alloc (d.scratch + 3) .malloc, .free (d.scratch + 3) .malloc false]
        let r2 := (withLock d nxt).foldl applyOp { sys := some s1 }
        match r2.sys with
        | none => ({ d with sys := none, scratch := d.scratch + 10 }, head ++ ["next hang"])
        | some s2 =>
          let d' := { d with sys := some s2, scratch := d.scratch + 10 }
          -- the output stored one copy of the failure for the nested test and wrote it when the group ended
          (d', head ++ ["next done", s!"recorded {if r.reports > 0 then 1 else 0}", s!"outstanding {outstandingOf d'}"])
    | _, _ => (d, ["bad-op"])
  | ["skip"] => (d, [])
  | _ => (d, ["bad-op"])

/-! ## specification oracle: shadow sets per thread, over the implementation's observations -/

structure Shadow where
  on      : Bool := false
  n       : Nat := 0
  held    : List (Nat × Nat) := []        -- label, thread
  moving  : List (Nat × Nat) := []        -- label, receiving thread
  detOps  : Nat := 0                      -- allocation / release operations of the current phase
  allOps  : Nat := 0
  races   : Nat := 0                      -- ThreadSanitizer reports seen so far (any location)
  depth   : Nat := 0                      -- open saveAndDisable scopes
  misused : Bool := false                 -- a misuse was performed earlier in the case

def obsNat (obs : List (List String)) (key : String) : Option Nat :=
  obs.findSome? fun l => match l with
    | [k, v] => if k == key then v.toNat? else none
    | _ => none

def obsInt (obs : List (List String)) (key : String) : Option Int :=
  obs.findSome? fun l => match l with
    | [k, v] => if k == key then v.toInt? else none
    | _ => none

def obsWord (obs : List (List String)) (key : String) : Option String :=
  obs.findSome? fun l => match l with
    | [k, v] => if k == key then some v else none
    | _ => none

def heldObs (obs : List (List String)) : List (Nat × Nat) :=
  obs.filterMap fun l => match l with
    | ["held", t, c] => match t.toNat?, c.toNat? with
      | some t, some c => some (t, c)
      | _, _ => none
    | _ => none

/-- ThreadSanitizer reports (`tsan-race <kind> <location type> <global> <function>`, printed by the
    harness' report hook).  The property is about the DETECTOR's state: a race on the C interface's
    allocation counter `malloc_count` (TestHarness_c.cpp, bumped by `cpputest_malloc_location` before the
    locked call) is not judged here; the run still counts as a failure of the implementation through
    its `crash tsan` line and is classified by the check as finding `C10:malloc-count-race`. -/
def raceLines (obs : List (List String)) : List (List String) :=
  obs.filter (fun l => l.head? == some "tsan-race")

def isCounterRace (l : List String) : Bool :=
  match l with
  | ["tsan-race", "data-race", "global", "malloc_count", _] => true
  | _ => false

/-- how many allocation / release operations a misuse scenario performs (the oracle's own table) -/
def misuseOpCount (kind : String) : Nat :=
  if kind.endsWith "_bogus" then 1 else 2

def specStepCore (sh : Shadow) (o : Proto.Op) : Except String Shadow := do
  match o.op with
  | ["on"] | ["fresh"] | ["off"] =>
    if obsNat o.obs "overloaded" != some 1 then throw "the overloads are not reported as switched on after the switch"
    return { sh with on := o.op != ["off"] }
  | ["save"] =>
    if obsNat o.obs "overloaded" != some 0 then throw "the overloads are still on inside a saveAndDisable scope"
    return { sh with depth := sh.depth + 1 }
  | ["restore"] =>
    if sh.depth == 1 && obsNat o.obs "overloaded" != some 1 then
      throw "the overloads are not switched on again after the balancing restoreNewDeleteOverloads"
    return { sh with depth := sh.depth - 1 }
  | ["threads", n, _] => return { sh with n := n.toNat?.getD 0, detOps := 0, allOps := 0 }
  | ["t", tid, k, lab, _] =>
    let some t := tid.toNat? | throw "bad thread id"
    let some l := labelId? lab | throw "bad label"
    if k == "give" then
      let to := (o.op[4]? >>= String.toNat?).getD 0
      return { sh with held := sh.held.filter (·.1 != l), moving := (l, to) :: sh.moving, allOps := sh.allOps + 1 }
    else if k == "realloc" then
      return { sh with held := (l, t) :: sh.held.filter (·.1 != l), detOps := sh.detOps + 1, allOps := sh.allOps + 1 }
    else
      return { sh with held := (l, t) :: sh.held, detOps := sh.detOps + 1, allOps := sh.allOps + 1 }
  | ["t", tid, k, lab] =>
    let some t := tid.toNat? | throw "bad thread id"
    let some l := labelId? lab | throw "bad label"
    if k == "take" then
      return { sh with moving := sh.moving.filter (·.1 != l), held := (l, t) :: sh.held, allOps := sh.allOps + 1 }
    else
      return { sh with held := sh.held.filter (·.1 != l), detOps := sh.detOps + 1, allOps := sh.allOps + 1 }
  | ["run"] | ["runm", _] =>
    if o.obs.any (· == ["hang"]) then throw "the run did not finish"
    if (obsNat o.obs "stuck").isSome then throw "a thread waited for ever for a hand-over"
    let some reports := obsNat o.obs "reports" | throw "no `reports` observation"
    let some locks := obsNat o.obs "locks" | throw "no `locks` observation"
    let some unlocks := obsNat o.obs "unlocks" | throw "no `unlocks` observation"
    let some unlocked := obsNat o.obs "unlocked" | throw "no `unlocked` observation"
    let some overlap := obsNat o.obs "overlap" | throw "no `overlap` observation"
    let some pattern := obsNat o.obs "pattern" | throw "no `pattern` observation"
    let some outstanding := obsInt o.obs "outstanding" | throw "no `outstanding` observation"
    if reports != 0 then throw s!"{reports} misuse report(s) while the threads ran (a block was released that was not outstanding in the detector, or not as the family it was allocated with)"
    if overlap != 0 then throw s!"two threads were inside the detector lock at the same time ({overlap} times)"
    if unlocked != 0 then
      let forms := o.obs.filterMap fun l => match l with
        | ["unlocked-at", form, n] => some s!"{form}×{n}"
        | _ => none
      throw s!"{unlocked} underlying allocator call(s) made by a thread that did not hold the detector lock (entry forms: {" ".intercalate forms})"
    let mainOps := match o.op with
      | ["runm", kind] => misuseOpCount kind
      | _ => 0
    if sh.on && locks != sh.detOps + mainOps then throw s!"{sh.detOps + mainOps} operations took the detector lock {locks} times"
    if locks != unlocks then throw s!"lock acquired {locks} times but released {unlocks} times"
    if pattern != 0 then throw s!"{pattern} block(s) changed under their owner (overlapping or lost blocks)"
    -- what each thread still holds, as the implementation's threads report it
    let hs := heldObs o.obs
    for t in List.range sh.n do
      let want := (sh.held.filter (·.2 == t)).length
      match hs.find? (·.1 == t) with
      | some (_, c) => if c != want then throw s!"thread {t} holds {c} blocks, its script leaves {want}"
      | none => throw s!"no `held` observation for thread {t}"
    let others := (sh.held.filter (fun h => !(h.2 < sh.n))).length + sh.moving.length
    let union : Int := ((hs.map (·.2)).foldl (· + ·) 0 + others : Nat)
    if outstanding != union then
      throw s!"outstanding blocks after join = {outstanding}, union of what the threads hold = {union}"
    match o.op with
    | ["runm", kind] =>
      -- the misuse of the test's own thread while the workers ran: reported as a failure, and (checked above)
      -- the run finished, every acquisition was released, the accounting is exact
      if obsNat o.obs "reported" == some 0 || (obsNat o.obs "reported").isNone then
        throw s!"misuse {kind} on the test's thread while {sh.n} threads ran was not reported as a test failure"
    | _ => pure ()
    return { sh with detOps := 0, allOps := 0 }
  | ["cleanup"] =>
    if o.obs.any (· == ["hang"]) then throw "cleanup did not finish"
    let some reports := obsNat o.obs "reports" | throw "no `reports` observation"
    let some outstanding := obsInt o.obs "outstanding" | throw "no `outstanding` observation"
    if reports != 0 then throw s!"{reports} block(s) held by the threads were not outstanding in the detector"
    if outstanding != 0 then throw s!"{outstanding} block(s) still outstanding after everything held was released"
    return { sh with held := [], moving := [] }
  | ["misuse", kind] | ["misuse", kind, "junit"] =>
    let some reported := obsNat o.obs "reported" | throw "no `reported` observation"
    if reported == 0 then throw s!"misuse {kind} was not reported as a test failure"
    let lock := (obsWord o.obs "lockstate").getD "?"
    let next := (obsWord o.obs "next").getD "?"
    if lock != "free" || next != "done" then
      throw s!"misuse-report-while-locked: after the report of {kind} the detector lock is {lock}; next allocation: {next}"
    let some outstanding := obsInt o.obs "outstanding" | throw "no `outstanding` observation"
    let want : Int := ((sh.held.length + sh.moving.length : Nat) : Int)
    if outstanding != want then throw s!"after misuse {kind}: outstanding {outstanding}, held by the threads {want}"
    return sh
  | ["skip"] => return sh
  | _ => throw "bad-op"

def specStep (sh : Shadow) (o : Proto.Op) : Except String Shadow := do
  if o.obs.any (· == ["stalled"]) then
    if sh.misused || o.op.head? == some "runm" || o.op.head? == some "misuse" then
      throw "stalled-after-misuse-report: no operation of any thread completed for 6 s (2 s inside `misuse <kind> junit`) in or after a phase in which the test's thread reported a misuse: a thread is blocked on the detector lock for ever"
    throw "no operation of any thread completed for 6 s: a thread is blocked on the detector lock for ever, or loops inside the detector"
  let races := raceLines o.obs
  match races.find? (fun l => !isCounterRace l) with
  | some l => throw s!"ThreadSanitizer report while the threads ran: {" ".intercalate (l.drop 1)}"
  | none => pure ()
  let sh := { sh with races := sh.races + races.length,
                      misused := sh.misused || o.op.head? == some "runm" || o.op.head? == some "misuse" }
  match o.obs.find? (fun l => l.head? == some "crash") with
  | some ["crash", "tsan"] =>
    if sh.races == 0 then throw "ThreadSanitizer reported an error that the report hook did not attribute"
  | some l => throw s!"the implementation crashed: {" ".intercalate l}"
  | none => pure ()
  specStepCore sh o

def specAll (ops : List Proto.Op) : Option String :=
  let rec go (sh : Shadow) (i : Nat) : List Proto.Op → Option String
    | [] => none
    | o :: rest =>
      match specStep sh o with
      | .ok sh' => go sh' (i+1) rest
      | .error e => some s!"op#{i} {" ".intercalate o.op}: {e}"
  go {} 0 ops

def main : IO Unit :=
  Proto.driverMain { init := ({} : DState), step := modelStep, spec := specAll }
