import CppUModel.Base.Proto
import CppUModel.Model.Mock
import CppUModel.Model.MockParam
import CppUModel.Model.MockText
import CppUModel.Model.MockTeardown
/-!
Driver for C08 (mock verdict).

* `modelStep` replays the scenario lines through the model (`CppUModel/Model/Mock.lean`).
* `specAll` is the specification oracle.  It is a *textbook* reading of the property, computed
  from the scenario text and the implementation's observation lines only: every scope has a
  multiset of expected call units (signature × multiplicity, in declaration order); an actual
  call whose signature is among the unconsumed units consumes the first unit with that
  signature and must return that unit's return value and output bytes; the first call that
  cannot be extended to an unconsumed signature must fail with the diagnosis determined by the
  signature sets (unexpected call / additional n-th call / parameter name / parameter value /
  output parameter / unexpected object at once; missing parameter / missing object when the
  call is finished); `checkExpectations` must fail iff units are left (unfulfilled) or, with
  strict order, the sequence of calls differs from the declared sequence (out of order).
  It uses none of the model's functions.  An expectation with `ignoreOtherParameters` is read as:
  a call matches it iff name/object agree and every parameter (and output parameter) it names
  occurs in the call with an equal value, extra parameters allowed; a call lacking a required
  parameter must fail with "missing parameter" when it is finished.  Scenarios outside the
  hypothesis of the property (ambiguous expectation sets — two expectations on one function that
  neither have the same required-parameter map and flags nor differ on a shared parameter's
  value —, repeated parameter names, strict order switched on late) are not judged.
-/
open Mock

/-! ## parsing -/

def splitColon (s : String) : List String := s.splitOn ":"

def parseVal (t v : String) : Option Val :=
  match t with
  | "i" => v.toInt?.map Val.int
  | "u" => v.toNat?.map Val.uint
  | "s" => (Proto.unhex? v).map Val.str
  | "p" => v.toNat?.map Val.ptr
  | "cp" => v.toNat?.map Val.cptr
  | "b" => if v = "1" then some (.bool true) else if v = "0" then some (.bool false) else none
  | "m" => (Proto.unhex? v).map Val.mem
  | _ => none

/-- a parameter value as the MODEL stores it: the typed value of the scenario (`MVal`, the C09
    value model, LP64 widths) in the normal form `paramKey` — all six integer types become the
    integer they denote (`denote?`), so that the matching model's structural comparison is the
    code's `MockNamedValue::equals` (`param_equal_iff_same_integer` in Props/C08.lean) -/
def parseParamModel (t v : String) : Option Val :=
  match t with
  | "i" => v.toInt?.map (fun z => paramKey (.int (BitVec.ofInt 32 z)))
  | "u" => v.toInt?.map (fun z => paramKey (.uint (BitVec.ofInt 32 z)))
  | "l" => v.toInt?.map (fun z => paramKey (.long (BitVec.ofInt 64 z)))
  | "ul" => v.toInt?.map (fun z => paramKey (.ulong (BitVec.ofInt 64 z)))
  | "ll" => v.toInt?.map (fun z => paramKey (.llong (BitVec.ofInt 64 z)))
  | "ull" => v.toInt?.map (fun z => paramKey (.ullong (BitVec.ofInt 64 z)))
  | "s" => (Proto.unhex? v).map (fun b => paramKey (.str (some b)))
  | "p" => v.toNat?.map (fun a => paramKey (.ptr a))
  | "cp" => v.toNat?.map (fun a => paramKey (.cptr a))
  | "b" => if v = "1" then some (paramKey (.bool true)) else if v = "0" then some (paramKey (.bool false)) else none
  | "m" => (Proto.unhex? v).map (fun b => paramKey (.mem b))
  | _ => none

/-- a parameter value as the ORACLE reads it (independent of the value model): an integer of any
    of the six integer types is the decimal number written in the scenario; two parameter values
    are equal iff they are the same integer, or the same non-integer type with the same content -/
def parseParamOracle (t v : String) : Option Val :=
  match t with
  | "i" | "u" | "l" | "ul" | "ll" | "ull" => v.toInt?.map Val.int
  | _ => parseVal t v

def renderVal : Val → String
  | .int v => s!"i:{v}"
  | .uint v => s!"u:{v}"
  | .str b => s!"s:{Proto.hex b}"
  | .ptr a => s!"p:{a}"
  | .cptr a => s!"cp:{a}"
  | .bool b => if b then "b:1" else "b:0"
  | .mem b => s!"m:{Proto.hex b}"

inductive CSeg
  | seg (s : Seg)
  | r
deriving Repr, Inhabited

def parseCallSeg (pv : String → String → Option Val) (w : String) : Option CSeg :=
  match splitColon w with
  | ["r"] => some .r
  | ["o", id] => id.toNat?.map (fun o => .seg (.obj o))
  | ["p", n, t, v] => (pv t v).map (fun x => .seg (.inp n x))
  | ["out", n] => some (.seg (.out n))
  | _ => none

def parseExpSeg (pv : String → String → Option Val) (w : String) : Option ESeg :=
  match splitColon w with
  | ["iop"] => some .iop
  | ["o", id] => id.toNat?.map ESeg.obj
  | ["p", n, t, v] => (pv t v).map (ESeg.inp n)
  | ["out", n, h] => (Proto.unhex? h).map (ESeg.out n)
  | ["ret", t, v] => (parseVal t v).map ESeg.ret
  | _ => none

def scopeName (s : String) : String := if s = "-" then "" else s

def parseCount (s : String) : Option Nat :=
  if s = "one" then some 1 else if s = "no" then some 0 else s.toNat?

inductive Cmd
  | strict (s : String) | ioc (s : String) | enable (s : String) | disable (s : String)
  | check (s : String) | clear (s : String) | left (s : String)
  | expect (s : String) (n : Nat) (fn : String) (segs : List ESeg)
  | call (s : String) (fn : String) (segs : List Seg) (r : Bool)
  | plugin                 -- the case runs 2..5 scripted tests in a registry with MockSupportPlugin installed
  | teardown               -- … in a registry WITHOUT the plugin: default reporter, `mock().checkExpectations(); mock().clear();` in teardown()
  | test (name : String)   -- a scripted test begins (its body = the following scenario lines)
  | failPlain              -- a plain FAIL in the test body
  | endtest                -- teardown(): the body is over; the plugin's postTestAction follows
  | skip
deriving Repr, Inhabited

/-- `r` may only be the last step -/
def splitR : List CSeg → Option (List Seg × Bool)
  | [] => some ([], false)
  | [.r] => some ([], true)
  | .r :: _ => none
  | .seg s :: rest => (splitR rest).map (fun p => (s :: p.1, p.2))

def parseCmdWith (pv : String → String → Option Val) (ws : List String) : Option Cmd :=
  match ws with
  | ["skip"] => some .skip
  | ["plugin"] => some .plugin
  | ["teardown"] => some .teardown
  | ["test", n] => some (.test n)
  | ["fail"] => some .failPlain
  | ["endtest"] => some .endtest
  | ["strict", s] => some (.strict (scopeName s))
  | ["ioc", s] => some (.ioc (scopeName s))
  | ["enable", s] => some (.enable (scopeName s))
  | ["disable", s] => some (.disable (scopeName s))
  | ["check", s] => some (.check (scopeName s))
  | ["clear", s] => some (.clear (scopeName s))
  | ["left", s] => some (.left (scopeName s))
  | "expect" :: s :: n :: fn :: segs =>
    match parseCount n, segs.mapM (parseExpSeg pv) with
    | some k, some es => if n = "no" && !es.isEmpty then none else some (.expect (scopeName s) k fn es)
    | _, _ => none
  | "call" :: s :: fn :: segs =>
    match segs.mapM (parseCallSeg pv) with
    | some cs => (splitR cs).map (fun p => .call (scopeName s) fn p.1 p.2)
    | none => none
  | _ => none

/-- the model's reading of a scenario line -/
def parseCmd (ws : List String) : Option Cmd := parseCmdWith parseParamModel ws
/-- the oracle's reading of a scenario line -/
def parseCmdOracle (ws : List String) : Option Cmd := parseCmdWith parseParamOracle ws

def bufInit : List UInt8 := List.replicate 8 0xEE

/-! ## model replay -/

structure DState where
  w : World := World.init
  stopped : Bool := false
  plugin : Bool := false          -- plugin mode: a failure ends the test body, not the case
  testFailed : Bool := false      -- the current scripted test has failed
  teardown : Bool := false        -- teardown mode: no plugin; every test starts with mock().clear() and verifies the mock in teardown()
deriving Inhabited

def failLine (m : String) : String := "fail " ++ m
def outLines (bufs : List (String × List UInt8)) : List String :=
  bufs.map (fun b => s!"out {b.1} {Proto.hex b.2}")
def retLine : Option Val → String
  | none => "ret none"
  | some v => "ret " ++ renderVal v

/-- a mock failure in direct mode stops the scenario; in plugin mode the default reporter fails
    the current test, which leaves its body -/
def stop (d : DState) (w : World) (m : String) (hist : List String) : DState × List String :=
  if d.plugin then ({ d with w := w, testFailed := true }, [failLine m])
  else ({ d with w := w, stopped := true }, [failLine m] ++ hist)

def modelCmd (d : DState) : Cmd → DState × List String
  | .skip => (d, [])
  | .plugin => ({ w := World.init, plugin := true }, [])
  | .teardown => ({ w := World.init, plugin := true, teardown := true }, [])
  | .test _ => ({ d with testFailed := false, w := if d.teardown then d.w.clear "" else d.w }, [])
  | .failPlain => ({ d with testFailed := true }, [failLine "scripted"])
  | .endtest =>
    -- MockSupportPlugin::postTestAction (Model: `pluginPost`), or the test's own teardown() under the
    -- default reporter (Model: `teardownPost`, reporter body regenerated from MockFailure.cpp)
    match (if d.teardown then teardownPost { w := d.w, failed := d.testFailed, msgs := [] }
           else pluginPost { w := d.w, failed := d.testFailed, msgs := [] }) with
    | (fs, w) =>
      ({ d with w := w, testFailed := false },
       fs.map failLine ++ [if d.testFailed || !fs.isEmpty then "verdict fail" else "verdict pass"])
  | .strict s => ({ d with w := d.w.strictOrder s }, [])
  | .ioc s => ({ d with w := d.w.setAll s (fun sc => { sc with ioc := true }) }, [])
  | .enable s => ({ d with w := d.w.setAll s (fun sc => { sc with enabled := true }) }, [])
  | .disable s => ({ d with w := d.w.setAll s (fun sc => { sc with enabled := false }) }, [])
  | .clear s => ({ d with w := d.w.clear s }, [])
  | .check s =>
    match d.w.check s with
    | (w, some f) => stop d w f (w.checkFailureHistory s f)
    | (w, none) => ({ d with w := w }, [])
  | .left s =>
    match d.w.left s with
    | (w, some f, _) => stop d w f (w.checkFailureHistory s f)
    | (w, none, b) => ({ d with w := w }, [if b then "left 1" else "left 0"])
  | .expect s n fn segs => ({ d with w := d.w.expectN s n fn segs }, [])
  | .call s fn segs r =>
    let o := d.w.call s fn segs bufInit
    match o.fail with
    | some f => stop d o.w f (o.w.callFailureHistory s f)
    | none =>
      if o.ignored then
        let outs := segs.filterMap (fun sg => match sg with | .out n => some (n, bufInit) | _ => none)
        ({ d with w := o.w }, (if r then ["ret none"] else []) ++ outLines outs)
      else if r then
        match o.w.returnValue s with
        | (w, some f, _) => stop d w f (w.callFailureHistory s f)
        | (w, none, v) => ({ d with w := w }, [retLine v] ++ outLines (w.bufs s))
      else ({ d with w := o.w }, outLines (o.w.bufs s))

def modelStep (d : DState) (op : List String) (_obs : List (List String)) : DState × List String :=
  if d.stopped then (d, [])
  else match parseCmd op with
    | some c => modelCmd d c
    | none => (d, ["bad-op"])

/-! ## specification oracle (textbook; independent of the model) -/

namespace Oracle

structure Sig where
  name : String
  obj  : Option Nat
  ins  : List (String × Val)
  outs : List String
  iop  : Bool := false        -- ignoreOtherParameters: `ins`/`outs` are the REQUIRED parameters
deriving Repr, Inhabited

def sameSet {α} [BEq α] (a b : List α) : Bool := a.all (b.contains ·) && b.all (a.contains ·)

def Sig.same (a b : Sig) : Bool :=
  a.name == b.name && a.obj == b.obj && sameSet a.ins b.ins && sameSet a.outs b.outs && a.iop == b.iop

/-- the hypothesis of the property for two expectations on the same function: identical
    signatures (the same required-parameter map and the same flags), or a shared (required)
    parameter with different values, or two different specific objects -/
def Sig.conflict (a b : Sig) : Bool :=
  a.ins.any (fun p => b.ins.any (fun q => p.1 == q.1 && p.2 != q.2)) ||
  (match a.obj, b.obj with | some x, some y => x != y | _, _ => false)

def unambiguousWith (exps : List Sig) (s : Sig) : Bool :=
  exps.all (fun e => e.name != s.name || e.same s || e.conflict s)

def distinct (l : List String) : Bool :=
  match l with
  | [] => true
  | x :: xs => !xs.contains x && distinct xs

/-- one unit of expected capacity -/
structure CapUnit where
  sig      : Sig
  ret      : Option Val
  outBytes : List (String × List UInt8)
  pos      : Nat            -- position in the declared sequence of the scope (1-based)
  consumed : Bool
  atCall   : Nat := 0      -- the number of the call that consumed it
deriving Repr, Inhabited

structure OScope where
  name     : String
  enabled  : Bool := true
  ioc      : Bool := false
  strict   : Bool := false
  exps     : List Sig := []          -- every expectation line since the last clear (also count 0)
  units    : List CapUnit := []
  calls    : Nat := 0                -- checked actual calls so far
  touched  : Bool := false           -- an expectation or a call was seen since creation / clear
  pending  : Option (Option String) := none   -- a call not yet finished: its deferred failure
  pendingFn : String := ""                    -- … and the function it was made to
  pendingHist : Option (List (String × String × Nat × Nat)) := none   -- … and the candidates its failure must list (section M)
  decls    : List (String × Nat × Nat) := []  -- every declared expectation: function, count, units before it
  orderBroken : Bool := false
deriving Repr, Inhabited

structure OState where
  glob : OScope := { name := "" }
  subs : List OScope := []
deriving Repr, Inhabited

def OState.touch (st : OState) (n : String) : OState :=
  if n.isEmpty || st.subs.any (·.name == n) then st
  else { st with subs := st.subs ++ [{ name := n, enabled := st.glob.enabled, ioc := st.glob.ioc, strict := st.glob.strict }] }

def OState.get (st : OState) (n : String) : OScope :=
  if n.isEmpty then st.glob else (st.subs.find? (·.name == n)).getD { name := n }

def OState.put (st : OState) (sc : OScope) : OState :=
  if sc.name.isEmpty then { st with glob := sc }
  else { st with subs := st.subs.map (fun s => if s.name == sc.name then sc else s) }

def OState.covered (st : OState) (n : String) : List OScope :=
  if n.isEmpty then st.glob :: st.subs else [st.get n]

def scopedName (sc fn : String) : String := if sc.isEmpty then fn else sc ++ "::" ++ fn

def sigOfExp (fn : String) (segs : List ESeg) : Sig :=
  { name := fn,
    obj := (segs.filterMap (fun s => match s with | .obj o => some o | _ => none)).getLast?,
    ins := segs.filterMap (fun s => match s with | .inp n v => some (n, v) | _ => none),
    outs := segs.filterMap (fun s => match s with | .out n _ => some n | _ => none),
    iop := segs.any (fun s => match s with | .iop => true | _ => false) }

/-! ### which scenarios are judged -/

def intKind : Val → Option Nat
  | .int _ => some 0
  | .uint _ => some 1
  | _ => none

structure Pre where
  st : OState := {}
  kinds : List (String × Nat) := []     -- (all integer types are one kind for the oracle: values are compared as integers)
  ok : Bool := true
deriving Inhabited

def noteKinds (kinds : List (String × Nat)) (ps : List (String × Val)) : List (String × Nat) × Bool :=
  ps.foldl (fun acc p =>
    match intKind p.2 with
    | none => acc
    | some k =>
      match acc.1.find? (·.1 == p.1) with
      | some q => (acc.1, acc.2 && q.2 == k)
      | none => ((p.1, k) :: acc.1, acc.2)) (kinds, true)

def preCmd (p : Pre) : Cmd → Pre
  | .skip => { p with ok := false }
  | .plugin => p
  | .teardown => p
  | .test _ => { p with st := {} }          -- the plugin (teardown mode: the test's setup) has cleared the mock
  | .failPlain => p
  | .endtest => p
  | .strict s =>
    let st := p.st.touch s
    let sc := st.get s
    { p with st := st.put { sc with strict := true }, ok := p.ok && !sc.touched }
  | .clear s =>
    let st := p.st.touch s
    if s.isEmpty then { p with st := {} } else { p with st := st.put { name := s } }
  | .expect s _ fn segs =>
    let st := p.st.touch s
    let sc := st.get s
    let sg := sigOfExp (scopedName s fn) segs
    let k := noteKinds p.kinds sg.ins
    let wf := distinct (sg.ins.map (·.1)) && distinct sg.outs
      && (segs.filter (fun x => match x with | .obj _ => true | _ => false)).length ≤ 1
      && (segs.filter (fun x => match x with | .ret _ => true | _ => false)).length ≤ 1
    -- expectations declared while the scope is disabled do not exist
    if !sc.enabled then { p with st := st, kinds := k.1, ok := p.ok && wf && k.2 }
    else
      { p with st := st.put { sc with exps := sc.exps ++ [sg], touched := true }, kinds := k.1,
               ok := p.ok && wf && k.2 && unambiguousWith sc.exps sg }
  | .call s _ segs _ =>
    let st := p.st.touch s
    let sc := st.get s
    let ins := segs.filterMap (fun x => match x with | .inp n v => some (n, v) | _ => none)
    let outs := segs.filterMap (fun x => match x with | .out n => some n | _ => none)
    let k := noteKinds p.kinds ins
    let wf := distinct (ins.map (·.1)) && distinct outs
      && (segs.filter (fun x => match x with | .obj _ => true | _ => false)).length ≤ 1
    { p with st := st.put { sc with touched := true }, kinds := k.1, ok := p.ok && wf && k.2 }
  | .ioc s => { p with st := (p.st.touch s) }
  | .enable s =>
    let st := p.st.touch s
    if s.isEmpty then { p with st := { glob := { st.glob with enabled := true }, subs := st.subs.map (fun c => { c with enabled := true }) } }
    else { p with st := st.put { st.get s with enabled := true } }
  | .disable s =>
    let st := p.st.touch s
    if s.isEmpty then { p with st := { glob := { st.glob with enabled := false }, subs := st.subs.map (fun c => { c with enabled := false }) } }
    else { p with st := st.put { st.get s with enabled := false } }
  | .check s => { p with st := p.st.touch s }
  | .left s => { p with st := p.st.touch s }

def judged (cmds : List Cmd) : Bool := (cmds.foldl preCmd {}).ok

/-! ### expected diagnosis texts -/

def ordinalText (n : Nat) : String :=
  let t := n % 100
  let suffix := if t = 11 || t = 12 || t = 13 then "th"
    else if n % 10 = 1 then "st" else if n % 10 = 2 then "nd" else if n % 10 = 3 then "rd" else "th"
  toString n ++ suffix

def dUnexpectedCall (f : String) : String := "Mock Failure: Unexpected call to function: " ++ f
def dSurplus (n : Nat) (f : String) : String :=
  "Mock Failure: Unexpected additional (" ++ ordinalText n ++ ") call to function: " ++ f
def dParamName (f p : String) : String := "Mock Failure: Unexpected parameter name to function \"" ++ f ++ "\": " ++ p
def dParamValue (f p : String) : String :=
  "Mock Failure: Unexpected parameter value to parameter \"" ++ p ++ "\" to function \"" ++ f ++ "\""
def dOutName (f p : String) : String := "Mock Failure: Unexpected output parameter name to function \"" ++ f ++ "\": " ++ p
def dOutType (f p : String) : String :=
  "Mock Failure: Unexpected parameter type \"void*\" to output parameter \"" ++ p ++ "\" to function \"" ++ f ++ "\""
def dObject (f : String) : String := "MockFailure: Function called on an unexpected object: " ++ f
def dMissingParam (f : String) : String := "Mock Failure: Expected parameter for function \"" ++ f ++ "\" did not happen."
def dMissingObject (f : String) : String :=
  "Mock Failure: Expected call on object for function \"" ++ f ++ "\" but it did not happen."
def dUnfulfilled : String := "Mock Failure: Expected call WAS NOT fulfilled."
def dOutOfOrder : String := "Mock Failure: Out of order calls"

/-! ### the textbook machine -/

/-- what one operation must show -/
structure Want where
  fail : Option String := none                          -- the diagnosis, if the operation must fail
  ret  : Option (Option Val) := none                    -- the value a queried call must return
  outs : Option (List (String × List UInt8)) := none    -- output buffers after a fulfilled call
  left : Option Bool := none
  /-- the expectation history the failure text must show: (section U/F, function, expected, actual) -/
  hist : Option (List (String × String × Nat × Nat)) := none
deriving Repr, Inhabited

/-- the textbook history: every declared expectation (of the function, if `related`) of the given
    scopes, those that have not been called as often as expected first (section U), then the
    others (section F), each with its expected count and the number of calls that consumed it -/
def histWant (scs : List OScope) (related : Option String) : List (String × String × Nat × Nat) :=
  let all := scs.flatMap (fun sc =>
    (sc.decls.filter (fun d => match related with | some f => d.1 == f | none => true)).map (fun d =>
      (d.1, d.2.1, (sc.units.filter (fun u => u.consumed && d.2.2 < u.pos && u.pos ≤ d.2.2 + d.2.1)).length)))
  (all.filter (fun d => d.2.1 != d.2.2)).map (fun d => ("U", d.1, d.2.1, d.2.2)) ++
  (all.filter (fun d => d.2.1 == d.2.2)).map (fun d => ("F", d.1, d.2.1, d.2.2))

def finishPending (sc : OScope) : OScope × Option String :=
  match sc.pending with
  | some (some f) => ({ sc with pending := none }, some f)
  | _ => ({ sc with pending := none }, none)

def finishAll : List OScope → List OScope × Option String
  | [] => ([], none)
  | s :: rest =>
    match finishPending s with
    | (s1, some f) => (s1 :: rest, some f)
    | (s1, none) => match finishAll rest with | (r1, f) => (s1 :: r1, f)

def putAll (st : OState) (scs : List OScope) : OState := scs.foldl OState.put st

def unitsLeft (sc : OScope) : Bool := sc.units.any (fun u => !u.consumed)

/-- narrowing of the unconsumed units by the steps of the call; `none` = nothing left at a step,
    with the diagnosis of that step -/
def narrow (sc : OScope) (f : String) : List CapUnit → List Seg → Except String (List CapUnit)
  | k, [] => .ok k
  | k, .inp n v :: rest =>
    -- an expectation that ignores other parameters accepts every parameter it does not name
    let k' := k.filter (fun u => if u.sig.ins.any (·.1 == n) then u.sig.ins.contains (n, v) else u.sig.iop)
    if k'.isEmpty then
      .error (if sc.exps.any (fun e => e.name == f && e.ins.any (·.1 == n)) then dParamValue f n else dParamName f n)
    else narrow sc f k' rest
  | k, .out n :: rest =>
    let k' := k.filter (fun u => u.sig.outs.contains n || u.sig.iop)
    if k'.isEmpty then
      .error (if sc.exps.any (fun e => e.name == f && e.outs.contains n) then dOutType f n else dOutName f n)
    else narrow sc f k' rest
  | k, .obj o :: rest =>
    let k' := k.filter (fun u => u.sig.obj.isNone || u.sig.obj == some o)
    if k'.isEmpty then .error (dObject f) else narrow sc f k' rest

def callSig (f : String) (segs : List Seg) : Sig :=
  { name := f,
    obj := (segs.filterMap (fun s => match s with | .obj o => some o | _ => none)).head?,
    ins := segs.filterMap (fun s => match s with | .inp n v => some (n, v) | _ => none),
    outs := segs.filterMap (fun s => match s with | .out n => some n | _ => none) }

/-- the call matches the unit: same parameters and output parameters — or, for a unit that
    ignores other parameters, every required parameter (with its value) and every required output
    parameter occurs in the call, extra ones allowed — and its object (if it names one) is the
    call's -/
def exactly (c : Sig) (u : CapUnit) : Bool :=
  (if u.sig.iop then u.sig.ins.all (c.ins.contains ·) && u.sig.outs.all (c.outs.contains ·)
   else sameSet u.sig.ins c.ins && sameSet u.sig.outs c.outs) &&
  (u.sig.obj.isNone || u.sig.obj == c.obj)

def consumeAt (units : List CapUnit) (pos : Nat) (call : Nat := 0) : List CapUnit :=
  units.map (fun u => if u.pos == pos then { u with consumed := true, atCall := call } else u)

def fillOut (u : CapUnit) (n : String) : String × List UInt8 :=
  match u.outBytes.find? (·.1 == n) with
  | some b => (n, b.2 ++ bufInit.drop b.2.length)
  | none => (n, bufInit)

/-- "Out of order calls": only the expectations one of whose calls came at another position than declared
    (all expectations are fulfilled when this failure is reported), all in the fulfilled section -/
def histOutOfOrder (scs : List OScope) : List (String × String × Nat × Nat) :=
  (scs.filter (·.strict)).flatMap (fun sc =>
    (sc.decls.filter (fun d => sc.units.any (fun u => u.consumed && d.2.2 < u.pos && u.pos ≤ d.2.2 + d.2.1 && u.atCall != u.pos))).map
      (fun d => ("F", d.1, d.2.1, d.2.1)))

/-- the candidates a call with a missing parameter leaves: the expectations with capacity that accept every step made -/
def histCandidates (sc : OScope) (k : List CapUnit) (c : Sig) : List (String × String × Nat × Nat) :=
  ((sc.decls.zip sc.exps).filter (fun de => k.any (fun u => de.1.2.2 < u.pos && u.pos ≤ de.1.2.2 + de.1.2.1))).flatMap (fun de =>
    let d := de.1
    -- what the candidate still misses: the parameters, then the output parameters, it names and the call did not supply
    let miss := (de.2.ins.map (·.1)).filter (fun n => !(c.ins.map (·.1)).contains n) ++ de.2.outs.filter (fun n => !c.outs.contains n)
    [("M", d.1, d.2.1, (sc.units.filter (fun u => u.consumed && d.2.2 < u.pos && u.pos ≤ d.2.2 + d.2.1)).length),
     ("m", if miss.isEmpty then "-" else ",".intercalate miss, 0, 0)])

def oCall (st0 : OState) (s fn : String) (segs : List Seg) (r : Bool) : OState × Want :=
  let st := st0.touch s
  let sc0 := st.get s
  match finishPending sc0 with
  | (sc, some f) => (st.put sc, { fail := some f, hist := some (sc0.pendingHist.getD [] ++ histWant [sc] (some sc0.pendingFn)) })
  | (sc, none) =>
    let f := scopedName s fn
    let ignoredOuts := (callSig f segs).outs.map (fun n => (n, bufInit))
    if !sc.enabled || (sc.ioc && !sc.exps.any (·.name == f)) then
      (st.put sc, { ret := if r then some none else none, outs := some ignoredOuts })
    else
      let sc := { sc with calls := sc.calls + 1 }
      let k0 := sc.units.filter (fun u => !u.consumed && u.sig.name == f)
      if k0.isEmpty then
        let used := (sc.units.filter (fun u => u.consumed && u.sig.name == f)).length
        (st.put sc, { fail := some (if used = 0 then dUnexpectedCall f else dSurplus (used + 1) f), hist := some (histWant [sc] none) })
      else
        match narrow sc f k0 segs with
        | .error d => (st.put sc, { fail := some d, hist := some (histWant [sc] (some f)) })
        | .ok k =>
          let c := callSig f segs
          match k.find? (exactly c) with
          | some u =>
            let sc1 := { sc with units := consumeAt sc.units u.pos sc.calls,
                                 orderBroken := sc.orderBroken || (sc.strict && u.pos != sc.calls),
                                 pending := if r then none else some none }
            (st.put sc1, { ret := if r then some u.ret else none, outs := some (c.outs.map (fillOut u)) })
          | none =>
            let d := if k.any (fun u => u.sig.ins.any (fun p => !c.ins.contains p) || u.sig.outs.any (fun n => !c.outs.contains n))
                     then dMissingParam f else dMissingObject f
            let hm := if d == dMissingParam f then histCandidates sc k c else []
            if r then (st.put sc, { fail := some d, hist := some (hm ++ histWant [sc] (some f)) })
            else (st.put { sc with pending := some (some d), pendingFn := f, pendingHist := some hm }, {})

/-- the history of the first call in flight that cannot be finished -/
def pendingHist (scs : List OScope) : Option (List (String × String × Nat × Nat)) :=
  match scs.find? (fun sc => match sc.pending with | some (some _) => true | _ => false) with
  | some sc => some (sc.pendingHist.getD [] ++ histWant [sc] (some sc.pendingFn))
  | none => none

def oExpect (st0 : OState) (s : String) (n : Nat) (fn : String) (segs : List ESeg) : OState :=
  let st := st0.touch s
  let sc := st.get s
  if !sc.enabled then st
  else
    let sg := sigOfExp (scopedName s fn) segs
    let ret := (segs.filterMap (fun x => match x with | .ret v => some v | _ => none)).getLast?
    let ob := segs.filterMap (fun x => match x with | .out a b => some (a, b) | _ => none)
    let base := sc.units.length
    let new := (List.range n).map (fun i => ({ sig := sg, ret := ret, outBytes := ob, pos := base + i + 1, consumed := false } : CapUnit))
    st.put { sc with exps := sc.exps ++ [sg], units := sc.units ++ new, decls := sc.decls ++ [(sg.name, n, base)] }

def oCmd (st : OState) : Cmd → OState × Want
  | .skip => (st, {})
  | .plugin => (st, {})
  | .teardown => (st, {})
  | .test _ => ({}, {})
  | .failPlain => (st, { fail := some "scripted" })
  | .endtest => (st, {})
  | .strict s => let st := st.touch s; (st.put { st.get s with strict := true }, {})
  | .ioc s =>
    let st := st.touch s
    if s.isEmpty then ({ glob := { st.glob with ioc := true }, subs := st.subs.map (fun c => { c with ioc := true }) }, {})
    else (st.put { st.get s with ioc := true }, {})
  | .enable s =>
    let st := st.touch s
    if s.isEmpty then ({ glob := { st.glob with enabled := true }, subs := st.subs.map (fun c => { c with enabled := true }) }, {})
    else (st.put { st.get s with enabled := true }, {})
  | .disable s =>
    let st := st.touch s
    if s.isEmpty then ({ glob := { st.glob with enabled := false }, subs := st.subs.map (fun c => { c with enabled := false }) }, {})
    else (st.put { st.get s with enabled := false }, {})
  | .clear s =>
    let st := st.touch s
    if s.isEmpty then ({}, {}) else (st.put { name := s }, {})
  | .expect s n fn segs => (oExpect st s n fn segs, {})
  | .call s fn segs r => oCall st s fn segs r
  | .check s =>
    let st := st.touch s
    match finishAll (st.covered s) with
    | (scs, some f) => (putAll st scs, { fail := some f, hist := pendingHist (st.covered s) })
    | (scs, none) =>
      let st1 := putAll st scs
      if scs.any unitsLeft then (st1, { fail := some dUnfulfilled, hist := some (histWant scs none) })
      else if scs.any (·.orderBroken) then (st1, { fail := some dOutOfOrder, hist := some (histOutOfOrder scs) })
      else (st1, {})
  | .left s =>
    let st := st.touch s
    match finishAll (st.covered s) with
    | (scs, some f) => (putAll st scs, { fail := some f, hist := pendingHist (st.covered s) })
    | (scs, none) => (putAll st scs, { left := some (scs.any unitsLeft) })

def obsFail (obs : List (List String)) : Option String :=
  (obs.find? (fun l => l.head? == some "fail")).map (fun l => " ".intercalate (l.drop 1))

def obsRet (obs : List (List String)) : Option String :=
  (obs.find? (fun l => l.head? == some "ret")).map (fun l => " ".intercalate (l.drop 1))

def obsOuts (obs : List (List String)) : List (String × String) :=
  obs.filterMap (fun l => match l with | ["out", n, h] => some (n, h) | _ => none)

def obsLeft (obs : List (List String)) : Option String :=
  (obs.find? (fun l => l.head? == some "left")).map (fun l => " ".intercalate (l.drop 1))

def wantRetText : Option Val → String
  | none => "none"
  | some v => renderVal v

/-- compare one operation's observations with what the textbook machine wants; `inl` = verdict
    reached (stop), `inr` = go on -/
def obsHist (obs : List (List String)) : List (String × String × Nat × Nat) :=
  obs.filterMap (fun l => match l with
    | ["hist", sec, name, _, _, _, _, _, e, a] =>
      if sec == "U" || sec == "F" || sec == "M" then some (sec, name, e.toNat?.getD 0, a.toNat?.getD 0) else none
    | ["hist", "m", names] => some ("m", names, 0, 0)
    | _ => none)

def histText (h : List (String × String × Nat × Nat)) : String :=
  " ".intercalate (h.map (fun d => s!"{d.1}:{d.2.1}:{d.2.2.1}/{d.2.2.2}"))

def judgeOp (w : Want) (obs : List (List String)) : Except String Bool :=
  match w.fail, obsFail obs with
  | some d, some g =>
    if d == g then
      match w.hist with
      | some h =>
        -- only when the harness printed a history at all (direct mode)
        if obs.any (fun l => l.head? == some "hist") && obsHist obs != h then
          .error s!"the diagnosis lists the expectations as `{histText (obsHist obs)}` (section:function:expected/called), they are `{histText h}`"
        else .ok true
      | none => .ok true
    else .error s!"wrong diagnosis: reported `{g}`, the first deviation is `{d}`"
  | some d, none => .error s!"no failure reported; the first deviation is `{d}`"
  | none, some g => .error s!"failure reported although nothing deviates: `{g}`"
  | none, none =>
    match w.ret with
    | some v =>
      if obsRet obs != some (wantRetText v) then
        .error s!"call returned `{(obsRet obs).getD "nothing"}`, the consumed expectation has `{wantRetText v}`"
      else
        match w.outs with
        | some o =>
          if obsOuts obs != o.map (fun b => (b.1, Proto.hex b.2)) then .error "output parameter bytes are not those of the consumed expectation"
          else .ok false
        | none => .ok false
    | none =>
      match w.outs, w.left with
      | some o, _ =>
        if obsOuts obs != o.map (fun b => (b.1, Proto.hex b.2)) then .error "output parameter bytes are not those of the consumed expectation"
        else .ok false
      | none, some b =>
        if obsLeft obs != some (if b then "1" else "0") then .error s!"expectedCallsLeft is wrong (units left: {b})" else .ok false
      | none, none => .ok false

def obsVerdict (obs : List (List String)) : Option String :=
  (obs.find? (fun l => l.head? == some "verdict")).map (fun l => " ".intercalate (l.drop 1))

/-- the end of a scripted test run with `MockSupportPlugin`: a test that has not failed itself gets
    the textbook verdict of its own scenario followed by `checkExpectations` — whatever earlier
    tests did —, and its first failure is that diagnosis; a test that has failed must be failed -/
def judgeEndTest (st : OState) (tfailed : Bool) (obs : List (List String)) : Except String Unit :=
  if tfailed then
    if obsVerdict obs == some "fail" then .ok () else .error "the test failed in its body but the run reports it as passed"
  else
    match (oCmd st (.check "")).2.fail, obsFail obs with
    | some d, some g =>
      if d != g then .error s!"wrong diagnosis at the end of the test: reported `{g}`, the first deviation is `{d}`"
      else if obsVerdict obs == some "fail" then .ok () else .error "a failure was reported but the test passed"
    | some d, none => .error s!"the test passed; its scenario deviates: `{d}` (expectations are checked at the end of every test that has not failed)"
    | none, some g => .error s!"failure reported at the end of the test although nothing deviates: `{g}`"
    | none, none => if obsVerdict obs == some "pass" then .ok () else .error "the test failed although nothing deviates"

/-- the mock failures reported under one operation -/
def obsMockFails (obs : List (List String)) : List String :=
  (obs.filter (fun l => l.head? == some "fail")).map (fun l => " ".intercalate (l.drop 1))

/-- the end of a scripted test that verifies the mock itself, `teardown() { mock().checkExpectations();
    mock().clear(); }`, with the library's default reporter ("the first deviation fails the test ONCE with
    the matching diagnosis"): a test whose body was ended by a mock failure must not be failed by the mock
    again, whatever the end-of-test check finds; a test that has not failed gets at most one failure, the
    textbook diagnosis of its scenario followed by `checkExpectations`; a test that failed for another
    reason (plain FAIL) must be failed, and by the mock at most once -/
def judgeTeardown (st : OState) (tfailed mfailed : Bool) (obs : List (List String)) : Except String Unit :=
  let fs := obsMockFails obs
  if mfailed then
    match fs with
    | g :: _ => .error s!"the test had already been failed by the mock (first deviation); the end-of-test check in teardown failed it again: `{g}`"
    | [] => if obsVerdict obs == some "fail" then .ok () else .error "the test failed in its body but the run reports it as passed"
  else if fs.length > 1 then .error s!"the end-of-test check failed the test {fs.length} times: `{" | ".intercalate fs}`"
  else judgeEndTest st tfailed obs

def run (ops : List Proto.Op) : Option String :=
  let cmds := ops.map (fun o => (parseCmdOracle o.op).getD .skip)
  if !judged cmds then none
  else
    let teardown := cmds.head? matches some .teardown
    let plugin := teardown || cmds.head? matches some .plugin
    let rec go (st : OState) (tfailed mfailed : Bool) (i : Nat) : List Proto.Op → Option String
      | [] => none
      | o :: rest =>
        match (parseCmdOracle o.op).getD .skip with
        | .endtest =>
          match (if teardown then judgeTeardown st tfailed mfailed o.obs else judgeEndTest st tfailed o.obs) with
          | .error e => some s!"op#{i} endtest: {e}"
          | .ok () => go {} false false (i + 1) rest
        | c =>
          match oCmd st c with
          | (st1, w) =>
            match judgeOp w o.obs with
            | .error e => some s!"op#{i} {" ".intercalate o.op}: {e}"
            | .ok true => if plugin then go st1 true (mfailed || !(c matches .failPlain)) (i + 1) rest else none
            | .ok false =>
              go st1 (match c with | .test _ => false | _ => tfailed) (match c with | .test _ => false | _ => mfailed) (i + 1) rest
    go {} false false 0 ops

end Oracle

def specAll (ops : List Proto.Op) : Option String := Oracle.run ops

def main : IO Unit :=
  Proto.driverMain { init := ({} : DState), step := modelStep, spec := specAll }
