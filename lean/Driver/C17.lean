import CppUModel.Base.Proto
import CppUModel.Model.Plugins
import CppUModel.Model.PluginsTable
import CppUModel.Spec.Plugins
/-!
Driver for C17: replays harness traces through the model of the pointer table and of the plugin
chain, and judges the implementation's observations with the property's specification oracle
(a shadow of what was installed, in which order, with which flags, and of the pointer values at the
last restore point — no table, no chain recursion).  Imports Base/Model/Spec/Gen only.
-/
open Plugins

def nLocs : Nat := 52    -- 40 void*, 4 function pointers, 4 double*, 4 int**

structure DState where
  flags : List (Nat × Bool) := [] -- enabled flag of every plugin object touched so far (default: enabled)
  chain : Chain := []
  store : Store := { mem := fun l => l, table := [] }
  -- the same history on the array-level state, executed by the code REGENERATED from the current source
  tab : Tab := Tab.init (fun l => l)
  pending : List (Loc × Val) := []   -- redirections collected for the next test body
  pendingS : List (Loc × Val) := []  -- … for the setup() of the next single test
  pendingT : List (Loc × Val) := []  -- … for its teardown()
  batch : List (String × List (Loc × Val) × String × String) := []   -- tests queued for `runall`

def renderVal (v : Val) : String := if v < 1000 then s!"i{v}" else s!"v{v - 1000}"

def renderMem (m : Loc → Val) : String :=
  "mem " ++ " ".intercalate ((List.range nLocs).map (fun l => renderVal (m l)))

/-- the regenerated code (`Gen/PluginCode.lean`, run on the array-level state) and the hand-written list-level
    model must have produced the same pointers and the same table, with no access outside `setlist` -/
def codeAgrees (tab : Tab) (s : Store) : Bool :=
  (List.range nLocs).all (fun l => tab.mem l == s.mem l) && (absT tab).table == s.table && !tab.oob

def codeLines (tab : Tab) (s : Store) (c : Chain) : List String :=
  (if codeAgrees tab s then [] else ["regenerated-table-code-differs-from-the-model"]) ++
  (if runAllPreA c == runAllPre c && runAllPostA c == runAllPost c then [] else ["regenerated-chain-walk-differs-from-the-model"])

def renderChain (c : Chain) : String :=
  if c.isEmpty then "chain -"
  else "chain " ++ " ".intercalate (c.map (fun p => s!"{p.id}{if p.enabled then "+" else "-"}"))

def namesLine (tag : String) (l : List String) : String :=
  if l.isEmpty then tag ++ " -" else tag ++ " " ++ " ".intercalate l

def parseKind (s : String) : Kind :=
  if s == "set" then .setPointer else if s == "failpre" then .failingPre else .recording

/-- the chain line plus the registry's own view (`countPlugins`, `getFirstPlugin`) -/
def chainLines (c : Chain) : List String :=
  [renderChain c,
   match firstPlugin c with
   | some p => s!"plugins {countPlugins c} first {p.id}"
   | none => s!"plugins {countPlugins c} first sentinel"]

def parseRunKind (s : String) : RunKind :=
  if s == "sep" then .separate else if s == "ign" then .ignored else if s == "runign" then .ignoredRun else .normal

/-- `<setup>/<body>/<teardown>` (or just `<body>`) -/
def phases (outcome : String) : String × String × String :=
  match outcome.splitOn "/" with
  | [s, b, t] => (s, b, t)
  | _ => ("pass", outcome, "pass")

def setupPasses (outcome : String) : Bool := (phases outcome).1 == "pass"
def allPass (outcome : String) : Bool :=
  (phases outcome).1 == "pass" && (phases outcome).2.1 == "pass" && (phases outcome).2.2 == "pass"

/-- the statements the test carries out: the body runs only after a setup that ended normally (`Utest::run`);
    a failing / throwing setup or teardown is just another way for the test to fail -/
def bodyOf (outcome : String) (sets : List (Loc × Val)) : List Stmt :=
  if !setupPasses outcome then [Stmt.stop]
  else setsOf sets ++ (if allPass outcome then [] else [Stmt.stop])

def endOf (o : String) : List Stmt := if o == "pass" then [] else [Stmt.stop]

/-- the three phases of a single test: each carries out its redirections and then ends the way the script says -/
def phasesOf (outcome : String) (sS sB sT : List (Loc × Val)) : Phases :=
  { setup := setsOf sS ++ endOf (phases outcome).1,
    body := setsOf sB ++ endOf (phases outcome).2.1,
    teardown := setsOf sT ++ endOf (phases outcome).2.2 }

/-- `i:<id>:<name>` / `r:<name>` / `-` -/
def parseMut (flags : List (Nat × Bool)) (ws : List String) : Mut :=
  match ws with
  | ["i", id, name] =>
    match id.toNat? with
    | some id =>
      let en := match flags.find? (·.1 == id) with
        | some (_, b) => b
        | none => true
      .install { id := id, name := name, enabled := en, kind := if id ≥ 20 then .failingPre else .recording }
    | none => .none
  | ["r", name] => .remove name
  | _ => .none

def parseScripted (flags : List (Nat × Bool)) (outcome : String) (sets : List (Loc × Val)) (bm pm : String) : ScriptedTest :=
  let body := bodyOf outcome sets
  -- the body ends (FAIL, exception) only after its change of the chain
  match pm.splitOn ":" with
  | actor :: rest =>
    { body := body, bodyMut := if setupPasses outcome then parseMut flags (bm.splitOn ":") else .none,
      postActor := actor.toNat?.getD 0,
      postMut := if pm == "-" then .none else parseMut flags rest }
  | [] => { body := body, bodyMut := if setupPasses outcome then parseMut flags (bm.splitOn ":") else .none,
            postActor := 0, postMut := .none }

def notSet (c : Chain) : Chain := c.filter (·.kind != .setPointer)

/-- the registry loop, with the observation lines of every test -/
def runBatch (flags : List (Nat × Bool)) (c : Chain) (s : Store) (tab : Tab) (k : Nat) :
    List (String × List (Loc × Val) × String × String) → List String × Chain × Store × Tab
  | [] => ([], c, s, tab)
  | (outcome, sets, bm, pm) :: rest =>
    let t := parseScripted flags outcome sets bm pm
    let r := runScripted c s t
    let pc := postChainAfterBody c (effectiveBodyMut s t)
    let tab' := runTestA (hasActiveSetB pc) tab t.body
    let lines := [namesLine s!"t{k} pre" (runAllPre (notSet c)), namesLine s!"t{k} post" (runAllPost (notSet pc)),
                  s!"t{k} done {r.1.done}"] ++ codeLines tab' r.1.store c
    let more := runBatch flags r.2 r.1.store tab' (k + 1) rest
    (lines ++ more.1, more.2)

/-! the command-line runner: `cli <n>` -/
def cliId : Nat := 98

def cliPass (c : Chain) (s : Store) (tab : Tab) :
    List (String × List (Loc × Val) × String × String) → List (List String × List String × Nat) × Store × Tab
  | [] => ([], s, tab)
  | (outcome, sets, _, _) :: rest =>
    let body := bodyOf outcome sets
    let r := runTest c s body
    let tab' := runTestA (hasActiveSetB c) tab body
    let more := cliPass c r.store tab' rest
    ((runAllPre (notSet c), runAllPost (notSet c), r.done) :: more.1, more.2)

def cliReps (c : Chain) (batch : List (String × List (Loc × Val) × String × String)) :
    Nat → Store → Tab → List (List (List String × List String × Nat)) × Store × Tab
  | 0, s, tab => ([], s, tab)
  | n + 1, s, tab =>
    let p := cliPass c s tab batch
    let more := cliReps c batch n p.2.1 p.2.2
    (p.1 :: more.1, more.2)

def cliLines (reps : List (List (List String × List String × Nat))) (ntests : Nat) : List String :=
  (List.range ntests).flatMap (fun k =>
    let rows := reps.filterMap (fun r => r[k]?)
    [namesLine s!"t{k} pre" (rows.flatMap (·.1)), namesLine s!"t{k} post" (rows.flatMap (·.2.1)),
     s!"t{k} done {(rows.map (·.2.2)).foldl (· + ·) 0}"])

def modelStep (d : DState) (op : List String) (_obs : List (List String)) : DState × List String :=
  match op with
  | ["skip"] => (d, [])
  | ["install", id, name, kind] =>
    match id.toNat? with
    | some id =>
      let en := match d.flags.find? (·.1 == id) with
        | some (_, b) => b
        | none => true
      let p : Plugin := { id := id, name := name, enabled := en, kind := parseKind kind }
      let c := install d.chain p
      ({ d with chain := c }, chainLines c)
    | none => (d, ["bad-op"])
  | ["remove", name] =>
    let c := regRemove name d.chain
    ({ d with chain := c }, chainLines c)
  | ["reset"] => ({ d with chain := reset d.chain }, chainLines [])
  | ["newset", _] =>
    ({ d with store := construct d.store, tab := constructA d.tab },
     codeLines (constructA d.tab) (construct d.store) d.chain)
  | ["set", l, v] =>
    match l.toNat?, v.toNat? with
    | some l, some v => ({ d with pending := d.pending ++ [(l, 1000 + v)] }, [])
    | _, _ => (d, ["bad-op"])
  | ["sset", l, v] =>
    match l.toNat?, v.toNat? with
    | some l, some v => ({ d with pendingS := d.pendingS ++ [(l, 1000 + v)] }, [])
    | _, _ => (d, ["bad-op"])
  | ["tset", l, v] =>
    match l.toNat?, v.toNat? with
    | some l, some v => ({ d with pendingT := d.pendingT ++ [(l, 1000 + v)] }, [])
    | _, _ => (d, ["bad-op"])
  | ["test", outcome, bm, pm] =>
    ({ d with batch := d.batch ++ [(outcome, d.pending, bm, pm)], pending := [] }, [])
  | ["runall"] =>
    let r := runBatch d.flags d.chain d.store d.tab 0 d.batch
    ({ d with chain := r.2.1, store := r.2.2.1, tab := r.2.2.2, batch := [] },
     r.1 ++ chainLines r.2.1 ++ [renderMem r.2.2.1.mem])
  | ["cli", n] =>
    match n.toNat? with
    | some n =>
      let c0 := install d.chain (cliPlugin cliId)
      let r := cliReps c0 d.batch n (construct d.store) (constructA d.tab)
      let c1 := regRemove Gen.Plugins.cliSetPointerName c0
      -- the loop above and `runCli` (the function the theorems are about) must be the same thing
      let m := runCli cliId d.chain d.store n (d.batch.map (fun b => bodyOf b.1 b.2.1))
      let same := m.1 == c1 && (List.range nLocs).all (fun l => m.2.mem l == r.2.1.mem l) && m.2.table == r.2.1.table
      ({ d with chain := c1, store := r.2.1, tab := r.2.2, batch := [] },
       cliLines r.1 d.batch.length ++ chainLines c1 ++ [renderMem r.2.1.mem] ++ codeLines r.2.2 r.2.1 c0 ++
       (if same then [] else ["driver-loop-differs-from-runCli"]))
    | none => (d, ["bad-op"])
  | ["run", outcome, kind] =>
    let ss := d.pending
    let k := parseRunKind kind
    let ph := phasesOf outcome d.pendingS ss d.pendingT
    let r := runTestKindP k d.chain d.store ph
    -- the SetPointerPlugin does not write to the order log (its pre action is empty)
    let logging := d.chain.filter (·.kind != .setPointer)
    let ran := k != .ignored
    let tab' := if k == .normal || k == .ignoredRun then runTestPA (hasActiveSetB d.chain) d.tab ph else d.tab
    ({ d with store := r.store, tab := tab', pending := [], pendingS := [], pendingT := [] },
     [namesLine "pre" (if ran then runAllPre logging else []),
      namesLine "post" (if ran then runAllPost logging else []), s!"done {r.done}",
      -- the parent of a separate-process run only learns pass / fail
      "result " ++ (if r.overflow && k != .separate then "overflow" else if r.failed then "fail" else "pass"),
      renderMem r.store.mem] ++ codeLines tab' r.store d.chain)
  | [e, id] =>
    if e == "enable" || e == "disable" then
      match id.toNat? with
      | some id =>
        let b := e == "enable"
        let c := setEnabled id b d.chain
        ({ d with flags := (id, b) :: d.flags.filter (·.1 != id), chain := c }, chainLines c)
      | none => (d, ["bad-op"])
    else if e == "get" then
      match lookup id d.chain with
      | .plugin p => (d, [s!"got {p.id}"])
      | .sentinel => (d, ["got sentinel"])
      | .none => (d, ["got none"])
    else (d, ["bad-op"])
  | _ => (d, ["bad-op"])

/-! ## specification oracle -/

structure SPlugin where
  id : Nat
  name : String
  isSet : Bool
  failsPre : Bool := false
deriving BEq

structure Shadow where
  installed : List SPlugin := []           -- most recently installed first
  disabled  : List Nat := []               -- ids of disabled plugin objects
  -- pointer values at the last point where the table was empty (start, after a restore, after the
  -- construction of a SetPointerPlugin); while `pending = 0` this is the memory before the next test
  baseline  : List String := (List.range nLocs).map (fun l => s!"i{l}")
  now       : List String := (List.range nLocs).map (fun l => s!"i{l}")   -- pointer values after the last test
  pending   : Nat := 0                     -- redirections recorded and not yet undone
  script    : Nat := 0                     -- redirections collected for the next test body
  scriptS   : Nat := 0                     -- … for the setup() of the next single test
  scriptT   : Nat := 0                     -- … for its teardown()
  queue     : List (Nat × String × String) := []   -- queued tests: redirections, body change, post-action change

def obsLine (tag : String) (obs : List (List String)) : Option (List String) :=
  (obs.find? (fun l => l.head? == some tag)).map (·.drop 1)

def dashList (l : List String) : List String := if l == ["-"] then [] else l

def Shadow.chainWords (sh : Shadow) : List String :=
  sh.installed.map (fun p => s!"{p.id}{if sh.disabled.contains p.id then "-" else "+"}")

def Shadow.enabledNames (sh : Shadow) : List String :=
  (sh.installed.filter (fun p => !p.isSet && !sh.disabled.contains p.id)).map (·.name)

def Shadow.activeSet (sh : Shadow) : Bool :=
  sh.installed.any (fun p => p.isSet && !sh.disabled.contains p.id)

def Shadow.preFailure (sh : Shadow) : Bool :=
  sh.installed.any (fun p => p.failsPre && !sh.disabled.contains p.id)

/-- the registry's own view must agree with what is installed: `countPlugins` counts the installed
    plugins (not the sentinel), `getFirstPlugin` is the most recently installed one or the sentinel -/
def checkRegistryView (sh : Shadow) (o : Proto.Op) : Except String Unit := do
  let want := match sh.installed.head? with
    | some p => [toString sh.installed.length, "first", toString p.id]
    | none => ["0", "first", "sentinel"]
  if obsLine "plugins" o.obs != some want then
    throw s!"countPlugins/getFirstPlugin report {(obsLine "plugins" o.obs).getD []}, installed are {sh.installed.length} plugins"

def checkChain (sh : Shadow) (o : Proto.Op) : Except String Unit := do
  let some got := obsLine "chain" o.obs | throw "no chain observation"
  if dashList got != sh.chainWords then
    throw s!"chain is {dashList got}, expected {sh.chainWords} (most recently installed first)"
  checkRegistryView sh o

def obsLine2 (t tag : String) (obs : List (List String)) : Option (List String) :=
  (obs.find? (fun l => l.take 2 == [t, tag])).map (·.drop 2)

/-- a change of the chain as the shadow sees it -/
def Shadow.change (sh : Shadow) (ws : List String) : Shadow :=
  match ws with
  | ["i", id, name] =>
    match id.toNat? with
    | some id =>
      -- (the scripted tests install only objects that are not installed at that moment)
      if sh.installed.any (·.id == id) then sh
      else { sh with installed := { id := id, name := name, isSet := false, failsPre := id ≥ 20 } :: sh.installed }
    | none => sh
  | ["r", name] => { sh with installed := sh.installed.filter (·.name != name) }
  | _ => sh

/-- One `TestRegistry::runAllTests` over the queued tests.  Demanded of test k:
    * its pre actions are seen by exactly the enabled plugins installed WHEN IT STARTS, most recently
      installed first — so a plugin installed during an earlier test of the run is there, one removed
      during an earlier test is not;
    * its post actions are the exact reverse of its pre actions, except that a plugin which the test
      itself removed by name may be missing (the code: the head of the chain still sees it, any other
      does not); a plugin installed during the test sees neither;
    * the table limit and the restore clause as for single tests (the pointers are observed after the run). -/
def specBatch (sh : Shadow) (o : Proto.Op) : Except String Shadow := do
  let mut sh := sh
  let mut k := 0
  for (nsets, bm, pm) in sh.queue do
    let t := s!"t{k}"
    let some pre := obsLine2 t "pre" o.obs | throw s!"no pre log of test {k}"
    let some post := obsLine2 t "post" o.obs | throw s!"no post log of test {k}"
    let some [done] := obsLine2 t "done" o.obs | throw s!"no done count of test {k}"
    let some done := done.toNat? | throw "bad done count"
    let want := sh.enabledNames
    if dashList pre != want then
      throw s!"test {k} of the run: pre actions seen by {dashList pre}, installed and enabled when it started are {want}"
    let room := Gen.Plugins.maxSet - sh.pending
    let overflow := nsets > room
    if done != (if overflow then room else nsets) then throw s!"test {k} of the run: {done} redirections carried out, {nsets} requested, room {room}"
    -- the body's change happens after the redirections (not at all if one of them was refused)
    let bmw := if overflow then ["-"] else bm.splitOn ":"
    let removedName := match bmw with | ["r", name] => some name | _ => none
    let wantPost := want.reverse
    let wantPostWithout := (want.filter (fun n => some n != removedName)).reverse
    if dashList post != wantPost && dashList post != wantPostWithout then
      throw s!"test {k} of the run: post actions seen by {dashList post}, expected {wantPost} (reverse of pre; the plugin the test removed may be missing)"
    -- who saw the post action decides about restoring and about the post-action change
    let sawPost (p : SPlugin) : Bool := !sh.disabled.contains p.id &&
      (if p.isSet then (some p.name != removedName || sh.installed.head?.map (·.id) == some p.id)
       else (dashList post).contains p.name)
    let restored := sh.installed.any (fun p => p.isSet && sawPost p)
    let actorSaw := match pm.splitOn ":" with
      | actor :: _ => sh.installed.any (fun p => some p.id == actor.toNat? && sawPost p)
      | [] => false
    sh := { sh with pending := if restored then 0 else sh.pending + done }
    sh := sh.change bmw
    if actorSaw && pm != "-" then sh := sh.change ((pm.splitOn ":").drop 1)
    k := k + 1
  checkChain sh o
  let some mem := obsLine "mem" o.obs | throw "no mem"
  if sh.pending == 0 && mem != sh.baseline then
    let bad := (List.range nLocs).filter (fun i => mem[i]? != sh.baseline[i]?)
    throw s!"after the run pointer {bad.headD 0} (and {bad.length - 1} more) does not hold the value from before the first redirection"
  return { sh with queue := [], now := mem }

/-- several installed plugins carry the name that is being removed: outside the property; follow the
    implementation, but nothing with another name may disappear and the order must be kept -/
def specRemoveTolerant (sh : Shadow) (name : String) (o : Proto.Op) : Except String Shadow := do
  let some got := obsLine "chain" o.obs | throw "no chain observation"
  let gotIds := (dashList got).filterMap (fun w => (w.dropEnd 1).toString.toNat?)
  let kept := sh.installed.filter (fun p => gotIds.contains p.id)
  if kept.map (·.id) != gotIds then throw "remove reordered or invented plugins"
  if (sh.installed.filter (fun p => p.name != name && !gotIds.contains p.id)).length > 0 then
    throw s!"remove {name} removed a plugin with another name"
  checkRegistryView { sh with installed := kept } o
  return { sh with installed := kept }

/-- `cli <n>`: the queued tests through `CommandLineTestRunner::runAllTestsMain`, `n` repetitions.  Demanded:
    * the runner's own pointer plugin is freshly constructed (empty table), enabled and installed for the whole
      run: EVERY test of every repetition leaves every pointer as it found it, so after the run the pointers
      hold what they held before it — whatever was installed, enabled or left recorded before;
    * every test of every repetition: pre actions seen by the enabled installed plugins, most recently installed
      first, post actions in the exact reverse; the limit as for single tests with an empty table;
    * afterwards the registry's chain is what it was: the runner removes exactly its own plugin (if an installed
      plugin carries the runner's name the remove-exactly clause does not apply, see `specRemoveTolerant`). -/
def specCli (sh : Shadow) (n : Nat) (o : Proto.Op) : Except String Shadow := do
  let mut k := 0
  let want := sh.enabledNames
  for (nsets, _, _) in sh.queue do
    let t := s!"t{k}"
    let some pre := obsLine2 t "pre" o.obs | throw s!"no pre log of test {k}"
    let some post := obsLine2 t "post" o.obs | throw s!"no post log of test {k}"
    let some [done] := obsLine2 t "done" o.obs | throw s!"no done count of test {k}"
    let some done := done.toNat? | throw "bad done count"
    if dashList pre != (List.replicate n want).flatten then
      throw s!"test {k} of the command-line run: pre actions seen by {dashList pre}, expected {n} times {want}"
    if dashList post != (List.replicate n want.reverse).flatten then
      throw s!"test {k} of the command-line run: post actions seen by {dashList post}, expected {n} times {want.reverse}"
    if done != n * min nsets Gen.Plugins.maxSet then
      throw s!"test {k} of the command-line run: {done} redirections carried out over {n} repetitions, {nsets} requested per run with an empty table"
    k := k + 1
  let sh' ← if sh.installed.any (·.name == Gen.Plugins.cliSetPointerName)
    then specRemoveTolerant sh Gen.Plugins.cliSetPointerName o
    else do
      checkChain sh o
      pure sh
  let some mem := obsLine "mem" o.obs | throw "no mem"
  if mem != sh.now then
    let bad := (List.range nLocs).filter (fun i => mem[i]? != sh.now[i]?)
    throw s!"after the command-line run pointer {bad.headD 0} (and {bad.length - 1} more) does not hold the value from before the run"
  return { sh' with queue := [], pending := 0, baseline := mem, now := mem }

def specStep (sh : Shadow) (o : Proto.Op) : Except String Shadow := do
  if o.obs.any (· == ["exception-escaped-the-runner"]) then
    throw "an exception left the runner although re-throwing is off: the post actions of that test were skipped and the tests after it did not run"
  match o.op with
  | ["skip"] => return sh
  | ["install", id, name, kind] =>
    let some id := id.toNat? | throw "bad install"
    let sh' := { sh with installed := { id := id, name := name, isSet := kind == "set", failsPre := kind == "failpre" } :: sh.installed }
    checkChain sh' o
    return sh'
  | ["remove", name] =>
    let same := sh.installed.filter (·.name == name)
    if same.length ≤ 1 then
      -- unique (or absent) name: exactly that plugin goes, everything else stays in place
      let sh' := { sh with installed := sh.installed.filter (·.name != name) }
      checkChain sh' o
      return sh'
    else
      specRemoveTolerant sh name o
  | ["reset"] =>
    let sh' := { sh with installed := [] }
    checkChain sh' o
    return sh'
  | ["enable", id] =>
    let some id := id.toNat? | throw "bad enable"
    let sh' := { sh with disabled := sh.disabled.filter (· != id) }
    checkChain sh' o
    return sh'
  | ["disable", id] =>
    let some id := id.toNat? | throw "bad disable"
    let sh' := { sh with disabled := id :: sh.disabled.filter (· != id) }
    checkChain sh' o
    return sh'
  | ["get", name] =>
    let some got := obsLine "got" o.obs | throw "no got observation"
    match sh.installed.find? (·.name == name) with
    | some p => if got != [toString p.id] then throw s!"getPluginByName({name}) did not return the installed plugin"
    | none => if got != ["none"] && got != ["sentinel"] then throw s!"getPluginByName({name}) returned a plugin that is not installed"
    return sh
  | ["newset", _] =>
    -- a fresh SetPointerPlugin starts with an empty table: entries recorded by earlier tests that ran
    -- without an active plugin are never undone, the pointers keep what they hold now
    return { sh with pending := 0, baseline := sh.now }
  | ["set", _, _] => return { sh with script := sh.script + 1 }
  | ["sset", _, _] => return { sh with scriptS := sh.scriptS + 1 }
  | ["tset", _, _] => return { sh with scriptT := sh.scriptT + 1 }
  | ["test", outcome, bm, pm] =>
    -- a test whose setup does not end normally has no body: no redirection, no change from the body
    let ran := setupPasses outcome
    return { sh with queue := sh.queue ++ [(if ran then sh.script else 0, if ran then bm else "-", pm)], script := 0 }
  | ["runall"] => specBatch sh o
  | ["cli", n] =>
    let some n := n.toNat? | throw "bad cli"
    specCli sh n o
  | ["run", outcome, kind] =>
    let some pre := obsLine "pre" o.obs | throw "no pre log"
    let some post := obsLine "post" o.obs | throw "no post log"
    let some [done] := obsLine "done" o.obs | throw "no done count"
    let some done := done.toNat? | throw "bad done count"
    let some [result] := obsLine "result" o.obs | throw "no result"
    let some mem := obsLine "mem" o.obs | throw "no mem"
    if kind == "ign" then
      -- an ignored test: no body, no plugin action, not a failure
      if dashList pre != [] || dashList post != [] then throw "plugin actions ran for an ignored test"
      if done != 0 then throw "the body of an ignored test ran"
      if result != "pass" then throw "an ignored test was reported as failed"
      if mem != sh.now then throw "an ignored test changed the pointers"
      return { sh with script := 0, scriptS := 0, scriptT := 0 }
    -- order of the plugin actions
    let want := sh.enabledNames
    if dashList pre != want then throw s!"pre actions seen by {dashList pre}, expected {want} (installation-reversed, enabled only)"
    if dashList post != want.reverse then throw s!"post actions seen by {dashList post}, expected {want.reverse} (reverse of pre)"
    -- the limit: the phases fill the table one after the other; the body runs only after a setup() that ended
    -- normally (and was not refused a redirection), teardown() always; a refused redirection ends its phase
    let room := Gen.Plugins.maxSet - sh.pending
    let nS := sh.scriptS
    let doneS := min nS room
    let setupOk := decide (nS ≤ room) && setupPasses outcome
    let nB := if setupOk then sh.script else 0
    let doneB := min nB (room - doneS)
    let nT := sh.scriptT
    let doneT := min nT (room - doneS - doneB)
    let over := decide (nS > room) || decide (nB > room - doneS) || decide (nT > room - doneS - doneB)
    if done != doneS + doneB + doneT then
      throw s!"{done} redirections carried out, expected {doneS + doneB + doneT} (setup {nS}, body {nB}, teardown {nT} requested; the table had room for {room})"
    if !over then
      if result == "overflow" then throw "table overflow reported below the limit"
      -- a failure reported by a pre action fails the test (and stops nothing, see `done` above)
      if (result == "pass") != (allPass outcome && !sh.preFailure) then throw s!"test with outcome {outcome} reported as {result}"
    else
      -- (the parent of a separate-process run cannot see why the child failed)
      if result != "overflow" && !(kind == "sep" && result == "fail") then
        throw s!"more redirections than the table had room for ({room}): the test did not fail with the table-limit failure"
    if kind == "sep" then
      -- everything happened in the child: the caller's pointers and table are as before
      if mem != sh.now then throw "a test run in a separate process changed the caller's pointers"
      return { sh with script := 0, scriptS := 0, scriptT := 0 }
    -- restoring
    if sh.activeSet then
      if mem != sh.baseline then
        let bad := (List.range nLocs).filter (fun i => mem[i]? != sh.baseline[i]?)
        if sh.pending == 0 then
          -- the property's clause: the table was empty when the test started
          throw s!"after the post actions pointer {bad.headD 0} (and {bad.length - 1} more) does not hold the value from before the first redirection"
        else
          -- entries of earlier tests that ran without an active plugin are still recorded: all of
          -- them are undone now, back to the last point where the table was empty
          throw s!"after the post actions pointer {bad.headD 0} (and {bad.length - 1} more) does not hold the value from the last point where the table was empty"
      return { sh with pending := 0, script := 0, scriptS := 0, scriptT := 0, now := mem }
    else
      -- no active SetPointerPlugin: nothing is demanded of the pointer values; the entries stay recorded
      return { sh with pending := sh.pending + done, script := 0, scriptS := 0, scriptT := 0, now := mem }
  | _ => throw "bad-op"

def specAll (ops : List Proto.Op) : Option String :=
  let rec go (sh : Shadow) (i : Nat) : List Proto.Op → Option String
    | [] => none
    | o :: rest =>
      match specStep sh o with
      | .ok sh' => go sh' (i+1) rest
      | .error e => some s!"op#{i} {" ".intercalate o.op}: {e}"
  go {} 0 ops

def main : IO Unit :=
  Proto.driverMain { init := ({} : DState), step := modelStep, spec := specAll }
