import CppUModel.Base.Proto
import CppUModel.Model.LeakDetector
import CppUModel.Model.LeakDetectorReplay
import CppUModel.Model.Misuse
/-!
Driver for C06: replays `h_c06` traces through the detector model and judges the implementation's
observations with the property's specification oracle: a shadow of the outstanding blocks (size, allocating
family, which guard bytes currently differ from the pattern) kept from the operation lines alone, from which the
expected category of every release is computed — none / non-allocated / mismatch / corruption — and, for
releases through the real `operator delete` / `delete[]` / `free` overloads, that the bytes handed back to the
underlying allocator are all the poison byte.
Imports Base/Model/Gen only.
-/
open LeakDetector.Replay

namespace C06Spec

inductive P | disabled | enabled | checking
deriving DecidableEq, Repr, Inhabited

structure Blk where
  addr   : Nat
  size   : Nat
  fam    : String            -- name of the allocating allocator's family
  bad    : List Nat := []    -- guard positions whose byte currently differs from the pattern
  period : P
  stage  : Nat
deriving Repr, Inhabited

structure Shadow where
  live      : List Blk := []
  fams      : List (Nat × String) := []     -- allocator index ↦ family name (wrappers resolved through their construction)
  typeCheck : Bool := true
  curNew    : Nat := 0
  curArr    : Nat := 1
  curMal    : Nat := 2
  period    : P := .disabled
  stage     : Nat := 0
  mrpBase   : Nat := 0                      -- registry index of the memory-report plugin's malloc allocator (new: +1, new[]: +2)
  saved     : Nat × Nat × Nat := (0, 1, 2)  -- the current allocators (new, new[], malloc) before the plugin's pre action
  nullIdx   : Nat := 15                     -- registry index of the NullUnknownAllocator (from the setup lines)
deriving Inhabited

def guardByte (i : Nat) : UInt8 :=
  Gen.LeakDetector.guardBytes.getD (i % Gen.LeakDetector.guardBytes.length) 0

def famOf (sh : Shadow) (ai : Nat) : String := (sh.fams.lookup ai).getD s!"?{ai}"

def find (sh : Shadow) (a : Nat) : Option Blk := sh.live.find? (·.addr == a)

/-- family table from the registry lines: a plain allocator is its own name, a wrapper has the family of what it wraps -/
def families (obs : List (List String)) : List (Nat × String) := Id.run do
  let mut t : List (Nat × String) := []
  for l in obs do
    match l with
    | ["allocator", i, "plain", _, n, _, _] => t := t ++ [(i.toNat?.getD 0, n)]
    | ["allocator", i, "wrap", o] => t := t ++ [(i.toNat?.getD 0, (t.lookup (o.toNat?.getD 0)).getD "?")]
    | _ => pure ()
  return t

def failKinds (obs : List (List String)) : List String :=
  obs.filterMap (fun l => match l with
    | "fail" :: k :: _ => some k
    | _ => none)

/-- the category the property demands for releasing `addr` through allocator `ai` -/
def expected (sh : Shadow) (ai addr : Nat) : String :=
  if addr == 0 then "none"
  else match find sh addr with
    | none => "nonallocated"
    | some b =>
      if sh.typeCheck && b.fam != famOf sh ai then "mismatch"
      else if !b.bad.isEmpty then "corruption"
      else "none"

/-- the category names of the property statement, as the first line of the text -/
def categoryText : String → Option String
  | "nonallocated" => some "Deallocating non-allocated memory\n"
  | "mismatch" => some "Allocation/deallocation type mismatch\n"
  | "corruption" => some "Memory corruption (written out of bounds?)\n"
  | _ => none

/-- every report whose complete text was printed begins with the line that names its category -/
def checkTexts (obs : List (List String)) : Except String Unit := do
  let fails := obs.filter (fun l => l.head? == some "fail" || l.head? == some "failtext")
  let rec go : List (List String) → Except String Unit
    | ("fail" :: k :: _) :: ["failtext", h] :: rest => do
      match categoryText k, Proto.unhex? h with
      | some want, some bytes =>
        let text := (String.fromUTF8? (ByteArray.mk bytes.toArray)).getD ""
        if !text.startsWith want then throw s!"a `{k}` report does not begin with its category line"
      | _, _ => pure ()
      go rest
    | _ :: rest => go rest
    | [] => pure ()
  go fails

def checkVerdict (sh : Shadow) (ai addr : Nat) (obs : List (List String)) : Except String Unit := do
  if obs.any (· == ["fail", "lost"]) then return ()      -- the detector's text buffer was full: the text is C14's subject
  checkTexts obs
  let want := expected sh ai addr
  let got := failKinds obs
  match got with
  | [] => if want != "none" then throw s!"release of {addr} through allocator {ai}: no report, the property demands `{want}`"
  | [k] => if k != want then throw s!"release of {addr} through allocator {ai}: reported `{k}`, the property demands `{want}`"
  | ks => throw s!"release of {addr} produced {ks.length} reports"

def inPeriod (q : String) (b : Blk) : Bool :=
  match q with
  | "all" => true
  | "disabled" => b.period == .disabled
  | "enabled" => b.period != .disabled
  | "checking" => b.period == .checking
  | _ => false

def retOf (obs : List (List String)) : Option Nat :=
  (obs.find? (fun l => l.head? == some "ret")).bind (fun l => l[1]? >>= String.toNat?)

def newBlk (sh : Shadow) (addr size ai : Nat) : Blk :=
  { addr := addr, size := size, fam := famOf sh ai, period := sh.period, stage := sh.stage }

def poisonHex (size : Nat) : String :=
  Proto.hex (List.replicate size Gen.LeakDetector.poisonByte)

/-- the bytes seen by the underlying allocator when the block at `addr` came back -/
def freedHex (obs : List (List String)) (addr : Nat) : Option String :=
  (obs.find? (fun l => l.head? == some "ufree" && (l[1]? >>= String.toNat?) == some addr)).bind (·[3]?)

/-- the current allocator of the family an overload form belongs to: `new…`/`del…` the new family, `newa…`/`dela…` the
    new[] family, `malloc`/`free` the malloc family — independent of file/line, size or `std::nothrow` arguments -/
def curOf (sh : Shadow) (form : String) : Nat :=
  if form == "malloc" || form == "free" then sh.curMal
  else if form.startsWith "newa" || form.startsWith "dela" then sh.curArr
  else sh.curNew

def release (sh : Shadow) (ai addr : Nat) (obs : List (List String)) (viaOverload : Bool) : Except String Shadow := do
  checkVerdict sh ai addr obs
  match find sh addr with
  | none => pure sh
  | some b =>
    if viaOverload then
      match freedHex obs addr with
      | none => throw s!"block {addr} released through an overload was not handed back to the underlying allocator"
      | some h =>
        if h != poisonHex b.size then
          throw s!"block {addr} ({b.size} user bytes) released through an overload came back with bytes {h}, not overwritten"
    pure { sh with live := sh.live.filter (·.addr != addr) }

def specStep (sh : Shadow) (o : Proto.Op) : Except String Shadow := do
  let obs := o.obs
  if obs.any (fun l => l.take 2 == ["fail", "unparsed"]) then throw "failure text not understood"
  let nat (s : String) : Nat := s.toNat?.getD 0
  match o.op with
  | ["setup"] =>
    let fams := families obs
    -- delete, delete[] and free are three families: the library's three default allocators must not share a family name
    match fams.lookup 0, fams.lookup 1, fams.lookup 2 with
    | some n, some a, some m =>
      if n == a || n == m || a == m then
        throw "the default new / new[] / malloc allocators are not three different families: a cross-family release cannot be told"
    | _, _, _ => pure ()
    let nullIdx := ((obs.find? (fun l => l.take 2 == ["special", "null"])).bind (fun l => l[2]? >>= String.toNat?)).getD 15
    pure { sh with fams := fams, nullIdx := nullIdx }
  | ["mlaalloc", ai, size, _, _] =>
    match retOf obs with
    | some r =>
      if r == 0 then pure sh
      else if (find sh r).isSome then throw s!"environment: the allocator returned the live address {r}"
      else pure { sh with live := newBlk sh r (nat size) (nat ai) :: sh.live }
    | none => throw "alloc: no result"
  | ["mlafree", ai, addr, _, _] => release sh (nat ai) (nat addr) obs false
  | ["nullfree", addr, _, _, _] => release sh sh.nullIdx (nat addr) obs false
  | ["nullalloc", _, _, _, _] =>
    if !(failKinds obs).isEmpty then throw "an allocation produced a report"
    pure sh
  | ["crashon", _] => pure sh
  | ["skip"] => pure sh
  | ["alloc", ai, size, _, _, _] =>
    match retOf obs with
    | some r =>
      if r == 0 then pure sh
      else if (find sh r).isSome then throw s!"environment: the allocator returned the live address {r}"
      else pure { sh with live := newBlk sh r (nat size) (nat ai) :: sh.live }
    | none => throw "alloc: no result"
  | ["write", addr, off, b] =>
    match find sh (nat addr), Proto.unhex? b with
    | some blk, some [byte] =>
      let off := nat off
      if off < blk.size then pure sh          -- a write inside the user bytes: nothing to remember
      else
        let i := off - blk.size
        let bad := blk.bad.filter (· != i)
        let bad := if byte != guardByte i then i :: bad else bad
        pure { sh with live := sh.live.map (fun x => if x.addr == blk.addr then { x with bad := bad } else x) }
    | _, _ => pure sh        -- not an outstanding block: the client writing into its own untracked memory is no subject here
  | ["gacq", form, size, _, _] =>
    -- whatever extra arguments the form takes, the block belongs to the form's family
    let ai := curOf sh form
    match retOf obs with
    | some r =>
      if r == 0 then pure sh
      else if (find sh r).isSome then throw s!"environment: the allocator returned the live address {r}"
      else pure { sh with live := newBlk sh r (nat size) ai :: sh.live }
    | none => throw "alloc: no result"
  | ["grel", form, addr, _, _] => release sh (curOf sh form) (nat addr) obs true
  | ["free", ai, addr, _, _, _] => release sh (nat ai) (nat addr) obs false
  | ["realloc", ai, addr, size, _, _, _] =>
    let a := nat addr
    match retOf obs with
    | none => throw "realloc: no result"
    | some r =>
      if a == 0 then
        if !(failKinds obs).isEmpty then throw "realloc(NULL) produced a report"
        if r == 0 then pure sh else pure { sh with live := newBlk sh r (nat size) (nat ai) :: sh.live }
      else do
        checkVerdict sh (nat ai) a obs
        match find sh a with
        | none => pure sh
        | some _ =>
          if r == 0 then pure sh
          else pure { sh with live := newBlk sh r (nat size) (nat ai) :: sh.live.filter (·.addr != a) }
  | ["period", "start"] => pure { sh with period := .checking }
  | ["period", "stop"] => pure { sh with period := .enabled }
  | ["period", "enable"] => pure { sh with period := .enabled }
  | ["period", "disable"] => pure { sh with period := .disabled }
  | ["typecheck", "on"] => pure { sh with typeCheck := true }
  | ["typecheck", "off"] => pure { sh with typeCheck := false }
  | ["stage", "inc"] => pure { sh with stage := (sh.stage + 1) % 256 }
  | ["stage", "dec"] => pure { sh with stage := (sh.stage + 255) % 256 }
  | ["stage", "release"] =>
    -- every block of the stage goes back through its own allocator: never a mismatch, corruption iff a guard byte differs
    let named := sh.live.filter (·.stage == sh.stage)
    let wantCorrupt := (named.filter (fun b => !b.bad.isEmpty)).length
    let got := failKinds obs
    if got.any (· == "lost") then return { sh with live := sh.live.filter (·.stage != sh.stage) }
    if got.any (· != "corruption") then throw s!"stage release reported {got}"
    if got.length != wantCorrupt then
      throw s!"stage release reported {got.length} corrupted blocks, {wantCorrupt} blocks of the stage have a changed guard byte"
    pure { sh with live := sh.live.filter (·.stage != sh.stage) }
  | ["clear", p] => pure { sh with live := sh.live.filter (fun b => !inPeriod p b) }
  | ["mark"] => pure { sh with live := sh.live.map (fun b => if b.period == .checking then { b with period := .enabled } else b) }
  | ["drop", a] =>
    if (find sh (nat a)).isSome then throw "environment: the client dropped a block that is still outstanding"
    else pure sh
  | ["plugin", "create"] => pure { sh with period := .enabled }
  | ["plugin", "pre"] => pure { sh with period := .checking }
  | ["plugin", "post"] =>
    pure { sh with period := .enabled,
                   live := sh.live.map (fun b => if b.period == .checking then { b with period := .enabled } else b) }
  | ["plugin", "final", _] => pure sh
  | ["plugin", "ignore"] => pure sh
  | ["plugin", "expect", _] => pure sh
  | ["mrp", "create"] => pure { sh with mrpBase := sh.fams.length }
  | ["mrp", "pre"] =>
    -- the report allocators become current; each stands for the family of the allocator it took over from
    let b := sh.mrpBase
    let want := [b + 1, b + 2, b]
    match obs.find? (fun l => l.head? == some "current") with
    | some [_, x, y, z] =>
      if [nat x, nat y, nat z] != want then throw s!"after the pre action the current allocators are {[x, y, z]}, the report allocators are {want}"
      pure { sh with saved := (sh.curNew, sh.curArr, sh.curMal), curNew := b + 1, curArr := b + 2, curMal := b,
                     fams := [(b + 1, famOf sh sh.curNew), (b + 2, famOf sh sh.curArr), (b, famOf sh sh.curMal)] ++ sh.fams }
    | _ => throw "mrp pre: no current line"
  | ["mrp", "post"] =>
    -- identity: whatever was current before the pre action is current again (a family switched by the test itself stays)
    let b := sh.mrpBase
    let want := [if sh.curNew == b + 1 then sh.saved.1 else sh.curNew, if sh.curArr == b + 2 then sh.saved.2.1 else sh.curArr,
                 if sh.curMal == b then sh.saved.2.2 else sh.curMal]
    match obs.find? (fun l => l.head? == some "current") with
    | some [_, x, y, z] =>
      if [nat x, nat y, nat z] != want then
        throw s!"after the post action the current allocators (new, new[], malloc) are {[x, y, z]}; before the pre action they were {want}"
      pure { sh with curNew := want.getD 0 0, curArr := want.getD 1 0, curMal := want.getD 2 0 }
    | _ => throw "mrp post: no current line"
  | ["overloads", _] => pure sh
  | ["report", _] => pure sh
  | ["invalidate", _] => pure sh
  | ["setcur", "new", ai] => pure { sh with curNew := nat ai }
  | ["setcur", "newarray", ai] => pure { sh with curArr := nat ai }
  | ["setcur", "malloc", ai] => pure { sh with curMal := nat ai }
  | _ => throw "bad-op"

def specAll (ops : List Proto.Op) : Option String :=
  let rec go (sh : Shadow) (i : Nat) : List Proto.Op → Option String
    | [] => none
    | o :: rest =>
      match specStep sh o with
      | .ok sh' => go sh' (i+1) rest
      | .error e =>
        if e.startsWith "environment:" then none
        else some s!"op#{i} {" ".intercalate o.op}: {e}"
  go {} 0 ops

end C06Spec

namespace C06Model
open LeakDetector LeakDetector.Misuse

structure D6 where
  d       : DState := {}
  crashN  : Nat := 0          -- CrashOnAllocationAllocator::allocationToCrashOn_
  crashId : Nat := 1000000    -- registry index of the crash allocator
  nullId  : Nat := 1000000    -- registry index of the NullUnknownAllocator
deriving Inhabited

def tail2 (s : State) : List String := [totalsLine s, s!"allocnum {getCurrentAllocationNumber s}"]

def kindOfName? : String → Option FailKind
  | "nonallocated" => some .nonAllocated
  | "mismatch" => some .mismatch
  | "corruption" => some .corruption
  | _ => none

/-- after every `fail <kind> …` line of the model: the complete text the reporter receives (not for the stage release, whose
    deallocation file is a build path, and not when the implementation's buffer was full) -/
def withTexts : List String → List String
  | [] => []
  | l :: rest =>
    match Proto.words l with
    | ["fail", k, af, al, asz, hat, ff, fl, hft] =>
      match kindOfName? k with
      | some kind =>
        if ff == "<stage>" then l :: withTexts rest
        else
          let t := failText (.fail kind af (al.toNat?.getD 0) (asz.toNat?.getD 0) (unhexStr hat) ff (fl.toNat?.getD 0) (unhexStr hft))
          l :: (if t.utf8ByteSize > 900 then "failtext toolong" else s!"failtext {strHex t}") :: withTexts rest
      | none => l :: withTexts rest
    | _ => l :: withTexts rest

def renderNull (evs : List Ev) : List String :=
  (evs.filter (fun e => match e with | .nfree _ => false | _ => true)).map (renderEv 0 false)

def stepRaw (x : D6) (op : List String) (obs : List (List String)) : D6 × List String :=
  let viaBase : D6 × List String := let r := modelStep x.d op obs; ({ x with d := r.1 }, r.2)
  match op with
  | ["setup"] =>
    let r := modelStep x.d op obs
    let sp := obs.find? (fun l => l.head? == some "special")
    let num (i : Nat) : Nat := ((sp.bind (fun l => l[i]?)).bind String.toNat?).getD 1000000
    ({ d := r.1, crashN := 0, nullId := num 2, crashId := num 4 }, r.2 ++ (sp.map (fun l => [" ".intercalate l])).getD [])
  | ["mlaalloc", ai, size, file, line] =>
    match allocAt x.d ai, size.toNat?, line.toNat? with
    | some e, some size, some line =>
      let result := obsResult "ualloc" obs
      let r := mlaAlloc e.alloc e.alloc.real x.d.st size file line result fillByte
      ({ x with d := { x.d with st := r.1 } }, r.2.map (renderEv result false) ++ tail2 r.1)
    | _, _, _ => (x, ["bad-op"])
  | ["mlafree", ai, addr, file, line] =>
    match allocAt x.d ai, addr.toNat?, line.toNat? with
    | some e, some addr, some line =>
      let r := mlaFree e.alloc e.alloc.real x.d.st addr file line
      ({ x with d := { x.d with st := r.1 } }, r.2.map (renderEv 0 false) ++ tail2 r.1)
    | _, _, _ => (x, ["bad-op"])
  | ["nullfree", addr, file, line, sep] =>
    match addr.toNat?, line.toNat? with
    | some addr, some line =>
      let a : Allocator := ((x.d.reg[x.nullId]?).map (·.alloc)).getD nullUnknownGen
      let r0 := dealloc x.d.st a addr file line (sep == "1")
      let r : State × List Ev := (r0.1, r0.2.filter (fun e => !isUfree e))
      ({ x with d := { x.d with st := r.1 } }, renderNull r.2 ++ tail2 r.1)
    | _, _ => (x, ["bad-op"])
  | ["nullalloc", size, file, line, sep] =>
    match size.toNat?, line.toNat? with
    | some size, some line =>
      let r := nullAcquire x.d.st size file line (sep == "1")
      ({ x with d := { x.d with st := r.1 } }, r.2.map (renderEv 0 false) ++ tail2 r.1)
    | _, _ => (x, ["bad-op"])
  | ["crashon", n] => ({ x with crashN := n.toNat?.getD 0 }, tail2 x.d.st)
  | ["gacq", form, _, _, _] =>
    -- through a CrashOnAllocationAllocator every `alloc_memory` (the block, and the separate record of the malloc family)
    -- first compares the global detector's allocation number with the chosen one
    let a? := (acquireWrapperOf x.d.threadSafe form).map (fun w => x.d.cur.byGetter w.getter)
    let hit := match a? with
      | some a => a.actual.id == x.crashId && crashes x.d.st.seq x.crashN
      | none => false
    if hit then
      (viaBase.1, viaBase.2.flatMap (fun l => if l.startsWith "ualloc " || l == "nalloc" then ["crashcall", l] else [l]))
    else viaBase
  | _ => viaBase

def step (x : D6) (op : List String) (obs : List (List String)) : D6 × List String :=
  let r := stepRaw x op obs
  (r.1, withTexts r.2)

end C06Model

def main : IO Unit :=
  Proto.driverMain { init := ({} : C06Model.D6), step := C06Model.step, spec := C06Spec.specAll }
