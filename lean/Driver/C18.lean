import CppUModel.Base.Proto
import CppUModel.Model.Cache
import CppUModel.Model.CacheHeap
import Std.Data.HashMap
/-!
Driver for C18: replays harness traces through the cache model and judges the implementation's
observations with the property's specification oracle (a shadow map, independent of the model).
Imports Base/Model/Gen only.
-/
open Cache

structure DState where
  st : Option State := none
  hs : Option Heap.HState := none      -- the pointer-level state of the interpreter running the regenerated code
  ids : List Nat := []                 -- ids that may have a cell (handed out by the allocator so far and not yet freed)

def natsOfUalloc (obs : List (List String)) : List Nat :=
  obs.filterMap fun l => match l with
    | ["ualloc", _, id] => id.toNat?
    | _ => none

def renderEvs (evs : List Ev) : List String := evs.map Ev.render

/-- The interpreter's heap is a function that grows by one closure per write; it is re-tabulated after every
    operation (same function, extensionally) so that long histories stay linear. -/
def compact (hs : Heap.HState) (ids : List Nat) : Heap.HState × List Nat :=
  let live := ids.filter (fun q => (hs.cells q).isSome)
  let hm : Std.HashMap Nat Heap.Cell :=
    live.foldl (fun m q => match hs.cells q with | some c => m.insert q c | none => m) {}
  ({ hs with cells := fun q => hm.get? q }, live)

/-- The observation lines of the model are those of the INTERPRETER running the member functions as
    regenerated from the source; the hand-written list model must produce the same events, otherwise an
    extra line (which the implementation never prints) makes the case a disagreement. -/
def both (d : DState) (s' : State) (evs : List Ev) (h : Except String (Heap.HState × List Ev)) : DState × List String :=
  match h with
  | .ok (hs0, hevs) =>
    let fresh := hevs.filterMap (fun e => match e with | .ualloc _ i => some i | _ => none)
    let (hs', ids') := compact hs0 (fresh ++ d.ids)
    ({ d with st := some s', hs := some hs', ids := ids' },
     renderEvs hevs ++ (if hevs = evs then [] else ["list-model-differs " ++ " | ".intercalate (renderEvs evs)]))
  | .error m => ({ d with st := some s', hs := none }, renderEvs evs ++ ["interpreter-error " ++ m])

def idxCheck (s : State) (hs : Heap.HState) (n : Nat) : List String :=
  match Heap.getIndexH Heap.defaultFuel hs n with
  | .ok i => if i = indexFor s.classes n then [] else [s!"getIndexForCache-differs {i}"]
  | .error m => ["interpreter-error " ++ m]

def modelStep (d : DState) (op : List String) (obs : List (List String)) : DState × List String :=
  let fresh := natsOfUalloc obs
  let f0 := fresh.getD 0 0      -- 0 is never a harness id: shows up as a diff if used
  let f1 := fresh.getD 1 0
  match op, d.st with
  | ["create"], _ =>
    -- the node table comes from defaultMallocAllocator(), which the harness cannot observe:
    -- table id 0, events not printed
    let (s, _) := create 0
    ({ st := some s, hs := some Heap.createH, ids := [] }, [])
  | ["alloc", sz], some s =>
    match sz.toNat?, d.hs with
    | some n, some hs =>
      let (s', evs) := alloc s n f0 f1
      let (d', out) := both d s' evs (Heap.allocH Heap.defaultFuel hs n f0 f1)
      (d', out ++ idxCheck s hs n)
    | some n, none => let (s', evs) := alloc s n f0 f1; ({ d with st := some s' }, renderEvs evs)
    | none, _ => (d, ["bad-op"])
  | ["dealloc", m, sz], some s =>
    match m.toNat?, sz.toNat?, d.hs with
    | some m, some n, some hs =>
      let (s', evs) := dealloc s m n
      both d s' evs (Heap.deallocH Heap.defaultFuel hs m n)
    | some m, some n, none => let (s', evs) := dealloc s m n; ({ d with st := some s' }, renderEvs evs)
    | _, _, _ => (d, ["bad-op"])
  | ["clearcache"], some s =>
    let (s', evs) := clearCache s
    match d.hs with
    | some hs => both d s' evs (Heap.clearCacheH Heap.defaultFuel hs)
    | none => ({ d with st := some s' }, renderEvs evs)
  | ["clearall"], some s =>
    let (s', evs) := clearAll s
    match d.hs with
    | some hs => both d s' evs (Heap.clearAllH Heap.defaultFuel hs)
    | none => ({ d with st := some s' }, renderEvs evs)
  | ["destroy"], some s => let (s', _) := destroy s; ({ d with st := some s' }, [])
  | ["gcreate"], _ =>
    -- GlobalSimpleStringCache(): the member cache is constructed (node table from
    -- defaultMallocAllocator(), not observed) and the previous string allocator becomes its allocator
    let g := gcreate .orig 0
    ({ st := some g.cache, hs := some Heap.createH, ids := [] }, [s!"stralloc {g.strAlloc.render}"])
  | ["gswap"], some _ => (d, [])
  | ["names"], some _ => (d, ["name " ++ " ".intercalate (adaptorNames "ralloc" "rfree"), "actual orig"])
  | ["hasfree", sz], some s =>
    match sz.toNat? with
    | some n => (d, [s!"hasfree {if hasFree s n then 1 else 0}"])
    | none => (d, ["bad-op"])
  | ["sstr", len], some s =>
    match len.toNat?, d.hs with
    | some l, some hs =>
      let n := stringBufferSize l
      let (s', evs) := alloc s n f0 f1
      both d s' evs (Heap.allocH Heap.defaultFuel hs n f0 f1)
    | _, _ => (d, ["bad-op"])
  | ["sdel", m, len], some s =>
    match m.toNat?, len.toNat?, d.hs with
    | some m, some l, some hs =>
      let (s', evs) := dealloc s m (stringBufferSize l)
      both d s' evs (Heap.deallocH Heap.defaultFuel hs m (stringBufferSize l))
    | _, _, _ => (d, ["bad-op"])
  | ["sappend", m, len, k], some s =>
    match m.toNat?, len.toNat?, k.toNat?, d.hs with
    | some m, some l, some k, some hs =>
      let (s', evs) := stringAppend s m l k f0 f1
      let h := match Heap.allocH Heap.defaultFuel hs (stringBufferSize (l + k)) f0 f1 with
        | .ok (hs1, e1) =>
          (match Heap.deallocH Heap.defaultFuel hs1 m (stringBufferSize l) with
           | .ok (hs2, e2) => .ok (hs2, e1 ++ e2)
           | .error e => .error e)
        | .error e => .error e
      let (d', out) := both d s' evs h
      -- the harness prints the new buffer last (`newbuf`), not as `ret` in the middle
      let rets := out.filter (fun l => l.startsWith "ret ")
      (d', out.filter (fun l => !l.startsWith "ret ") ++ rets.map (fun l => "newbuf " ++ (l.drop 4).toString))
    | _, _, _, _ => (d, ["bad-op"])
  | ["gdestroy"], some s =>
    let (s', evs) := globalDestroy s
    let evs' := evs.filter fun e => match e with | .ufree 0 _ => false | _ => true
    match d.hs with
    | some hs =>
      let (d', out) := both d s' evs' (if Gen.Cache.globalDtorClearsAll then Heap.clearAllH Heap.defaultFuel hs
                      else Heap.clearCacheH Heap.defaultFuel hs)
      -- the destructor re-installs the allocator that was saved at construction, whatever is current
      (d', out ++ [s!"stralloc {(gdestroy { cache := s, strAlloc := .cache, saved := .orig, underlying := .orig }).1.render}"])
    | none => ({ d with st := some s' }, renderEvs evs' ++ ["stralloc orig"])
  | ["gnested"], none =>
    -- a fresh global cache; two unknown releases (one cached size, one uncached), the first of which
    -- prints the warning through an output that itself releases an unknown buffer: `warnOnce` three times
    let (s0, _) := create 0
    let (s1, e1) := dealloc s0 1000000 10
    let (s2, e2) := dealloc s1 1000001 300
    let (s3, e3) := dealloc s2 1000002 10
    let n := (e1 ++ e2 ++ e3).filter (fun e => match e with | .warn => true | _ => false) |>.length
    let _ := s3
    (d, [s!"warncount {n}"])
  | ["skip"], _ => (d, [])
  | _, _ => (d, ["bad-op"])

/-! ## specification oracle (shadow map over the implementation's observations) -/

structure Shadow where
  live2   : List (Nat × Nat) := []        -- blocks obtained from an allocator installed after construction
  live    : List (Nat × Nat) := []        -- underlying blocks: id, size
  out     : List (Nat × Nat) := []        -- handed-out buffers: id, size requested by the caller
  table   : Option Nat := none
  warned  : Bool := false

def classOf (size : Nat) : Option Nat :=      -- none = uncached
  if size ≤ Gen.Cache.cachedLimit then Gen.Cache.classSizes.find? (fun c => size ≤ c) else none

def applyUnderlying (sh : Shadow) (obs : List (List String)) : Except String Shadow := do
  let mut sh := sh
  for l in obs do
    match l with
    | ["ualloc", sz, id] =>
      match sz.toNat?, id.toNat? with
      | some sz, some id =>
        if sh.live.any (·.1 == id) then throw s!"underlying allocator returned live id {id}"
        sh := { sh with live := (id, sz) :: sh.live }
      | _, _ => throw "malformed ualloc"
    | ["ufree", id, _] =>
      match id.toNat? with
      | some id =>
        if !(sh.live.any (·.1 == id)) then
          throw s!"block {id} returned to the underlying allocator but not held (double or foreign free)"
        sh := { sh with live := sh.live.filter (·.1 != id) }
      | none => throw "malformed ufree"
    | ["u2alloc", sz, id] =>
      match sz.toNat?, id.toNat? with
      | some sz, some id => sh := { sh with live2 := (id, sz) :: sh.live2 }
      | _, _ => throw "malformed u2alloc"
    | ["u2free", id, _] =>
      match id.toNat? with
      | some id =>
        if !(sh.live2.any (·.1 == id)) then
          throw s!"block {id} returned to an allocator it was not obtained from (installed after the cache was constructed)"
        sh := { sh with live2 := sh.live2.filter (·.1 != id) }
      | none => throw "malformed u2free"
    | _ => pure ()
  return sh

partial def specStep (sh : Shadow) (o : Proto.Op) : Except String Shadow := do
  let hasWarn : Bool := o.obs.any (fun l => l == ["warn"])
  let before := sh
  let sh ← applyUnderlying sh o.obs
  match o.op with
  | ["create"] =>
    -- a new cache object knows none of the buffers of an earlier one and has its own one-time flag
    return { sh with out := [], warned := false }
  | ["alloc", sz] =>
    let some size := sz.toNat? | throw "bad alloc"
    let rets := o.obs.filterMap fun l => match l with | ["ret", r] => r.toNat? | _ => none
    let [r] := rets | throw "alloc returned no buffer"
    if before.out.any (·.1 == r) then throw s!"alloc({size}) returned buffer {r} which is still in use"
    let some (_, usz) := sh.live.find? (·.1 == r) | throw s!"alloc({size}) returned {r} which is not a live underlying block"
    if usz < size then throw s!"alloc({size}) returned a buffer of only {usz} bytes"
    if (natsOfUalloc o.obs).isEmpty then
      -- reuse: must come from the request's own size class
      match classOf size with
      | some c => if usz != c then throw s!"alloc({size}) reused a buffer of {usz} bytes (class {c} expected)"
      | none => throw s!"alloc({size}) (uncached) reused a buffer"
    if hasWarn then throw "alloc printed the unknown-buffer warning"
    return { sh with out := (r, size) :: sh.out }
  | ["dealloc", m, sz] =>
    let some m := m.toNat? | throw "bad dealloc"
    let some size := sz.toNat? | throw "bad dealloc"
    let known := sh.out.any (fun (id, rsz) => id == m && classOf rsz == classOf size)
    if known then
      if hasWarn then throw s!"dealloc of handed-out buffer {m} printed the warning"
      -- a cached buffer stays with the cache; an uncached one goes back to the allocator
      match classOf size with
      | some _ =>
        if !(sh.live.any (·.1 == m)) then throw s!"cached buffer {m} was returned to the underlying allocator on release"
      | none =>
        if sh.live.any (·.1 == m) then throw s!"uncached buffer {m} not returned to the underlying allocator on release"
      return { sh with out := sh.out.filter (·.1 != m) }
    else
      if sh.live.length != before.live.length then throw s!"release of unknown buffer {m} changed the underlying allocations"
      if hasWarn && before.warned then throw "unknown-buffer warning printed twice"
      if !hasWarn && !before.warned then throw s!"release of unknown buffer {m}: no warning"
      return { sh with warned := true }
  | ["clearcache"] =>
    -- handed-out buffers must survive
    for (id, _) in sh.out do
      if !(sh.live.any (·.1 == id)) then throw s!"clearCache released buffer {id} that is in use"
    -- everything that is not in use (every free list) must have gone back: what remains is one list
    -- node and one buffer per handed-out buffer
    if sh.live.length != 2 * sh.out.length then
      throw s!"after clearCache {sh.live.length} underlying blocks are held for {sh.out.length} buffers in use (free lists not fully returned)"
    return sh
  | ["clearall"] =>
    let rest := sh.live.filter (fun (id, _) => some id != sh.table)
    if !rest.isEmpty then throw s!"after clearAll {rest.length} underlying blocks are still held, e.g. {rest.head!.1}"
    return { sh with out := [] }
  | ["destroy"] =>
    return sh
  | ["gnested"] =>
    match o.obs.find? (fun l => l.head? == some "warncount") with
    | some ["warncount", n] =>
      if n != "1" then throw s!"the one-time warning was printed {n} times"
      return sh
    | _ => throw "no warning count observed (the nested release did not come back)"
  | ["gcreate"] => return sh
  | ["gswap"] => return sh
  | ["names"] => return sh
  | ["hasfree", _] => return sh
  | ["gdestroy"] =>
    -- the global cache is gone: everything it obtained must have been returned, to the allocator it came from
    if !sh.live.isEmpty then throw s!"after ~GlobalSimpleStringCache {sh.live.length} underlying blocks were never returned, e.g. {sh.live.head!.1}"
    if !sh.live2.isEmpty then throw s!"after ~GlobalSimpleStringCache {sh.live2.length} blocks of the later allocator were never returned"
    return { sh with out := [] }
  | ["sstr", len] =>
    -- a string of len characters needs len + 1 bytes
    let some l := len.toNat? | throw "bad sstr"
    specStep before { op := ["alloc", toString (l + 1)], obs := o.obs }
  | ["sdel", m, len] =>
    let some l := len.toNat? | throw "bad sdel"
    specStep before { op := ["dealloc", m, toString (l + 1)], obs := o.obs }
  | ["sappend", m, len, k] =>
    let some l := len.toNat? | throw "bad sappend"
    let some k := k.toNat? | throw "bad sappend"
    let isAlloc := fun (w : List String) => w.head? == some "ualloc" || w.head? == some "u2alloc"
    let newbuf := o.obs.filterMap fun w => match w with | ["newbuf", r] => some ["ret", r] | _ => none
    let sh1 ← specStep before { op := ["alloc", toString (l + k + 1)], obs := o.obs.filter isAlloc ++ newbuf }
    specStep sh1 { op := ["dealloc", m, toString (l + 1)],
                   obs := o.obs.filter (fun w => !isAlloc w && w.head? != some "newbuf") }
  | ["skip"] => return sh
  | _ => throw "bad-op"

def specAll (ops : List Proto.Op) : Option String :=
  let rec go (sh : Shadow) (i : Nat) : List Proto.Op → Option String
    | [] => none
    | o :: rest =>
      match specStep sh o with
      | .ok sh' => go sh' (i+1) rest
      | .error e => some s!"op#{i} {" ".intercalate o.op}: {e}"
  go {} 0 ops

def main : IO Unit :=
  Proto.driverMain { init := ({} : DState), step := modelStep, spec := specAll }
