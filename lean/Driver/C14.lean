import CppUModel.Base.Proto
import CppUModel.Model.Diagnostics
import CppUModel.Spec.Diagnostics
/-!
Driver for C14: replays harness traces through the diagnostics model and judges the
implementation's observations with the property's specification oracle (textbook renderings and a
shadow "cleared since" flag, independent of the model).  Imports Base/Model/Spec/Gen only.
-/
open Diag



/-! ## parsing helpers -/

/-- operand word: `N` = NULL, `-` = empty, otherwise hex -/
def operand? (w : String) : Option (Option Bytes) :=
  if w = "N" then some none else (Proto.unhex? w).map some

def bytes? (w : String) : Option Bytes := Proto.unhex? w

/-- a file-name word: `U` = the call gave no location; `unknown` is what stands for it -/
def fileWord? (unknown : Bytes) (w : String) : Option Bytes :=
  if w = "U" then some unknown else Proto.unhex? w

def fnv (bs : Bytes) : Nat :=
  (bs.foldl (fun (h : UInt32) b => (h ^^^ b.toUInt32) * 16777619) (2166136261 : UInt32)).toNat

def ofStr (s : String) : Bytes := s.toUTF8.toList

def isSpaceB (c : UInt8) : Bool := c == 32 || (9 ≤ c && c ≤ 13)

/-- `strtoll(p, 0, 10)` -/
def strtoll (bs : Bytes) : Int :=
  let bs := bs.dropWhile isSpaceB
  let (neg, bs) := match bs with
    | 45 :: r => (true, r)
    | 43 :: r => (false, r)
    | r => (false, r)
  let digits := bs.takeWhile (fun c => 48 ≤ c && c ≤ 57)
  let v : Nat := digits.foldl (fun acc c => acc * 10 + (c.toNat - 48)) 0
  if neg then - (v : Int) else v

def countOcc (a b : Bytes) : Nat := Text.count a b

def footerKey : Bytes := ofStr "Total number of leaks: "
def noticeKey : Bytes := ofStr "Too many memory leaks to report. Bailing out"
def entryKey : Bytes := ofStr "Alloc num ("

/-- the lines the harness derives from a report text -/
def parseReportLines (t : Bytes) : List String :=
  let total := match DiagSpec.rfindSub t footerKey with
    | none => "total none"
    | some idx => s!"total {strtoll (t.drop (idx + footerKey.length))}"
  [total, s!"notice {if Text.isInfix t noticeKey then 1 else 0}", s!"listed {countOcc t entryKey}"]

def stLine (b : Buf) : String :=
  s!"st {b.filled} {b.limit} {b.text.length} 1 {fnv b.text}"

/-! ## model replay -/

structure DState where
  sb  : Option Buf := none
  ob  : Option OutBuf := none
  det : Option OutBuf := none

def posLine (msg : Bytes) : String :=
  let key := ofStr "difference starts at position "
  match DiagSpec.rfindSub msg key with
  | none => "pos none"
  | some idx => s!"pos {(strtoll (msg.drop (idx + key.length))).toNat}"

def msgLines (m : Except Err Bytes) : List String :=
  match m with
  | .ok b => [s!"msg {Proto.hex b}", posLine b, s!"copy 1 {b.length} {fnv b}"]
  | .error _ => ["oob"]

def envDbl (obs : List (List String)) : Option (Bytes × Bytes × Bytes × Bool) :=
  obs.findSome? fun l => match l with
    | ["dbl", a, b, c, n] =>
      match bytes? a, bytes? b, bytes? c with
      | some a, some b, some c => some (a, b, c, n == "1")
      | _, _, _ => none
    | _ => none

def envTypeName (obs : List (List String)) : Option Bytes :=
  obs.findSome? fun l => match l with
    | ["typename", t] => bytes? t
    | _ => none

def modelFailure (w : List String) (obs : List (List String)) : List String :=
  match w with
  | ["equals", e, a, t] =>
    match operand? e, operand? a, bytes? t with
    | some e, some a, some t => msgLines (.ok (equalsFailure e a t))
    | _, _, _ => ["bad-op"]
  | [k, e, a, t] =>
    if k = "strequal" ∨ k = "strnocase" then
      match operand? e, operand? a, bytes? t with
      | some e, some a, some t => msgLines (if k = "strequal" then stringEqualFailure e a t else stringEqualNoCaseFailure e a t)
      | _, _, _ => ["bad-op"]
    else if k = "longs" ∨ k = "longlongs" ∨ k = "sbytes" then
      match e.toInt?, a.toInt?, bytes? t with
      | some e, some a, some t => msgLines (.ok (if k = "sbytes" then signedBytesEqualFailure e a t else longsEqualFailure e a t))
      | _, _, _ => ["bad-op"]
    else if k = "ulongs" ∨ k = "ulonglongs" then
      match e.toNat?, a.toNat?, bytes? t with
      | some e, some a, some t => msgLines (.ok (unsignedLongsEqualFailure e a t))
      | _, _, _ => ["bad-op"]
    else
      match bytes? e, bytes? a, bytes? t with
      | some e, some a, some t =>
        if k = "equalsss" then msgLines (.ok (equalsFailureSS e a t))
        else if k = "checkequal" then msgLines (checkEqualFailure e a t)
        else if k = "comparison" ∨ k = "check" then msgLines (.ok (checkFailure e a t))
        else if k = "contains" then msgLines (.ok (containsFailure e a t))
        else ["bad-op"]
      | _, _, _ => ["bad-op"]
  | ["fail", m] =>
    match bytes? m with
    | some m => msgLines (.ok (failFailure m))
    | none => ["bad-op"]
  | ["base"] => msgLines (.ok baseFailureNoMessage)
  | ["basemsg", m] =>
    match bytes? m with
    | some m => msgLines (.ok (baseFailure m)) ++ msgLines (.ok (baseFailure m))
    | none => ["bad-op"]
  | ["excunknown"] => msgLines (.ok unexpectedExceptionUnknown)
  | ["exc", _, what] =>
    match envTypeName obs, bytes? what with
    | some tn, some what => s!"typename {Proto.hex tn}" :: msgLines (.ok (unexpectedException tn what))
    | _, _ => ["bad-op"]
  | ["feature", n, t] =>
    match bytes? n, bytes? t with
    | some n, some t => msgLines (.ok (featureUnsupportedFailure n t))
    | _, _ => ["bad-op"]
  | ["doubles", _, _, _, t] =>
    match envDbl obs, bytes? t with
    | some (es, as, ts, nan), some t =>
      s!"dbl {Proto.hex es} {Proto.hex as} {Proto.hex ts} {if nan then 1 else 0}" :: msgLines (.ok (doublesEqualFailure es as ts nan t))
    | _, _ => ["bad-op"]
  | ["binary", e, a, sz, t] =>
    match operand? e, operand? a, sz.toNat?, bytes? t with
    | some e, some a, some sz, some t => msgLines (binaryEqualFailure e a sz t)
    | _, _, _, _ => ["bad-op"]
  | ["bits", e, a, m, bc, t] =>
    match e.toNat?, a.toNat?, m.toNat?, bc.toNat?, bytes? t with
    | some e, some a, some m, some bc, some t => msgLines (.ok (bitsEqualFailure e a m bc t))
    | _, _, _, _, _ => ["bad-op"]
  | _ => ["bad-op"]

def envPtr (obs : List (List String)) : Bytes :=
  (obs.findSome? fun l => match l with
    | ["ptr", p] => bytes? p
    | _ => none).getD []

/-- `leak <number> <filehex> <line> <allocnamehex> <ptrhex> <contenthex>` lines of a det report -/
def envLeaks (unknown : Bytes) (obs : List (List String)) : List Leak :=
  obs.filterMap fun l => match l with
    | ["leak", num, file, line, an, ptr, content] =>
      match num.toNat?, fileWord? unknown file, line.toNat?, bytes? an, bytes? ptr, bytes? content with
      | some num, some file, some line, some an, some ptr, some content =>
        some { number := num, size := content.length, file := file, line := line, allocName := an, ptr := ptr, content := content }
      | _, _, _, _, _, _ => none
    | _ => none

def misuseOf (kind af al asz an ff fl fn : String) : Option Misuse :=
  match fileWord? noLocation.1 af, al.toNat?, asz.toNat?, bytes? an, fileWord? noLocation.1 ff, fl.toNat?, bytes? fn with
  | some af, some al, some asz, some an, some ff, some fl, some fn =>
    let msg := if kind = "mismatch" then some Gen.Diag.msgMismatch else if kind = "corrupt" then some Gen.Diag.msgCorruption else none
    msg.map fun m => { message := m, allocFile := af, allocLine := al, allocSize := asz, allocName := an,
                       freeFile := ff, freeLine := fl, freeName := fn }
  | _, _, _, _, _, _, _ => none

def failLine (b : Buf) : String := s!"fail {b.text.length} {fnv b.text}"

def modelSb (d : DState) (w : List String) : DState × List String :=
  match w, d.sb with
  | ["new"], _ => ({ d with sb := some Buf.init }, [stLine Buf.init])
  | ["add", s], some b =>
    match bytes? s with
    | some s => let b' := b.add s; ({ d with sb := some b' }, [stLine b'])
    | none => (d, ["bad-op"])
  | ["limit", n], some b =>
    match n.toNat? with
    | some n => let b' := b.setWriteLimit n; ({ d with sb := some b' }, [stLine b'])
    | none => (d, ["bad-op"])
  | ["reset"], some b => let b' := b.resetWriteLimit; ({ d with sb := some b' }, [stLine b'])
  | ["clear"], some b => let b' := b.clear; ({ d with sb := some b' }, [stLine b'])
  | ["dump", c], some b =>
    match bytes? c with
    | some c => let b' := b.addMemoryDump c; ({ d with sb := some b' }, [stLine b'])
    | none => (d, ["bad-op"])
  | ["text"], some b => (d, [s!"text {Proto.hex b.text}", stLine b])
  | _, _ => (d, ["bad-op"])

def modelOb (d : DState) (w : List String) (obs : List (List String)) : DState × List String :=
  match w, d.ob with
  | ["new"], _ => ({ d with ob := some OutBuf.init }, [stLine Buf.init])
  | ["clear"], some o => let o' := o.clear; ({ d with ob := some o' }, [stLine o'.buf])
  | ["start"], some o => let o' := o.start; ({ d with ob := some o' }, [stLine o'.buf])
  | ["stop"], some o =>
    let o' := o.stop
    ({ d with ob := some o' }, [s!"text {Proto.hex o'.buf.text}"] ++ parseReportLines o'.buf.text ++ [stLine o'.buf])
  | ["leak", num, file, line, an, content], some o =>
    match num.toNat?, bytes? file, line.toNat?, bytes? an, bytes? content with
    | some num, some file, some line, some an, some content =>
      let ptr := envPtr obs
      let o' := o.reportLeak { number := num, size := content.length, file := file, line := line, allocName := an, ptr := ptr, content := content }
      ({ d with ob := some o' }, [s!"ptr {Proto.hex ptr}", stLine o'.buf])
    | _, _, _, _, _ => (d, ["bad-op"])
  | ["misuse", "nonalloc", ff, fl, fn, un], some o =>
    match bytes? ff, fl.toNat?, bytes? fn, bytes? un with
    | some ff, some fl, some fn, some un =>
      let o' := o.reportFailure (nonAllocatedMisuse un ff fl fn)
      ({ d with ob := some o' }, [failLine o'.buf, stLine o'.buf])
    | _, _, _, _ => (d, ["bad-op"])
  | ["misuse", kind, af, al, asz, an, ff, fl, fn], some o =>
    match misuseOf kind af al asz an ff fl fn with
    | some m => let o' := o.reportFailure m; ({ d with ob := some o' }, [failLine o'.buf, stLine o'.buf])
    | none => (d, ["bad-op"])
  | ["text"], some o => (d, [s!"text {Proto.hex o.buf.text}", stLine o.buf])
  | _, _ => (d, ["bad-op"])

def modelDet (d : DState) (w : List String) (obs : List (List String)) : DState × List String :=
  match w, d.det with
  | ["new"], _ => ({ d with det := some OutBuf.init }, [stLine Buf.init])
  | ["enable"], some o => (d, [stLine o.buf])
  | ["stop"], some o => (d, [stLine o.buf])
  | ["clearacct"], some o => (d, [stLine o.buf])
  | ["corrupt", _], some o => (d, [stLine o.buf])
  | ["alloc", _, _, _, _, _, _], some o => (d, [stLine o.buf])
  | ["alloc0", _, _, _, _], some o => (d, [stLine o.buf])
  | ["start"], some o => let o' := o.clear; ({ d with det := some o' }, [stLine o'.buf])       -- startChecking
  | ["free", "ok", _, _, _, _, _, _, _], some o => (d, [stLine o.buf])
  | ["free", kind, af, al, asz, an, ff, fl, fn], some o =>
    match misuseOf kind af al asz an ff fl fn with
    | some m => let o' := o.reportFailure m; ({ d with det := some o' }, [failLine o'.buf, stLine o'.buf])
    | none => (d, ["bad-op"])
  | ["freebad", ff, fl, fn, un], some o =>
    match fileWord? noLocation.1 ff, fl.toNat?, bytes? fn, bytes? un with
    | some ff, some fl, some fn, some un =>
      let o' := o.reportFailure (nonAllocatedMisuse un ff fl fn)
      ({ d with det := some o' }, [failLine o'.buf, stLine o'.buf])
    | _, _, _, _ => (d, ["bad-op"])
  | ["report", _], some o =>
    let leakLines := obs.filter (fun l => l.head? == some "leak")
    let o' := o.report (envLeaks noLocation.1 obs)
    ({ d with det := some o' },
     leakLines.map (" ".intercalate ·) ++ [s!"text {Proto.hex o'.buf.text}"] ++ parseReportLines o'.buf.text ++ [stLine o'.buf])
  | ["text"], some o => (d, [s!"text {Proto.hex o.buf.text}", stLine o.buf])
  | _, _ => (d, ["bad-op"])

def modelStep (d : DState) (op : List String) (obs : List (List String)) : DState × List String :=
  match op with
  | "f" :: w => (d, modelFailure w obs)
  | "sb" :: w => modelSb d w
  | "ob" :: w => modelOb d w obs
  | "det" :: w => modelDet d w obs
  | ["skip"] => (d, [])
  | _ => (d, ["bad-op"])

/-! ## specification oracle -/

def obsMsg (obs : List (List String)) : Option Bytes :=
  obs.findSome? fun l => match l with
    | ["msg", m] => bytes? m
    | _ => none

def showPos : Option Nat → String
  | some p => toString p
  | none => "none"

def obsPos (obs : List (List String)) : Option (Option Nat) :=
  obs.findSome? fun l => match l with
    | ["pos", "none"] => some none
    | ["pos", p] => p.toNat?.map some
    | _ => none

def angle (r : Bytes) : Bytes := [60] ++ r ++ [62]

def shows (msg r : Bytes) (what : String) : Except String Unit :=
  if Text.isInfix msg (angle r) then pure () else throw s!"the message does not show the {what} in the rendering of its class"

def renderOpt (f : Bytes → Bytes) : Option Bytes → Bytes
  | some a => f a
  | none => ofStr "(null)"

/-- textbook masked-bits rendering: bits from the most significant of the `8·min(byteCount, 8)` down,
    `x` where the mask bit is clear, a blank between bytes -/
def refMaskedBits (value mask byteCount : Nat) : Bytes :=
  let bits := 8 * (if byteCount > 8 then 8 else byteCount)
  (List.range bits).flatMap fun i =>
    let idx := bits - 1 - i
    (if mask.testBit idx then (if value.testBit idx then [49] else [48]) else [120])
    ++ (if i % 8 == 7 && i != bits - 1 then [32] else [])

def refDecHex (v : Int) (bits : Nat) (neg2digits : Bool) : Bytes × Bytes :=
  let u := (v % (2 ^ bits : Nat)).toNat
  let h := Fmt.hexLower u
  (Fmt.decInt v, ofStr "(0x" ++ (if neg2digits && v < 0 then h.drop (h.length - 2) else h) ++ ofStr ")")

def showsBoth (msg e a : Bytes) : Except String Unit := do
  shows msg e "expected operand"
  shows msg a "actual operand"

def showsNumber (msg : Bytes) (dec hx : Bytes) (what : String) : Except String Unit :=
  if Text.isInfix msg (dec ++ [32] ++ hx ++ [62]) then pure ()
  else throw s!"the message does not show the {what} as decimal and bracketed hex"

def specFailure (w : List String) (obs : List (List String)) : Except String Unit := do
  let some msg := obsMsg obs | throw "no message observed"
  let some pos := obsPos obs | throw "no position line observed"
  -- the copy constructor: the failure the reporters keep must say the same
  for l in obs do
    match l with
    | ["copy", same, len, h] =>
      if same ≠ "1" then throw "the copy-constructed failure differs from the failure that was built"
      if len.toNat? ≠ some msg.length ∨ h.toNat? ≠ some (fnv msg) then throw "the copy-constructed failure carries a different message"
    | _ => pure ()
  match w with
  | ["equals", e, a, _] =>
    let some e := operand? e | throw "bad-op"
    let some a := operand? a | throw "bad-op"
    showsBoth msg (renderOpt id e) (renderOpt id a)
  | [k, e, a, _] =>
    if k = "strequal" ∨ k = "strnocase" then
      let some e := operand? e | throw "bad-op"
      let some a := operand? a | throw "bad-op"
      showsBoth msg (renderOpt DiagSpec.printable e) (renderOpt DiagSpec.printable a)
      match e, a with
      | some e, some a =>
        let want := if k = "strequal" then DiagSpec.firstDiff a e else DiagSpec.firstDiffBy Text.lowerByte a e
        if pos != some want then throw s!"printed position {showPos pos} but the operands first differ at index {want}"
      | _, _ => pure ()
    else if k = "longs" ∨ k = "longlongs" ∨ k = "sbytes" then
      let some e := e.toInt? | throw "bad-op"
      let some a := a.toInt? | throw "bad-op"
      let (ed, eh) := refDecHex e (if k = "sbytes" then 32 else 64) (k = "sbytes")
      let (ad, ah) := refDecHex a (if k = "sbytes" then 32 else 64) (k = "sbytes")
      showsNumber msg ed eh "expected value"
      showsNumber msg ad ah "actual value"
    else if k = "ulongs" ∨ k = "ulonglongs" then
      let some e := e.toNat? | throw "bad-op"
      let some a := a.toNat? | throw "bad-op"
      showsNumber msg (Fmt.decNat e) (ofStr "(0x" ++ Fmt.hexLower e ++ ofStr ")") "expected value"
      showsNumber msg (Fmt.decNat a) (ofStr "(0x" ++ Fmt.hexLower a ++ ofStr ")") "actual value"
    else
      let some e := bytes? e | throw "bad-op"
      let some a := bytes? a | throw "bad-op"
      if k = "equalsss" then showsBoth msg e a
      else if k = "checkequal" then
        showsBoth msg (DiagSpec.printable e) (DiagSpec.printable a)
        if pos != some (DiagSpec.firstDiff a e) then
          throw s!"printed position {showPos pos} but the operands first differ at index {DiagSpec.firstDiff a e}"
      else if k = "contains" then
        -- "shows both operands (escaped when not printable)"
        if !(Text.isInfix msg (angle (DiagSpec.printable e)) && Text.isInfix msg (angle (DiagSpec.printable a))) then
          if Text.isInfix msg (angle e) && Text.isInfix msg (angle a) then
            throw "ContainsFailure shows a non-printable operand unescaped"
          else throw "ContainsFailure does not show both operands"
      else if k = "comparison" ∨ k = "check" then
        if !(Text.isInfix msg e && Text.isInfix msg a) then throw "the message does not show both strings"
      else throw "bad-op"
  | ["fail", m] =>
    let some m := bytes? m | throw "bad-op"
    if msg != m then throw "FailFailure does not show the message"
  | ["feature", n, _] =>
    let some n := bytes? n | throw "bad-op"
    if !(Text.isInfix msg n) then throw "the message does not show the feature name"
  | ["base"] => if msg.isEmpty then throw "empty message"
  | ["basemsg", m] =>
    let some m := bytes? m | throw "bad-op"
    if msg != m then throw "TestFailure does not show the message"
  | ["excunknown"] => if msg.isEmpty then throw "empty message"
  | ["exc", _, what] =>
    let some what := bytes? what | throw "bad-op"
    let some tn := envTypeName obs | throw "no typename line"
    if !(Text.isInfix msg tn && Text.isInfix msg what) then throw "the message does not show the exception's type and text"
  | ["doubles", _, _, _, _] =>
    let some (es, as, ts, _) := envDbl obs | throw "no dbl line"
    showsBoth msg es as
    shows msg ts "threshold"
  | ["binary", e, a, sz, _] =>
    let some e := operand? e | throw "bad-op"
    let some a := operand? a | throw "bad-op"
    let some sz := sz.toNat? | throw "bad-op"
    showsBoth msg (renderOpt DiagSpec.hexDump e) (renderOpt DiagSpec.hexDump a)
    match e, a with
    | some e, some a =>
      if pos != some (DiagSpec.firstDiffBin sz a e) then
        throw s!"printed position {showPos pos} but the operands first differ at index {DiagSpec.firstDiffBin sz a e}"
    | _, _ => pure ()
  | ["bits", e, a, m, bc, _] =>
    let some e := e.toNat? | throw "bad-op"
    let some a := a.toNat? | throw "bad-op"
    let some m := m.toNat? | throw "bad-op"
    let some bc := bc.toNat? | throw "bad-op"
    showsBoth msg (refMaskedBits e m bc) (refMaskedBits a m bc)
  | _ => throw "bad-op"

/-! ### report oracle -/

def capN : Nat := Gen.Diag.bufferLen - 1

/-- `st <filled> <limit> <strlen> <canary> <fnv>`: the fixed buffer is never exceeded and stays terminated -/
def specSt (obs : List (List String)) : Except String Unit := do
  for l in obs do
    match l with
    | ["st", filled, limit, len, canary, _] =>
      if len = "unterminated" then throw "the buffer is not terminated inside its 4096 bytes"
      if canary ≠ "1" then throw "bytes behind the fixed buffer were overwritten (canary)"
      let some filled := filled.toNat? | throw "bad st"
      let some limit := limit.toNat? | throw "bad st"
      let some len := len.toNat? | throw "bad st"
      if len > capN then throw s!"text of {len} bytes exceeds the buffer"
      if filled > capN then throw s!"fill position {filled} is outside the buffer"
      if limit > capN then throw s!"write limit {limit} is outside the buffer"
      if filled ≠ len then throw s!"fill position {filled} but the text has {len} bytes"
    | _ => pure ()

/-- reference dump line: offset, 16 hex columns (a gap after the 8th), ASCII column -/
def refDumpLine (pos : Nat) (line : Bytes) : Bytes :=
  let hexCols : Bytes := (List.range 16).flatMap fun i =>
    (match line[i]? with
      | some b => Fmt.padLeft 2 48 (Fmt.hexLower b.toNat) ++ [32]
      | none => [32, 32, 32])
    ++ (if i == 7 then [32] else [])
  ofStr "    " ++ Fmt.padLeft 4 48 (Fmt.hexLower pos) ++ ofStr ": " ++ hexCols ++ [124]
    ++ line.map (fun c => if 32 ≤ c && c ≤ 126 then c else 46) ++ [124, 10]

partial def refDump (pos : Nat) (content : Bytes) : Bytes :=
  if content.isEmpty then [] else refDumpLine pos (content.take 16) ++ refDump (pos + 16) (content.drop 16)

/-- reference text of one complete report entry -/
def refEntry (l : Leak) : Bytes :=
  ofStr "Alloc num (" ++ Fmt.decNat l.number ++ ofStr ") Leak size: " ++ Fmt.decNat l.size ++ ofStr " Allocated at: " ++ l.file
  ++ ofStr " and line: " ++ Fmt.decInt (Fmt.castInt32 l.line) ++ ofStr ". Type: \"" ++ l.allocName ++ ofStr "\"\n\tMemory: <" ++ l.ptr
  ++ ofStr "> Content:\n" ++ refDump 0 l.content

def refHeader : Bytes := ofStr "Memory leak(s) found.\n"
def refNotice : Bytes := ofStr "\netc etc etc etc. !!!! Too many memory leaks to report. Bailing out\n"
def refMallocNote : Bytes := ofStr "NOTE:\n\tMemory leak reports about malloc and free can be caused by allocating using the cpputest version of malloc,\n\tbut deallocate using the standard free.\n\tIf this is the case, check whether your malloc/free replacements are working (#define malloc cpputest_malloc etc).\n"

/-- number of leading entries that are completely listed, and the rest of the text -/
def matchEntries : List Leak → Bytes → Nat → Nat × Bytes
  | [], t, k => (k, t)
  | l :: ls, t, k =>
    let e := refEntry l
    if e.isPrefixOf t then matchEntries ls (t.drop e.length) (k + 1) else (k, t)

/-- a report begun on a cleared buffer: states the true total, says so when entries were dropped -/
def specCleanReport (leaks : List Leak) (t : Bytes) : Except String Unit := do
  let n := leaks.length
  if n = 0 then
    if t != ofStr "No memory leaks were detected." then throw "report without leaks is not the no-leaks message"
    return
  let tail := ofStr "Total number of leaks:  " ++ Fmt.decNat n ++ [10]
    ++ (if leaks.any (fun l => l.allocName == ofStr "malloc") then refMallocNote else [])
  if !(tail.reverse.isPrefixOf t.reverse) then throw s!"the report does not end with the true total {n} (and the malloc note when due)"
  let body := t.take (t.length - tail.length)
  if !(refHeader.isPrefixOf body) then throw "the report does not start with the header"
  let hasNotice := refNotice.reverse.isPrefixOf body.reverse
  let listing := if hasNotice then body.take (body.length - refNotice.length) else body
  let (k, rest) := matchEntries leaks (listing.drop refHeader.length) 0
  if !hasNotice then
    if k < n then throw s!"only {k} of {n} leaks are listed completely but the report does not say that entries were dropped"
    if !rest.isEmpty then throw "all leaks are listed but the report has unexpected text before the total"
  else
    if k = n && listing.length < Diag.listLimitArg then throw "the report says entries were dropped although every leak is listed and there was room"
    match leaks[k]? with
    | some l => if !(rest.isPrefixOf (refEntry l)) then throw s!"the text after the {k} complete entries is not the beginning of the next entry"
    | none => if !rest.isEmpty then throw "all leaks are listed but the report has unexpected text before the notice"

structure Shadow where
  obClean    : Bool := false
  obCollect  : Option (List Leak) := none       -- a report begun on a cleared buffer is being assembled
  detClean   : Bool := false

def obsText (obs : List (List String)) : Option Bytes :=
  obs.findSome? fun l => match l with
    | ["text", t] => bytes? t
    | _ => none

def hasFail (obs : List (List String)) : Bool := obs.any fun l => l.head? == some "fail"

def specStep (sh : Shadow) (o : Proto.Op) : Except String Shadow := do
  match o.op with
  | "f" :: w => specFailure w o.obs; return sh
  | ["skip"] => return sh
  | "sb" :: _ => specSt o.obs; return sh
  | "ob" :: w =>
    specSt o.obs
    match w with
    | ["new"] => return { sh with obClean := true, obCollect := none }
    | ["clear"] => return { sh with obClean := true, obCollect := none }
    | ["start"] => return { sh with obCollect := if sh.obClean then some [] else none, obClean := false }
    | ["leak", num, file, line, an, content] =>
      match sh.obCollect, num.toNat?, bytes? file, line.toNat?, bytes? an, bytes? content with
      | some ls, some num, some file, some line, some an, some content =>
        return { sh with obCollect := some (ls ++ [{ number := num, size := content.length, file := file, line := line,
                                                     allocName := an, ptr := envPtr o.obs, content := content }]), obClean := false }
      | _, _, _, _, _, _ => return { sh with obCollect := none, obClean := false }
    | ["stop"] =>
      match sh.obCollect with
      | some ls =>
        let some t := obsText o.obs | throw "no report text observed"
        specCleanReport ls t
        return { sh with obCollect := none, obClean := false }
      | none => return { sh with obClean := false }
    | ["text"] => return sh
    | _ => return { sh with obCollect := none, obClean := false }
  | "det" :: w =>
    specSt o.obs
    match w with
    | ["new"] => return { sh with detClean := true }
    | ["start"] => return { sh with detClean := true }
    | ["report", _] =>
      if sh.detClean then
        let some t := obsText o.obs | throw "no report text observed"
        specCleanReport (envLeaks (ofStr "<unknown>") o.obs) t
      return { sh with detClean := false }
    | _ => return { sh with detClean := sh.detClean && !hasFail o.obs }
  | _ => throw "bad-op"

def specAll (ops : List Proto.Op) : Option String :=
  let rec go (sh : Shadow) (i : Nat) : List Proto.Op → Option String
    | [] => none
    | o :: rest =>
      match specStep sh o with
      | .ok sh' => go sh' (i+1) rest
      | .error e => some s!"op#{i} {" ".intercalate (o.op.take 2)}: {e}"
  go {} 0 ops

def main : IO Unit :=
  Proto.driverMain { init := ({} : DState), step := modelStep, spec := specAll }
