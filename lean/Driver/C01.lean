import CppUModel.Base.Proto
import CppUModel.Model.Runner
import CppUModel.Model.RunnerCode
import CppUModel.Spec.Runner
/-!
Driver for C01.

A case is a SEQUENCE of runner invocations in one process (`run`, `rethrow <0|1>`, `run`, …): the model carries the
process-wide static rethrow flag from one invocation to the next (`Prog.process`, written by the regenerated
`initializeTestRun`), the oracle judges every invocation by the options of its own command line.

`step`: builds the test program from the operation lines (environment inputs — build variant,
file/lines of the plain macro sites — are read from the implementation's observation lines of
`cfg`) and, at `run`, prints what the runner model does.

`spec`: the property's specification predicate, evaluated on the implementation's observation
lines only.  It uses the textbook definitions of `Spec/Runner.lean` (which statements execute,
which failures a test must record, true counts, how the console text is read back) and never
calls the runner model.
Imports Base/Model/Spec/Gen only.
-/
open Runner

def fileTable : List String := ["tests/alpha.cpp", "tests/beta.cpp", "src/helper.c", "x"]

structure Prog where
  haveCfg     : Bool := false
  exc         : Bool := true
  siteFile    : String := ""
  siteLines   : List Nat := []
  rep         : Option (Option Nat) := none
  verbosity   : Nat := 0              -- bit 0: -v, bit 1: -vv
  runIgnored  : Bool := false
  color       : Bool := false
  rethrow     : Bool := false
  separate    : Bool := false
  env         : Option Bool := none   -- `env` op: what setWorkingEnvironment stored (none = detect, some true = visualStudio)
  composite   : Bool := false         -- `composite` op: -ojunit with -v: CompositeTestOutput
  realio      : Bool := false         -- `realio` op: real stdout (a pipe), bytes observed
  process     : Process := {}         -- what the earlier runners of this case left in the process (model replay only)
  groupFilters : List Filter := []
  nameFilters  : List Filter := []
  plugins     : List Plugin := []              -- in op order; the chain is the reverse
  tests       : List (String × Test × List (String × List String)) := []
      -- label, test header, statement lines (phase, words) in op order; run order = op order
deriving Inhabited

def strOfHex (h : String) : String :=
  match Proto.unhex? h with
  | some bs => (String.fromUTF8? ⟨bs.toArray⟩).getD "?"
  | none => "?"

def hexOfStr (s : String) : String := Proto.hex s.toUTF8.toList

def stdExcText : String := "Unexpected exception of type 'std::runtime_error' was thrown: boom"
def otherExcText : String := "Unexpected exception of unknown type was thrown."

/-- `clock` = the readings of the clock seam, taken from the implementation's observation lines
    (an environment input) -/
def Prog.cfg (p : Prog) (clock : List Nat) : Cfg :=
  { exceptions := p.exc, rethrow := p.rethrow, verbose := p.verbosity % 2 == 1, veryVerbose := p.verbosity / 2 % 2 == 1,
    color := p.color, runIgnored := p.runIgnored,
    groupFilters := p.groupFilters, nameFilters := p.nameFilters,
    stdExcMsg := stdExcText, otherExcMsg := otherExcText, clock := clock, separate := p.separate }

def clockOfObs (obs : List (List String)) : List Nat :=
  obs.filterMap fun l => match l with
    | ["clock", v] => v.toNat?
    | _ => none

/-- is the failure location printed in the Visual Studio form?  (regenerated: what the platform detects) -/
def Prog.vs (p : Prog) : Bool := envIsVisualStudio p.env

def Prog.chain (p : Prog) : List Plugin := p.plugins.reverse

def fileOf (t : Test) (w : String) : String :=
  if w = "t" then t.file else fileTable.getD (w.toNat?.getD 3) "x"

def siteLoc (p : Prog) (i : Nat) : Loc := ⟨p.siteFile, p.siteLines.getD i 0⟩

def diffText (expected actual : String) (pos : Nat) (window : String) : String :=
  "expected <" ++ expected ++ ">\n\tbut was  <" ++ actual ++ ">\n\tdifference starts at position " ++ toString pos ++
    " at: <" ++ window ++ ">\n\t                                               ^"

def longsText : String := "expected <1 (0x1)>\n\tbut was  <2 (0x2)>"
def bitsText : String := "expected <xxxxxxxx xxxxxxxx xxxxxxxx xxxx0101>\n\tbut was  <xxxxxxxx xxxxxxxx xxxxxxxx xxxx0100>"
def memText : String := diffText "01 02 03" "01 09 03" 1 "      01 09 03      "
def strText : String := diffText "abc" "abd" 2 "        abd         "

/-- kind of a `checkKind` statement, the text of its failure, and the plain-macro site it sits at
    (macros without a _LOCATION form) -/
def checkKindOf : String → Option (CheckKind × String × Option Nat)
  | "check" => some (.check, "CHECK(cond) failed", none)
  | "checkText" => some (.checkText, "Message: txt\n\tCHECK(cond) failed", none)
  | "checkEqual" => some (.checkEqual, diffText "1" "2" 0 "          2         ", none)
  | "longs" => some (.longs, longsText, none)
  | "ulongs" => some (.ulongs, longsText, none)
  | "longlongs" => some (.longlongs, longsText, none)
  | "ulonglongs" => some (.ulonglongs, longsText, none)
  | "bytes" => some (.bytes, "LONGS_EQUAL((0x101) & 0xff, (a) & 0xff) failed\n\t" ++ longsText, some 5)
  | "sbytes" => some (.sbytes, "expected <-1 (0xff)>\n\tbut was  < 2 (0x2)>", none)
  | "pointers" => some (.pointers, "expected <0x1000>\n\tbut was  <0x2000>", none)
  | "fpointers" => some (.fpointers, "expected <0x1000>\n\tbut was  <0x2000>", none)
  | "doubles" => some (.doubles, "expected <10>\n\tbut was  <20> threshold used was <5>", none)
  | "strcmp" => some (.strcmp, strText, none)
  | "strncmp" => some (.strncmp, diffText "abc" "axd" 1 "         axd        ", none)
  | "strcmpNocase" => some (.strcmpNocase, diffText "abc" "ABD" 2 "        ABD         ", none)
  | "strcmpContains" => some (.strcmpContains, "actual <abd>\n\tdid not contain  <bc>", none)
  | "strcmpNocaseContains" => some (.strcmpNocaseContains, "actual <abd>\n\tdid not contain  <bc>", none)
  | "memcmp0" => some (.memcmp0, memText, none)
  | "memcmp" => some (.memcmp, memText, none)
  | "bits" => some (.bits, bitsText, none)
  | "compare" => some (.compare, "CHECK_COMPARE(1 < 0) failed", some 6)
  | "enumsInt" => some (.enumsInt, diffText "1" "2" 0 "          2         ", none)
  | "throws" => some (.throws, "expected to throw std::runtime_error\nbut threw nothing", some 7)
  | "cInt" => some (.cInt, longsText, none)
  | "cReal" => some (.cReal, "expected <10>\n\tbut was  <20> threshold used was <5>", none)
  | "cString" => some (.cString, strText, none)
  | "cPointer" => some (.cPointer, "expected <0x1000>\n\tbut was  <0x2000>", none)
  | "cMemcmp0" => some (.cMemcmp0, memText, none)
  | "cMemcmp" => some (.cMemcmp, memText, none)
  | "cBits" => some (.cBits, bitsText, none)
  | "checkC" => some (.checkC, "CHECK_C(cond) failed", none)
  | _ => none

/-- the statement an `s` line adds (the harness printed the line, so it is well formed) -/
def stmtOf (p : Prog) (t : Test) : List String → Option Stmt
  | ["mark", n] => n.toNat?.map Stmt.mark
  | ["pass"] => some .checkPass
  | ["passc"] => some .checkPass
  | ["failcpp", f, l] => some (.failCpp ⟨fileOf t f, l.toNat?.getD 0⟩ "failcpp")
  | ["checkcpp", f, l] => some (.failCpp ⟨fileOf t f, l.toNat?.getD 0⟩ "CHECK(false) failed")
  | ["failc", f, l] => some (.failC ⟨fileOf t f, l.toNat?.getD 0⟩ "failc")
  | ["checkc", f, l] => some (.failC ⟨fileOf t f, l.toNat?.getD 0⟩ "CHECK_C(0) failed")
  | ["failplain"] => some (.failCpp (siteLoc p 0) "failplain")
  | ["checkplain"] => some (.failCpp (siteLoc p 1) "CHECK(false) failed")
  | ["failcplain"] => some (.failC (siteLoc p 2) "failcplain")
  | ["checkcplain"] => some (.failC (siteLoc p 3) "CHECK_C(0) failed")
  | ["failtest", f, l] => some (.failCpp ⟨fileOf t f, l.toNat?.getD 0⟩ "failtest")
  | ["failtestplain"] => some (.failCpp (siteLoc p 4) "failtestplain")
  | ["shellfail", f, l] => some (.failCpp ⟨fileOf t f, l.toNat?.getD 0⟩ "shellfail")
  | ["shellfailc", f, l] => some (.failC ⟨fileOf t f, l.toNat?.getD 0⟩ "shellfailc")
  | ["exitc"] => some .exitTestC
  | ["checkKind", k, pf, f, l] =>
    (checkKindOf k).map fun (ck, msg, site) =>
      .check ck (pf == "pass")
        (match site with
         | some i => siteLoc p i
         | none => ⟨fileOf t f, l.toNat?.getD 0⟩) msg
  | ["throwstd"] => some .throwStd
  | ["throwother"] => some .throwOther
  | ["exit"] => some .exitTest
  | _ => none

def addStmt (t : Test) (ph : String) (s : Stmt) : Test :=
  if ph = "setup" then { t with setup := t.setup ++ [s] }
  else if ph = "body" then { t with body := t.body ++ [s] }
  else { t with teardown := t.teardown ++ [s] }

/-- the tests as they are when `run` is reached (the plain macro sites are known by then) -/
def Prog.testList (p : Prog) : List Test :=
  p.tests.map fun (_, t, lines) =>
    lines.foldl (fun t (ph, ws) => match stmtOf p t ws with
      | some s => addStmt t ph s
      | none => t) t

def repOf (w : String) : Option (Option Nat) :=
  if w = "none" then none
  else if w = "bare" then some none
  else some (some ((w.drop 1).toString.toNat?.getD 0))

/-- program construction, shared by the model replay and the oracle (it only reads the echoed
    operation lines and the two environment lines of `cfg`) -/
def applyOp (p : Prog) (op : List String) (obs : List (List String)) : Prog :=
  match op with
  | ["cfg", rep, v, ri, col, rt, sep] =>
    let exc := !(obs.any (· == ["variant", "noexc"]))
    let sites := obs.filterMap fun l => match l with
      | "sites" :: f :: rest => some (strOfHex f, rest.map (·.toNat?.getD 0))
      | _ => none
    { p with haveCfg := true, exc := exc, rep := repOf rep, verbosity := v.toNat?.getD 0, runIgnored := ri == "1",
             color := col == "1", rethrow := rt == "1", separate := sep == "1",
             siteFile := (sites.head?.map (·.1)).getD "", siteLines := (sites.head?.map (·.2)).getD [] }
  | ["filter", k, text] =>
    if k = "sg" then { p with groupFilters := ⟨text, false⟩ :: p.groupFilters }
    else if k = "xsg" then { p with groupFilters := ⟨text, true⟩ :: p.groupFilters }
    else if k = "sn" then { p with nameFilters := ⟨text, false⟩ :: p.nameFilters }
    else { p with nameFilters := ⟨text, true⟩ :: p.nameFilters }
  | ["plugin", name, en] => { p with plugins := p.plugins ++ [⟨name, en == "1", [], []⟩] }
  | ["perr", name, when_, only, f, l] =>
    let e : PErr := ⟨if only = "*" then none else some only,
                     ⟨fileTable.getD (f.toNat?.getD 3) "x", l.toNat?.getD 0⟩,
                     if when_ = "pre" then "pre-error" else "post-error"⟩
    { p with plugins := p.plugins.map fun pl =>
        if pl.name = name then
          (if when_ = "pre" then { pl with pre := pl.pre ++ [e] } else { pl with post := pl.post ++ [e] })
        else pl }
  | ["test", label, g, n, f, l, ig] =>
    { p with tests := p.tests ++ [(label, { group := g, name := n, file := fileTable.getD (f.toNat?.getD 3) "x",
                                            line := l.toNat?.getD 0, ignored := ig == "1",
                                            setup := [], body := [], teardown := [] }, [])] }
  | ["env", e] => { p with env := if e = "vs" then some true else if e = "eclipse" then some false else none }
  | ["composite"] => { p with composite := true }
  | ["realio"] => { p with realio := true }
  | ["rethrow", rt] => { p with rethrow := rt == "1" }     -- the next runner of the process: without (1) / with (0) -e
  | "s" :: label :: ph :: rest =>
    { p with tests := p.tests.map fun (lb, t, lines) =>
        if lb = label then (lb, t, lines ++ [(ph, rest)]) else (lb, t, lines) }
  | _ => p

/-! ## model replay -/

def phaseName : Phase → String
  | .setup => "setup"
  | .body => "body"
  | .teardown => "teardown"

def curName : Option String → String
  | none => "-"
  | some n => n

def tokLine (s : String) : String := "t " ++ hexOfStr s

def renderEv (vs color : Bool) : Ev → List String
  | .tok s => [tokLine s]
  | .clock v => [s!"clock {v}"]
  | .enter ph d => [s!"enter {phaseName ph} {d}"]
  | .mark ph n d => [s!"mark {phaseName ph} {n} {d}"]
  | .plug name post d => [s!"plug {name} {if post then "post" else "pre"} {d}"]
  | .failure r => (failureToksGen vs r).map tokLine           -- the regenerated print sequences
  | .sepFailure r => (failureToksGen vs r).map tokLine
  | .ended d c f => [s!"ended {d} {curName c} {if f then 1 else 0}"]
  | .summary r time => (summaryToks color r time).map tokLine
  | .ret v => [s!"ret {v}"]

def faultText : Fault → String
  | .jmpIndex i => s!"jmp_buf index {i} outside the array"
  | .wrongFrame => "longjmp to a buffer that is not the innermost frame"
  | .uncaught => "uncaught exception"

def kindName : ExcKind → String
  | .failed => "failed"
  | .std => "std"
  | .other => "other"

/-- every string the console output receives, in order -/
def consoleStrings (p : Prog) (evs : List Ev) : List String :=
  evs.flatMap fun e => match e with
    | .tok s => [s]
    | .failure r => failureToksGen p.vs r
    | .sepFailure r => failureToksGen p.vs r
    | .summary r time => summaryToks p.color r time
    | _ => []

def hexOrDash (s : String) : String := if s.isEmpty then "-" else hexOfStr s

/-- the invocation the `run` op makes: the command line of the program as it is now -/
def Prog.invocation (p : Prog) (clock : List Nat) : Invocation :=
  ⟨p.cfg clock, p.chain, p.testList, repeatCountOf p.rep⟩

/-- the process when the tests run: after `initializeTestRun` AS REGENERATED from the source -/
def Prog.initialized (p : Prog) : Process := initializeTestRunGen p.rethrow p.process

/-- the process after the run (the real-stdout sub-mode runs in a process of its own: nothing is left behind) -/
def Prog.afterRun (p : Prog) : Prog := if p.realio then p else { p with process := p.initialized }

def modelRun (p : Prog) (clock : List Nat) : List String :=
  match runAllTests (effectiveCfg p.initialized (p.invocation clock)) p.chain p.testList (repeatCountOf p.rep) 0 with
  | .error (.fault f) => ["model-fault " ++ faultText f]
  | .error (.propagated q) =>
    q.evs.flatMap (renderEv p.vs p.color) ++ [s!"propagated {kindName q.kind}", s!"final {q.depth} {curName q.current}"]
  | .ok o =>
    if p.realio then
      -- the bytes on the real stdout: every printed string (each print is flushed, also in the children of -p)
      ["out " ++ hexOrDash (String.join ((consolePrintAll {} (consoleStrings p o.evs)).afterExit)),
       s!"ret {o.ret}", s!"final {o.depth} {curName o.current}"]
    else
      o.evs.flatMap (renderEv p.vs p.color) ++ [s!"final {o.depth} {curName o.current}"] ++
        (if p.composite then (consoleStrings p o.evs).map (fun s => "u " ++ hexOfStr s) else [])

def modelStep (p : Prog) (op : List String) (obs : List (List String)) : Prog × List String :=
  match op with
  | ["run"] => (p.afterRun, modelRun p (clockOfObs obs))
  | ["cfg", _, _, _, _, _, _] =>
    -- the two environment lines are inputs: echo them
    (applyOp p op obs, obs.filterMap fun l => match l with
      | "variant" :: _ => some (" ".intercalate l)
      | "sites" :: _ => some (" ".intercalate l)
      | _ => none)
  | _ => (applyOp p op obs, [])

/-! ## specification oracle -/

inductive Item
  | tok (s : String)
  | enter (ph : String)
  | mark (ph : String) (n : Nat)
  | ended (depth : Int) (cur : String) (failed : Bool)
  | clock (v : Nat)
  | ret (v : Int)
  | propagated (kind : String)
  | final (depth : Int) (cur : String)
  | crash (what : String)
  | tokOne (s : String)            -- composite: a string output one received
  | out (bytes : String)           -- realio: the bytes on the real stdout
  | other
deriving Repr, Inhabited

def itemOf : List String → Item
  | ["t", h] => .tok (strOfHex h)
  | ["enter", ph, _] => .enter ph
  | ["mark", ph, n, _] => .mark ph (n.toNat?.getD 0)
  | ["ended", d, c, f] => .ended (d.toInt?.getD (-999)) c (f == "1")
  | ["clock", v] => .clock (v.toNat?.getD 0)
  | ["ret", v] => .ret (v.toInt?.getD (-999))
  | ["propagated", k] => .propagated k
  | ["final", d, c] => .final (d.toInt?.getD (-999)) c
  | "crash" :: rest => .crash (" ".intercalate rest)
  | ["u", h] => .tokOne (strOfHex h)
  | ["out", h] => .out (strOfHex h)
  | _ => .other

/-- split the items at the `ended` lines: segments before each `ended`, the `ended` data, the tail -/
def splitEnded : List Item → List Item → List (List Item × (Int × String × Bool)) → List (List Item × (Int × String × Bool)) × List Item
  | [], cur, acc => (acc.reverse, cur.reverse)
  | .ended d c f :: rest, cur, acc => splitEnded rest [] ((cur.reverse, (d, c, f)) :: acc)
  | it :: rest, cur, acc => splitEnded rest (it :: cur) acc

def toksOfItems (its : List Item) : List String :=
  its.filterMap fun | .tok s => some s | _ => none
def entersOfItems (its : List Item) : List String :=
  its.filterMap fun | .enter ph => some ph | _ => none
def marksOfItems (its : List Item) : List (String × Nat) :=
  its.filterMap fun | .mark ph n => some (ph, n) | _ => none

def showPrinted (p : Printed) : String :=
  s!"{p.file}:{p.line} [{p.msg}] in {p.testName}" ++
    (match p.testLoc with | some (f, l) => s!" (test at {f}:{l})" | none => "")

def showList (l : List String) : String := "[" ++ ", ".intercalate l ++ "]"

/-- the reader for the working environment of the run -/
def scanFailuresEnv (vs : Bool) (toks : List String) : List Printed :=
  if vs then scanFailuresVS toks else scanFailures toks

/-- one test segment against what the property demands of that test -/
def judgeTest (vs : Bool) (cfg : Cfg) (chain : List Plugin) (t : Test) (seg : List Item) (e : Int × String × Bool) :
    Option String :=
  let wantEnters := (phasesRun cfg t).map phaseName
  let wantMarks := (testMarks cfg t).map fun (ph, n) => (phaseName ph, n)
  let wantFails := (testRecords cfg chain t).map FailRec.printed
  let gotFails := scanFailuresEnv vs (toksOfItems seg)
  let who := s!"{formattedName cfg t}"
  if willRun cfg t then
    if entersOfItems seg != wantEnters then
      some s!"{who}: phases entered {showList (entersOfItems seg)}, the property demands {showList wantEnters} (setup, body only if setup completed, teardown always)"
    else if marksOfItems seg != wantMarks then
      some s!"{who}: statements executed {showList ((marksOfItems seg).map fun (p, n) => s!"{p}:{n}")}, the property demands {showList (wantMarks.map fun (p, n) => s!"{p}:{n}")} (nothing after a failing check or escaping exception)"
    else if gotFails != wantFails then
      some s!"{who}: printed failure records {showList (gotFails.map showPrinted)}, failing events are {showList (wantFails.map showPrinted)} (each exactly once, in order, with its own file:line{if cfg.separate then "; with -p one more record 'Failed in separate process' for a child that recorded any failure" else ""})"
    else if e.1 != 0 then some s!"{who}: jump-buffer depth after the test is {e.1}, before it was 0"
    else if e.2.1 != "-" then some s!"{who}: current test after the test is {e.2.1}, not restored"
    else if !cfg.separate && e.2.2 != !(testPhaseFailures cfg t).isEmpty then
      some s!"{who}: per-test failed flag is {e.2.2}, the test {if (testPhaseFailures cfg t).isEmpty then "did not fail" else "failed"}"
    else none
  else
    if !(entersOfItems seg).isEmpty || !(marksOfItems seg).isEmpty then some s!"{who}: an ignored test executed statements"
    else if !gotFails.isEmpty then some s!"{who}: an ignored test printed failure records"
    else if e.1 != 0 then some s!"{who}: jump-buffer depth after the ignored test is {e.1}"
    else none

def showSummary (s : PrintedSummary) : String :=
  (if s.ok then "OK" else "Errors") ++ s!" (failures {s.failures.getD "-"}, {s.tests} tests, {s.ran} ran, {s.checks} checks, {s.ignored} ignored, {s.filtered} filtered out)"

/-- the elapsed time every summary must show: last clock reading before it minus the first reading
    of its repetition (unsigned 64-bit) -/
def expectedTimes (items : List Item) : List String := Id.run do
  let mut out : Array String := #[]
  let mut first : Option Nat := none
  let mut last : Nat := 0
  for it in items do
    match it with
    | .clock v =>
      if first.isNone then first := some v
      last := v
    | .tok s =>
      if s == "OK (" || s == "Errors (" then
        out := out.push (toString (elapsed last (first.getD 0)))
        first := none
    | _ => pure ()
  return out.toList

/-- rethrow mode, a selected test lets a std / foreign exception out: the run must end there -/
def judgePropagation (vs : Bool) (cfg : Cfg) (chain : List Plugin) (sel : List Test) (k : Nat) (items : List Item) :
    Option String := Id.run do
  let (segs, tail) := splitEnded items [] []
  let t := sel.getD k default
  let who := formattedName cfg t
  let some (ph, kind) := firstThrow cfg t | return some "internal: no throwing phase"
  if segs.length != k then
    return some s!"rethrow mode: {segs.length} tests completed before the exception of {who} left the run, {k} precede it"
  let mut i := 0
  for (seg, e) in segs do
    if let some why := judgeTest vs cfg chain (sel.getD i default) seg e then return some s!"rethrow mode: {why}"
    i := i + 1
  let wantEnters := (phasesUpTo cfg t ph).map phaseName
  let wantMarks := (marksUpTo cfg t ph).map fun (q, n) => (phaseName q, n)
  let wantFails := (failuresUpTo cfg chain t ph).map FailRec.printed
  let gotFails := scanFailuresEnv vs (toksOfItems tail)
  if entersOfItems tail != wantEnters then
    return some s!"rethrow mode, {who}: phases entered {showList (entersOfItems tail)}, expected {showList wantEnters} (nothing runs after the exception left the test)"
  if marksOfItems tail != wantMarks then
    return some s!"rethrow mode, {who}: statements executed {showList ((marksOfItems tail).map fun (p, n) => s!"{p}:{n}")}, expected {showList (wantMarks.map fun (p, n) => s!"{p}:{n}")}"
  if gotFails != wantFails then
    return some s!"rethrow mode, {who}: printed failure records {showList (gotFails.map showPrinted)}, failing events until the exception left are {showList (wantFails.map showPrinted)}"
  let props := items.filterMap fun | .propagated q => some q | _ => none
  let rets := items.filterMap fun | .ret v => some v | _ => none
  if props != [kindName kind] then
    return some s!"rethrow mode, {who}: exception(s) that left the runner: {showList props}, expected [{kindName kind}]"
  if !rets.isEmpty then return some "rethrow mode: the runner returned a value although an exception left it"
  if !(scanSummaries (toksOfItems items)).isEmpty then return some "rethrow mode: a summary was printed although an exception left the run"
  return none

/-! ### the byte stream of the real-I/O sub-mode -/

def stripEsc (s : String) : String :=
  ((s.replace "\x1b[31;1m" "").replace "\x1b[32;1m" "").replace "\x1b[m" ""

def isLocLine (l : String) : Bool := (l.splitOn " error:").length > 1

/-- the location lines of the text, each last one of a record with the line that follows it -/
def recordLines : List String → List String
  | [] => []
  | l :: rest =>
    if isLocLine l then
      l :: (match rest with
            | nx :: _ => if isLocLine nx then [] else [nx]
            | [] => []) ++ recordLines rest
    else recordLines rest

def locText (vs : Bool) (file : String) (line : Nat) : String :=
  if vs then s!"{file}({line}): error:" else s!"{file}:{line}: error:"

/-- the lines a reader of the console text must find for one failure record: where it happened (for a failure
    outside the test's file / above the test: the test's location first), and the first line of its message -/
def wantLines (vs : Bool) (r : FailRec) : List String :=
  (if r.twoLocations then [locText vs r.testFile r.testLine ++ " Failure in " ++ r.testName, locText vs r.file r.line]
   else [locText vs r.file r.line ++ " Failure in " ++ r.testName]) ++ ["\t" ++ ((r.msg.splitOn "\n").headD "")]

def summaryText (s : PrintedSummary) : String :=
  (if s.ok then "OK (" else "Errors (" ++ (match s.failures with | some f => f ++ " failures, " | none => "ran nothing, ")) ++
    s!"{s.tests} tests, {s.ran} ran, {s.checks} checks, {s.ignored} ignored, {s.filtered} filtered out, {s.time} ms)"

/-- real stdout: every failing event once, in order, with its file:line; one true summary per repetition;
    return value zero iff fine — read from the BYTES that reached the pipe -/
def judgeRealIo (p : Prog) (cfg : Cfg) (items : List Item) : Option String := Id.run do
  let chain := p.chain
  let tests := p.testList
  let n := repeatCountOf p.rep
  let outs := items.filterMap fun | .out b => some b | _ => none
  let some text := outs.head? | return some "real stdout: no output observed"
  let lines := (stripEsc text).splitOn "\n"
  let want := ((List.replicate n (expectedRecords cfg chain tests)).flatten).flatMap (wantLines p.vs)
  let got := recordLines lines
  if got != want then
    return some s!"printed failure records on the real stdout (location lines and first message line) {showList got}, failing events are {showList want} (each exactly once, in order, with its own file:line)"
  let wantSum := (expectedCounts cfg chain tests).printedSummary 0
  let sums := lines.filter fun l => l.startsWith "OK (" || l.startsWith "Errors ("
  if sums != List.replicate n (summaryText wantSum) then
    return some s!"summary printed on the real stdout: {showList sums}; true counts: {summaryText wantSum} for each of {n} repetition(s)"
  let rets := items.filterMap fun | .ret v => some v | _ => none
  let finals := items.filterMap fun | .final d c => some (d, c) | _ => none
  match rets, finals with
  | [v], [(d, c)] =>
    if (v == 0) != decide wantSum.ok then
      return some s!"runner returned {v}; the repetitions {if wantSum.ok then "have" else "do not have"} a clean verdict"
    if d != 0 then return some s!"jump-buffer depth after the run is {d}"
    if c != "-" then return some s!"current test after the run is {c}"
    return none
  | _, _ => return some "the runner did not return (no `ret`/`final` line)"

def judgeRun (p : Prog) (obs : List (List String)) : Option String := Id.run do
  let cfg := p.cfg (clockOfObs obs)
  let chain := p.chain
  let tests := p.testList
  let n := repeatCountOf p.rep
  let items := obs.map itemOf
  for it in items do
    if let .crash w := it then return some s!"the runner crashed: {w}"
  if p.realio then return judgeRealIo p cfg items
  if p.composite then
    -- output ONE of the composite must have received what the console received: every failing event once, one summary per repetition
    let one := items.filterMap fun | .tokOne s => some s | _ => none
    let wantRecs := ((List.replicate n (expectedRecords cfg chain tests)).flatten).map FailRec.printed
    if scanFailuresEnv p.vs one != wantRecs then
      return some s!"printed failure records received by output one of the composite {showList ((scanFailuresEnv p.vs one).map showPrinted)}, failing events are {showList (wantRecs.map showPrinted)} (each failure once per attached output)"
    let wantS := (expectedCounts cfg chain tests).printedSummary 0
    let gotS := (scanSummaries one).map fun s => { s with time := wantS.time }
    if gotS != List.replicate n wantS then
      return some s!"summary line(s) received by output one of the composite: {showList (gotS.map showSummary)}; true counts: {showSummary wantS} per repetition"
  let sel := selected cfg tests
  let m := sel.length
  if cfg.rethrow && cfg.exceptions then
    if let some k := sel.findIdx? (fun t => willRun cfg t && (firstThrow cfg t).isSome) then
      return judgePropagation p.vs cfg chain sel k items
  if items.any (fun | .propagated _ => true | _ => false) then
    return some (if cfg.rethrow then "an exception left the runner although no test lets one out in rethrow mode"
      else "an exception left the runner although it was started with -e (escaping exceptions are not rethrown: the exception must be recorded once, teardown must run, the run must go on to its summary and return value)")
  let (segs, tail) := splitEnded items [] []
  if segs.length != n * m then
    return some s!"{segs.length} tests were run or skipped as ignored; {n} repetition(s) of {m} selected tests demand {n * m}"
  -- every test segment
  let mut k := 0
  for (seg, e) in segs do
    let t := sel.getD (k % m) default
    if let some why := judgeTest p.vs cfg chain t seg e then
      return some s!"repetition {k / m + 1}: {why}"
    -- the summary of the previous repetition is printed before the first test of the next one
    let wantSum := if k > 0 && k % m == 0 then 1 else 0
    if (scanSummaries (toksOfItems seg)).length != wantSum then
      return some s!"repetition {k / m + 1}: {(scanSummaries (toksOfItems seg)).length} summary line(s) printed before test {k % m + 1}"
    k := k + 1
  if !(entersOfItems tail).isEmpty || !(marksOfItems tail).isEmpty || !(scanFailuresEnv p.vs (toksOfItems tail)).isEmpty then
    return some "statements executed or failures printed after the last test ended"
  -- summaries
  let sums := scanSummaries (toksOfItems items)
  let want := (expectedCounts cfg chain tests).printedSummary 0
  if sums.length != n then
    return some s!"{sums.length} summary lines printed for {n} repetition(s)"
  for s in sums do
    if { s with time := want.time } != want then
      return some s!"summary printed: {showSummary s}; true counts: {showSummary want} (OK exactly when no failure and at least one test ran or was ignored)"
  if sums.map (·.time) != expectedTimes items then
    return some s!"summary times printed {showList (sums.map (·.time))}, the clock readings give {showList (expectedTimes items)}"
  -- return value
  let rets := items.filterMap fun | .ret v => some v | _ => none
  let finals := items.filterMap fun | .final d c => some (d, c) | _ => none
  match rets, finals with
  | [v], [(d, c)] =>
    let allOk := sums.all (·.ok)
    if (v == 0) != allOk then
      return some s!"runner returned {v} although {if allOk then "every repetition was OK" else "a repetition was not OK"}"
    if (v == 0) != decide want.ok then
      return some s!"runner returned {v}; the repetitions {if want.ok then "have" else "do not have"} a clean verdict"
    if d != 0 then return some s!"jump-buffer depth after the run is {d}"
    if c != "-" then return some s!"current test after the run is {c}"
    return none
  | _, _ => return some "the runner did not return (no `ret`/`final` line)"

def specAll (ops : List Proto.Op) : Option String :=
  let rec go (p : Prog) (i : Nat) : List Proto.Op → Option String
    | [] => none
    | o :: rest =>
      match o.op with
      | ["run"] =>
        (match judgeRun p o.obs with
         | some why => some s!"op#{i} run: {why}"
         | none => go p (i + 1) rest)
      | _ =>
        if o.obs.any (fun l => l.head? == some "crash") then some s!"op#{i}: crash outside a run"
        else go (applyOp p o.op o.obs) (i + 1) rest
  go {} 0 ops

def main : IO Unit :=
  Proto.driverMain { init := ({} : Prog), step := modelStep, spec := specAll }
