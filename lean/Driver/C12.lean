import CppUModel.Base.Proto
import CppUModel.Model.CommandLine
/-!
Driver for C12.

* `modelStep`: collects the argument vector from the `arg` / `opt` operations and, at `parse`
  and `run`, prints what the MODEL (`CommandLine.parse`, `CommandLine.runner`) computes, in the
  harness' format.  Environment inputs (`time`, the plugin chain's answers) are read from the
  implementation's observation lines.
* `specAll`: the property's oracle on the IMPLEMENTATION's observations, written against
  `Spec/CommandLine.lean` only (`render1`, `meaning`, `selects`, `Filter.asString`) — it never calls the
  parser model:
    - every case: the parser finished and reported a complete configuration; a rejected vector
      printed help (iff `-h` was what stopped it … i.e. `needHelp`) or usage and ran no test;
    - cases made of documented options only (`opt` lines whose rendering, recomputed here with
      `render1`, is exactly the arguments the harness was given): accepted, and every getter, both
      filter chains, the selection over the probe registry and what the runner did with it are
      the documented ones (`meaning`).
-/
open CommandLine Text

/-! ## probe registry (the same 12 tests as harness/h_c12.cpp) -/

def probes : List ProbeTest := [
  ⟨ofString "Alpha", ofString "one", false⟩, ⟨ofString "Alpha", ofString "two", false⟩,
  ⟨ofString "Alpha", ofString "onetwo", false⟩, ⟨ofString "AlphaBeta", ofString "one", false⟩,
  ⟨ofString "AlphaBeta", ofString "One", false⟩, ⟨ofString "Beta", ofString "two", false⟩,
  ⟨ofString "Beta", ofString "t_1", false⟩, ⟨ofString "beta", ofString "one", false⟩,
  ⟨ofString "G1", ofString "x", false⟩, ⟨ofString "G1", ofString "one", false⟩,
  ⟨ofString "Net_IO", ofString "two", true⟩, ⟨ofString "Alpha", ofString "x", true⟩ ]

/-! ## reading the operations -/

def argsOfOp (op : List String) : Option (List Bytes) :=
  match op with
  | ["arg", h] => (Proto.unhex? h).map ([·])
  | "opt" :: rest => (rest.dropWhile (· ≠ "=")).tail.mapM Proto.unhex?
  | "bad" :: rest => (rest.dropWhile (· ≠ "=")).tail.mapM Proto.unhex?
  | _ => some []

/-- answers of one recording plugin of the harness' chain, from the `plugin <idx> <hexarg> <ret>` lines -/
def recAnswers (obs : List (List String)) (idx : Nat) : List (Bytes × Bool) :=
  obs.filterMap fun l => match l with
    | ["plugin", i, h, r] => if i.toNat? == some idx then (Proto.unhex? h).map (fun b => (b, r == "1")) else none
    | _ => none

def lookupAnswer (tbl : List (Bytes × Bool)) (a : Bytes) : Bool :=
  match tbl.find? (·.1 == a) with
  | some e => e.2
  | none => false

/-- the harness' plugin chain, head first (harness/h_c12.cpp): recording plugins at 0, 2, 6 (their
    answers are environment inputs), the real plugins in between with their `parseArguments` -/
def harnessChain (obs : List (List String)) : List (Bytes → Bool) :=
  [ lookupAnswer (recAnswers obs 0),      -- RecA
    defaultParseArguments,                -- SetPointerPlugin
    lookupAnswer (recAnswers obs 2),      -- RecB
    defaultParseArguments,                -- MemoryLeakWarningPlugin
    defaultParseArguments,                -- MockSupportPlugin
    memoryReporterParseArguments,         -- MemoryReporterPlugin
    lookupAnswer (recAnswers obs 6) ]     -- RecC

def recordingPositions : List Nat := [0, 2, 6]
def harnessPluginNames : List String :=
  ["RecA", "HarnessSetPointer", "RecB", "HarnessMemLeak", "HarnessMock", "MemoryReporterPlugin", "RecC"]

def timeOf (obs : List (List String)) : Nat :=
  (obs.findSome? fun l => match l with | ["time", t] => t.toNat? | _ => none).getD 0

/-! ## rendering configurations in the harness' format -/

def b01 (b : Bool) : String := if b then "1" else "0"

def renderConfig (r : ParseResult) : List String :=
  let c := r.cfg
  [ s!"result {if r.isOk then "ok" else "reject"}",
    s!"needHelp {b01 c.needHelp}", s!"verbose {b01 c.verbose}", s!"veryVerbose {b01 c.veryVerbose}",
    s!"color {b01 c.color}", s!"separateProcess {b01 c.separateProcess}", s!"listGroups {b01 c.listGroups}",
    s!"listNames {b01 c.listNames}", s!"listLocations {b01 c.listLocations}", s!"runIgnored {b01 c.runIgnored}",
    s!"reversing {b01 c.reversing}", s!"crashOnFail {b01 c.crashOnFail}", s!"rethrow {b01 c.rethrow}",
    s!"repeat {c.repeatCount}", s!"shuffling {b01 c.shuffling}", s!"seed {c.shuffleSeed}",
    s!"output eclipse={b01 (c.output == .eclipse)} junit={b01 (c.output == .junit)} teamcity={b01 (c.output == .teamcity)}",
    s!"package {Proto.hex c.packageName}" ] ++
  c.groupFilters.map (fun f => s!"gfilter {Proto.hex f.asString}") ++
  c.nameFilters.map (fun f => s!"nfilter {Proto.hex f.asString}") ++
  [ "select " ++ String.join (probes.map fun p => b01 (selects c p.group p.name)) ]

def commaNats (l : List Nat) : String := if l.isEmpty then "-" else ",".intercalate (l.map toString)

def insertSorted (x : Nat) : List Nat → List Nat
  | [] => [x]
  | y :: ys => if x ≤ y then x :: y :: ys else y :: insertSorted x ys
def sortNats (l : List Nat) : List Nat := l.foldr insertSorted []

def OutEv.render : OutEv → String
  | .console => "console"
  | .junit p => s!"junit:{Proto.hex p}"
  | .teamcity => "teamcity"
  | .composite => "composite"

def RegCall.render : RegCall → String
  | .separateProcess => "setRunTestsInSeperateProcess"
  | .listGroups => "listTestGroupNames"
  | .listNames => "listTestGroupAndCaseNames"
  | .listLocations => "listTestLocations"
  | .reverse => "reverseTests"
  | .shuffle s => s!"shuffleTests:{s}"
  | .runAll => "runAllTests"
  | .install n => s!"install:{n}"
  | .remove n => s!"remove:{n}"

def commaStrs (l : List String) : String := if l.isEmpty then "-" else ",".intercalate l

def optNat (o : Option Nat) : String := match o with | some n => toString n | none => "-"
def renderHeaders (l : List (Nat × Nat)) : String :=
  if l.isEmpty then "-" else ",".intercalate (l.map fun p => s!"{p.1}/{p.2}")
def probeGroups : List Bytes := probes.map (·.group)
def renderFiles (l : List Bytes) : String := if l.isEmpty then "-" else ",".intercalate (l.map Proto.hex)

def renderRunner (r : ParseResult) : List String :=
  if r.cfg.repeatCount > 3 then ["skipped"] else
  let t := runner probes r
  let shuffled := t.calls.any fun c => match c with | .shuffle _ => true | _ => false
  [ s!"rc {t.rc}",
    s!"outputs {commaStrs (t.outputs.map OutEv.render)}",
    s!"console verbosity={match t.verbosity with | some v => toString v | none => "-1"} color={match t.color with | some b => b01 b | none => "-1"}",
    s!"printed {match t.printed with | .help => "help" | .usage => "usage" | .other => "other"}",
    s!"seedline {optNat (if r.isOk then seedLine r.cfg (hasConsole r.cfg) else none)}",
    s!"runheaders {renderHeaders (if r.isOk then runHeaders r.cfg (hasConsole r.cfg) else [])}",
    s!"calls {commaStrs (t.calls.map RegCall.render)}",
    s!"ran {if shuffled then "sorted" else "inorder"} {commaNats (if shuffled then sortNats t.ran else t.ran)}",
    s!"statics crashOnFail={b01 t.crashOnFail} rethrow={b01 t.rethrow}" ]

def renderRunAll (r : ParseResult) : List String :=
  if r.cfg.repeatCount > 3 then ["skipped"] else
  let g := runAllTestsGlue probes harnessPluginNames r
  let shuffled := g.calls.any fun c => match c with | .shuffle _ => true | _ => false
  [ s!"rc {g.rc}",
    s!"printed {match g.run.printed with | .help => "help" | .usage => "usage" | .other => "other"}",
    s!"seedline {optNat (if r.isOk then seedLine r.cfg (printsToStdout r.cfg) else none)}",
    s!"runheaders {renderHeaders (if r.isOk then runHeaders r.cfg (printsToStdout r.cfg) else [])}",
    s!"files {renderFiles (if r.isOk then junitFiles r.cfg probes else [])}",
    s!"teamcity {b01 (r.isOk && teamcityMessages r.cfg)}",
    s!"calls {commaStrs (g.calls.map RegCall.render)}",
    s!"ran {if shuffled then "sorted" else "inorder"} {commaNats (if shuffled then sortNats g.run.ran else g.run.ran)}",
    s!"registry plugins before={harnessPluginNames.length} after={g.pluginsAfter.length} memleak={b01 (g.pluginsAfter.contains nameMemLeak)} setpointer={b01 (g.pluginsAfter.contains nameSetPointer)}" ]

/-- `plugins` stage: every `-p<x>` argument handed to the head of the chain -/
def renderChain (chain : List (Bytes → Bool)) (args : List Bytes) : List String :=
  (args.filter fun a => startsWith a [45, 112] && a.length > 2).flatMap fun a =>
    let n := chainAsked chain a
    -- the real MemoryReporterPlugin sits at position 5: reached when nobody before it accepted
    (if n ≥ 6 && memoryReporterParseArguments a then
       let ty := memFormatterType a
       [s!"memformatter {Proto.hex ty} {match memFormatterKind ty with | .normal => "normal" | .code => "code" | .none => "none"}"]
     else []) ++
    [s!"chain {Proto.hex a} asked={commaNats (recordingPositions.filter (· < n))} ret={b01 (chainAnswer chain a)}"]

/-! ## model replay -/

structure DState where
  args   : List Bytes := []          -- argv[1..], in order
  bad    : Bool := false
  chain  : List (Bytes → Bool) := []
  result : Option ParseResult := none

def modelStep (d : DState) (op : List String) (obs : List (List String)) : DState × List String :=
  match op with
  | ["time", _] => (d, [])
  | ["skip"] => (d, [])
  | ["plugins"] =>
    let chain := harnessChain obs
    ({ d with chain := chain }, renderChain chain d.args)
  | ["parse"] =>
    let env : Env := { time := timeOf obs, plugins := d.chain }
    let r := parse env (ofString "prog" :: d.args)
    ({ d with result := some r }, s!"time {env.time}" :: renderConfig r)
  | ["run"] =>
    match d.result with
    | some r => (d, renderRunner r)
    | none => (d, ["bad-op"])
  | ["runall"] =>
    match d.result with
    | some r => (d, renderRunAll r)
    | none => (d, ["bad-op"])
  | _ =>
    match argsOfOp op with
    | some as => if op.head? == some "arg" || op.head? == some "opt" || op.head? == some "bad" then ({ d with args := d.args ++ as }, []) else (d, ["bad-op"])
    | none => (d, ["bad-op"])

/-! ## specification oracle -/

def identOf? (h : String) : Option Ident :=
  match Proto.unhex? h with
  | some v => if h' : isIdent v = true then some ⟨v, h'⟩ else none
  | none => none

def countOf? (s : String) : Option Count :=
  let ds := ofString s
  if h1 : isNumber ds = true then
    if h2 : 1 ≤ decVal ds then
      if h3 : decVal ds < 2 ^ 31 then some ⟨ds, h1, h2, h3⟩ else none
    else none
  else none

def seedOf? (s : String) : Option Seed :=
  let ds := ofString s
  if h1 : isNumber ds = true then
    if h2 : 1 ≤ decVal ds then
      if h3 : decVal ds < 2 ^ 32 then some ⟨ds, h1, h2, h3⟩ else none
    else none
  else none

def flagOf? : String → Option Flag
  | "v" => some .v | "vv" => some .vv | "c" => some .c | "p" => some .p | "b" => some .b
  | "ri" => some .ri | "f" => some .f | "e" => some .e | "ci" => some .ci
  | "lg" => some .lg | "ln" => some .ln | "ll" => some .ll
  | _ => none

def kindOf? : String → Option FKind
  | "sub" => some .sub | "strict" => some .strict | "excl" => some .excl | "exclStrict" => some .exclStrict
  | _ => none

def outKindOf? : String → Option OutKind
  | "normal" => some .normal | "eclipse" => some .eclipse | "junit" => some .junit | "teamcity" => some .teamcity
  | _ => none

def formOf? : String → Option Form
  | "A" => some .attached | "S" => some .separated | _ => none

/-- the abstract option described by the words between `opt` and `=` -/
def optOf? (ws : List String) : Option (Opt × Form) := do
  match ws with
  | [f, "flag", n] => pure (.flag (← flagOf? n), ← formOf? f)
  | [f, "repeat", "-"] => pure (.repeatDefault, ← formOf? f)
  | [f, "repeat", n] => pure (.repeatN (← countOf? n), ← formOf? f)
  | [f, "shuffle", "-"] => pure (.shuffle, ← formOf? f)
  | [f, "shuffle", n] => pure (.shuffleSeed (← seedOf? n), ← formOf? f)
  | [f, "group", k, v] => pure (.group (← kindOf? k) (← identOf? v), ← formOf? f)
  | [f, "name", k, v] => pure (.name (← kindOf? k) (← identOf? v), ← formOf? f)
  | [f, "test", k, g, n] => pure (.test (← kindOf? k) (← identOf? g) (← identOf? n), ← formOf? f)
  | [f, "testform", i, g, n] => pure (.testForm (i == "1") (← identOf? g) (← identOf? n), ← formOf? f)
  | [f, "output", o] => pure (.output (← outKindOf? o), ← formOf? f)
  | [f, "package", v] => pure (.package (← identOf? v), ← formOf? f)
  | _ => none

/-- a documented rejection: the argument(s) that must make the parser refuse the vector -/
inductive Bad
  | help                                   -- `-h`
  | seedZero (fm : Form) (zeros : Bytes)   -- `-s0`, `-s 0`
  | tValue (k : FKind) (fm : Form) (v : Bytes)      -- `-t` family with a value that is not `group.name`
  | outKind (fm : Form) (v : Bytes)        -- `-o` with an unknown kind
  | unknown (a : Bytes)                    -- an argument that is no option at all

def Bad.render : Bad → List Bytes
  | .help => [[45, 104]]
  | .seedZero fm z => spell fm [45, 115] z
  | .tValue k fm v => spell fm (k.lit 116) v
  | .outKind fm v => spell fm [45, 111] v
  | .unknown a => [a]

/-- dot-separated identifiers, but not exactly two of them -/
def isBadTValue (v : Bytes) : Bool :=
  let parts := v.splitOn 46
  parts.all isIdent && parts.length != 2

def badOf? (ws : List String) : Option Bad := do
  match ws with
  | ["help"] => pure .help
  | ["seed0", f, z] =>
    let zs := ofString z
    if isNumber zs && decVal zs == 0 then pure (.seedZero (← formOf? f) zs) else none
  | ["tvalue", k, f, v] =>
    let b ← Proto.unhex? v
    if isBadTValue b then pure (.tValue (← kindOf? k) (← formOf? f) b) else none
  | ["outkind", f, v] =>
    let b ← Proto.unhex? v
    if isIdent b && !([OutKind.normal, .eclipse, .junit, .teamcity].any (·.lit == b)) then pure (.outKind (← formOf? f) b) else none
  | ["unknown", a] =>
    let b ← Proto.unhex? a
    -- no option starts with anything but `-`, `T`, `I`; blanks, digits and signs could be taken as a number by -r / -s
    match b with
    | [] => pure (.unknown b)
    | c :: _ => if c != 45 && c != 84 && c != 73 && c != 43 && !isDigitB c && !isSpaceB c then pure (.unknown b) else none
  | _ => none

/-- the case is a list of documented options: every op is `time` or an `opt` line whose recorded
    arguments are exactly `render1` of the option it describes.  Returns the options. -/
def renderedCase (ops : List Proto.Op) : Except String (Option (List (Opt × Form) × Option Bad)) := do
  let mut out : List (Opt × Form) := []
  let mut bad : Option Bad := none
  let mut all := true
  for o in ops do
    match o.op with
    | "bad" :: rest =>
      if bad.isNone then
        let desc := rest.takeWhile (· ≠ "=")
        let some given := (rest.dropWhile (· ≠ "=")).tail.mapM Proto.unhex? | throw "bad line: bad hex"
        match badOf? desc with
        | some b =>
          if b.render != given then throw s!"bad line {" ".intercalate desc}: its arguments are not the described rendering"
          bad := some b
        | none => throw s!"bad line {" ".intercalate desc}: not a documented rejection"
    | "opt" :: _ => if bad.isSome then pure () else match o.op with
      | "opt" :: rest =>
        let desc := rest.takeWhile (· ≠ "=")
        let some given := (rest.dropWhile (· ≠ "=")).tail.mapM Proto.unhex? | throw "opt line: bad hex"
        match optOf? desc with
        | some of =>
          if render1 of != given then throw s!"opt line {" ".intercalate desc}: its arguments are not the documented rendering"
          out := out ++ [of]
        | none => throw s!"opt line {" ".intercalate desc}: not a documented option"
      | _ => pure ()
    | ["time", _] => pure ()
    | ["plugins"] => pure ()
    | ["parse"] => pure ()
    | ["run"] => pure ()
    | ["runall"] => pure ()
    | _ => if bad.isSome then pure () else all := false      -- whatever follows a rejected argument is never read
  return if all then some (out, bad) else none

def findObs (obs : List (List String)) (key : String) : Option (List String) :=
  (obs.find? fun l => l.head? == some key).map List.tail

def expectLine (obs : List (List String)) (key : String) (want : List String) : Except String Unit :=
  match findObs obs key with
  | some got => if got == want then pure () else
      throw s!"{key}: documented `{" ".intercalate want}`, observed `{" ".intercalate got}`"
  | none => throw s!"{key}: not reported"

def getterKeys : List String :=
  ["result", "needHelp", "verbose", "veryVerbose", "color", "separateProcess", "listGroups", "listNames",
   "listLocations", "runIgnored", "reversing", "crashOnFail", "rethrow", "repeat", "shuffling", "seed",
   "output", "package", "select"]

/-- explicit seed given by the last shuffle option? -/
def lastShuffleExplicit (os : List Opt) : Bool :=
  match (os.reverse.find? fun o => match o with | .shuffle => true | .shuffleSeed _ => true | _ => false) with
  | some (.shuffleSeed _) => true
  | _ => false

/-- documented behaviour of the runner for a configuration, over the probe registry: which test
    bodies run in one pass (help text: filters select, `IGNORE_TEST`s run only with `-ri`) -/
def docOnePass (c : Config) : List Nat :=
  let idx := (List.range probes.length).filter fun i =>
    match probes[i]? with
    | some p => selects c p.group p.name && (!p.ignored || c.runIgnored)
    | none => false
  if c.reversing then idx.reverse else idx

def showHexArg (h : String) : String := match Proto.unhex? h with | some b => toStringLossy b | none => h
def showFilter (f : Filter) : String := toStringLossy f.asString
def showHex (h : String) : String := match Proto.unhex? h with | some b => toStringLossy b | none => h

/-- `TestPlugin::parseAllArguments` as documented in TestPlugin.h ("parseAllArguments" asks the
    chain): judged on the recording plugins' own lines.  For every `-p<x>` argument: the
    recording plugins are asked in chain order starting at the head, nobody is asked after one
    accepted, and the chain accepts iff one of the asked plugins did (`-pmemoryreport=` is the
    MemoryReporterPlugin's, which sits between the second and third recording plugin). -/
def specChain (obs : List (List String)) : Except String Unit := do
  let mut asked : List (Nat × Bool) := []
  for l in obs do
    match l with
    | ["plugin", i, _, r] => asked := asked ++ [(i.toNat?.getD 99, r == "1")]
    | ["chain", h, _, ret] =>
      let arg := (Proto.unhex? h).getD []
      let idx := asked.map (·.1)
      let accepted := asked.find? (·.2)
      let memrep := isInfix arg (ofString "-pmemoryreport=")
      if !(idx == [0] || idx == [0, 2] || idx == [0, 2, 6]) then throw s!"plugin chain for {showHexArg h}: asked {idx}, not a head-first prefix of the chain"
      match accepted with
      | some (i, _) =>
        if asked.getLast? != some (i, true) then throw s!"plugin chain for {showHexArg h}: plugin {i} accepted, but plugins behind it were asked"
        if ret != "ret=1" then throw s!"plugin chain for {showHexArg h}: plugin {i} accepted, the chain refused"
      | none =>
        if memrep then
          if idx != [0, 2] then throw s!"plugin chain for {showHexArg h}: asked {idx} around the memory reporter's argument"
          if ret != "ret=1" then throw s!"plugin chain for {showHexArg h}: the memory reporter's argument was refused"
        else
          if idx != [0, 2, 6] then throw s!"plugin chain for {showHexArg h}: nobody accepted, but only {idx} were asked"
          if ret != "ret=0" then throw s!"plugin chain for {showHexArg h}: nobody accepted, the chain accepted"
      asked := []
    | _ => pure ()
  return ()

def specParse (ops : List Proto.Op) : Except String Unit := do
  match ops.find? (·.op == ["plugins"]) with
  | some pl => specChain pl.obs
  | none => throw "the plugin chain stage did not run"
  let some p := ops.find? (·.op == ["parse"]) | throw "the parser did not run"
  for k in getterKeys do
    if (findObs p.obs k).isNone then throw s!"the parser did not finish: `{k}` not reported"
  let rejected := findObs p.obs "result" == some ["reject"]
  let needHelp := findObs p.obs "needHelp" == some ["1"]
  let bigRepeat := match findObs p.obs "repeat" with | some [n] => n.toNat?.getD 0 > 3 | _ => false
  let run := ops.find? (·.op == ["run"])
  -- a rejected vector: help or usage is printed and no test runs
  if rejected then
    match run with
    | some r =>
      if findObs r.obs "skipped" == some [] then
        if !bigRepeat then throw "runner stage skipped for a rejected vector"
      else
        expectLine r.obs "printed" [if needHelp then "help" else "usage"]
        expectLine r.obs "ran" ["inorder", "-"]
        expectLine r.obs "calls" ["install:SetPointerPlugin,remove:SetPointerPlugin"]
        expectLine r.obs "rc" ["1"]
    | none => throw "the runner did not finish"
  else
    match run with
    | some r =>
      if findObs r.obs "skipped" != some [] then
        if (findObs r.obs "rc").isNone || (findObs r.obs "ran").isNone then throw "the runner did not finish"
        if findObs r.obs "printed" == some ["help"] || findObs r.obs "printed" == some ["usage"] then
          throw "accepted vector, but help/usage was printed"
    | none => throw "the runner did not finish"
  -- the static entry point RunAllTests(ac, av): the same, and the registry gets its plugins back
  let runall := ops.find? (·.op == ["runall"])
  match runall with
  | some r =>
    if findObs r.obs "skipped" != some [] then
      if (findObs r.obs "rc").isNone || (findObs r.obs "ran").isNone then throw "RunAllTests did not finish"
      match findObs r.obs "registry" with
      | some ["plugins", b, a, m, sp] =>
        if b.drop 7 != a.drop 6 then throw s!"RunAllTests: registry plugins {b} {a}"
        if m != "memleak=0" || sp != "setpointer=0" then throw s!"RunAllTests left a plugin installed: {m} {sp}"
      | _ => throw "RunAllTests did not finish"
      if rejected then
        expectLine r.obs "printed" [if needHelp then "help" else "usage"]
        expectLine r.obs "ran" ["inorder", "-"]
        expectLine r.obs "rc" ["1"]
        expectLine r.obs "files" ["-"]            -- no report file, no TeamCity message for a rejected vector
        expectLine r.obs "teamcity" ["0"]
      else if findObs r.obs "printed" == some ["help"] || findObs r.obs "printed" == some ["usage"] then
        throw "RunAllTests: accepted vector, but help/usage was printed"
    else if rejected && !bigRepeat then throw "RunAllTests stage skipped for a rejected vector"
  | none => throw "RunAllTests did not finish"
  -- documented options: the configuration is the documented one
  match ← renderedCase ops with
  | none => pure ()
  | some (ofs, bad) =>
    let os := ofs.map Prod.fst
    let env : Env := { time := timeOf p.obs, plugins := [] }
    let c0 := meaning env os
    -- a documented rejection after the options: refused; what the options set stays set
    let c := match bad with
      | some .help => { c0 with needHelp := true }
      | some (.seedZero .attached _) => { c0 with shuffling := true, shuffleSeed := 0 }
      | some (.seedZero .separated _) => { c0 with shuffling := true }
      | _ => c0
    let seedKnown := match bad with
      | some (.seedZero .attached _) => true
      | some (.seedZero .separated _) => false
      | _ => lastShuffleExplicit os
    let o := p.obs
    expectLine o "result" [if bad.isSome then "reject" else "ok"]
    expectLine o "needHelp" [b01 c.needHelp]
    expectLine o "verbose" [b01 c.verbose]
    expectLine o "veryVerbose" [b01 c.veryVerbose]
    expectLine o "color" [b01 c.color]
    expectLine o "separateProcess" [b01 c.separateProcess]
    expectLine o "listGroups" [b01 c.listGroups]
    expectLine o "listNames" [b01 c.listNames]
    expectLine o "listLocations" [b01 c.listLocations]
    expectLine o "runIgnored" [b01 c.runIgnored]
    expectLine o "reversing" [b01 c.reversing]
    expectLine o "crashOnFail" [b01 c.crashOnFail]
    expectLine o "rethrow" [b01 c.rethrow]
    expectLine o "repeat" [toString c.repeatCount]
    expectLine o "shuffling" [b01 c.shuffling]
    if seedKnown then expectLine o "seed" [toString c.shuffleSeed]
    else if c.shuffling && findObs o "seed" == some ["0"] then throw "shuffling without a seed argument: seed 0"
    expectLine o "output" [s!"eclipse={b01 (c.output == .eclipse)}", s!"junit={b01 (c.output == .junit)}", s!"teamcity={b01 (c.output == .teamcity)}"]
    expectLine o "package" [Proto.hex c.packageName]
    let gf := o.filterMap fun l => match l with | ["gfilter", h] => some h | _ => none
    let nf := o.filterMap fun l => match l with | ["nfilter", h] => some h | _ => none
    if gf != c.groupFilters.map (fun f => Proto.hex f.asString) then
      throw s!"group filters: documented {c.groupFilters.map showFilter}, observed {gf.map showHex}"
    if nf != c.nameFilters.map (fun f => Proto.hex f.asString) then
      throw s!"name filters: documented {c.nameFilters.map showFilter}, observed {nf.map showHex}"
    expectLine o "select" [String.join (probes.map fun p => b01 (selects c p.group p.name))]
    -- the runner applies it (for a rejected vector: checked above, nothing runs)
    if bad.isSome then return ()
    match run with
    | some r =>
      if findObs r.obs "skipped" == some [] then
        if c.repeatCount ≤ 3 then throw "runner stage skipped"
      else
        let listing := c.listGroups || c.listNames || c.listLocations
        let want := if listing then [] else (List.replicate c.repeatCount (docOnePass c)).flatten
        if c.shuffling && !listing then expectLine r.obs "ran" ["sorted", commaNats (sortNats want)]
        else expectLine r.obs "ran" ["inorder", commaNats want]
        let outs := ((findObs r.obs "outputs").getD []).headD "" |>.splitOn ","
        -- JUnit output gets the console as a second output when verbose (so the names are still printed)
        let wantOut := match c.output with
          | .junit => s!"junit:{Proto.hex c.packageName}" :: (if c.verbose || c.veryVerbose then ["console", "composite"] else [])
          | .teamcity => ["teamcity"] | .eclipse => ["console"]
        if outs != wantOut then throw s!"output: documented {wantOut}, created {outs}"
        let calls := ((findObs r.obs "calls").getD []).headD "" |>.splitOn ","
        if c.separateProcess != calls.contains "setRunTestsInSeperateProcess" then throw "separate process (-p) not applied as documented"
        if !listing && c.reversing != calls.contains "reverseTests" then throw "reverse (-b) not applied as documented"
        if c.listGroups && !calls.contains "listTestGroupNames" then throw "-lg: group names not listed"
        if !c.listGroups && c.listNames && !calls.contains "listTestGroupAndCaseNames" then throw "-ln: names not listed"
        if !c.listGroups && !c.listNames && c.listLocations && !calls.contains "listTestLocations" then throw "-ll: locations not listed"
        if !listing && c.shuffling && !calls.contains s!"shuffleTests:{findObs o "seed" |>.getD [] |>.headD ""}" then
          throw "shuffle (-s) not applied with the parsed seed"
        if !listing && !c.shuffling && calls.any (·.startsWith "shuffleTests") then throw "shuffled without -s"
        if wantOut.contains "console" then
          expectLine r.obs "console" [s!"verbosity={if c.veryVerbose then 2 else if c.verbose then 1 else 0}", s!"color={b01 c.color}"]
        expectLine r.obs "statics" [s!"crashOnFail={b01 c.crashOnFail}", s!"rethrow={b01 c.rethrow}"]
        -- "-s [<seed>]": the seed in use is announced on the console (the given one, else a non-zero one);
        -- "-r<#>": every repetition is announced
        let hasCons := wantOut.contains "console"
        let docSeed (shows : Bool) (obs : List (List String)) (what : String) : Except String Unit :=
          if c.shuffling && !listing && shows then
            if seedKnown then expectLine obs "seedline" [toString c.shuffleSeed]
            else match findObs obs "seedline" with
              | some [n] => if n.toNat?.getD 0 == 0 then throw s!"{what}: shuffle seed announced as `{n}`" else pure ()
              | _ => throw s!"{what}: shuffle seed not announced"
          else expectLine obs "seedline" ["-"]
        let docHeaders (shows : Bool) : List String :=
          [if !listing && shows && c.repeatCount > 1
           then ",".intercalate ((List.range c.repeatCount).map fun i => s!"{i + 1}/{c.repeatCount}") else "-"]
        docSeed hasCons r.obs "runner"
        expectLine r.obs "runheaders" (docHeaders hasCons)
        -- RunAllTests(ac, av) runs the same tests; 0 unless nothing was selected
        match runall with
        | some ra =>
          if c.shuffling && !listing then expectLine ra.obs "ran" ["sorted", commaNats (sortNats want)]
          else expectLine ra.obs "ran" ["inorder", commaNats want]
          let anySelected := probes.any fun p => selects c p.group p.name
          expectLine ra.obs "rc" [if listing || anySelected then "0" else toString c.repeatCount]
          -- the real outputs: "-ojunit" writes one xml file per group, "-k <packageName>" puts the package name into
          -- each of them; "-oteamcity" prints TeamCity service messages; otherwise neither
          let pk := if c.packageName.isEmpty then [] else c.packageName ++ ofString "_"
          let pre := ofString "cpputest_" ++ pk
          let got := match findObs ra.obs "files" with
            | some [l] => if l == "-" then [] else (l.splitOn ",").filterMap Proto.unhex?
            | _ => []
          if (findObs ra.obs "files").isNone then throw "RunAllTests: files not reported"
          if c.output == .junit && !listing then
            for f in got do
              if !(startsWith f pre && endsWith f (ofString ".xml")) then
                throw s!"-k: report file `{toStringLossy f}` does not carry the package name `{toStringLossy c.packageName}`"
            for p in probes do
              if selects c p.group p.name && !got.contains (pre ++ p.group ++ ofString ".xml") then
                throw s!"-ojunit: no report file for group {toStringLossy p.group} with package `{toStringLossy c.packageName}`"
          else if !got.isEmpty then throw s!"report files written without -ojunit: {got.map toStringLossy}"
          expectLine ra.obs "teamcity" [b01 (c.output == .teamcity && !listing)]
          let showsReal := c.output != .junit || c.verbose || c.veryVerbose
          docSeed showsReal ra.obs "RunAllTests"
          expectLine ra.obs "runheaders" (docHeaders showsReal)
        | none => pure ()
    | none => throw "the runner did not finish"

def specAll (ops : List Proto.Op) : Option String :=
  match specParse ops with
  | .ok _ => none
  | .error e => some e

def main : IO Unit :=
  Proto.driverMain { init := ({} : DState), step := modelStep, spec := specAll }
