import CppUModel.Base.Proto
import CppUModel.Model.OutputOps
import CppUModel.Model.TeamCity
import CppUModel.Model.TeamCityLoop
import CppUModel.Model.TeamCityMock
import CppUModel.Spec.TeamCity
/-!
Driver for C20.  Model replay: the registry described by the operations is run through the runner
model — the loop of `runAllTests` executed from its regenerated statement list (`Model/TeamCityLoop.lean`) — and the
TeamCity writer model — the callbacks executed from their regenerated statement lists (`Model/TeamCity.lean`); at `run` the model prints the whole stream (`out <hex>`).
Specification oracle: the implementation's stream is decoded by the independent service-message
parser of `Spec/TeamCity.lean`, checked for balance, and the decoded values are compared with
the originals taken from the operation lines (grouping written independently of the runner model).
-/
open OutEv OutOps TeamCity

structure DState where
  reg : Reg := {}
  composite : Nat := 0        -- `composite <1|2>`: the TeamCity output is outputOne_ / outputTwo_ of a CompositeTestOutput
  mocks : List (Nat × Text.Bytes) := []   -- `mockleft <name>`: (index of the test, expected function never called), newest first

/-- the scripts of the run with the mock scenario folded in (`Model/TeamCityMock.lean`) -/
def DState.scripts (d : DState) : List Script := TeamCityMock.applyMocks d.reg.scripts d.mocks

def modelStep (d : DState) (op : List String) (_obs : List (List String)) : DState × List String :=
  match op with
  | ["run"] =>
    -- `-p` (every test in its own process) is not part of the writer model: such a run is only judged by the oracle
    if d.reg.separate then (d, []) else
    if d.composite != 0 && !d.reg.realio then
      (d, ["out " ++ Proto.hex (TeamCity.streamComposite d.composite (d.reg.verbosity == 2) (RunLoop.runRepeatedGen d.reg.repeats d.reg.filter d.scripts)),
           "sink 1"]) else
    (d, ["out " ++ Proto.hex (TeamCity.streamV (d.reg.verbosity == 2) (RunLoop.runRepeatedGen d.reg.repeats d.reg.filter d.scripts))])
  | ["skip"] => (d, [])
  | ["childstop"] => (d, [])         -- only acts in a forked test process of a `-p` run (judged by the oracle only)
  | ["slow", _] => (d, [])          -- real time, invisible to the stubbed clock
  | ["mockleft", h] =>
    match Proto.unhex? h with
    | some n => (if d.reg.tests.isEmpty then d else { d with mocks := (d.reg.tests.length - 1, n) :: d.mocks }, [])
    | none => (d, ["bad-op"])
  | ["composite", "1"] => ({ d with composite := 1 }, [])
  | ["composite", "2"] => ({ d with composite := 2 }, [])
  | w =>
    match applyOp d.reg w with
    | some r => ({ d with reg := r }, [])
    | none => (d, ["bad-op"])

/-! ## specification oracle -/

/-- maximal runs of consecutive scripts with the same group name -/
def groupRuns : List Script → List (Text.Bytes × List Script)
  | [] => []
  | t :: rest =>
    match groupRuns rest with
    | (g, ts) :: more => if g == t.info.group then (g, t :: ts) :: more else (t.info.group, [t]) :: (g, ts) :: more
    | [] => [(t.info.group, [t])]

/-- the failures a scripted test reports, in order, as (file, line, details): the body's (nothing after
    a `failx` runs; a failure without location is located at the test, one without message says
    "no message"), then those added by the plugin's post-test action -/
def bodyFailures (t : TestInfo) : List Act → List (Text.Bytes × Nat × Text.Bytes)
  | [] => []
  | .fail f l m :: as => (f, l, m) :: bodyFailures t as
  | .failExit f l m :: _ => [(f, l, m)]
  | .failMsg m :: as => (t.file, t.line, m) :: bodyFailures t as
  | .failLoc f l :: as => (f, l, lit "no message") :: bodyFailures t as
  | _ :: as => bodyFailures t as

def pluginFailures (t : TestInfo) : List Act → List (Text.Bytes × Nat × Text.Bytes)
  | [] => []
  | .postFail m :: as => (t.file, t.line, m) :: pluginFailures t as
  | _ :: as => pluginFailures t as

def scriptFailures (t : TestInfo) (acts : List Act) : List (Text.Bytes × Nat × Text.Bytes) :=
  bodyFailures t acts ++ pluginFailures t acts

/-- skeleton of what the stream must say: kind, name, and for failures (file, line, details) -/
inductive Want
  | suiteStarted (n : Text.Bytes) | suiteFinished (n : Text.Bytes)
  | testStarted (n : Text.Bytes) | testIgnored (n : Text.Bytes) | testFinished (n : Text.Bytes)
  | testFailed (t : TestInfo) (file : Text.Bytes) (line : Nat) (details : Text.Bytes)
  /-- a failure found by the mock plugin's post-test action for test `t`: it must name `t`, be located at `t`, and its
      details (text composed by the mock framework, not by this property's subject) must contain the function name intact -/
  | mockFailed (t : TestInfo) (fname : Text.Bytes)
deriving Inhabited

/-- `separate` = the run used `-p`: the test's own failures are reported by its child process, and the
    runner adds one more ("Failed in separate process", located at the test) when the child failed;
    `stop` = the test's process stops itself at the start of the body (`childstop`, only effective with `-p`): the runner
    reports the stop first (a failure located at the test) and continues the child, whose own failures follow -/
def wantTest (separate : Bool) (ts : Script × Bool × Option Text.Bytes) : List Want :=
  let t := ts.1
  if t.info.willRun then
    let fs := scriptFailures t.info t.acts
    -- `mockleft`: the mock plugin's post-test action (the last one) reports the expectation the body left unfulfilled,
    -- provided the body itself reported no failure
    let mk : List Want := match ts.2.2 with
      | some fname => if (bodyFailures t.info t.acts).isEmpty then [.mockFailed t.info fname] else []
      | none => []
    let pre := if separate && ts.2.1 then [(t.info.file, t.info.line, lit "Stopped in separate process - continuing")] else []
    let extra := if separate && !(fs.isEmpty && mk.isEmpty) then [(t.info.file, t.info.line, lit "Failed in separate process")] else []
    [.testStarted t.info.name] ++ (pre ++ fs).map (fun (f, l, m) => .testFailed t.info f l m) ++ mk ++
      extra.map (fun (f, l, m) => .testFailed t.info f l m) ++ [.testFinished t.info.name]
  else [.testStarted t.info.name, .testIgnored t.info.name, .testFinished t.info.name]

/-- maximal runs of consecutive (script, stop mark) pairs with the same group name -/
def groupRunsS {α : Type} : List (Script × α) → List (Text.Bytes × List (Script × α))
  | [] => []
  | t :: rest =>
    match groupRunsS rest with
    | (g, ts) :: more => if g == t.1.info.group then (g, t :: ts) :: more else (t.1.info.group, [t]) :: (g, ts) :: more
    | [] => [(t.1.info.group, [t])]

def markStops (scripts : List Script) (stops : List Nat) (mocks : List (Nat × Text.Bytes)) : List (Script × Bool × Option Text.Bytes) :=
  (scripts.zip (List.range scripts.length)).map fun p =>
    (p.1, stops.contains p.2, (mocks.find? (fun m => m.1 == p.2)).map (fun m => m.2))

def wantAll (separate : Bool) (flt : Option Filter) (scripts : List Script) (stops : List Nat) (mocks : List (Nat × Text.Bytes)) : List Want :=
  (groupRunsS (markStops scripts stops mocks)).flatMap fun (g, ts) =>
    [.suiteStarted g] ++ (ts.filter (fun t => shouldRun flt t.1.info)).flatMap (wantTest separate) ++ [.suiteFinished g]

/-- readable rendering of a byte string inside a one-line reason: printable ASCII as is, the rest as \xNN -/
def showB (b : Text.Bytes) : String :=
  "\"" ++ String.join (b.map fun c =>
    if c = 34 then "\\\"" else if c = 92 then "\\\\"
    else if 32 ≤ c ∧ c < 127 then String.singleton (Char.ofNat c.toNat)
    else "\\x" ++ Proto.hexByte c) ++ "\""

def endsWithB (a b : Text.Bytes) : Bool := Text.endsWith a b

def matchWant : Want → Msg → Option String
  | .suiteStarted n, .suiteStarted n' => if n = n' then none else some s!"suite start decodes to {showB n'}, original {showB n}"
  | .suiteFinished n, .suiteFinished n' => if n = n' then none else some s!"suite finish decodes to {showB n'}, original {showB n}"
  | .testStarted n, .testStarted n' => if n = n' then none else some s!"test start decodes to {showB n'}, original {showB n}"
  | .testIgnored n, .testIgnored n' => if n = n' then none else some s!"test ignored decodes to {showB n'}, original {showB n}"
  | .testFinished n, .testFinished n' _ => if n = n' then none else some s!"test finish decodes to {showB n'}, original {showB n}"
  | .testFailed t f l d, .testFailed n' m' d' =>
    if t.name ≠ n' then some s!"failure names test {showB n'}, the open test is {showB t.name}"
    else if d ≠ d' then some s!"failure details decode to {showB d'}, original {showB d}"
    else if !(endsWithB m' (f ++ [58] ++ dec l)) then some s!"failure location {showB m'} does not end with the original file:line {showB (f ++ [58] ++ dec l)}"
    else if (t.file != f || decide (l < t.line)) && !(Text.isInfix m' (t.file ++ [58] ++ dec t.line)) then
      some s!"failure location {showB m'} does not contain the original test file:line"
    else none
  | .mockFailed t fname, .testFailed n' m' d' =>
    if t.name ≠ n' then some s!"failure names test {showB n'}, the open test is {showB t.name}"
    else if !(Text.isInfix d' fname) then some s!"failure details decode to {showB d'}, which does not contain the original function name {showB fname}"
    else if !(endsWithB m' (t.file ++ [58] ++ dec t.line)) then some s!"failure location {showB m'} does not end with the original file:line {showB (t.file ++ [58] ++ dec t.line)}"
    else none
  | _, m => some s!"unexpected message {reprStr m}"

def matchAll : Nat → List Want → List Msg → Option String
  | _, [], [] => none
  | i, w :: ws, m :: ms =>
    match matchWant w m with
    | none => matchAll (i + 1) ws ms
    | some e => some s!"message #{i}: {e}"
  | i, [], m :: _ => some s!"message #{i}: more messages than the run has events, first extra {reprStr m}"
  | i, _ :: _, [] => some s!"message #{i}: stream ends early (a start without its finish, or a missing message)"

def isText : Msg → Bool
  | .text _ => true
  | _ => false

/-- a test prints text containing `#` (it could print a service message of its own): outside the
    quantifier of the property, which is about names, paths and failure messages -/
def printsHash (scripts : List Script) : Bool :=
  scripts.any fun t => t.acts.any fun a => match a with
    | .print f _ x => f.contains 35 || x.contains 35
    | _ => false

def specRun (reg : Reg) (stops : List Nat) (mocks : List (Nat × Text.Bytes)) (out : Text.Bytes) : Option String :=
  if printsHash reg.scripts then none else
  match TeamCity.parse out with
  | .error e => some s!"stream does not parse as service messages: {e}"
  | .ok msgs =>
    let scripts := reg.scripts
    if scripts.any (fun t => t.info.group.isEmpty) then none      -- empty group names: outside the quantifier
    else if !(failuresInOpenTest none msgs) then
      some "a failure message does not belong to the currently open test (its name is not the name announced by testStarted, or no test is open)"
    else if !(balanced msgs) then some "messages are not balanced (suite/test start and finish do not pair up)"
    else matchAll 0 ((List.range reg.repeats).flatMap fun _ => wantAll reg.separate reg.filter scripts stops mocks) (msgs.filter (fun m => !(isText m)))

def specAll (ops : List Proto.Op) : Option String :=
  let rec go (reg : Reg) (stops : List Nat) (mocks : List (Nat × Text.Bytes)) (i : Nat) : List Proto.Op → Option String
    | [] => none
    | o :: rest =>
      match o.op with
      | ["run"] =>
        let outs := o.obs.filterMap fun l => match l with
          | ["out", h] => Proto.unhex? h
          | ["outp", h] => Proto.unhex? h       -- stream of a `-p` run (real I/O sub-mode)
          | _ => none
        match outs with
        | [out] =>
          match specRun reg stops mocks out with
          | none => go reg stops mocks (i + 1) rest
          | some e => some s!"op#{i} run: {e}"
        | _ => some s!"op#{i} run: no output captured"
      | ["childstop"] => go reg (if reg.tests.isEmpty then stops else (reg.tests.length - 1) :: stops) mocks (i + 1) rest
      | ["mockleft", h] =>
        match Proto.unhex? h with
        | some n => go reg stops (if reg.tests.isEmpty then mocks else (reg.tests.length - 1, n) :: mocks) (i + 1) rest
        | none => go reg stops mocks (i + 1) rest
      | w =>
        match applyOp reg w with
        | some r => go r stops mocks (i + 1) rest
        | none => go reg stops mocks (i + 1) rest
  go {} [] [] 0 ops

def main : IO Unit :=
  Proto.driverMain { init := ({} : DState), step := modelStep, spec := specAll }
