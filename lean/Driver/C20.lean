import CppUModel.Base.Proto
import CppUModel.Model.OutputOps
import CppUModel.Model.TeamCity
import CppUModel.Spec.TeamCity
/-!
Driver for C20.  Model replay: the registry described by the operations is run through the runner
model and the TeamCity writer model; at `run` the model prints the whole stream (`out <hex>`).
Specification oracle: the implementation's stream is decoded by the independent service-message
parser of `Spec/TeamCity.lean`, checked for balance, and the decoded values are compared with
the originals taken from the operation lines (grouping written independently of the runner model).
-/
open OutEv OutOps TeamCity

structure DState where
  reg : Reg := {}

def modelStep (d : DState) (op : List String) (_obs : List (List String)) : DState × List String :=
  match op with
  | ["run"] =>
    -- `-p` (every test in its own process) is not part of the writer model: such a run is only judged by the oracle
    if d.reg.separate then (d, []) else
    (d, ["out " ++ Proto.hex (TeamCity.streamV (d.reg.verbosity == 2) (runRepeated d.reg.repeats d.reg.filter d.reg.scripts))])
  | ["skip"] => (d, [])
  | w =>
    match applyOp d.reg w with
    | some r => ({ reg := r }, [])
    | none => (d, ["bad-op"])

/-! ## specification oracle -/

/-- maximal runs of consecutive scripts with the same group name -/
def groupRuns : List Script → List (Text.Bytes × List Script)
  | [] => []
  | t :: rest =>
    match groupRuns rest with
    | (g, ts) :: more => if g == t.info.group then (g, t :: ts) :: more else (t.info.group, [t]) :: (g, ts) :: more
    | [] => [(t.info.group, [t])]

/-- the failures a scripted test reports, in order, as (file, line, details): the body's (nothing after
    a `failx` runs; a failure without location is located at the test, one without message says
    "no message"), then those added by the plugin's post-test action -/
def bodyFailures (t : TestInfo) : List Act → List (Text.Bytes × Nat × Text.Bytes)
  | [] => []
  | .fail f l m :: as => (f, l, m) :: bodyFailures t as
  | .failExit f l m :: _ => [(f, l, m)]
  | .failMsg m :: as => (t.file, t.line, m) :: bodyFailures t as
  | .failLoc f l :: as => (f, l, lit "no message") :: bodyFailures t as
  | _ :: as => bodyFailures t as

def pluginFailures (t : TestInfo) : List Act → List (Text.Bytes × Nat × Text.Bytes)
  | [] => []
  | .postFail m :: as => (t.file, t.line, m) :: pluginFailures t as
  | _ :: as => pluginFailures t as

def scriptFailures (t : TestInfo) (acts : List Act) : List (Text.Bytes × Nat × Text.Bytes) :=
  bodyFailures t acts ++ pluginFailures t acts

/-- skeleton of what the stream must say: kind, name, and for failures (file, line, details) -/
inductive Want
  | suiteStarted (n : Text.Bytes) | suiteFinished (n : Text.Bytes)
  | testStarted (n : Text.Bytes) | testIgnored (n : Text.Bytes) | testFinished (n : Text.Bytes)
  | testFailed (t : TestInfo) (file : Text.Bytes) (line : Nat) (details : Text.Bytes)
deriving Inhabited

/-- `separate` = the run used `-p`: the test's own failures are reported by its child process, and the
    runner adds one more ("Failed in separate process", located at the test) when the child failed -/
def wantTest (separate : Bool) (t : Script) : List Want :=
  if t.info.willRun then
    let fs := scriptFailures t.info t.acts
    let extra := if separate && !fs.isEmpty then [(t.info.file, t.info.line, lit "Failed in separate process")] else []
    [.testStarted t.info.name] ++ (fs ++ extra).map (fun (f, l, m) => .testFailed t.info f l m) ++
      [.testFinished t.info.name]
  else [.testStarted t.info.name, .testIgnored t.info.name, .testFinished t.info.name]

def wantAll (separate : Bool) (flt : Option Filter) (scripts : List Script) : List Want :=
  (groupRuns scripts).flatMap fun (g, ts) =>
    [.suiteStarted g] ++ (ts.filter (fun t => shouldRun flt t.info)).flatMap (wantTest separate) ++ [.suiteFinished g]

/-- readable rendering of a byte string inside a one-line reason: printable ASCII as is, the rest as \xNN -/
def showB (b : Text.Bytes) : String :=
  "\"" ++ String.join (b.map fun c =>
    if c = 34 then "\\\"" else if c = 92 then "\\\\"
    else if 32 ≤ c ∧ c < 127 then String.singleton (Char.ofNat c.toNat)
    else "\\x" ++ Proto.hexByte c) ++ "\""

def endsWithB (a b : Text.Bytes) : Bool := Text.endsWith a b

def matchWant : Want → Msg → Option String
  | .suiteStarted n, .suiteStarted n' => if n = n' then none else some s!"suite start decodes to {showB n'}, original {showB n}"
  | .suiteFinished n, .suiteFinished n' => if n = n' then none else some s!"suite finish decodes to {showB n'}, original {showB n}"
  | .testStarted n, .testStarted n' => if n = n' then none else some s!"test start decodes to {showB n'}, original {showB n}"
  | .testIgnored n, .testIgnored n' => if n = n' then none else some s!"test ignored decodes to {showB n'}, original {showB n}"
  | .testFinished n, .testFinished n' _ => if n = n' then none else some s!"test finish decodes to {showB n'}, original {showB n}"
  | .testFailed t f l d, .testFailed n' m' d' =>
    if t.name ≠ n' then some s!"failure names test {showB n'}, the open test is {showB t.name}"
    else if d ≠ d' then some s!"failure details decode to {showB d'}, original {showB d}"
    else if !(endsWithB m' (f ++ [58] ++ dec l)) then some s!"failure location {showB m'} does not end with the original file:line {showB (f ++ [58] ++ dec l)}"
    else if (t.file != f || decide (l < t.line)) && !(Text.isInfix m' (t.file ++ [58] ++ dec t.line)) then
      some s!"failure location {showB m'} does not contain the original test file:line"
    else none
  | _, m => some s!"unexpected message {reprStr m}"

def matchAll : Nat → List Want → List Msg → Option String
  | _, [], [] => none
  | i, w :: ws, m :: ms =>
    match matchWant w m with
    | none => matchAll (i + 1) ws ms
    | some e => some s!"message #{i}: {e}"
  | i, [], m :: _ => some s!"message #{i}: more messages than the run has events, first extra {reprStr m}"
  | i, _ :: _, [] => some s!"message #{i}: stream ends early (a start without its finish, or a missing message)"

def isText : Msg → Bool
  | .text _ => true
  | _ => false

/-- a test prints text containing `#` (it could print a service message of its own): outside the
    quantifier of the property, which is about names, paths and failure messages -/
def printsHash (scripts : List Script) : Bool :=
  scripts.any fun t => t.acts.any fun a => match a with
    | .print f _ x => f.contains 35 || x.contains 35
    | _ => false

def specRun (reg : Reg) (out : Text.Bytes) : Option String :=
  if printsHash reg.scripts then none else
  match TeamCity.parse out with
  | .error e => some s!"stream does not parse as service messages: {e}"
  | .ok msgs =>
    let scripts := reg.scripts
    if scripts.any (fun t => t.info.group.isEmpty) then none      -- empty group names: outside the quantifier
    else if !(failuresInOpenTest none msgs) then
      some "a failure message does not belong to the currently open test (its name is not the name announced by testStarted, or no test is open)"
    else if !(balanced msgs) then some "messages are not balanced (suite/test start and finish do not pair up)"
    else matchAll 0 ((List.range reg.repeats).flatMap fun _ => wantAll reg.separate reg.filter scripts) (msgs.filter (fun m => !(isText m)))

def specAll (ops : List Proto.Op) : Option String :=
  let rec go (reg : Reg) (i : Nat) : List Proto.Op → Option String
    | [] => none
    | o :: rest =>
      match o.op with
      | ["run"] =>
        let outs := o.obs.filterMap fun l => match l with
          | ["out", h] => Proto.unhex? h
          | ["outp", h] => Proto.unhex? h       -- stream of a `-p` run (real I/O sub-mode)
          | _ => none
        match outs with
        | [out] =>
          match specRun reg out with
          | none => go reg (i + 1) rest
          | some e => some s!"op#{i} run: {e}"
        | _ => some s!"op#{i} run: no output captured"
      | w =>
        match applyOp reg w with
        | some r => go r (i + 1) rest
        | none => go reg (i + 1) rest
  go {} 0 ops

def main : IO Unit :=
  Proto.driverMain { init := ({} : DState), step := modelStep, spec := specAll }
