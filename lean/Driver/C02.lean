import CppUModel.Base.Proto
import CppUModel.Model.Registry
/-!
Driver for C02: replays harness traces through the registry model and judges the
implementation's observations with the property's specification oracle.  The oracle is written
independently of the model: its own naive substring test, its own reading of the filter
semantics, sorting for "is a permutation", a token automaton for "balanced".
Imports Base/Model/Gen only.
-/
open Registry

/-! ## model replay -/

structure DState where
  reg : Reg := Reg.empty

def idsLine (tag : String) (ids : List Nat) : String :=
  " ".intercalate (tag :: ids.map toString)

def natsOf (tag : String) (obs : List (List String)) : List Nat :=
  match obs.find? (fun l => l.head? == some tag) with
  | some (_ :: ws) => ws.filterMap String.toNat?
  | _ => []

def filterOf (flags : String) (hex : String) : Option Filter :=
  match flags.toNat?, Proto.unhex? hex with
  | some fl, some text => some { text := text, strict := fl % 2 == 1, invert := (fl / 2) % 2 == 1 }
  | _, _ => none

def execCounts (n : Nat) (evs : List Ev) : List Nat :=
  let arr := evs.foldl (fun (a : Array Nat) e => match e with
    | .exec i => if i < a.size then a.modify i (· + 1) else a
    | _ => a) (Array.replicate n 0)
  arr.toList

def modelStep (d : DState) (op : List String) (obs : List (List String)) : DState × List String :=
  let r := d.reg
  match op with
  | ["test", kind, g, n] =>
    match Proto.unhex? g, Proto.unhex? n with
    | some g, some n => ({ reg := r.addTest g n (kind == "i") }, [])
    | _, _ => (d, ["bad-op"])
  | "gfilter" :: flags :: hex :: _ =>
    match filterOf flags hex with
    | some f => ({ reg := { r with groupFilters := f :: r.groupFilters } }, [])
    | none => (d, ["bad-op"])
  | "nfilter" :: flags :: hex :: _ =>
    match filterOf flags hex with
    | some f => ({ reg := { r with nameFilters := f :: r.nameFilters } }, [])
    | none => (d, ["bad-op"])
  | ["cmdline"] => (d, [])          -- same filters, built by the real parser on the other side
  | ["runignored"] => ({ reg := { r with runIgnored := true } }, [])
  | ["reverse"] =>
    let r' := r.reverseTests
    ({ reg := r' }, [idsLine "from" r.order, idsLine "order" r'.order])
  | "shuffle" :: seed :: _ =>
    let rs := natsOf "rands" obs
    let n := r.order.length
    let used := rs.take (randsNeeded n)
    let r' := r.shuffleTests rs
    let sr := if n == 0 then [] else [s!"srand {(seed.toNat?.getD 0) % 4294967296}"]
    ({ reg := r' }, [idsLine "from" r.order] ++ sr ++ [idsLine "rands" used, idsLine "order" r'.order])
  | ["run"] =>
    let res := r.run
    let c := res.1
    (d, [" ".intercalate ("cb" :: res.2.map Ev.render),
         s!"counts {c.testCount} {c.runCount} {c.ignoredCount} {c.filteredOutCount}",
         idsLine "execs" (execCounts r.objs.size res.2)])
  | ["skip"] => (d, [])
  | _ => (d, ["bad-op"])

/-! ## specification oracle (implementation observations only) -/

structure STest where
  group   : List UInt8
  name    : List UInt8
  ignored : Bool

structure SFilter where
  text   : List UInt8
  strict : Bool
  invert : Bool

structure Shadow where
  tests      : Array STest := #[]
  gf         : List SFilter := []
  nf         : List SFilter := []
  runIgnored : Bool := false
  order      : Option (List Nat) := none     -- list order last shown by the implementation

/-- `p` occurs in `s` at some position -/
def naiveInfix (s p : List UInt8) : Bool :=
  (List.range (s.length + 1)).any fun i => (s.drop i).take p.length == p

/-- a filter accepts by substring, by exact match, or by the negation of either -/
def accepts (f : SFilter) (s : List UInt8) : Bool :=
  (if f.strict then s == f.text else naiveInfix s f.text) != f.invert

/-- accepted by at least one filter of the kind, when any are given -/
def kindAccepts (fs : List SFilter) (s : List UInt8) : Bool :=
  fs.isEmpty || fs.any (fun f => accepts f s)

def selected (sh : Shadow) (t : STest) : Bool :=
  kindAccepts sh.gf t.group && kindAccepts sh.nf t.name

def runs (sh : Shadow) (t : STest) : Bool := !t.ignored || sh.runIgnored

def sortNats (l : List Nat) : List Nat := (l.toArray.qsort (· < ·)).toList

def isPermOfRange (l : List Nat) (n : Nat) : Bool := sortNats l == List.range n

def lineOf (tag : String) (obs : List (List String)) : Except String (List Nat) :=
  match obs.find? (fun l => l.head? == some tag) with
  | some (_ :: ws) =>
    if ws.all (fun w => w.toNat?.isSome) then .ok (ws.filterMap String.toNat?)
    else if ws.contains "cycle" then
      .error s!"`{tag}`: following the next pointers never reaches the end of the list (a test was duplicated in the links)"
    else .error s!"malformed `{tag}` line"
  | _ => .error s!"no `{tag}` line"

inductive Ph
  | init | closed | opened | inTest (id : Nat) (ran : Bool) | done
deriving DecidableEq

def tokId (pre : String) (tok : String) : Option Nat :=
  if tok.startsWith pre then (tok.drop pre.length).toString.toNat? else none

/-- callbacks must read  S (gs (ts x? te)* ge)* E  -/
def cbStep (ph : Ph) (tok : String) : Except String Ph :=
  if tok == "S" then (if ph == .init then .ok .closed else .error "tests-started callback not first")
  else if tok == "E" then (if ph == .closed then .ok .done else .error "tests-ended callback while a group or test is open")
  else if tok == "ge" then (if ph == .opened then .ok .closed else .error "group-ended callback without an open group (or inside a test)")
  else if tok == "te" then
    match ph with
    | .inTest _ _ => .ok .opened
    | _ => .error "test-ended callback without a started test"
  else match tokId "gs" tok with
  | some _ => if ph == .closed then .ok .opened else .error "group-started callback while a group is already open"
  | none =>
    match tokId "ts" tok with
    | some i => if ph == .opened then .ok (.inTest i false) else .error s!"test {i} started outside an open group"
    | none =>
      match tokId "x" tok with
      | some i =>
        match ph with
        | .inTest j false => if i == j then .ok (.inTest j true) else .error s!"body of test {i} ran inside test {j}"
        | .inTest j true => .error s!"a second body ran inside test {j}"
        | _ => .error s!"body of test {i} ran outside started/ended"
      | none => .error s!"unknown callback token {tok}"

def cbCheck (toks : List String) : Except String Unit := do
  let mut ph := Ph.init
  for t in toks do
    ph ← cbStep ph t
  if ph != .done then throw "callback sequence does not end with tests-ended"

def specStep (sh : Shadow) (o : Proto.Op) : Except String Shadow := do
  let n := sh.tests.size
  match o.op with
  | ["test", kind, g, nm] =>
    let some g := Proto.unhex? g | throw "bad test op"
    let some nm := Proto.unhex? nm | throw "bad test op"
    return { sh with tests := sh.tests.push { group := g, name := nm, ignored := kind == "i" }, order := none }
  | "gfilter" :: flags :: hex :: _ =>
    let some fl := flags.toNat? | throw "bad filter op"
    let some text := Proto.unhex? hex | throw "bad filter op"
    return { sh with gf := { text := text, strict := fl % 2 == 1, invert := (fl / 2) % 2 == 1 } :: sh.gf }
  | "nfilter" :: flags :: hex :: _ =>
    let some fl := flags.toNat? | throw "bad filter op"
    let some text := Proto.unhex? hex | throw "bad filter op"
    return { sh with nf := { text := text, strict := fl % 2 == 1, invert := (fl / 2) % 2 == 1 } :: sh.nf }
  | ["cmdline"] => return sh
  | ["runignored"] => return { sh with runIgnored := true }
  | ["reverse"] =>
    let fr ← lineOf "from" o.obs
    let ord ← lineOf "order" o.obs
    if !isPermOfRange fr n then throw s!"before reverse the list does not hold every registered test exactly once"
    if let some prev := sh.order then
      if prev != fr then throw "list order changed without reverse/shuffle"
    if !isPermOfRange ord n then throw s!"reverse lost or duplicated a test ({ord.length} linked, {n} registered)"
    if ord != fr.reverse then throw "reverse did not produce the exact reverse order"
    return { sh with order := some ord }
  | "shuffle" :: _ =>
    let fr ← lineOf "from" o.obs
    let ord ← lineOf "order" o.obs
    if !isPermOfRange fr n then throw s!"before shuffle the list does not hold every registered test exactly once"
    if let some prev := sh.order then
      if prev != fr then throw "list order changed without reverse/shuffle"
    if !isPermOfRange ord n then throw s!"shuffle lost or duplicated a test ({ord.length} linked, {n} registered)"
    return { sh with order := some ord }
  | ["run"] =>
    if o.obs.any (fun l => l == ["list-cycle"]) then
      throw "the linked list of tests is cyclic: runAllTests would never end (a test was duplicated)"
    let some cb := o.obs.find? (fun l => l.head? == some "cb") | throw "no callback line"
    let toks := cb.drop 1
    match cbCheck toks with
    | .error e => throw s!"group/test notifications not balanced: {e}"
    | .ok _ => pure ()
    let started := toks.filterMap (tokId "ts")
    let executed := toks.filterMap (tokId "x")
    let ids := List.range n
    let sel := ids.filter fun i => match sh.tests[i]? with | some t => selected sh t | none => false
    let selRun := ids.filter fun i => match sh.tests[i]? with | some t => selected sh t && runs sh t | none => false
    let selIgn := ids.filter fun i => match sh.tests[i]? with | some t => selected sh t && !runs sh t | none => false
    -- each test executed exactly once iff selected (and not an ignored test), else not at all
    let execs ← lineOf "execs" o.obs
    if execs.length != n then throw "execution counters missing"
    for i in ids do
      let want := if selRun.contains i then 1 else 0
      let got := execs.getD i 0
      if got != want then
        throw s!"test {i} executed {got} times, expected {want} (selected={sel.contains i})"
    if sortNats started != sel then
      throw s!"started tests are not exactly the selected tests, each once"
    if sortNats executed != selRun then
      throw s!"executed tests are not exactly the selected non-ignored tests, each once"
    if let some ord := sh.order then
      if started != ord.filter (fun i => sel.contains i) then throw "tests did not start in list order"
    -- counters
    let [tc, rc, ic, fc] ← lineOf "counts" o.obs | throw "malformed counts line"
    if tc != n then throw s!"test count {tc}, {n} registered"
    if rc + ic + fc != n then throw s!"run {rc} + ignored {ic} + filtered out {fc} does not sum to {n} registered tests"
    if rc != selRun.length then throw s!"run count {rc}, {selRun.length} tests were selected to run"
    if ic != selIgn.length then throw s!"ignored count {ic}, {selIgn.length} selected tests are ignored tests"
    if fc != n - sel.length then throw s!"filtered-out count {fc}, {n - sel.length} tests are not selected"
    return sh
  | ["skip"] => return sh
  | _ => throw "bad-op"

def specAll (ops : List Proto.Op) : Option String :=
  let rec go (sh : Shadow) (i : Nat) : List Proto.Op → Option String
    | [] => none
    | o :: rest =>
      match specStep sh o with
      | .ok sh' => go sh' (i+1) rest
      | .error e => some s!"op#{i} {" ".intercalate (o.op.take 2)}: {e}"
  go {} 0 ops

def main : IO Unit :=
  Proto.driverMain { init := ({} : DState), step := modelStep, spec := specAll }
