import CppUModel.Base.Proto
import CppUModel.Model.Registry
import CppUModel.Model.RegistryGen
import CppUModel.Model.OrderedTest
/-!
Driver for C02: replays harness traces through the registry model and judges the
implementation's observations with the property's specification oracle.  The oracle is written
independently of the model: its own naive substring test, its own reading of the filter
semantics, sorting for "is a permutation", a token automaton for "balanced", its own
duplicate removal and joining for the list modes.
Imports Base/Model/Gen only.
-/
open Registry

/-! ## model replay -/

structure DState where
  reg   : Reg := Reg.empty
  -- static state of OrderedTest.cpp (`_orderedTestsHead`, `_nextOrderedTest`, `_level`)
  ohead : Option Nat := none
  onext : Next := fun _ => none
  level : Nat → Int := fun _ => 0
  reordered : Bool := false      -- the harness skips `otest` once the list was reordered / un-registered from

def idsLine (tag : String) (ids : List Nat) : String :=
  " ".intercalate (tag :: ids.map toString)

def natsOf (tag : String) (obs : List (List String)) : List Nat :=
  match obs.find? (fun l => l.head? == some tag) with
  | some (_ :: ws) => ws.filterMap String.toNat?
  | _ => []

def filterOf (flags : String) (hex : String) : Option Filter :=
  match flags.toNat?, Proto.unhex? hex with
  | some fl, some text => some { text := text, strict := fl % 2 == 1, invert := (fl / 2) % 2 == 1 }
  | _, _ => none

def execCounts (n : Nat) (evs : List Ev) : List Nat :=
  let arr := evs.foldl (fun (a : Array Nat) e => match e with
    | .exec i => if i < a.size then a.modify i (· + 1) else a
    | _ => a) (Array.replicate n 0)
  arr.toList

def countsLine (c : Counters) : String :=
  s!"counts {c.testCount} {c.runCount} {c.ignoredCount} {c.filteredOutCount}"

def foundLine (o : Option Nat) : String :=
  match o with
  | some i => s!"found {i}"
  | none => "found none"

/-- the harness gives every shell the file name `scripted.cpp` and the line `id + 1` -/
def scriptedFile : Text.Bytes := ofAscii "scripted.cpp"

def fieldOf (key : String) (ws : List String) : Option String :=
  (ws.find? (fun w => w.startsWith (key ++ "="))).map (fun w => (w.drop (key.length + 1)).toString)

def listModeOf (s : Option String) : ListMode :=
  match s with
  | some "lg" => .groups
  | some "ln" => .names
  | some "ll" => .locations
  | _ => .none

/-- the runner's output as tokens: adjacent texts are one `T<hex>` token -/
def streamTokens (out : List ROut) : List String :=
  let rec go (pending : Text.Bytes) : List ROut → List String
    | [] => if pending.isEmpty then [] else ["T" ++ Proto.hex pending]
    | .text b :: rest => go (pending ++ b) rest
    | .run _ evs :: rest =>
      (if pending.isEmpty then [] else ["T" ++ Proto.hex pending]) ++ evs.map Ev.render ++ go [] rest
  go [] out

def runsOfOut (out : List ROut) : List (Counters × List Ev) :=
  out.filterMap (fun o => match o with | .run c e => some (c, e) | _ => none)

def repLines (n : Nat) (runs : List (Counters × List Ev)) : List String :=
  let rec go (k : Nat) : List (Counters × List Ev) → List String
    | [] => []
    | (c, evs) :: rest =>
      [s!"rep {k} " ++ countsLine c, s!"rep {k} " ++ idsLine "execs" (execCounts n evs)] ++ go (k + 1) rest
  go 1 runs

def modelStep (d : DState) (op : List String) (obs : List (List String)) : DState × List String :=
  let r := d.reg
  match op with
  | ["test", kind, g, n] =>
    match Proto.unhex? g, Proto.unhex? n with
    | some g, some n => ({ d with reg := r.addTest g n (kind == "i") scriptedFile (r.objs.size + 1) }, [])
    | _, _ => (d, ["bad-op"])
  | ["otest", lvl, g, n] =>
    -- TEST_ORDERED: the real OrderedTestInstaller; model = Model/OrderedTest.lean
    if d.reordered then (d, ["bad-op"]) else
    match lvl.toInt?, Proto.unhex? g, Proto.unhex? n with
    | some lvl, some g, some n =>
      let o : OReg := { reg := r, ohead := d.ohead, onext := d.onext, level := d.level }
      let o' := o.install lvl g n scriptedFile (r.objs.size + 1)
      ({ d with reg := o'.reg, ohead := o'.ohead, onext := o'.onext, level := o'.level },
       [idsLine "order" o'.reg.order, idsLine "ochain" o'.chain])
    | _, _, _ => (d, ["bad-op"])
  | "gfilter" :: flags :: hex :: _ =>
    match filterOf flags hex with
    | some f => ({ d with reg := { r with groupFilters := f :: r.groupFilters } }, [])
    | none => (d, ["bad-op"])
  | "nfilter" :: flags :: hex :: _ =>
    match filterOf flags hex with
    | some f => ({ d with reg := { r with nameFilters := f :: r.nameFilters } }, [])
    | none => (d, ["bad-op"])
  | "tfilter" :: flags :: g :: n :: _ =>       -- -t / -st / -xt / -xst <group>.<name>: one filter of each kind
    match filterOf flags g, filterOf flags n with
    | some fg, some fn =>
      ({ d with reg := { r with groupFilters := fg :: r.groupFilters, nameFilters := fn :: r.nameFilters } }, [])
    | _, _ => (d, ["bad-op"])
  | "vfilter" :: _ :: g :: n :: _ =>           -- "TEST(group, name)": strict group and strict name filter
    match filterOf "1" g, filterOf "1" n with
    | some fg, some fn =>
      ({ d with reg := { r with groupFilters := fg :: r.groupFilters, nameFilters := fn :: r.nameFilters } }, [])
    | _, _ => (d, ["bad-op"])
  | ["cmdline"] => (d, [])          -- same filters, built by the real parser on the other side
  | ["runignored"] => ({ d with reg := { r with runIgnored := true } }, [])
  | ["reverse"] =>
    -- `TestRegistry::reverseTests` through the REGENERATED `UtestShellPointerArray::reverse`
    match r.reverseTestsGen with
    | some g => ({ d with reg := g.reg, reordered := true }, [idsLine "from" r.order, idsLine "order" g.reg.order])
    | none => (d, [idsLine "from" r.order, "regenerated-reverse-out-of-fuel"])
  | "shuffle" :: seed :: _ =>
    -- `TestRegistry::shuffleTests` through the REGENERATED `UtestShellPointerArray::shuffle`
    let rs := natsOf "rands" obs
    match r.shuffleTestsGen (seed.toNat?.getD 0) rs with
    | some g =>
      ({ d with reg := g.reg, reordered := true }, [idsLine "from" r.order] ++ g.srands.map (fun x => s!"srand {x}") ++
        [idsLine "rands" (rs.take (rs.length - g.rest.length)), idsLine "order" g.reg.order])
    | none => (d, [idsLine "from" r.order, "regenerated-shuffle-out-of-fuel"])
  | ["run"] =>
    let res := r.run
    ({ d with reg := r.afterRun },
     [" ".intercalate ("cb" :: res.2.map Ev.render), countsLine res.1,
      idsLine "execs" (execCounts r.objs.size res.2)])
  | ["undo"] =>
    let r' := r.unDoLastAddTest
    ({ d with reg := r', reordered := true }, [idsLine "from" r.order, idsLine "order" r'.order])
  | ["find", "name", hex] =>
    match Proto.unhex? hex with
    | some t => (d, [idsLine "order" r.order, foundLine (findTestWithName t r.tests)])
    | none => (d, ["bad-op"])
  | ["find", "group", hex] =>
    match Proto.unhex? hex with
    | some t => (d, [idsLine "order" r.order, foundLine (findTestWithGroup t r.tests)])
    | none => (d, ["bad-op"])
  | ["count"] => (d, [idsLine "order" r.order, s!"count {countTestsList r.tests}"])
  | ["prev", x] =>
    let target := if x == "null" then none else x.toNat?
    (d, [idsLine "order" r.order, foundLine (getTestWithNext target r.tests)])
  | ["shellri", i] =>
    match i.toNat? with
    | some i => ({ d with reg := r.shellSetRunIgnored i }, [])
    | none => (d, ["bad-op"])
  | ["willrun"] =>
    (d, [" ".intercalate ("willrun" :: r.objs.toList.map (fun t => if t.willRun then "1" else "0"))])
  | ["list", mode] =>
    let zeros := idsLine "execs" (List.replicate r.objs.size 0)
    match mode with
    | "lg" => (d, [idsLine "order" r.order, "text " ++ Proto.hex (listTestGroupNames r.tests), countsLine {}, zeros])
    | "ln" =>
      let res := listTestGroupAndCaseNames r.cfg r.tests
      (d, [idsLine "order" r.order, "text " ++ Proto.hex res.1, countsLine res.2, zeros])
    | "ll" => (d, [idsLine "order" r.order, "text " ++ Proto.hex (listTestLocations r.tests), countsLine {}, zeros])
    | _ => (d, ["bad-op"])
  | "runner" :: ws =>
    let rep := ((fieldOf "rep" ws).bind String.toNat?).getD 0
    let seed := (fieldOf "seed" ws).bind String.toNat?
    let a : RunnerArgs :=
      { groupFilters := r.groupFilters, nameFilters := r.nameFilters, runIgnored := r.runIgnored,
        reversing := fieldOf "rev" ws == some "1", shuffleSeed := seed,
        repeatCount := if rep == 0 then 1 else rep, listMode := listModeOf (fieldOf "list" ws) }
    let rs := natsOf "rands" obs
    let n := r.order.length
    let res := runnerRunAllTests a r rs
    let runs := runsOfOut res.2.1
    let shuffles := if seed.isSome && a.listMode == .none then a.repeatCount else 0
    let srands := if n == 0 then [] else List.replicate shuffles ((seed.getD 0) % 4294967296)
    ({ d with reg := res.1, reordered := true },
     [idsLine "from" r.order, s!"ret {res.2.2}", idsLine "srands" srands,
      idsLine "rands" (rs.take (shuffles * randsNeeded n)),
      " ".intercalate ("stream" :: streamTokens res.2.1)] ++ repLines r.objs.size runs ++
     [idsLine "order" res.1.order])
  | ["skip"] => (d, [])
  | _ => (d, ["bad-op"])

/-! ## specification oracle (implementation observations only) -/

structure STest where
  group   : List UInt8
  name    : List UInt8
  ignored : Bool

structure SFilter where
  text   : List UInt8
  strict : Bool
  invert : Bool

structure Shadow where
  tests      : Array STest := #[]           -- every shell ever created
  flags      : Array Bool := #[]            -- shell told to run although ignored
  members    : List Nat := []               -- shells currently registered (sorted)
  gf         : List SFilter := []
  nf         : List SFilter := []
  runIgnored : Bool := false
  order      : Option (List Nat) := none     -- list order last shown by the implementation
  levels     : List (Nat × Int) := []        -- TEST_ORDERED shells: (id, level), in registration order

/-- `p` occurs in `s` at some position -/
def naiveInfix (s p : List UInt8) : Bool :=
  (List.range (s.length + 1)).any fun i => (s.drop i).take p.length == p

/-- a filter accepts by substring, by exact match, or by the negation of either -/
def accepts (f : SFilter) (s : List UInt8) : Bool :=
  (if f.strict then s == f.text else naiveInfix s f.text) != f.invert

/-- accepted by at least one filter of the kind, when any are given -/
def kindAccepts (fs : List SFilter) (s : List UInt8) : Bool :=
  fs.isEmpty || fs.any (fun f => accepts f s)

def selected (sh : Shadow) (t : STest) : Bool :=
  kindAccepts sh.gf t.group && kindAccepts sh.nf t.name

def selectedId (sh : Shadow) (i : Nat) : Bool :=
  match sh.tests[i]? with
  | some t => selected sh t
  | none => false

/-- the body of a selected test runs: plain test, registry runs ignored tests, or the shell was told to -/
def runsId (sh : Shadow) (i : Nat) : Bool :=
  match sh.tests[i]? with
  | some t => !t.ignored || sh.runIgnored || sh.flags.getD i false
  | none => false

def sortNats (l : List Nat) : List Nat := (l.toArray.qsort (· < ·)).toList

def lineOf (tag : String) (obs : List (List String)) : Except String (List Nat) :=
  match obs.find? (fun l => l.head? == some tag) with
  | some (_ :: ws) =>
    if ws.all (fun w => w.toNat?.isSome) then .ok (ws.filterMap String.toNat?)
    else if ws.contains "cycle" then
      .error s!"`{tag}`: following the next pointers never reaches the end of the list (a test was duplicated in the links)"
    else .error s!"malformed `{tag}` line"
  | _ => .error s!"no `{tag}` line"

inductive Ph
  | init | closed | opened | inTest (id : Nat) (ran : Bool) | done
deriving DecidableEq

def tokId (pre : String) (tok : String) : Option Nat :=
  if tok.startsWith pre then (tok.drop pre.length).toString.toNat? else none

/-- callbacks must read  S (gs (ts x? te)* ge)* E  -/
def cbStep (ph : Ph) (tok : String) : Except String Ph :=
  if tok == "S" then (if ph == .init then .ok .closed else .error "tests-started callback not first")
  else if tok == "E" then (if ph == .closed then .ok .done else .error "tests-ended callback while a group or test is open")
  else if tok == "ge" then (if ph == .opened then .ok .closed else .error "group-ended callback without an open group (or inside a test)")
  else if tok == "te" then
    match ph with
    | .inTest _ _ => .ok .opened
    | _ => .error "test-ended callback without a started test"
  else match tokId "gs" tok with
  | some _ => if ph == .closed then .ok .opened else .error "group-started callback while a group is already open"
  | none =>
    match tokId "ts" tok with
    | some i => if ph == .opened then .ok (.inTest i false) else .error s!"test {i} started outside an open group"
    | none =>
      match tokId "x" tok with
      | some i =>
        match ph with
        | .inTest j false => if i == j then .ok (.inTest j true) else .error s!"body of test {i} ran inside test {j}"
        | .inTest j true => .error s!"a second body ran inside test {j}"
        | _ => .error s!"body of test {i} ran outside started/ended"
      | none => .error s!"unknown callback token {tok}"

def cbCheck (toks : List String) : Except String Unit := do
  let mut ph := Ph.init
  for t in toks do
    ph ← cbStep ph t
  if ph != .done then throw "callback sequence does not end with tests-ended"

/-- the implementation's `from`/`order` line must hold exactly the registered shells, and agree
    with the order it showed last -/
def checkMembers (sh : Shadow) (what : String) (l : List Nat) : Except String Unit := do
  if sortNats l != sh.members then
    throw s!"{what}: the list does not hold every registered test exactly once ({l.length} linked, {sh.members.length} registered)"
  if let some prev := sh.order then
    if prev != l then throw s!"{what}: list order changed without reverse/shuffle"

/-- one `runAllTests`: callbacks `toks`, counters, per-shell execution counters.
    `ord` = the list order during the run when the oracle knows it. -/
def checkRun (sh : Shadow) (ord : Option (List Nat)) (toks : List String) (counts execs : List Nat) :
    Except String Unit := do
  match cbCheck toks with
  | .error e => throw s!"group/test notifications not balanced: {e}"
  | .ok _ => pure ()
  let started := toks.filterMap (tokId "ts")
  let executed := toks.filterMap (tokId "x")
  let ids := sh.members
  let n := ids.length
  let sel := ids.filter (selectedId sh)
  let selRun := ids.filter fun i => selectedId sh i && runsId sh i
  let selIgn := ids.filter fun i => selectedId sh i && !runsId sh i
  -- each test executed exactly once iff selected (and not an ignored test), else not at all
  if execs.length != sh.tests.size then throw "execution counters missing"
  for i in List.range sh.tests.size do
    let want := if selRun.contains i then 1 else 0
    let got := execs.getD i 0
    if got != want then
      throw s!"test {i} executed {got} times, expected {want} (registered={ids.contains i} selected={sel.contains i})"
  if sortNats started != sel then
    throw s!"started tests are not exactly the selected tests, each once"
  if sortNats executed != selRun then
    throw s!"executed tests are not exactly the selected non-ignored tests, each once"
  if let some ord := ord then
    if started != ord.filter (fun i => sel.contains i) then throw "tests did not start in list order"
  let [tc, rc, ic, fc] := counts | throw "malformed counts line"
  if tc != n then throw s!"test count {tc}, {n} registered"
  if rc + ic + fc != n then throw s!"run {rc} + ignored {ic} + filtered out {fc} does not sum to {n} registered tests"
  if rc != selRun.length then throw s!"run count {rc}, {selRun.length} tests were selected to run"
  if ic != selIgn.length then throw s!"ignored count {ic}, {selIgn.length} selected tests are ignored tests"
  if fc != n - sel.length then throw s!"filtered-out count {fc}, {n - sel.length} tests are not selected"

/-- what a run leaves in the shells: with run-ignored on, every registered ignored shell will run from now on -/
def afterRunShadow (sh : Shadow) : Shadow :=
  if sh.runIgnored then
    { sh with flags := sh.members.foldl (fun fl i =>
        match sh.tests[i]? with
        | some t => if t.ignored then fl.setIfInBounds i true else fl
        | none => fl) sh.flags }
  else sh

def dedupKeepFirst (l : List (List UInt8)) : List (List UInt8) :=
  l.foldl (fun acc x => if acc.contains x then acc else acc ++ [x]) []

def joinSpaces (l : List (List UInt8)) : List UInt8 :=
  match l with
  | [] => []
  | x :: xs => xs.foldl (fun acc y => acc ++ [32] ++ y) x

def decBytes (n : Nat) : List UInt8 := (toString n).toList.map (fun c => UInt8.ofNat c.toNat)

/-- documented output of a list mode for list order `ord`; `none` when the names are outside
    what the `#`-delimited bookkeeping of the implementation is documented for -/
def expectedListing (sh : Shadow) (mode : String) (ord : List Nat) : Option (List UInt8) :=
  let ts := ord.filterMap (fun i => (sh.tests[i]?).map (fun t => (i, t)))
  if mode == "lg" then
    let gs := ts.map (fun p => p.2.group)
    if gs.any (fun g => g.contains 35 || g == [32]) then none
    else some (joinSpaces (dedupKeepFirst gs))
  else if mode == "ln" then
    let es := (ts.filter (fun p => selected sh p.2)).map (fun p => p.2.group ++ [46] ++ p.2.name)
    if es.any (fun e => e.contains 35) then none
    else some (joinSpaces (dedupKeepFirst es))
  else
    some (ts.foldl (fun acc p =>
      acc ++ p.2.group ++ [46] ++ p.2.name ++ [46] ++ "scripted.cpp".toUTF8.toList ++ [46] ++ decBytes (p.1 + 1) ++ [10]) [])

def parseFilter (flags hex : String) : Except String SFilter := do
  let some fl := flags.toNat? | throw "bad filter op"
  let some text := Proto.unhex? hex | throw "bad filter op"
  return { text := text, strict := fl % 2 == 1, invert := (fl / 2) % 2 == 1 }

/-- split a runner stream into printed text and the token lists of the runs (`S … E`) -/
def splitStream (toks : List String) : List UInt8 × List (List String) :=
  let rec go (text : List UInt8) (cur : Option (List String)) (runs : List (List String)) :
      List String → List UInt8 × List (List String)
    | [] => (text, (match cur with | some c => runs ++ [c] | none => runs))
    | t :: rest =>
      if t.startsWith "T" && cur.isNone then
        go (text ++ ((Proto.unhex? (t.drop 1).toString).getD [])) cur runs rest
      else if t == "S" then
        go text (some ["S"]) (match cur with | some c => runs ++ [c] | none => runs) rest
      else if t == "E" then
        go text none (runs ++ [(cur.getD []) ++ ["E"]]) rest
      else go text (some ((cur.getD []) ++ [t])) runs rest
  go [] none [] toks

def specStep (sh : Shadow) (o : Proto.Op) : Except String Shadow := do
  match o.op with
  | ["test", kind, g, nm] =>
    let some g := Proto.unhex? g | throw "bad test op"
    let some nm := Proto.unhex? nm | throw "bad test op"
    return { sh with tests := sh.tests.push { group := g, name := nm, ignored := kind == "i" },
                     flags := sh.flags.push false,
                     members := sh.members ++ [sh.tests.size], order := none }
  | ["otest", lvl, g, nm] =>
    -- TEST_ORDERED(group, name, level): the test is registered like any other (it must run exactly once per
    -- repetition), no other test is lost, duplicated or moved relative to the others, and the ordered tests
    -- stand in the list in the order of their levels
    let some g := Proto.unhex? g | throw "bad otest op"
    let some nm := Proto.unhex? nm | throw "bad otest op"
    let some lvl := lvl.toInt? | throw "bad otest op"
    let ord ← lineOf "order" o.obs
    let id := sh.tests.size
    let members := sh.members ++ [id]
    if sortNats ord != members then
      throw s!"registering an ordered test lost or duplicated a test ({ord.length} linked, {members.length} registered)"
    if let some prev := sh.order then
      if ord.filter (· != id) != prev then throw "registering an ordered test moved or dropped other tests"
    let levels := sh.levels ++ [(id, lvl)]
    let inList := ord.filterMap (fun i => (levels.find? (fun p => p.1 == i)).map (·.2))
    if !(inList.zip (inList.drop 1)).all (fun p => decide (p.1 ≤ p.2)) then
      throw s!"ordered tests are not in the list in the order of their levels: {inList}"
    return { sh with tests := sh.tests.push { group := g, name := nm, ignored := false },
                     flags := sh.flags.push false, members := members, order := some ord, levels := levels }
  | "gfilter" :: flags :: hex :: _ =>
    let f ← parseFilter flags hex
    return { sh with gf := f :: sh.gf }
  | "nfilter" :: flags :: hex :: _ =>
    let f ← parseFilter flags hex
    return { sh with nf := f :: sh.nf }
  | "tfilter" :: flags :: g :: n :: _ =>
    -- documented: -t <group>.<name> = group contains <group> AND name contains <name>; -st exact; -xt / -xst negated
    let fg ← parseFilter flags g
    let fn ← parseFilter flags n
    return { sh with gf := fg :: sh.gf, nf := fn :: sh.nf }
  | "vfilter" :: _ :: g :: n :: _ =>
    -- documented: "TEST(group, name)" as printed by -v selects exactly that group and that name
    let fg ← parseFilter "1" g
    let fn ← parseFilter "1" n
    return { sh with gf := fg :: sh.gf, nf := fn :: sh.nf }
  | ["cmdline"] => return sh
  | ["runignored"] => return { sh with runIgnored := true }
  | ["reverse"] =>
    let fr ← lineOf "from" o.obs
    let ord ← lineOf "order" o.obs
    checkMembers sh "before reverse" fr
    if sortNats ord != sh.members then throw s!"reverse lost or duplicated a test ({ord.length} linked, {sh.members.length} registered)"
    if ord != fr.reverse then throw "reverse did not produce the exact reverse order"
    return { sh with order := some ord }
  | "shuffle" :: _ =>
    let fr ← lineOf "from" o.obs
    let ord ← lineOf "order" o.obs
    checkMembers sh "before shuffle" fr
    if sortNats ord != sh.members then throw s!"shuffle lost or duplicated a test ({ord.length} linked, {sh.members.length} registered)"
    return { sh with order := some ord }
  | ["run"] =>
    if o.obs.any (fun l => l == ["list-cycle"]) then
      throw "the linked list of tests is cyclic: runAllTests would never end (a test was duplicated)"
    let some cb := o.obs.find? (fun l => l.head? == some "cb") | throw "no callback line"
    let counts ← lineOf "counts" o.obs
    let execs ← lineOf "execs" o.obs
    checkRun sh sh.order (cb.drop 1) counts execs
    return afterRunShadow sh
  | ["undo"] =>
    let fr ← lineOf "from" o.obs
    let ord ← lineOf "order" o.obs
    checkMembers sh "before unDoLastAddTest" fr
    if ord != fr.drop 1 then throw "unDoLastAddTest did not remove exactly the first test of the list"
    return { sh with order := some ord, members := sortNats ord }
  | ["find", what, hex] =>
    let some text := Proto.unhex? hex | throw "bad find op"
    let ord ← lineOf "order" o.obs
    checkMembers sh "find" ord
    let want := ord.find? fun i =>
      match sh.tests[i]? with
      | some t => (if what == "name" then t.name else t.group) == text
      | none => false
    let got := match o.obs.find? (fun l => l.head? == some "found") with
      | some [_, x] => x.toNat?
      | _ => none
    if got != want then throw s!"findTestWith{what} returned {got}, the first match in list order is {want}"
    return { sh with order := some ord }
  | ["count"] =>
    let ord ← lineOf "order" o.obs
    checkMembers sh "countTests" ord
    let [c] ← lineOf "count" o.obs | throw "malformed count line"
    if c != sh.members.length then throw s!"countTests() = {c}, {sh.members.length} tests are registered"
    return { sh with order := some ord }
  | ["prev", x] =>
    let ord ← lineOf "order" o.obs
    checkMembers sh "getTestWithNext" ord
    let want : Option Nat :=
      if x == "null" then ord.getLast?
      else match x.toNat? with
        | some i =>
          match ord.idxOf? i with
          | some (k + 1) => ord[k]?
          | _ => none
        | none => none
    let got := match o.obs.find? (fun l => l.head? == some "found") with
      | some [_, y] => y.toNat?
      | _ => none
    if got != want then throw s!"getTestWithNext({x}) returned {got}, the predecessor in the list is {want}"
    return { sh with order := some ord }
  | ["shellri", i] =>
    let some i := i.toNat? | throw "bad shellri op"
    match sh.tests[i]? with
    | some t => return (if t.ignored then { sh with flags := sh.flags.setIfInBounds i true } else sh)
    | none => return sh
  | ["willrun"] =>
    let got ← lineOf "willrun" o.obs
    if got.length != sh.tests.size then throw "willrun line has the wrong length"
    for i in List.range sh.tests.size do
      let want := match sh.tests[i]? with
        | some t => if !t.ignored || sh.flags.getD i false then 1 else 0
        | none => 0
      if got.getD i 0 != want then throw s!"willRun() of shell {i} is {got.getD i 0}, expected {want}"
    return sh
  | ["list", mode] =>
    let ord ← lineOf "order" o.obs
    checkMembers sh "list" ord
    if o.obs.any (fun l => l.head? == some "cb") then throw s!"list mode {mode} issued test/group notifications"
    let execs ← lineOf "execs" o.obs
    if execs.any (· != 0) then throw s!"list mode {mode} ran a test"
    let counts ← lineOf "counts" o.obs
    let unsel := (ord.filter (fun i => !selectedId sh i)).length
    let wantCounts := if mode == "ln" then [0, 0, 0, unsel] else [0, 0, 0, 0]
    if counts != wantCounts then throw s!"list mode {mode} left counters {counts}, expected {wantCounts}"
    let some [_, hex] := o.obs.find? (fun l => l.head? == some "text") | throw "no text line"
    let some text := Proto.unhex? hex | throw "malformed text line"
    match expectedListing sh mode ord with
    | some want =>
      if text != want then
        throw s!"list mode {mode} printed `{Text.toStringLossy text}`, documented: `{Text.toStringLossy want}`"
    | none => pure ()
    return { sh with order := some ord }
  | "runner" :: ws =>
    let fr ← lineOf "from" o.obs
    let ord ← lineOf "order" o.obs
    checkMembers sh "before the runner" fr
    if sortNats ord != sh.members then
      throw s!"the runner lost or duplicated a test ({ord.length} linked, {sh.members.length} registered)"
    let rep := ((fieldOf "rep" ws).bind String.toNat?).getD 0
    let reps := if rep == 0 then 1 else rep
    let shuffling := ((fieldOf "seed" ws).bind String.toNat?).isSome
    let rev := fieldOf "rev" ws == some "1"
    let mode := (fieldOf "list" ws).getD "none"
    let some stream := o.obs.find? (fun l => l.head? == some "stream") | throw "no stream line"
    let (text, runs) := splitStream (stream.drop 1)
    let [ret] ← lineOf "ret" o.obs | throw "malformed ret line"
    let repObs := o.obs.filter (fun l => l.head? == some "rep")
    if mode != "none" then
      -- list modes: nothing runs, nothing is reordered, the listing is the documented one
      if !runs.isEmpty || !repObs.isEmpty then throw s!"list mode -{mode} ran tests"
      if ord != fr then throw s!"list mode -{mode} reordered the tests"
      if ret != 0 then throw s!"list mode -{mode} returned {ret}"
      match expectedListing sh mode fr with
      | some want =>
        if text != want then
          throw s!"-{mode} printed `{Text.toStringLossy text}`, documented: `{Text.toStringLossy want}`"
      | none => pure ()
      return { sh with order := some ord }
    if runs.length != reps then throw s!"{runs.length} repetitions ran, -r asked for {reps}"
    let start := if rev then fr.reverse else fr
    let mut cur := sh
    let mut k := 1
    for toks in runs do
      let counts := match repObs.find? (fun l => l.take 3 == ["rep", toString k, "counts"]) with
        | some l => (l.drop 3).filterMap String.toNat?
        | none => []
      let execs := match repObs.find? (fun l => l.take 3 == ["rep", toString k, "execs"]) with
        | some l => (l.drop 3).filterMap String.toNat?
        | none => []
      match checkRun cur (if shuffling then none else some start) toks counts execs with
      | .error e => throw s!"repetition {k} of {reps}: {e}"
      | .ok _ => pure ()
      cur := afterRunShadow cur
      k := k + 1
    if !shuffling && ord != start then throw "the runner reordered the tests although no shuffle was asked for"
    let ranNothing := (sh.members.filter (selectedId sh)).isEmpty
    let wantRet := if ranNothing then reps else 0
    if ret != wantRet then throw s!"runner returned {ret}, expected {wantRet}"
    return { cur with order := some ord }
  | ["skip"] => return sh
  | _ => throw "bad-op"

def specAll (ops : List Proto.Op) : Option String :=
  let rec go (sh : Shadow) (i : Nat) : List Proto.Op → Option String
    | [] => none
    | o :: rest =>
      match specStep sh o with
      | .ok sh' => go sh' (i+1) rest
      | .error e => some s!"op#{i} {" ".intercalate (o.op.take 2)}: {e}"
  go {} 0 ops

def main : IO Unit :=
  Proto.driverMain { init := ({} : DState), step := modelStep, spec := specAll }
