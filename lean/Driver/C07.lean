import CppUModel.Base.Proto
import CppUModel.Model.LeakPluginChain
/-!
Driver for C07: replays the harness trace through the plugin/detector/runner model and judges
the implementation's observations with the property's specification oracle.  The oracle works
on the HISTORY only (which commands the implementation executed, in which test) with a shadow
set of outstanding blocks; it does not use the model.  Imports Base/Model/Gen only.
-/
open LeakPlugin

/-! ## model replay -/

structure DState where
  w        : World := World.init true
  global   : Bool := false
  phase    : Option Phase := none       -- phase of the last command of the running test
  inTest   : Bool := false              -- between `pre` and `post`
  f0       : Nat := 0                   -- failure count when the test started
  first    : FirstPlugin := (Proc.init true).first   -- who firstPlugin_ points to
  separate : Bool := false              -- the running test runs in a forked child
  parent   : World := World.init true   -- separate: the parent's state while the child runs
  chain    : List (Nat × Bool) := [(0, true)]   -- the plugin chain, head first: 0 = the leak plugin, k = scripted plugin k; enabled
  fPre     : Nat := 0                   -- failure count at the leak plugin's pre action
  forked   : Bool := false              -- the first pre action of this test has begun (separate: the child exists)
  ran      : Nat := 0                   -- tests run so far
deriving Inhabited

/-- `plugins <installation order>`: every plugin is installed with the regenerated `installPlugin` -/
def chainOf (toks : List String) : List (Nat × Bool) :=
  let ids := toks.filterMap fun t => if t == "L" then some 0 else t.toNat?
  let ids := if ids.contains 0 then ids else ids ++ [0]
  ids.foldl (fun c k => installPlugin c (k, true)) []

def actLabel (which : String) (k : Nat) : String := if k == 0 then "L" else s!"{which}{k}"

/-- the order in which the model's chain walk performs the pre / post actions of the enabled plugins -/
def orderLine (chain : List (Nat × Bool)) : String :=
  let pre := (preOrderOf (fun p : Nat × Bool => p.2) chain).map (fun p => actLabel "p" p.1)
  let post := (postOrderOf (fun p : Nat × Bool => p.2) chain).map (fun p => actLabel "q" p.1)
  " ".intercalate (["order"] ++ pre ++ ["/"] ++ post)


def phaseOf? : String → Option Phase
  | "s" => some .setup | "b" => some .body | "t" => some .teardown | _ => none

def phasesAfter : Option Phase → List Phase
  | none => [.setup, .body, .teardown]
  | some .setup => [.body, .teardown]
  | some .body => [.teardown]
  | some .teardown => []

/-- enter every phase after `cur` up to and including `ph` -/
def enterUpTo (w : World) (cur : Option Phase) (ph : Phase) : World :=
  let ps := phasesAfter cur
  match ps.idxOf? ph with
  | some i => (ps.take (i + 1)).foldl enterPhase w
  | none => w

def cmdOf? : List String → Option Cmd
  | ["alloc", l, sz] => match l.toNat?, sz.toNat? with
    | some l, some sz => some (.alloc l sz) | _, _ => none
  | ["free", l] => l.toNat?.map .free
  | ["realloc", l, n, sz] => match l.toNat?, n.toNat?, sz.toNat? with
    | some l, some n, some sz => some (.realloc l n sz) | _, _, _ => none
  | ["realloc-fail", l, sz] => match l.toNat?, sz.toNat? with
    | some l, some sz => some (.reallocFail l sz) | _, _ => none
  | ["expect", n] => n.toNat?.map .expectLeaks
  | ["ignore"] => some .ignoreLeaks
  | ["fail"] => some .fail
  | _ => none

def obsNum (obs : List (List String)) : Option Nat :=
  obs.findSome? fun l => match l with | ["num", n] => n.toNat? | _ => none

/-- executes one command (not skipped) and renders the model's observation -/
def execAndRender (d : DState) (exec : World → Cmd → World) (c : Cmd) (obs : List (List String)) : DState × List String :=
  match c with
  | .alloc id _ =>
    -- global mode: other code allocates too; the allocation number is an environment input
    let w := match d.global, obsNum obs with
      | true, some n => exec d.w (.envSeq n)
      | _, _ => d.w
    if w.det.isLive id then ({ d with w := w }, ["dup"])
    else ({ d with w := exec w c }, [s!"num {w.det.seq}"])
  | .free id =>
    if d.w.det.isLive id then ({ d with w := exec d.w c }, ["ok"]) else ({ d with w := exec d.w c }, ["nolive"])
  | .realloc id newId _ =>
    -- global mode: only malloc'ed blocks can be realloc'ed; the harness skips the others (the
    -- model does not track the allocation family)
    if obs.contains ["badkind"] then (d, ["badkind"])
    else
      let w := match d.global, obsNum obs with
        | true, some n => exec d.w (.envSeq n)
        | _, _ => d.w
      if !w.det.isLive id then ({ d with w := w }, ["nolive"])
      else if newId != id && w.det.isLive newId then ({ d with w := w }, ["dup"])
      else ({ d with w := exec w c }, [s!"num {w.det.seq}"])
  | .reallocFail id _ =>
    if obs.contains ["badkind"] then (d, ["badkind"])
    else if d.w.det.isLive id then ({ d with w := exec d.w c }, ["ok"]) else ({ d with w := exec d.w c }, ["nolive"])
  | _ => ({ d with w := exec d.w c }, ["ok"])

def sortRecs (l : List Rec) : List Rec :=
  (l.toArray.qsort (fun a b => a.num < b.num || (a.num == b.num && a.size < b.size))).toList

def obsTrunc (what : String) (obs : List (List String)) : Bool :=
  obs.any fun l => match l with
    | [w, _, "total", _, "trunc", "1"] => w == what
    | _ => false

def renderReport (what : String) (r : LeakReport) (trunc : Bool) (emptyKind : String) : List String :=
  let kind := if r.entries.isEmpty then emptyKind else "report"
  let total : Int := if r.total == 0 then -1 else r.total
  [s!"{what} {kind} total {total} trunc {if trunc then 1 else 0}"] ++
    (if trunc then [] else (sortRecs r.entries).map fun e => s!"entry {e.num} {e.size}")

def preSteps' : List RStep := Gen.LeakCode.runOneTestOrder.takeWhile (· != .runTest)
def postSteps' : List RStep := (Gen.LeakCode.runOneTestOrder.dropWhile (· != .runTest)).drop 1

def plugPhase? (p : String) : Option Nat :=
  match p.toList with
  | [c, d] => if (c == 'p' || c == 'q') && d.isDigit then some (d.toNat - '0'.toNat) else none
  | _ => none

/-- does this operation belong to the pre actions (or later) of the running test -/
def afterFork : List String → Bool
  | ["pre"] => true
  | "cmd" :: p :: _ => (plugPhase? p).isSome || p == "c" || p == "s" || p == "b" || p == "t" || p == "d"
  | _ => false

/-- `disable k` / `enable k`: the plugin is found by name in the chain (skipped when it is not installed) -/
def setAble (d : DState) (k : String) (b : Bool) : DState × List String :=
  match k.toNat? with
  | some k =>
    if k != 0 && d.chain.any (fun p => p.1 == k) then
      ({ d with chain := d.chain.map (fun p => if p.1 == k then (k, b) else p) }, ["ok"])
    else (d, ["skipped"])
  | none => (d, ["bad-op"])

def modelStep (d0 : DState) (op : List String) (obs : List (List String)) : DState × List String :=
  let d := if afterFork op && !d0.forked then { d0 with parent := d0.w, forked := true } else d0
  match op with
  | "mode" :: m :: rest =>
    ({ w := World.init (!(rest.contains "nooverloads")), global := m == "global" || m == "runner",
       first := (Proc.init true).first }, [])
  | "plugins" :: toks => ({ d with chain := chainOf toks }, [])
  | ["test", _] =>
    if obs.contains ["notrun"] then (d, ["notrun"])
    else ({ d with w := clearObs d.w, phase := none, inTest := false, f0 := d.w.failures, separate := false, forked := false,
                     ran := d.ran + 1 }, [])
  | ["pre"] =>
    -- a test in a separate process: everything from here to `post` happens to the child's copy
    -- (the actions of the plugins in front of the leak plugin have been replayed already: they too are the child's)
    ({ d with w := preSteps'.foldl (rstep {}) d.w, inTest := true, phase := none, fPre := d.w.failures },
     if d.w.failures > d.f0 then [s!"prefail {d.w.failures - d.f0}"] else [])
  | ["cmd", "o", "overloads", b] =>
    if obs.contains ["ok"] then
      ({ d with w := if b == "on" then turnOnOverloads d.w else turnOffOverloads d.w }, ["ok"])
    else (d, ["skipped"])
  | ["cmd", _, "plugin2", k] =>
    -- a further plugin object is constructed (and destroyed at once unless `keep`)
    if obs.contains ["ok"] then
      let p : Proc := { w := d.w, first := d.first }
      let p := p.step .constructOther
      let p := if k == "keep" then p else p.step .destroyOther
      ({ d with w := p.w, first := p.first }, ["ok"])
    else (d, ["skipped"])
  | ["cmd", "o", "separate"] =>
    if obs.contains ["ok"] then ({ d with separate := true }, ["ok"]) else (d, ["skipped"])
  | ["cmd", "o", "disable", k] => setAble d k false
  | ["cmd", "o", "enable", k] => setAble d k true
  | "cmd" :: "o" :: rest =>
    match cmdOf? rest with
    | some (.alloc id sz) => execAndRender d execOutside (.alloc id sz) obs
    | some (.free id) => execAndRender d execOutside (.free id) obs
    | some _ => (d, ["skipped"])
    | none => (d, ["bad-op"])
  | "cmd" :: "c" :: rest =>
    match cmdOf? rest with
    | some .fail | some .ignoreLeaks | some (.expectLeaks _) => (d, ["skipped"])
    | some c => execAndRender d execMem c obs
    | none => (d, ["bad-op"])
  | "cmd" :: "d" :: rest =>
    match cmdOf? rest with
    | some .fail | some .ignoreLeaks | some (.expectLeaks _) => (d, ["skipped"])
    | some c => execAndRender d execMem c obs
    | none => (d, ["bad-op"])
  | "cmd" :: p :: rest =>
    if (plugPhase? p).isSome then
      -- a command of another plugin's pre / post action
      match cmdOf? rest with
      | some (.expectLeaks _) | some .ignoreLeaks => (d, ["skipped"])
      | some c => execAndRender d execAct c obs
      | none => (d, ["bad-op"])
    else
    match phaseOf? p, cmdOf? rest with
    | some ph, some c =>
      let w := if d.phase == some ph then d.w else enterUpTo d.w d.phase ph
      let d := { d with w := w, phase := some ph }
      if w.aborted then (d, ["skipped"])
      else execAndRender d (fun w c => (Proc.execCmd { w := w, first := d.first } c).w) c obs
    | _, _ => (d, ["bad-op"])
  | ["post"] =>
    let w0 := (phasesAfter d.phase).foldl enterPhase d.w
    let w := postSteps'.foldl (rstep {}) w0
    let out := [s!"failures {w.failures - d.fPre}"] ++
      (match w.leakFail with
       | some r => renderReport "leakfail" r (obsTrunc "leakfail" obs) "noleaks"
       | none => []) ++
      (if w.warned then [s!"warn {w0.plg.expected}"] else []) ++
      [s!"fc {w.failures}"]
    ({ d with w := w, inTest := false }, out)
  | ["done"] =>
    -- the parent of a separate process only learns whether the child's failure count grew
    let wAfter := if d.separate then joinSeparate d.parent d.w else d.w
    let out := [orderLine d.chain] ++
      (if d.separate then [s!"parentfail {wAfter.failures - d.parent.failures}"] else []) ++
      [s!"fc {wAfter.failures}"]
    ({ d with w := wAfter, inTest := false }, out)
  | ["final", n] =>
    match finalReportN d.w (n.toNat?.getD 0) with
    | some r =>
      -- the output buffer is cleared by `startChecking` only: a final report asked for after a leak failure, with no
      -- pre action in between, is appended to that report's text; when it finds no leak itself the last
      -- "Total number of leaks" line of the text is still the earlier report's
      let r' := if r.total == 0 && !d.w.det.out.isEmpty then { r with total := d.w.det.out.length } else r
      (d, renderReport "final" r' (obsTrunc "final" obs) "noleaks")
    | none => (d, ["final empty total -1 trunc 0"])
  | ["runnerend"] =>
    -- `CommandLineTestRunner::RunAllTests` after the run: result, and the final report if it is asked for
    -- (a run in which no test ran counts as failed: `TestResult::isFailure`, property C01)
    let res := s!"result {if d.w.failures == 0 && d.ran > 0 then 0 else 1}"
    match (if d.ran == 0 then none else runnerFinal d.w) with
    | none => (d, [res, "final skipped"])
    | some none => (d, [res, "final empty total -1 trunc 0"])
    | some (some r) => (d, res :: renderReport "final" r (obsTrunc "final" obs) "noleaks")
  | ["destroy"] =>
    let w := destroyGlobalDetector d.w
    ({ d with w := w }, [s!"destroyed overloads {if w.overloads then 1 else 0} leaks {w.det.recs.length} nextnum {w.det.seq}"])
  | _ => (d, ["bad-op"])

/-! ## specification oracle: the property statement evaluated on the history -/

structure Blk where
  label : Nat
  num   : Nat
  size  : Nat
deriving BEq, Repr

structure Shadow where
  overloads : Bool := true
  live      : List Blk := []      -- every outstanding tracked block
  mine      : List Blk := []      -- outstanding blocks allocated since this test's pre action
  inWindow  : Bool := false
  own       : Nat := 0            -- own failing checks of this test
  ignore    : Bool := false
  expected  : Nat := 0
  testNo    : Nat := 0
  separate  : Bool := false       -- this test runs in a forked child
  liveAtPre : List Blk := []      -- separate: the parent's outstanding blocks
  prefail   : Nat := 0            -- failures added before the leak plugin's pre action (by a plugin in front of it)
  seenPre   : Bool := false
  childFailed : Bool := false     -- a failure was recorded for this test
  forked    : Bool := false       -- the first pre action of this test has begun
  posted    : Bool := false       -- the leak plugin's post action has been observed

def natOf (s : String) : Except String Nat :=
  match s.toNat? with | some n => pure n | none => throw s!"not a number: {s}"

def inTestObject : List String → Bool
  | "cmd" :: p :: _ => p == "c" || p == "s" || p == "b" || p == "t" || p == "d"
  | _ => false

def specStep (sh0 : Shadow) (o : Proto.Op) : Except String Shadow := do
  let sh := if afterFork o.op && !sh0.forked then { sh0 with liveAtPre := sh0.live, forked := true } else sh0
  -- "between its start (before setup) and its end (after teardown)": whatever the plugin chain did, the window
  -- is open from the constructor of the test object on
  let sh := if inTestObject o.op && !sh.inWindow && !sh.posted then { sh with inWindow := true, mine := [] } else sh
  match o.op with
  | "mode" :: _ :: rest => return { sh with overloads := !(rest.contains "nooverloads") }
  | ["test", _] =>
    return { sh with mine := [], inWindow := false, own := 0, ignore := false, expected := 0, testNo := sh.testNo + 1,
                     separate := false, prefail := 0, seenPre := false, childFailed := false, forked := false, posted := false }
  | "plugins" :: _ => return sh
  | ["pre"] =>
    if sh.inWindow then throw s!"test #{sh.testNo}: the leak plugin's pre action came after the test object was created"
    return { sh with inWindow := true, mine := [], seenPre := true }
  | ["cmd", "o", "disable", _] => return sh
  | ["cmd", "o", "enable", _] => return sh
  | ["cmd", "o", "overloads", b] =>
    if o.obs.contains ["ok"] then return { sh with overloads := b == "on" } else return sh
  | ["cmd", "o", "separate"] =>
    if o.obs.contains ["ok"] then return { sh with separate := true } else return sh
  | ["cmd", _, "plugin2", _] => return sh          -- constructing another plugin object is not part of the history
  | "cmd" :: _ :: "alloc" :: l :: sz :: _ =>
    match obsNum o.obs with
    | some n =>
      let b : Blk := { label := ← natOf l, num := n, size := ← natOf sz }
      if sh.live.any (·.num == n) then throw s!"allocation number {n} handed out twice"
      return { sh with live := b :: sh.live, mine := if sh.inWindow then b :: sh.mine else sh.mine }
    | none => return sh                    -- skipped / dup: not performed
  | "cmd" :: _ :: "realloc" :: l :: nl :: sz :: _ =>
    -- a successful realloc releases the old block and is a new allocation of the running test
    if o.obs.contains ["unexpected-realloc-result"] then throw "a scripted realloc returned NULL although the platform realloc succeeded, or a block although it failed"
    match obsNum o.obs with
    | some n =>
      let l ← natOf l
      let b : Blk := { label := ← natOf nl, num := n, size := ← natOf sz }
      if sh.live.any (·.num == n) then throw s!"allocation number {n} handed out twice"
      let live := sh.live.filter (·.label != l)
      let mine := sh.mine.filter (·.label != l)
      return { sh with live := b :: live, mine := if sh.inWindow then b :: mine else mine }
    | none => return sh
  | "cmd" :: _ :: "realloc-fail" :: _ =>
    -- a failed realloc changes nothing: the old block stays what and whose it was
    if o.obs.contains ["unexpected-realloc-result"] then throw "a scripted realloc returned NULL although the platform realloc succeeded, or a block although it failed"
    return sh
  | "cmd" :: _ :: "free" :: l :: _ =>
    if o.obs.contains ["ok"] then
      let l ← natOf l
      return { sh with live := sh.live.filter (·.label != l), mine := sh.mine.filter (·.label != l) }
    else return sh
  | "cmd" :: p :: "expect" :: n :: _ =>
    if o.obs.contains ["ok"] && p != "o" then return { sh with expected := ← natOf n } else return sh
  | "cmd" :: p :: "ignore" :: _ =>
    if o.obs.contains ["ok"] && p != "o" then return { sh with ignore := true } else return sh
  | "cmd" :: p :: "fail" :: _ =>
    -- a failing check of the test, or a failure another plugin added: inside the window it is a failure of this
    -- test; one recorded before the leak plugin's pre action is outside what the property speaks about
    if o.obs.contains ["ok"] && p != "o" then
      if sh.inWindow then return { sh with own := sh.own + 1 }
      else if !sh.seenPre then return { sh with prefail := sh.prefail + 1 }
      else return { sh with childFailed := true }
    else return sh
  | ["post"] =>
    let t := sh.testNo
    let failures ← match o.obs.findSome? (fun l => match l with | ["failures", k] => k.toNat? | _ => none) with
      | some k => pure k | none => throw s!"test #{t}: no failure count observed"
    let leakLine := o.obs.find? (fun l => l.head? == some "leakfail" || l.head? == some "leakfail-many")
    let entries := o.obs.filterMap fun l => match l with
      | ["entry", n, s] => match n.toNat?, s.toNat? with | some n, some s => some (n, s) | _, _ => none
      | _ => none
    let n := sh.mine.length
    -- (1) the verdict: exactly when the test passed its own checks, did not ask to ignore leaks,
    --     and its outstanding blocks differ in number from what it declared
    let should := sh.overloads && sh.own == 0 && !sh.ignore && n != sh.expected
    if sh.prefail > 0 then
      -- a plugin in front of the leak plugin recorded a failure before the window opened: the property does not
      -- say whether such a test "already failed"; nothing is demanded of its verdict
      return { sh with inWindow := false, childFailed := true, posted := true }
    match leakLine with
    | none =>
      if should then
        throw s!"test #{t}: {n} block(s) of this test outstanding, {sh.expected} expected, own checks passed, leaks not ignored: no leak failure reported"
      if failures != sh.own then throw s!"test #{t}: {failures} failures recorded, {sh.own} own failing checks"
    | some ("leakfail" :: kind :: "total" :: total :: "trunc" :: trunc :: _) =>
      if !should then
        if sh.own > 0 then throw s!"test #{t}: already failed its own checks but got an additional leak failure"
        else if sh.ignore then throw s!"test #{t}: asked to ignore leaks but got a leak failure"
        else if !sh.overloads then throw s!"test #{t}: leak failure although the overloads are off"
        else throw s!"test #{t}: leak failure although outstanding blocks of this test = expected = {n}"
      if failures != 1 then throw s!"test #{t}: {failures} failures recorded for a test whose only failure is the leak failure"
      -- (2) the report lists exactly this test's outstanding blocks
      if n == 0 then
        if kind != "noleaks" || !entries.isEmpty then
          throw s!"test #{t}: no outstanding block of this test (it expected {sh.expected}) but the report lists blocks"
      else
        if kind != "report" then throw s!"test #{t}: leak failure without a leak report ({kind})"
        if total.toInt? != some (n : Int) then
          throw s!"test #{t}: report states total {total}, this test has {n} outstanding block(s)"
        let want := sh.mine.map (fun b => (b.num, b.size))
        if trunc == "0" then
          for e in entries do
            if !want.contains e then
              if sh.live.any (fun b => b.num == e.1) then
                throw s!"test #{t}: report lists block (alloc num {e.1}) that was not allocated by this test (charged to a later test)"
              else throw s!"test #{t}: report lists alloc num {e.1} size {e.2}, not an outstanding block of this test"
          for e in want do
            if !entries.contains e then throw s!"test #{t}: outstanding block alloc num {e.1} size {e.2} missing from the report"
          if entries.length != n then throw s!"test #{t}: report lists {entries.length} entries for {n} outstanding blocks"
    | some _ => throw s!"test #{t}: more than one failure added outside the test's phases"
    return { sh with inWindow := false, childFailed := sh.childFailed || sh.own > 0 || should, posted := true }
  | ["done"] =>
    let t := sh.testNo
    if !sh.posted && sh.prefail == 0 then
      -- the leak plugin is installed but no verdict was given for this test
      let n := sh.mine.length
      if sh.overloads && sh.own == 0 && !sh.ignore && n != sh.expected then
        throw s!"test #{t}: {n} block(s) of this test outstanding, {sh.expected} expected, own checks passed, leaks not ignored: no leak failure reported (the leak plugin gave no verdict for this test)"
    if sh.separate then
      -- leaks are detected in the child; the parent reports the test failed exactly when the child
      -- recorded a failure, and nothing the child allocated or released exists in the parent
      let pf ← match o.obs.findSome? (fun l => match l with | ["parentfail", k] => k.toNat? | _ => none) with
        | some k => pure k | none => throw s!"test #{t}: separate process, but no verdict of the parent observed"
      let childFailed := sh.childFailed || (!sh.posted && (sh.own > 0 || sh.prefail > 0))
      if pf != (if childFailed then 1 else 0) then
        throw s!"test #{t} (separate process): child failed = {childFailed}, parent recorded {pf} failure(s)"
      return { sh with live := sh.liveAtPre }
    return sh
  | ["final", _] => return sh
  | ["runnerend"] => return sh
  | ["destroy"] => return sh
  | _ => throw "bad-op"

def specAll (ops : List Proto.Op) : Option String :=
  let rec go (sh : Shadow) : List Proto.Op → Option String
    | [] => none
    | o :: rest =>
      match specStep sh o with
      | .ok sh' => go sh' rest
      | .error e => some e
  go {} ops

def main : IO Unit :=
  Proto.driverMain { init := ({} : DState), step := modelStep, spec := specAll }
