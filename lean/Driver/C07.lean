import CppUModel.Base.Proto
import CppUModel.Model.LeakPlugin
/-!
Driver for C07: replays the harness trace through the plugin/detector/runner model and judges
the implementation's observations with the property's specification oracle.  The oracle works
on the HISTORY only (which commands the implementation executed, in which test) with a shadow
set of outstanding blocks; it does not use the model.  Imports Base/Model/Gen only.
-/
open LeakPlugin

/-! ## model replay -/

structure DState where
  w        : World := World.init true
  global   : Bool := false
  phase    : Option Phase := none       -- phase of the last command of the running test
  inTest   : Bool := false              -- between `pre` and `post`
  f0       : Nat := 0                   -- failure count when the test started
  first    : FirstPlugin := (Proc.init true).first   -- who firstPlugin_ points to
  separate : Bool := false              -- the running test runs in a forked child
  parent   : World := World.init true   -- separate: the parent's state while the child runs
deriving Inhabited

def phaseOf? : String → Option Phase
  | "s" => some .setup | "b" => some .body | "t" => some .teardown | _ => none

def phasesAfter : Option Phase → List Phase
  | none => [.setup, .body, .teardown]
  | some .setup => [.body, .teardown]
  | some .body => [.teardown]
  | some .teardown => []

/-- enter every phase after `cur` up to and including `ph` -/
def enterUpTo (w : World) (cur : Option Phase) (ph : Phase) : World :=
  let ps := phasesAfter cur
  match ps.idxOf? ph with
  | some i => (ps.take (i + 1)).foldl enterPhase w
  | none => w

def cmdOf? : List String → Option Cmd
  | ["alloc", l, sz] => match l.toNat?, sz.toNat? with
    | some l, some sz => some (.alloc l sz) | _, _ => none
  | ["free", l] => l.toNat?.map .free
  | ["realloc", l, n, sz] => match l.toNat?, n.toNat?, sz.toNat? with
    | some l, some n, some sz => some (.realloc l n sz) | _, _, _ => none
  | ["realloc-fail", l, sz] => match l.toNat?, sz.toNat? with
    | some l, some sz => some (.reallocFail l sz) | _, _ => none
  | ["expect", n] => n.toNat?.map .expectLeaks
  | ["ignore"] => some .ignoreLeaks
  | ["fail"] => some .fail
  | _ => none

def obsNum (obs : List (List String)) : Option Nat :=
  obs.findSome? fun l => match l with | ["num", n] => n.toNat? | _ => none

/-- executes one command (not skipped) and renders the model's observation -/
def execAndRender (d : DState) (exec : World → Cmd → World) (c : Cmd) (obs : List (List String)) : DState × List String :=
  match c with
  | .alloc id _ =>
    -- global mode: other code allocates too; the allocation number is an environment input
    let w := match d.global, obsNum obs with
      | true, some n => exec d.w (.envSeq n)
      | _, _ => d.w
    if w.det.isLive id then ({ d with w := w }, ["dup"])
    else ({ d with w := exec w c }, [s!"num {w.det.seq}"])
  | .free id =>
    if d.w.det.isLive id then ({ d with w := exec d.w c }, ["ok"]) else ({ d with w := exec d.w c }, ["nolive"])
  | .realloc id newId _ =>
    -- global mode: only malloc'ed blocks can be realloc'ed; the harness skips the others (the
    -- model does not track the allocation family)
    if obs.contains ["badkind"] then (d, ["badkind"])
    else
      let w := match d.global, obsNum obs with
        | true, some n => exec d.w (.envSeq n)
        | _, _ => d.w
      if !w.det.isLive id then ({ d with w := w }, ["nolive"])
      else if newId != id && w.det.isLive newId then ({ d with w := w }, ["dup"])
      else ({ d with w := exec w c }, [s!"num {w.det.seq}"])
  | .reallocFail id _ =>
    if obs.contains ["badkind"] then (d, ["badkind"])
    else if d.w.det.isLive id then ({ d with w := exec d.w c }, ["ok"]) else ({ d with w := exec d.w c }, ["nolive"])
  | _ => ({ d with w := exec d.w c }, ["ok"])

def sortRecs (l : List Rec) : List Rec :=
  (l.toArray.qsort (fun a b => a.num < b.num || (a.num == b.num && a.size < b.size))).toList

def obsTrunc (what : String) (obs : List (List String)) : Bool :=
  obs.any fun l => match l with
    | [w, _, "total", _, "trunc", "1"] => w == what
    | _ => false

def renderReport (what : String) (r : LeakReport) (trunc : Bool) (emptyKind : String) : List String :=
  let kind := if r.entries.isEmpty then emptyKind else "report"
  let total : Int := if r.total == 0 then -1 else r.total
  [s!"{what} {kind} total {total} trunc {if trunc then 1 else 0}"] ++
    (if trunc then [] else (sortRecs r.entries).map fun e => s!"entry {e.num} {e.size}")

def preSteps' : List RStep := Gen.LeakCode.runOneTestOrder.takeWhile (· != .runTest)
def postSteps' : List RStep := (Gen.LeakCode.runOneTestOrder.dropWhile (· != .runTest)).drop 1

def modelStep (d : DState) (op : List String) (obs : List (List String)) : DState × List String :=
  match op with
  | "mode" :: m :: rest =>
    ({ w := World.init (!(rest.contains "nooverloads")), global := m == "global",
       first := (Proc.init true).first }, [])
  | ["test", _] =>
    if obs.contains ["notrun"] then (d, ["notrun"])
    else ({ d with w := clearObs d.w, phase := none, inTest := false, f0 := d.w.failures, separate := false }, [])
  | ["pre"] =>
    -- a test in a separate process: everything from here to `post` happens to the child's copy
    ({ d with parent := d.w, w := preSteps'.foldl (rstep {}) d.w, inTest := true, phase := none }, [])
  | ["cmd", "o", "overloads", b] =>
    if obs.contains ["ok"] then
      ({ d with w := if b == "on" then turnOnOverloads d.w else turnOffOverloads d.w }, ["ok"])
    else (d, ["skipped"])
  | ["cmd", _, "plugin2", k] =>
    -- a further plugin object is constructed (and destroyed at once unless `keep`)
    if obs.contains ["ok"] then
      let p : Proc := { w := d.w, first := d.first }
      let p := p.step .constructOther
      let p := if k == "keep" then p else p.step .destroyOther
      ({ d with w := p.w, first := p.first }, ["ok"])
    else (d, ["skipped"])
  | ["cmd", "o", "separate"] =>
    if obs.contains ["ok"] then ({ d with separate := true }, ["ok"]) else (d, ["skipped"])
  | "cmd" :: "o" :: rest =>
    match cmdOf? rest with
    | some (.alloc id sz) => execAndRender d execOutside (.alloc id sz) obs
    | some (.free id) => execAndRender d execOutside (.free id) obs
    | some _ => (d, ["skipped"])
    | none => (d, ["bad-op"])
  | "cmd" :: "c" :: rest =>
    match cmdOf? rest with
    | some .fail | some .ignoreLeaks | some (.expectLeaks _) => (d, ["skipped"])
    | some c => execAndRender d execMem c obs
    | none => (d, ["bad-op"])
  | "cmd" :: "d" :: rest =>
    match cmdOf? rest with
    | some .fail | some .ignoreLeaks | some (.expectLeaks _) => (d, ["skipped"])
    | some c => execAndRender d execMem c obs
    | none => (d, ["bad-op"])
  | "cmd" :: p :: rest =>
    match phaseOf? p, cmdOf? rest with
    | some ph, some c =>
      let w := if d.phase == some ph then d.w else enterUpTo d.w d.phase ph
      let d := { d with w := w, phase := some ph }
      if w.aborted then (d, ["skipped"])
      else execAndRender d (fun w c => (Proc.execCmd { w := w, first := d.first } c).w) c obs
    | _, _ => (d, ["bad-op"])
  | ["post"] =>
    let w0 := (phasesAfter d.phase).foldl enterPhase d.w
    let w := postSteps'.foldl (rstep {}) w0
    -- the parent of a separate process only learns whether the child's failure count grew
    let wAfter := if d.separate then joinSeparate d.parent w else w
    let out := [s!"failures {w.failures - d.f0}"] ++
      (match w.leakFail with
       | some r => renderReport "leakfail" r (obsTrunc "leakfail" obs) "noleaks"
       | none => []) ++
      (if w.warned then [s!"warn {w0.plg.expected}"] else []) ++
      (if d.separate then [s!"parentfail {wAfter.failures - d.parent.failures}"] else []) ++
      [s!"fc {wAfter.failures}"]
    ({ d with w := wAfter, inTest := false }, out)
  | ["final", n] =>
    match finalReportN d.w (n.toNat?.getD 0) with
    | some r => (d, renderReport "final" r (obsTrunc "final" obs) "noleaks")
    | none => (d, ["final empty total -1 trunc 0"])
  | ["destroy"] =>
    let w := destroyGlobalDetector d.w
    ({ d with w := w }, [s!"destroyed overloads {if w.overloads then 1 else 0} leaks {w.det.recs.length} nextnum {w.det.seq}"])
  | _ => (d, ["bad-op"])

/-! ## specification oracle: the property statement evaluated on the history -/

structure Blk where
  label : Nat
  num   : Nat
  size  : Nat
deriving BEq, Repr

structure Shadow where
  overloads : Bool := true
  live      : List Blk := []      -- every outstanding tracked block
  mine      : List Blk := []      -- outstanding blocks allocated since this test's pre action
  inWindow  : Bool := false
  own       : Nat := 0            -- own failing checks of this test
  ignore    : Bool := false
  expected  : Nat := 0
  testNo    : Nat := 0
  separate  : Bool := false       -- this test runs in a forked child
  liveAtPre : List Blk := []      -- separate: the parent's outstanding blocks

def natOf (s : String) : Except String Nat :=
  match s.toNat? with | some n => pure n | none => throw s!"not a number: {s}"

def specStep (sh : Shadow) (o : Proto.Op) : Except String Shadow := do
  match o.op with
  | "mode" :: _ :: rest => return { sh with overloads := !(rest.contains "nooverloads") }
  | ["test", _] =>
    return { sh with mine := [], inWindow := false, own := 0, ignore := false, expected := 0, testNo := sh.testNo + 1,
                     separate := false }
  | ["pre"] => return { sh with inWindow := true, mine := [], liveAtPre := sh.live }
  | ["cmd", "o", "overloads", b] =>
    if o.obs.contains ["ok"] then return { sh with overloads := b == "on" } else return sh
  | ["cmd", "o", "separate"] =>
    if o.obs.contains ["ok"] then return { sh with separate := true } else return sh
  | ["cmd", _, "plugin2", _] => return sh          -- constructing another plugin object is not part of the history
  | "cmd" :: _ :: "alloc" :: l :: sz :: _ =>
    match obsNum o.obs with
    | some n =>
      let b : Blk := { label := ← natOf l, num := n, size := ← natOf sz }
      if sh.live.any (·.num == n) then throw s!"allocation number {n} handed out twice"
      return { sh with live := b :: sh.live, mine := if sh.inWindow then b :: sh.mine else sh.mine }
    | none => return sh                    -- skipped / dup: not performed
  | "cmd" :: _ :: "realloc" :: l :: nl :: sz :: _ =>
    -- a successful realloc releases the old block and is a new allocation of the running test
    if o.obs.contains ["unexpected-realloc-result"] then throw "a scripted realloc returned NULL although the platform realloc succeeded, or a block although it failed"
    match obsNum o.obs with
    | some n =>
      let l ← natOf l
      let b : Blk := { label := ← natOf nl, num := n, size := ← natOf sz }
      if sh.live.any (·.num == n) then throw s!"allocation number {n} handed out twice"
      let live := sh.live.filter (·.label != l)
      let mine := sh.mine.filter (·.label != l)
      return { sh with live := b :: live, mine := if sh.inWindow then b :: mine else mine }
    | none => return sh
  | "cmd" :: _ :: "realloc-fail" :: _ =>
    -- a failed realloc changes nothing: the old block stays what and whose it was
    if o.obs.contains ["unexpected-realloc-result"] then throw "a scripted realloc returned NULL although the platform realloc succeeded, or a block although it failed"
    return sh
  | "cmd" :: _ :: "free" :: l :: _ =>
    if o.obs.contains ["ok"] then
      let l ← natOf l
      return { sh with live := sh.live.filter (·.label != l), mine := sh.mine.filter (·.label != l) }
    else return sh
  | "cmd" :: p :: "expect" :: n :: _ =>
    if o.obs.contains ["ok"] && p != "o" then return { sh with expected := ← natOf n } else return sh
  | "cmd" :: p :: "ignore" :: _ =>
    if o.obs.contains ["ok"] && p != "o" then return { sh with ignore := true } else return sh
  | "cmd" :: p :: "fail" :: _ =>
    if o.obs.contains ["ok"] && p != "o" then return { sh with own := sh.own + 1 } else return sh
  | ["post"] =>
    let t := sh.testNo
    let failures ← match o.obs.findSome? (fun l => match l with | ["failures", k] => k.toNat? | _ => none) with
      | some k => pure k | none => throw s!"test #{t}: no failure count observed"
    let leakLine := o.obs.find? (fun l => l.head? == some "leakfail" || l.head? == some "leakfail-many")
    let entries := o.obs.filterMap fun l => match l with
      | ["entry", n, s] => match n.toNat?, s.toNat? with | some n, some s => some (n, s) | _, _ => none
      | _ => none
    let n := sh.mine.length
    -- (1) the verdict: exactly when the test passed its own checks, did not ask to ignore leaks,
    --     and its outstanding blocks differ in number from what it declared
    let should := sh.overloads && sh.own == 0 && !sh.ignore && n != sh.expected
    match leakLine with
    | none =>
      if should then
        throw s!"test #{t}: {n} block(s) of this test outstanding, {sh.expected} expected, own checks passed, leaks not ignored: no leak failure reported"
      if failures != sh.own then throw s!"test #{t}: {failures} failures recorded, {sh.own} own failing checks"
    | some ("leakfail" :: kind :: "total" :: total :: "trunc" :: trunc :: _) =>
      if !should then
        if sh.own > 0 then throw s!"test #{t}: already failed its own checks but got an additional leak failure"
        else if sh.ignore then throw s!"test #{t}: asked to ignore leaks but got a leak failure"
        else if !sh.overloads then throw s!"test #{t}: leak failure although the overloads are off"
        else throw s!"test #{t}: leak failure although outstanding blocks of this test = expected = {n}"
      if failures != 1 then throw s!"test #{t}: {failures} failures recorded for a test whose only failure is the leak failure"
      -- (2) the report lists exactly this test's outstanding blocks
      if n == 0 then
        if kind != "noleaks" || !entries.isEmpty then
          throw s!"test #{t}: no outstanding block of this test (it expected {sh.expected}) but the report lists blocks"
      else
        if kind != "report" then throw s!"test #{t}: leak failure without a leak report ({kind})"
        if total.toInt? != some (n : Int) then
          throw s!"test #{t}: report states total {total}, this test has {n} outstanding block(s)"
        let want := sh.mine.map (fun b => (b.num, b.size))
        if trunc == "0" then
          for e in entries do
            if !want.contains e then
              if sh.live.any (fun b => b.num == e.1) then
                throw s!"test #{t}: report lists block (alloc num {e.1}) that was not allocated by this test (charged to a later test)"
              else throw s!"test #{t}: report lists alloc num {e.1} size {e.2}, not an outstanding block of this test"
          for e in want do
            if !entries.contains e then throw s!"test #{t}: outstanding block alloc num {e.1} size {e.2} missing from the report"
          if entries.length != n then throw s!"test #{t}: report lists {entries.length} entries for {n} outstanding blocks"
    | some _ => throw s!"test #{t}: more than one failure added outside the test's phases"
    if sh.separate then
      -- leaks are detected in the child; the parent reports the test failed exactly when the child
      -- recorded a failure, and nothing the child allocated or released exists in the parent
      let pf ← match o.obs.findSome? (fun l => match l with | ["parentfail", k] => k.toNat? | _ => none) with
        | some k => pure k | none => throw s!"test #{t}: separate process, but no verdict of the parent observed"
      let childFailed := sh.own > 0 || should
      if pf != (if childFailed then 1 else 0) then
        throw s!"test #{t} (separate process): child failed = {childFailed}, parent recorded {pf} failure(s)"
      return { sh with inWindow := false, live := sh.liveAtPre }
    return { sh with inWindow := false }
  | ["final", _] => return sh
  | ["destroy"] => return sh
  | _ => throw "bad-op"

def specAll (ops : List Proto.Op) : Option String :=
  let rec go (sh : Shadow) : List Proto.Op → Option String
    | [] => none
    | o :: rest =>
      match specStep sh o with
      | .ok sh' => go sh' rest
      | .error e => some e
  go {} ops

def main : IO Unit :=
  Proto.driverMain { init := ({} : DState), step := modelStep, spec := specAll }
