import CppUModel.Base.Proto
import CppUModel.Model.Asserts
/-!
Driver for C03.  Every op is one check macro invocation; the implementation's observation is
`r <failures> <checks>`.

* `modelStep` replays the op through `Asserts.*` (the model of the macro + assert function).
* `specAll` judges the implementation's own `r` lines with the mathematical predicate the check
  names, written here directly on `Int` / `List UInt8` / `Float` and NOT through the model
  (no `BitVec`, no `Text.cmp`, no class model).
Imports Base/Model/Gen only.
-/
open Asserts

/-! ## parsing -/

def tyOf? : String → Option CTy
  | "i8" => some ⟨8, true⟩ | "u8" => some ⟨8, false⟩
  | "i16" => some ⟨16, true⟩ | "u16" => some ⟨16, false⟩
  | "i32" => some ⟨32, true⟩ | "u32" => some ⟨32, false⟩
  | "i64" => some ⟨64, true⟩ | "u64" => some ⟨64, false⟩
  | _ => none

def cint? (t v : String) : Option CInt :=
  match tyOf? t, v.toInt? with
  | some ty, some x => some ⟨ty, x⟩
  | _, _ => none

def str? (s : String) : Option (Option Text.Bytes) :=
  if s = "null" then some none else (Proto.unhex? s).map some

def hex64? (s : String) : Option UInt64 :=
  if s.length ≠ 16 then none
  else s.toList.foldl (fun acc c => match acc, Proto.hexVal? c with
    | some a, some d => some (a * 16 + UInt64.ofNat d)
    | _, _ => none) (some 0)

/-- every macro also exists as `<name>_TEXT` with the same verdict; `C_FAIL_TEXT` (FAIL_TEXT_C) is a name of its own -/
def baseName (m : String) : String :=
  if m = "C_FAIL_TEXT" then m
  else if m.endsWith "_TEXT" then String.ofList (m.toList.take (m.length - 5)) else m

def relOp? : String → Option RelOp
  | "lt_text" => some .lt
  | "lt" => some .lt | "le" => some .le | "gt" => some .gt | "ge" => some .ge
  | "eq" => some .eq | "ne" => some .ne | _ => none

/-! ## doubles: the class model instantiated with the hardware arithmetic -/

def classify (x : Float) : D Float :=
  if x.isNaN then .nan else if x.isInf then .inf (x < 0) else .fin x

def floatOps : FinOps Float :=
  { sub := fun x y => classify (x - y), abs := Float.abs, le := fun x y => x ≤ y, pos := fun x => x > 0 }

def dbl? (s : String) : Option Float := (hex64? s).map Float.ofBits

/-! ## model replay -/

def render (o : Outcome) : List String := [s!"r {if o.fails then 1 else 0} {o.counted}"]

def modelInt (m : String) (e a : CInt) : Option Outcome :=
  match m with
  | "LONGS_EQUAL" | "LONGS_EQUAL_TEXT" => some (LONGS_EQUAL e.val a.val)
  | "UNSIGNED_LONGS_EQUAL" => some (UNSIGNED_LONGS_EQUAL e.val a.val)
  | "LONGLONGS_EQUAL" => some (LONGLONGS_EQUAL e.val a.val)
  | "UNSIGNED_LONGLONGS_EQUAL" => some (UNSIGNED_LONGLONGS_EQUAL e.val a.val)
  | "BYTES_EQUAL" => some (BYTES_EQUAL e a)
  | "SIGNED_BYTES_EQUAL" => some (SIGNED_BYTES_EQUAL e.val a.val)
  | "CHECK_EQUAL" => some (CHECK_EQUAL_int e a)
  | "C_BOOL" => some (CHECK_EQUAL_C_BOOL e.val a.val)
  | "C_INT" => some (CHECK_EQUAL_C_INT e.val a.val)
  | "C_UINT" => some (CHECK_EQUAL_C_UINT e.val a.val)
  | "C_LONG" => some (CHECK_EQUAL_C_LONG e.val a.val)
  | "C_ULONG" => some (CHECK_EQUAL_C_ULONG e.val a.val)
  | "C_LONGLONG" => some (CHECK_EQUAL_C_LONGLONG e.val a.val)
  | "C_ULONGLONG" => some (CHECK_EQUAL_C_ULONGLONG e.val a.val)
  | "C_CHAR" => some (CHECK_EQUAL_C_CHAR e.val a.val)
  | "C_UBYTE" => some (CHECK_EQUAL_C_UBYTE e.val a.val)
  | "C_SBYTE" => some (CHECK_EQUAL_C_SBYTE e.val a.val)
  | _ => none

def modelStr (m : String) (e a : Option Text.Bytes) (n : Nat) : Option Outcome :=
  match m with
  | "STRCMP_EQUAL" | "STRCMP_EQUAL_TEXT" => some (STRCMP_EQUAL e a)
  | "STRNCMP_EQUAL" | "STRNCMP_EQUAL_TEXT" => some (STRNCMP_EQUAL e a n)
  | "STRCMP_NOCASE_EQUAL" => some (STRCMP_NOCASE_EQUAL e a)
  | "STRCMP_CONTAINS" => some (STRCMP_CONTAINS e a)
  | "STRCMP_NOCASE_CONTAINS" => some (STRCMP_NOCASE_CONTAINS e a)
  | "C_STRING" => some (CHECK_EQUAL_C_STRING e a)
  | _ => none

def floatNe (e a : Float) : Bool := e != a

def floatRel : RelOp → Float → Float → Bool
  | .lt, a, b => a < b | .le, a, b => a ≤ b | .gt, a, b => a > b
  | .ge, a, b => a ≥ b | .eq, a, b => a == b | .ne, a, b => a != b

/-- the statements of the `seq` op and what the check in them does on its fixed operands -/
def stepOf : String → Option Stmt
  | "cpp_pass" => some (.check (LONGS_EQUAL 1 1))
  | "cpp_fail" => some (.check (LONGS_EQUAL 1 2))
  | "c_pass" => some (.check (CHECK_EQUAL_C_INT 1 1))
  | "c_fail" => some (.check (CHECK_EQUAL_C_INT 1 2))
  | "cmp_pass" => some (.check (CHECK_COMPARE_int .lt ⟨tyInt, 1⟩ ⟨tyInt, 2⟩))
  | "cmp_fail" => some (.check (CHECK_COMPARE_int .lt ⟨tyInt, 2⟩ ⟨tyInt, 1⟩))
  | "str_null_fail" => some (.check (STRCMP_EQUAL (some [97]) none))
  | "cstr_null_fail" => some (.check (CHECK_EQUAL_C_STRING none (some [97])))
  | "fail" => some (.check FAIL)
  | "c_fail_text" => some (.check FAIL_C)
  | "mem_null_fail" => some (.check (MEMCMP_EQUAL none (some [97, 98]) 2))
  | "throws_pass" => some (.check (CHECK_THROWS .expected))
  | "throws_fail" => some (.check (CHECK_THROWS .nothing))
  | "dbl_fail" => some (.check (DOUBLES_EQUAL floatOps (classify 1.0) (classify 2.0) (classify 0.5)))
  | "check_fail" => some (.check (CHECK false))
  | "c_check_fail" => some (.check (CHECK_C 0))
  | "equal_fail" => some (.check (CHECK_EQUAL_int ⟨tyInt, 1⟩ ⟨tyInt, 2⟩))
  | "equal_pass" => some (.check (CHECK_EQUAL_int ⟨tyInt, 3⟩ ⟨tyInt, 3⟩))
  | "bits_fail" => some (.check (BITS_EQUAL 1 2 3 4))
  | "exit" => some .exit
  | _ => none

def stream (start step : Int) (k : Nat) : Int := start + (k : Int) * step

/-- the function-style macros of the `evals` op on the first value of each operand stream: (outcome, evaluations of the
    expected stream, evaluations of the actual stream) -/
def onceOutcome (m : String) (e a : Int) : Option (Outcome × Nat × Nat) :=
  let ie : CInt := ⟨tyInt, e⟩
  let ia : CInt := ⟨tyInt, a⟩
  let d (x : Int) : D Float := classify (Float.ofInt x)
  match m with
  | "UNSIGNED_LONGS_EQUAL" => some (UNSIGNED_LONGS_EQUAL e a, 1, 1)
  | "LONGLONGS_EQUAL" => some (LONGLONGS_EQUAL e a, 1, 1)
  | "UNSIGNED_LONGLONGS_EQUAL" => some (UNSIGNED_LONGLONGS_EQUAL e a, 1, 1)
  | "BYTES_EQUAL" => some (BYTES_EQUAL ie ia, 1, 1)
  | "SIGNED_BYTES_EQUAL" => some (SIGNED_BYTES_EQUAL e a, 1, 1)
  | "BITS_EQUAL" => some (BITS_EQUAL e a 255 4, 1, 1)
  | "ENUMS_EQUAL_INT" => some (ENUMS_EQUAL_TYPE 32 e a, 1, 1)
  | "DOUBLES_EQUAL" => some (DOUBLES_EQUAL floatOps (d e) (d a) (classify 0.5), 1, 1)
  | "POINTERS_EQUAL" => some (POINTERS_EQUAL (conv 64 e) (conv 64 a), 1, 1)
  | "C_INT" => some (CHECK_EQUAL_C_INT e a, 1, 1)
  | "C_LONG" => some (CHECK_EQUAL_C_LONG e a, 1, 1)
  | "C_BOOL" => some (CHECK_EQUAL_C_BOOL e a, 1, 1)
  | "C_UBYTE" => some (CHECK_EQUAL_C_UBYTE (e % 256) (a % 256), 1, 1)
  | "C_BITS" => some (CHECK_EQUAL_C_BITS e a 255 4, 1, 1)
  | "C_REAL" => some (CHECK_EQUAL_C_REAL floatOps (d e) (d a) (classify 0.5), 1, 1)
  | "CHECK" | "CHECK_TRUE" => some (CHECK (e != 0), 1, 0)
  | "CHECK_FALSE" => some (CHECK_FALSE (e != 0), 1, 0)
  | "CHECK_C" => some (CHECK_C e, 1, 0)
  | _ => none

/-- ops with several observation lines -/
def modelMulti (op : List String) : Option (List String) :=
  match op with
  | "seq" :: steps =>
    match steps.mapM stepOf with
    | some st =>
      let r := runBody st
      some [s!"r {r.failures} {r.checks}", s!"ran {r.executed}", s!"failed {r.failures}"]
    | none => none
  | "seqc" :: steps =>
    -- crash-on-fail mode: the statement that ends the body calls UtestShell::crash() once, then leaves the test as usual
    match steps.mapM stepOf with
    | some st =>
      let r := runBody st
      -- the statement that ended the body (a failing check, or TEST_EXIT, which also leaves through the current terminator)
      let crashed : Nat := match (st.take r.executed).getLast? with
        | some (.check o) => if o.fails then 1 else 0
        | some .exit => 1
        | none => 0
      some [s!"r {r.failures} {r.checks}", s!"ran {r.executed}", s!"failed {r.failures}", s!"crashed {crashed}"]
    | none => none
  | ["evals", m, e0, es, a0, as] =>
    match e0.toInt?, es.toInt?, a0.toInt?, as.toInt? with
    | some e0, some es, some a0, some as =>
      let run : Option (Outcome × Evals) :=
        match baseName m with
        | "CHECK_EQUAL" => some (checkEqualRun tyInt (stream e0 es) (stream a0 as))
        | "CHECK_COMPARE_lt" => some (checkCompareRun .lt tyInt (stream e0 es) (stream a0 as))
        | "LONGS_EQUAL" => some (longsEqualRun (stream e0 es) (stream a0 as))
        | "CHECK_COMPARE_ge" => some (checkCompareRun .ge tyInt (stream e0 es) (stream a0 as))
        | "CHECK_EQUAL_ZERO" =>
          -- CHECK_EQUAL(0, (actual)): the expected operand is a literal (no evaluation of the expected stream)
          let r := checkEqualRun tyInt (fun _ => 0) (stream a0 as)
          some (r.1, { r.2 with expected := 0 })
        | other =>
          -- the function-style macros evaluate every operand exactly once
          (onceOutcome other e0 a0).map fun (o, ne, na) => (o, { expected := ne, actual := na, warnings := 0 })
      run.map fun (o, ev) =>
        [s!"r {if o.fails then 1 else 0} {o.counted}", s!"evals {ev.expected} {ev.actual}", s!"warn {ev.warnings}"]
    | _, _, _, _ => none
  | _ => none

def modelOp (op : List String) : Option Outcome :=
  match op with
  | ["zero", _, t, v] =>
    match cint? t v with
    | some a => some (CHECK_EQUAL_ZERO a)
    | none => none
  | ["throws", k] =>
    match k with
    | "nothing" => some (CHECK_THROWS .nothing)
    | "expected" => some (CHECK_THROWS .expected)
    | "other" => some (CHECK_THROWS .other)
    | _ => none
  | ["int", m, te, ve, ta, va] =>
    match cint? te ve, cint? ta va with
    | some e, some a => modelInt (baseName m) e a
    | _, _ => none
  | ["enum", tu, te, ve, ta, va] =>
    match tyOf? tu, cint? te ve, cint? ta va with
    | some u, some e, some a => some (ENUMS_EQUAL_TYPE u.w e.val a.val)
    | _, _, _ => none
  | ["bool", m, t, v] =>
    match cint? t v with
    | some x =>
      match baseName m with
      | "CHECK" | "CHECK_TRUE" => some (CHECK (x.val != 0))
      | "CHECK_FALSE" => some (CHECK_FALSE (x.val != 0))
      | "CHECK_C" => some (CHECK_C x.val)
      | _ => none
    | none => none
  | ["boolx", m, o, a, b] =>
    match condOp? o, cint? "i32" a, cint? "i32" b with
    | some op, some x, some y => boolxMacro (baseName m) op x.val y.val
    | _, _, _ => none
  | ["dbl", m, e, a, t] =>
    match dbl? e, dbl? a, dbl? t with
    | some e, some a, some t =>
      match baseName m with
      | "DOUBLES_EQUAL" | "DOUBLES_EQUAL_TEXT" => some (DOUBLES_EQUAL floatOps (classify e) (classify a) (classify t))
      | "C_REAL" => some (CHECK_EQUAL_C_REAL floatOps (classify e) (classify a) (classify t))
      | "CHECK_EQUAL" => some (CHECK_EQUAL (floatNe e a))
      | _ => none
    | _, _, _ => none
  | ["dcmp", o, e, a] =>
    match relOp? o, dbl? e, dbl? a with
    | some o, some e, some a => some (CHECK_COMPARE (floatRel o e a))
    | _, _, _ => none
  | ["cmp", o, te, ve, ta, va] =>
    match relOp? o, cint? te ve, cint? ta va with
    | some o, some e, some a => some (CHECK_COMPARE_int o e a)
    | _, _, _ => none
  | ["str", m, e, a, n] =>
    match str? e, str? a, n.toNat? with
    | some e, some a, some n => modelStr (baseName m) e a n
    | _, _, _ => none
  | ["mem", m, e, a, n] =>
    match str? e, str? a, n.toNat? with
    | some e, some a, some n =>
      match baseName m with
      | "MEMCMP_EQUAL" | "MEMCMP_EQUAL_TEXT" => some (MEMCMP_EQUAL e a n)
      | "C_MEMCMP" => some (CHECK_EQUAL_C_MEMCMP e a n)
      | _ => none
    | _, _, _ => none
  | ["bits", m, te, ve, ta, va, tm, vm] =>
    match cint? te ve, cint? ta va, cint? tm vm with
    | some e, some a, some k =>
      match baseName m with
      | "BITS_EQUAL" => some (BITS_EQUAL e.val a.val k.val (a.ty.w / 8))
      | "C_BITS" => some (CHECK_EQUAL_C_BITS e.val a.val k.val (a.ty.w / 8))
      | _ => none
    | _, _, _ => none
  | ["ptr", m, e, a] =>
    match e.toNat?, a.toNat? with
    | some e, some a =>
      match baseName m with
      | "POINTERS_EQUAL" | "POINTERS_EQUAL_TEXT" => some (POINTERS_EQUAL (BitVec.ofNat 64 e) (BitVec.ofNat 64 a))
      | "FUNCTIONPOINTERS_EQUAL" => some (FUNCTIONPOINTERS_EQUAL (BitVec.ofNat 64 e) (BitVec.ofNat 64 a))
      | "C_POINTER" => some (CHECK_EQUAL_C_POINTER (BitVec.ofNat 64 e) (BitVec.ofNat 64 a))
      | "CHECK_EQUAL" => some (CHECK_EQUAL (BitVec.ofNat 64 e != BitVec.ofNat 64 a))
      | _ => none
    | _, _ => none
  | ["fail", m] =>
    match m with
    | "FAIL" | "FAIL_TEST" => some FAIL
    | "C_FAIL" | "C_FAIL_TEXT" => some FAIL_C
    | _ => none
  | _ => none

def modelStep (_ : Unit) (op : List String) (_obs : List (List String)) : Unit × List String :=
  match op with
  | ["skip"] => ((), [])
  | _ =>
    match modelMulti op with
    | some ls => ((), ls)
    | none =>
      match modelOp op with
      | some o => ((), render o)
      | none => ((), ["bad-op"])

/-! ## specification oracle: the named mathematical predicate, on the implementation's `r` lines -/

/-- what the property demands of one executed check -/
structure Demand where
  /-- `some b`: a failure must be recorded iff `b`; `none`: the property does not say (operands
      outside its quantifier, e.g. negative tolerance) -/
  fails   : Option Bool
  counted : Nat

/-- the integer `v` read modulo 2^w as a signed / unsigned number (plain arithmetic) -/
def wrapU (w : Nat) (v : Int) : Int := v % (2 : Int) ^ w
def wrapS (w : Nat) (v : Int) : Int :=
  if wrapU w v < (2 : Int) ^ (w - 1) then wrapU w v else wrapU w v - (2 : Int) ^ w

def inRangeOf (t : CTy) (v : Int) : Bool :=
  if t.signed then decide (-(2 : Int) ^ (t.w - 1) ≤ v ∧ v < (2 : Int) ^ (t.w - 1))
  else decide (0 ≤ v ∧ v < (2 : Int) ^ t.w)

/-- does `b` occur in `a` as a contiguous block (textbook definition by positions) -/
def occursIn (b a : List UInt8) : Bool :=
  (List.range (a.length + 1)).any fun i => (a.drop i).take b.length == b

def lowerAscii (c : UInt8) : UInt8 := if c.toNat ≥ 65 && c.toNat ≤ 90 then UInt8.ofNat (c.toNat + 32) else c

/-- two's complement bit `i` of a mathematical integer -/
def bitOf (v : Int) (i : Nat) : Bool := (v / (2 : Int) ^ i) % 2 == 1

def nullRule (e a : Option (List UInt8)) (p : List UInt8 → List UInt8 → Bool) : Bool :=
  match e, a with
  | none, none => true
  | some x, some y => p x y
  | _, _ => false

def relInt : RelOp → Int → Int → Bool
  | .lt, a, b => decide (a < b) | .le, a, b => decide (a ≤ b) | .gt, a, b => decide (b < a)
  | .ge, a, b => decide (b ≤ a) | .eq, a, b => a == b | .ne, a, b => a != b

/-- usual arithmetic conversions keep the mathematical value of both operands: both have the same
    signedness after promotion, or every value involved is non-negative -/
def valuesKept (e a : CInt) : Bool :=
  let se := e.ty.signed || e.ty.w < 32      -- narrow unsigned types promote to (signed) int
  let sa := a.ty.signed || a.ty.w < 32
  (se == sa) || (decide (0 ≤ e.val) && decide (0 ≤ a.val))

def demandInt (m : String) (e a : CInt) : Option Demand :=
  let eqv (x y : Int) : Demand := { fails := some (x != y), counted := 1 }
  match m with
  | "LONGS_EQUAL" | "LONGS_EQUAL_TEXT" | "LONGLONGS_EQUAL" | "C_LONG" | "C_LONGLONG" => some (eqv (wrapS 64 e.val) (wrapS 64 a.val))
  | "UNSIGNED_LONGS_EQUAL" | "UNSIGNED_LONGLONGS_EQUAL" | "C_ULONG" | "C_ULONGLONG" => some (eqv (wrapU 64 e.val) (wrapU 64 a.val))
  | "BYTES_EQUAL" | "C_UBYTE" => some (eqv (wrapU 8 e.val) (wrapU 8 a.val))
  | "SIGNED_BYTES_EQUAL" | "C_SBYTE" | "C_CHAR" => some (eqv (wrapS 8 e.val) (wrapS 8 a.val))
  | "C_INT" => some (eqv (wrapS 32 e.val) (wrapS 32 a.val))
  | "C_UINT" => some (eqv (wrapU 32 e.val) (wrapU 32 a.val))
  | "C_BOOL" => some { fails := some ((wrapS 32 e.val != 0) != (wrapS 32 a.val != 0)), counted := 1 }
  | "CHECK_EQUAL" =>
    -- the operands' own `==`: mathematical equality whenever the language's conversions keep the values
    some { fails := if valuesKept e a then some (e.val != a.val) else none, counted := 1 }
  | _ => none

def demandDoubles (e a t : Float) : Demand :=
  if e.isNaN || a.isNaN then { fails := some true, counted := 1 }           -- NaN equals nothing
  else if t.isNaN || t < 0 then { fails := none, counted := 1 }             -- not a non-negative tolerance
  else { fails := some (!(e == a || Float.abs (e - a) ≤ t)), counted := 1 }

def demandOp (op : List String) : Option Demand :=
  match op with
  | ["zero", _, t, v] =>
    match cint? t v with
    | some a => some { fails := some (a.val != 0), counted := 1 }      -- 0 and `a` are both representable after conversion
    | none => none
  | ["throws", k] => some { fails := some (k != "expected"), counted := 1 }
  | ["int", m, te, ve, ta, va] =>
    match cint? te ve, cint? ta va with
    | some e, some a => demandInt (baseName m) e a
    | _, _ => none
  | ["enum", tu, te, ve, ta, va] =>
    match tyOf? tu, cint? te ve, cint? ta va with
    | some u, some e, some a =>
      let f := if u.signed then wrapS u.w else wrapU u.w
      some { fails := some (f e.val != f a.val), counted := 1 }
    | _, _, _ => none
  | ["bool", m, t, v] =>
    match cint? t v with
    | some x =>
      match baseName m with
      | "CHECK" | "CHECK_TRUE" => some { fails := some (x.val == 0), counted := 1 }
      | "CHECK_FALSE" => some { fails := some (x.val != 0), counted := 1 }
      | "CHECK_C" => some { fails := some (wrapS 32 x.val == 0), counted := 1 }
      | _ => none
    | none => none
  | ["boolx", m, o, a, b] =>
    -- the predicate the WHOLE condition names, on the two integers (written here directly, not through the model)
    match a.toInt?, b.toInt? with
    | some x, some y =>
      let whole : Option Bool :=
        match o with
        | "or" => some (x != 0 || y != 0)
        | "and" => some (x != 0 && y != 0)
        | "eq" => some (x == y)
        | "ne" => some (x != y)
        | "lt" => some (decide (x < y))
        | "cond" => some (if x != 0 then y != 0 else false)
        | _ => none
      match whole, baseName m with
      | some p, "CHECK" | some p, "CHECK_TRUE" | some p, "CHECK_C" => some { fails := some (!p), counted := 1 }
      | some p, "CHECK_FALSE" => some { fails := some p, counted := 1 }
      | _, _ => none
    | _, _ => none
  | ["dbl", m, e, a, t] =>
    match dbl? e, dbl? a, dbl? t with
    | some e, some a, some t =>
      match baseName m with
      | "DOUBLES_EQUAL" | "DOUBLES_EQUAL_TEXT" | "C_REAL" => some (demandDoubles e a t)
      | "CHECK_EQUAL" => some { fails := some (!(e == a)), counted := 1 }
      | _ => none
    | _, _, _ => none
  | ["dcmp", o, e, a] =>
    match relOp? o, dbl? e, dbl? a with
    | some o, some e, some a =>
      let holds := floatRel o e a
      some { fails := some (!holds), counted := if holds then 0 else 1 }
    | _, _, _ => none
  | ["cmp", o, te, ve, ta, va] =>
    match relOp? o, cint? te ve, cint? ta va with
    | some o, some e, some a =>
      if valuesKept e a then
        let holds := relInt o e.val a.val
        some { fails := some (!holds), counted := if holds then 0 else 1 }
      else none     -- judged below from the observation itself (counted = failures)
    | _, _, _ => none
  | ["str", m, e, a, n] =>
    match str? e, str? a, n.toNat? with
    | some e, some a, some n =>
      let p : Option (List UInt8 → List UInt8 → Bool) :=
        match baseName m with
        | "STRCMP_EQUAL" | "STRCMP_EQUAL_TEXT" | "C_STRING" => some (fun x y => x == y)
        | "STRNCMP_EQUAL" | "STRNCMP_EQUAL_TEXT" => some (fun x y => x.take n == y.take n)
        | "STRCMP_NOCASE_EQUAL" => some (fun x y => x.map lowerAscii == y.map lowerAscii)
        | "STRCMP_CONTAINS" => some (fun x y => occursIn x y)
        | "STRCMP_NOCASE_CONTAINS" => some (fun x y => occursIn (x.map lowerAscii) (y.map lowerAscii))
        | _ => none
      p.map fun p => { fails := some (!nullRule e a p), counted := 1 }
    | _, _, _ => none
  | ["mem", _, e, a, n] =>
    match str? e, str? a, n.toNat? with
    | some e, some a, some n =>
      some { fails := some (!(n == 0 || nullRule e a (fun x y => x.take n == y.take n))), counted := 1 }
    | _, _, _ => none
  | ["bits", m, te, ve, ta, va, tm, vm] =>
    match cint? te ve, cint? ta va, cint? tm vm with
    | some e, some a, some k =>
      -- the C entry point takes `unsigned int` parameters: 32 bit two's complement patterns, zero extended
      let (e', a', k') := if baseName m == "C_BITS" then (wrapU 32 e.val, wrapU 32 a.val, wrapU 32 k.val) else (e.val, a.val, k.val)
      let same := (List.range 64).all fun i => !(bitOf k' i) || (bitOf e' i == bitOf a' i)
      some { fails := some (!same), counted := 1 }
    | _, _, _ => none
  | ["ptr", _, e, a] =>
    match e.toNat?, a.toNat? with
    | some e, some a => some { fails := some (e != a), counted := 1 }
    | _, _ => none
  | ["fail", _] => some { fails := some true, counted := 1 }
  | _ => none

def obsR (obs : List (List String)) : Option (Nat × Nat) :=
  match obs with
  | [["r", f, c]] =>
    match f.toNat?, c.toNat? with
    | some f, some c => some (f, c)
    | _, _ => none
  | _ => none

/-- the `seq` statements as the property sees them: (does the check fail, how many checks does it count),
    `none` = TEST_EXIT.  Written from the meaning of the macros on the fixed operands of the harness. -/
def seqStep : String → Option (Option (Bool × Nat))
  | "cpp_pass" | "c_pass" | "equal_pass" | "throws_pass" => some (some (false, 1))
  | "cmp_pass" => some (some (false, 0))
  | "cpp_fail" | "c_fail" | "cmp_fail" | "str_null_fail" | "cstr_null_fail" | "fail" | "c_fail_text" | "mem_null_fail"
  | "throws_fail" | "dbl_fail" | "check_fail" | "c_check_fail" | "equal_fail" | "bits_fail" => some (some (true, 1))
  | "exit" => some none
  | _ => none

/-- expected (failures, checks, statements started): everything up to and including the first failing
    check or TEST_EXIT, nothing after it -/
def seqExpect : List (Option (Bool × Nat)) → Nat × Nat × Nat
  | [] => (0, 0, 0)
  | none :: _ => (0, 0, 1)
  | some (true, c) :: _ => (1, c, 1)
  | some (false, c) :: rest =>
    let (f, k, n) := seqExpect rest
    (f, c + k, n + 1)

def specSeq (crashMode : Bool) (steps : List String) (obs : List (List String)) : Option String :=
  let core : Option (List (List String) × Option String × Option String) :=
    match crashMode, obs with
    | false, [r, ran, ["failed", fl]] => some ([r, ran], some fl, none)
    | true, [r, ran, ["failed", fl], ["crashed", k]] => some ([r, ran], some fl, some k)   -- the crash count is compared with the model only
    | _, _ => none
  match core with
  | none => some "no `r`/`ran`/`failed`[/`crashed`] observation"
  | some (obs, fl, k) =>
  match steps.mapM seqStep, obs with
  | some st, [["r", f, c], ["ran", n]] =>
    match f.toNat?, c.toNat?, n.toNat? with
    | some f, some c, some n =>
      let (ef, ec, en) := seqExpect st
      if fl != some (if ef == 0 then "0" else "1") then
        some s!"the test's failed flag is {fl} after {ef} failing checks"
      else if n != en then some s!"{n} statements of the body were started, {en} expected (a failing check must end the test body)"
      else if f != ef then some s!"recorded {f} failures, expected {ef} (one failure per failing check, none after it)"
      else if c != ec then some s!"counted {c} checks, expected {ec}"
      else none
    | _, _, _ => some "malformed observation"
  | none, _ => some "bad-op"
  | _, _ => some "no `r`/`ran` observation"

/-- operands with side effects: the property only fixes the counting (one check, at most one failure; a passing
    comparison counts nothing); the verdict is demanded when the operands are pure (step 0) -/
def specEvals (m : String) (e0 es a0 as : Int) (obs : List (List String)) : Option String :=
  match obs with
  | [["r", f, c], ["evals", _, _], ["warn", _]] =>
    match f.toNat?, c.toNat? with
    | some f, some c =>
      if f > 1 then some s!"recorded {f} failures for one check"
      else if m == "CHECK_COMPARE_lt" then
        if c != f then some s!"comparison recorded {f} failures but counted {c} checks"
        else if es == 0 && as == 0 && (f == 1) != !(decide (e0 < a0)) then some "verdict differs from e < a"
        else none
      else if m == "CHECK_COMPARE_ge" then
        if c != f then some s!"comparison recorded {f} failures but counted {c} checks"
        else if es == 0 && as == 0 && (f == 1) != !(decide (e0 ≥ a0)) then some "verdict differs from e >= a"
        else none
      else
        -- the predicate the macro names, on pure operands (values -5 .. 5 in an int)
        let differ : Bool :=
          match m with
          | "BYTES_EQUAL" | "BITS_EQUAL" | "C_UBYTE" | "C_BITS" => wrapU 8 e0 != wrapU 8 a0
          | "SIGNED_BYTES_EQUAL" => wrapS 8 e0 != wrapS 8 a0
          | "C_BOOL" => (e0 != 0) != (a0 != 0)
          | "CHECK" | "CHECK_TRUE" | "CHECK_C" => e0 == 0
          | "CHECK_FALSE" => e0 != 0
          | "CHECK_EQUAL_ZERO" => a0 != 0
          | _ => e0 != a0
        if c != 1 then some s!"counted {c} checks, the property demands 1"
        else if es == 0 && as == 0 && (f == 1) != differ then some "verdict differs from the named predicate on the (pure) operands"
        else none
    | _, _ => some "malformed observation"
  | _ => some "no `r`/`evals`/`warn` observation"

def specOp (o : Proto.Op) : Option String :=
  match o.op with
  | ["skip"] => none
  | "seq" :: steps => specSeq false steps o.obs
  | "seqc" :: steps => specSeq true steps o.obs
  | ["evals", m, e0, es, a0, as] =>
    match e0.toInt?, es.toInt?, a0.toInt?, as.toInt? with
    | some e0, some es, some a0, some as => specEvals m e0 es a0 as o.obs
    | _, _, _, _ => some "bad-op"
  | "cmp" :: _ =>
    match obsR o.obs, demandOp o.op with
    | none, _ => some "no `r` observation"
    | some (f, c), some d =>
      if c != d.counted then some s!"counted {c} checks, the property demands {d.counted}"
      else if d.fails != some (f == 1) || f > 1 then some s!"recorded {f} failures, the predicate demands {d.fails}"
      else none
    | some (f, c), none =>
      -- a value changing conversion made by the language before the check sees the operands:
      -- only the counting rule is demanded (a passing comparison counts nothing, a failing one 1)
      if f > 1 then some s!"recorded {f} failures for one check"
      else if c != f then some s!"comparison recorded {f} failures but counted {c} checks"
      else none
  | _ =>
    match obsR o.obs, demandOp o.op with
    | none, _ => some "no `r` observation"
    | _, none => some "bad-op"
    | some (f, c), some d =>
      if c != d.counted then some s!"counted {c} checks, the property demands {d.counted}"
      else if f > 1 then some s!"recorded {f} failures for one check"
      else match d.fails with
        | some b => if b != (f == 1) then
            some s!"recorded {f} failures but the named predicate is {if b then "false" else "true"} for the operands"
          else none
        | none => none

def specAll (ops : List Proto.Op) : Option String :=
  let rec go (i : Nat) : List Proto.Op → Option String
    | [] => none
    | o :: rest =>
      match specOp o with
      | some e => some s!"op#{i} {" ".intercalate o.op}: {e}"
      | none => go (i + 1) rest
  go 0 ops

def main : IO Unit :=
  Proto.driverMain { init := (), step := modelStep, spec := specAll }
