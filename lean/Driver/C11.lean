import CppUModel.Base.Proto
import CppUModel.Model.SeparateProcess
import CppUModel.Model.SeparateProcessArgv
import CppUModel.Spec.SeparateProcess
/-!
Driver for C11: replays the harness traces through the separate-process model and judges the
implementation's observations with the property's specification oracle.  The oracle reads a wait
status with `SepProc.classify` (textbook `%` / `/` reading), never with the model's macros, walks
the scripted or recorded events itself and knows nothing about `parentLoop`.
Imports Base/Model/Spec/Gen only.
-/
open SepProc

/-! ## the case description, read from the op lines -/

structure TSpec where
  real      : Bool := false
  forkFails : Bool := false
  outs      : List WaitOutcome := []       -- stubbed: scripted waitpid results
  phase     : String := ""
  actions   : List (String × Nat) := []
  inject    : Nat := 0
  group     : Nat := 0
  tick      : Nat := 0                     -- > 0: periodic signal (no SA_RESTART) while the parent waits
  ign       : Bool := false                -- the registry entry is an IgnoredUtestShell
deriving Inhabited

structure DState where
  tests : Array TSpec := #[]
  ran   : Bool := false
  cli   : Bool := false                    -- the run goes through CommandLineTestRunner with `-p`
  cliArgs : List String := []              -- argv after the program name
  nproc0 : Bool := false                   -- the runner cannot fork (RLIMIT_NPROC 0): the real fork seam fails
  nofork : Bool := false                   -- the harness links the build variant without fork/waitpid/kill
  ri     : Bool := false                   -- registry.setRunIgnored() (API mode)
deriving Inhabited

def hexNat? (s : String) : Option Nat :=
  if s.isEmpty then none else
  s.toList.foldl (fun acc c => match acc, Proto.hexVal? c with
    | some a, some v => some (a * 16 + v)
    | _, _ => none) (some 0)

def parseActions : List String → Option (List (String × Nat))
  | [] => some []
  | a :: n :: rest =>
    match n.toNat?, parseActions rest with
    | some n, some r => some ((a, n) :: r)
    | _, _ => none
  | _ => none

def validCliArg (a : String) : Bool :=
  ["-p", "-c", "-v", "-vv", "-ojunit", "-oteamcity", "-r1", "-b", "-ri", "-gg", "-nt", "-xgZZZ", "-xnZZZ",
   "-r", "-r2", "-r3", "-s", "1", "2", "3"].contains a ||
  (match a.toList with
   | '-' :: 's' :: d :: rest => '1' ≤ d && d ≤ '9' && rest.length ≤ 4 && rest.all Char.isDigit
   | _ => false)

/-- a count / seed as an argument of its own is accepted only directly after a bare `-r` / `-s` -/
def cliNumbersPlaced : Option String → List String → Bool
  | _, [] => true
  | prev, a :: rest =>
    (!(["1", "2", "3"].contains a) || prev == some "-r" || prev == some "-s") && cliNumbersPlaced (some a) rest

/-- the argument vector as the parser model reads it (`CommandLine.parse`, property C12's model, read-only) -/
def argvConfig (args : List String) : CommandLine.Config := parsedConfig (args.map (fun a => a.toUTF8.toList))

/-- the model's reading of the argument vector, written back as switches: everything the model computes for a
    command-line run goes through the parsed configuration, never through the raw words -/
def canonicalArgs (args : List String) : List String :=
  let c := argvConfig args
  (if c.separateProcess then ["-p"] else []) ++ (if c.runIgnored then ["-ri"] else []) ++
  (if c.reversing then ["-b"] else []) ++ (if c.shuffling then ["-s1"] else []) ++
  (if c.verbose then ["-v"] else []) ++ (if c.veryVerbose then ["-vv"] else []) ++ (if c.color then ["-c"] else []) ++
  (if c.output == .junit then ["-ojunit"] else if c.output == .teamcity then ["-oteamcity"] else [])

/-- the switches `initializeTestRun` looks at -/
def cliSwitches (args : List String) : CliArgs :=
  { verbose := args.contains "-v", veryVerbose := args.contains "-vv", color := args.contains "-c",
    separateProcess := args.contains "-p", runIgnored := args.contains "-ri", crashOnFail := false }

def cliReverse (args : List String) : Bool := args.contains "-b"
def cliShuffle (args : List String) : Bool := args.any (fun a => a.startsWith "-s")
/-- JUnit output without a console beside it (the last `-o` wins; `-v`/`-vv` add a console) -/
def cliJUnitOnly (args : List String) : Bool :=
  (args.filter (fun a => a.startsWith "-o")).getLast? == some "-ojunit" && !args.contains "-v" && !args.contains "-vv"

def phases : List String := ["pre", "setup", "body", "teardown", "post"]

/-- apply one op line to the description; `none` = the harness skips this line -/
def applyOp (d : DState) (op : List String) : Option DState :=
  if d.ran then none else
  match op with
  | ["tests", n] =>
    match n.toNat? with
    | some n => if d.tests.isEmpty && 1 ≤ n && n ≤ 512 then some { d with tests := Array.replicate n {} } else none
    | none => none
  | ["fork", t, "fail"] =>
    match t.toNat? with
    | some t => if t < d.tests.size then some { d with tests := d.tests.modify t (fun s => { s with forkFails := true }) } else none
    | none => none
  | ["w", t, "eintr"] =>
    match t.toNat? with
    | some t => if t < d.tests.size && !(d.tests[t]!).real then
        some { d with tests := d.tests.modify t (fun s => { s with outs := s.outs ++ [.eintr] }) } else none
    | none => none
  | ["w", t, "err", e] =>
    match t.toNat?, e.toInt? with
    | some t, some e => if t < d.tests.size && !(d.tests[t]!).real && e != 4 then
        some { d with tests := d.tests.modify t (fun s => { s with outs := s.outs ++ [.error] }) } else none
    | _, _ => none
  | ["w", t, "st", h] =>
    match t.toNat?, hexNat? h with
    | some t, some v => if t < d.tests.size && !(d.tests[t]!).real then
        some { d with tests := d.tests.modify t (fun s => { s with outs := s.outs ++ [.status (BitVec.ofNat 32 v)] }) } else none
    | _, _ => none
  | ["inj", t, k] =>
    match t.toNat?, k.toNat? with
    | some t, some k => if t < d.tests.size then some { d with tests := d.tests.modify t (fun s => { s with inject := k }) } else none
    | _, _ => none
  | ["grp", t, g] =>
    match t.toNat?, g.toNat? with
    | some t, some g => if t < d.tests.size && g < 1000 then some { d with tests := d.tests.modify t (fun s => { s with group := g }) } else none
    | _, _ => none
  | ["ign", t] =>
    match t.toNat? with
    | some t => if t < d.tests.size then some { d with tests := d.tests.modify t (fun s => { s with ign := true }) } else none
    | none => none
  | ["ri"] => if !d.tests.isEmpty && !d.ri then some { d with ri := true } else none
  | ["tick", t, us] =>
    match t.toNat?, us.toNat? with
    | some t, some us => if t < d.tests.size && 100 ≤ us && us ≤ 1000000 then
        some { d with tests := d.tests.modify t (fun s => { s with tick := us }) } else none
    | _, _ => none
  | "cli" :: args =>
    if !d.tests.isEmpty && !d.cli && args.length ≤ 10 && args.all validCliArg && cliNumbersPlaced none args &&
       (args.isEmpty || args.contains "-p") then
      some { d with cli := true, cliArgs := if args.isEmpty then ["-p"] else args }
    else none
  | ["nofork"] => if d.tests.isEmpty then some { d with nofork := true } else none
  | "real" :: t :: ph :: acts =>
    match t.toNat?, parseActions acts with
    | some t, some a =>
      if t < d.tests.size && (d.tests[t]!).outs.isEmpty && phases.contains ph then
        some { d with tests := d.tests.modify t (fun s => { s with real := true, phase := ph, actions := a }) }
      else none
    | _, _ => none
  | _ => none

/-! ## what the implementation printed after `run` -/

structure TObs where
  started  : Bool := false
  ended    : Bool := false
  forked   : List String := []
  rwaits   : List WaitOutcome := []
  rlines   : List String := []
  starved  : Bool := false
  consumed : Option Nat := none
  conts    : Option Nat := none
  fails    : List String := []            -- message texts
  inrunner : Bool := false                -- the test's code ran inside the runner process
  ticks    : Option Nat := none           -- handler invocations while the parent waited (tick scenario)
  elapsed  : Nat := 0
deriving Inhabited

structure RunObs where
  per      : Array TObs
  order    : List Nat := []               -- started, in order
  runcount : Option Nat := none
  failures : Option Nat := none
  overall  : String := ""
  summary  : String := ""
  exitcode : Option Nat := none
  deadline : Bool := false
  crash    : Bool := false
  bad      : List String := []

def bytesToString (bs : List UInt8) : String :=
  String.ofList (bs.map (fun b => Char.ofNat b.toNat))

def parseWait : List String → Option WaitOutcome
  | ["eintr"] => some .eintr
  | ["err", _] => some .error
  | ["st", h] => (hexNat? h).map (fun v => .status (BitVec.ofNat 32 v))
  | _ => none

def RunObs.complain (r : RunObs) (l : List String) : RunObs :=
  { r with bad := r.bad ++ [" ".intercalate l] }

/-- update the record of test `t` (a decimal word); out-of-range or malformed is recorded as bad -/
def RunObs.upd (r : RunObs) (l : List String) (t : String) (f : TObs → TObs) : RunObs :=
  match t.toNat? with
  | some t => if t < r.per.size then { r with per := r.per.modify t f } else r.complain l
  | none => r.complain l

def readLine (r : RunObs) (l : List String) : RunObs :=
  match l with
  | ["started", t] =>
    let r := r.upd l t (fun o => { o with started := true })
    match t.toNat? with
    | some t => { r with order := r.order ++ [t] }
    | none => r
  | ["ended", t] => r.upd l t (fun o => { o with ended := true })
  | ["forked", t, k] => r.upd l t (fun o => { o with forked := o.forked ++ [k] })
  | "rwait" :: t :: rest =>
    match parseWait rest with
    | some w => r.upd l t (fun o => { o with rwaits := o.rwaits ++ [w], rlines := o.rlines ++ [" ".intercalate l] })
    | none => r.complain l
  | ["starved", t] => r.upd l t (fun o => { o with starved := true })
  | ["ticks", t, n, ms] =>
    match n.toNat?, ms.toNat? with
    | some n, some ms => r.upd l t (fun o => { o with ticks := some n, elapsed := ms })
    | _, _ => r.complain l
  | ["inrunner", t] => r.upd l t (fun o => { o with inrunner := true })
  | ["exitcode", c] => { r with exitcode := c.toNat? }
  | ["consumed", t, c] =>
    match c.toNat? with
    | some c => r.upd l t (fun o => { o with consumed := some c })
    | none => r.complain l
  | ["conts", t, c] =>
    match c.toNat? with
    | some c => r.upd l t (fun o => { o with conts := some c })
    | none => r.complain l
  | ["fail", t, h] =>
    match Proto.unhex? h with
    | some bs => r.upd l t (fun o => { o with fails := o.fails ++ [bytesToString bs] })
    | none => r.complain l
  | ["runcount", c] => { r with runcount := c.toNat? }
  | ["failures", c] => { r with failures := c.toNat? }
  | ["overall", v] => { r with overall := v }
  | ["summary", v] => { r with summary := v }
  | "deadline" :: _ => { r with deadline := true }
  | "crash" :: _ => { r with crash := true }
  | _ => r

def readObs (n : Nat) (obs : List (List String)) : RunObs :=
  obs.foldl readLine { per := Array.replicate n {} }

/-! ## model replay -/

def hexOfString (s : String) : String := Proto.hex s.toUTF8.toList

def terminatingSignals : List Nat :=
  [1, 2, 3, 4, 5, 6, 7, 8, 9, 10, 11, 12, 13, 14, 15, 16, 24, 25, 26, 27, 29, 30, 31]

def hexNatStr (n : Nat) : String := String.ofList (Nat.toDigits 16 n)

/-- what the child does, as steps of the child-side model: a plugin action's `fail K` adds K+1
    failures and goes on, a failed check in setup/body/teardown adds one and leaves the phase,
    `exit n` and a terminating signal end the process -/
def childSteps (phase : String) : List (String × Nat) → List ChildStep
  | [] => []
  | (a, n) :: rest =>
    if a == "fail" then
      (if phase == "pre" || phase == "post" then .adds (min n 1023 + 1) :: childSteps phase rest else [.adds 1])
    else if a == "exit" then [.dies (BitVec.ofNat 32 (n % 256 * 256))]
    else if a == "signal" && terminatingSignals.contains n then [.dies (BitVec.ofNat 32 n)]
    else childSteps phase rest

def stepsAdded : List ChildStep → Option Nat
  | [] => some 0
  | .adds k :: rest => (stepsAdded rest).map (k + ·)
  | .dies _ :: _ => none

/-- the status the child ends with: the hand model (`childStatus`) and, for a child that reaches its
    `_exit`, the argument regenerated from the AST (`genChildStatus`) — printed only when they agree -/
def childStatusLine (t initial : Nat) (s : TSpec) : String :=
  let steps := childSteps s.phase s.actions
  let hand := childStatus initial initial steps
  match stepsAdded steps with
  | some k =>
    let g := genChildStatus initial (initial + k)
    if g == hand then s!"childst {t} {hexNatStr hand.toNat}" else s!"childst {t} model-hand={hexNatStr hand.toNat} model-ast={hexNatStr g.toNat}"
  | none => s!"childst {t} {hexNatStr hand.toNat}"

/-- scripts the model runs: a stubbed test's list is followed by the harness stub's answer to
    every further call (exit status 0, flagged `starved`); a real test's list is what the real
    waitpid returned -/
def scriptOf (s : TSpec) (o : TObs) : TestScript :=
  if s.real then { forkOk := !s.forkFails && o.forked != ["realfail"], outs := o.rwaits }
  else { forkOk := !s.forkFails, outs := s.outs ++ [.status 0#32] }

def modelTestLines (t initial : Nat) (s : TSpec) (o : TObs) : List String :=
  let sc := scriptOf s o
  let r := runSeparate sc
  let realFail := s.real && o.forked == ["realfail"]
  let head := [s!"started {t}", s!"forked {t} " ++
    (if s.forkFails then "fail" else if realFail then "realfail" else if s.real then "real" else "ok")]
  let env := if s.real && !s.forkFails && !realFail then (o.rlines.take r.consumed) else []
  let starved :=
    if s.real then (if r.ended == .starved then [s!"starved {t}"] else [])
    else (if r.consumed > s.outs.length then [s!"starved {t}"] else [])
  let counts := if s.real then [] else [s!"consumed {t} {r.consumed}", s!"conts {t} {r.conts}"]
  -- the parent's failures: the hand model's, which must be what the function regenerated from the AST adds
  let g := genRunSeparate sc
  let fails := if g == r.gen then r.failures.map (fun f => s!"fail {t} {hexOfString f.text}")
               else [s!"fail {t} model-hand-and-model-ast-differ"]
  let childst := if s.real && r.ended == .childGone && !s.forkFails && !realFail then [childStatusLine t initial s] else []
  head ++ env ++ starved ++ counts ++ childst ++ fails ++ [s!"ended {t}"]

/-- a test the registry does not fork runs inside the runner (never happens with the placement
    the source has; kept so that the model follows the regenerated placement) -/
def inRunnerLines (t : Nat) (s : TSpec) : List String :=
  [s!"started {t}", s!"inrunner {t}"] ++ (if s.real then [] else [s!"consumed {t} 0", s!"conts {t} 0"]) ++ [s!"ended {t}"]

/-- how many failure texts the child itself prints (ConsoleTestOutput flushes after every print,
    and the child shares the parent's stdout): one per `fail` action that is reached; a failed
    check in setup/body/teardown leaves the phase, a plugin's `result.addFailure` does not -/
def childTexts (phase : String) : List (String × Nat) → Nat
  | [] => 0
  | (a, n) :: rest =>
    if a == "fail" then (if phase == "pre" || phase == "post" then (min n 1023 + 1) + childTexts phase rest else 1)
    else if a == "exit" then 0
    else if a == "signal" && terminatingSignals.contains n then 0
    else childTexts phase rest

def isPermOfRange (l : List Nat) (n : Nat) : Bool :=
  l.length == n && (List.range n).all (fun t => l.contains t)

/-- the order in which the registry holds the tests: as added; reversed by `-b`; with `-s` whatever
    `rand()` made of it (taken from the implementation's `started` lines, an environment input) -/
def runOrder (d : DState) (ro : RunObs) : List Nat :=
  let n := d.tests.size
  if d.cli && cliShuffle d.cliArgs then (if isPermOfRange ro.order n then ro.order else List.range n)
  else if d.cli && cliReverse d.cliArgs then (List.range n).reverse
  else List.range n

/-- is run-ignored in effect for this run (API: `ri`; command line: `-ri` as `initializeTestRun` forwards it) -/
def runIgnoredIn (d : DState) : Bool :=
  if d.cli then runIgnoredOn (cliSwitches d.cliArgs) else d.ri

/-- an `IGNORE_TEST` entry without run-ignored is only counted as ignored -/
def notRunIn (d : DState) (t : Nat) : Bool := (d.tests[t]!).ign && !runIgnoredIn d

def notRunLines (t : Nat) (s : TSpec) : List String :=
  [s!"started {t}"] ++ (if s.real then [] else [s!"consumed {t} 0", s!"conts {t} 0"]) ++ [s!"ended {t}"]

/-- what the model says about one repetition of the run -/
structure RoundOut where
  per        : List String := []
  started    : Nat := 0
  runCount   : Nat := 0
  failures   : Nat := 0
  overall    : Bool := false
  failedExec : Bool := false               -- `tr.isFailure()` of this repetition
  texts      : List (Nat × Nat) := []      -- cli: (test, failure texts its child prints)

/-- the fork-less build: every test gets the platform's one failure, nothing is forked -/
def modelRoundNoFork (d : DState) (ro : RunObs) : RoundOut :=
  let n := d.tests.size
  let order := runOrder d ro
  let scripts : List TestScript := (List.range n).map (fun _ => { forkOk := true, outs := [] })
  let st := runAllOn .withoutFork scripts
  let per := st.started.flatMap (fun p =>
    let t := order.getD p 0
    let s := d.tests[t]!
    [s!"started {t}"] ++ (if s.real then [] else [s!"consumed {t} 0", s!"conts {t} 0"]) ++
    ((st.failures.filter (·.1 == p)).map (fun f => s!"fail {t} {hexOfString f.2.text}")) ++ [s!"ended {t}"])
  { per := per, started := st.runCount, runCount := st.runCount, failures := st.failureCount,
    overall := st.overallFailure, failedExec := st.exitCode != 0 }

def modelRound (d : DState) (obs : List (List String)) : RoundOut :=
  let n := d.tests.size
  let ro := readObs n obs
  if d.nofork then modelRoundNoFork d ro else
  let order := runOrder d ro
  let regs : List KTest := order.map (fun t =>
    { kind := if (d.tests[t]!).ign then .ignored else .normal,
      group := (d.tests[t]!).group, script := scriptOf (d.tests[t]!) (ro.per[t]!) })
  let st := if d.cli then runCommandLineKinds (cliSwitches d.cliArgs) regs else runKinds d.ri regs
  let testAt (p : Nat) : Nat := order.getD p 0
  let per := st.started.flatMap (fun p =>
    let t := testAt p
    if st.inRunner.contains p then inRunnerLines t (d.tests[t]!)
    else if notRunIn d t then notRunLines t (d.tests[t]!)
    else modelTestLines t ((st.failures.filter (·.1 < p)).length) (d.tests[t]!) (ro.per[t]!))
  let texts := if d.cli then
      (List.range n).filterMap (fun t =>
        let s := d.tests[t]!
        if s.real && s.inject == 0 && !s.forkFails then
          some (t, if (ro.per[t]!).forked == ["realfail"] then 0
                   else if cliJUnitOnly d.cliArgs || notRunIn d t then 0 else childTexts s.phase s.actions) else none)
    else []
  -- API mode prints `TestResult::getRunCount()`, cli mode the number of tests the output saw starting
  { per := per, started := st.started.length, runCount := st.runCount, failures := st.failureCount,
    overall := st.overallFailure, failedExec := st.exitCode != 0, texts := texts }

/-- the observation lines of the repetitions: the first one's, then what follows each `round K` line -/
def splitRoundsGo : List (List String) → List (List (List String)) → List (List String) → List (List (List String))
  | cur, acc, [] => acc ++ [cur]
  | cur, acc, l :: rest =>
    if l.head? == some "round" then splitRoundsGo [] (acc ++ [cur]) rest
    else splitRoundsGo (cur ++ [l]) acc rest

def splitRounds (obs : List (List String)) : List (List (List String)) := splitRoundsGo [] [] obs

/-- `CommandLineTestRunner::runAllTests`: the parsed repeat count says how often the registry is run (each
    repetition after the first announced by the harness as `round K`); counts add up, the exit code is
    `failedTestCount != 0 ? failedTestCount : failedExecutionCount` -/
def modelRun (d0 : DState) (obs : List (List String)) : List String :=
  -- a command-line run is driven by the PARSED argument vector
  let d := if d0.cli then { d0 with cliArgs := canonicalArgs d0.cliArgs } else d0
  let reps := if d0.cli then (argvConfig d0.cliArgs).repeatCount else 1
  let segs := if reps ≤ 1 then [obs] else (List.range reps).map (fun k => (splitRounds obs).getD k [])
  let outs := segs.map (modelRound d)
  let per := if reps ≤ 1 then (outs.flatMap (·.per))
             else (List.range reps).flatMap (fun k => (if k == 0 then [] else [s!"round {k + 1}"]) ++ ((outs.getD k {}).per))
  let started := (outs.map (·.started)).sum
  let runCount := (outs.map (·.runCount)).sum
  let failures := (outs.map (·.failures)).sum
  let errs := outs.any (·.overall)
  let oks := outs.any (fun o => !o.overall)
  let exitCode := exitCodeOfRounds (outs.map (fun o => (o.failures, o.failedExec)))
  let summary := if errs && oks then (if d.cli && cliJUnitOnly d.cliArgs then "errors" else "unclear")
                 else if errs then "errors" else "ok"
  let lastTexts := (outs.getLast?.map (·.texts)).getD []
  let realFailLast (t : Nat) : Bool := ((readObs d.tests.size (segs.getLast?.getD [])).per[t]!).forked == ["realfail"]
  let texts := (lastTexts.filter (fun (t, _) => !realFailLast t)).map (fun (t, _) =>
    s!"childtext {t} {(outs.map (fun o => ((o.texts.find? (·.1 == t)).map (·.2)).getD 0)).sum}")
  per ++ [s!"runcount {if d.cli then started else runCount}", s!"failures {failures}",
          "overall " ++ (if errs then "fail" else "ok")] ++
         (if d.cli then [s!"exitcode {exitCode}"] else []) ++
         ["summary " ++ summary] ++ (if d.nofork then [] else texts)

def modelStep (d : DState) (op : List String) (obs : List (List String)) : DState × List String :=
  match op with
  | ["skip"] => (d, [])
  | ["nproc0"] =>
    -- environment: could the harness make fork fail?  (echoed; when it could not, nothing is run)
    if d.ran || d.tests.isEmpty || d.nproc0 then (d, ["bad-op"])
    else if obs.any (· == ["forkfail", "unsupported"]) then ({ d with nproc0 := true, ran := true }, ["forkfail unsupported"])
    else ({ d with nproc0 := true }, ["forkfail supported"])
  | ["run"] => if d.ran || d.tests.isEmpty then (d, ["bad-op"]) else ({ d with ran := true }, modelRun d obs)
  | _ =>
    match applyOp d op with
    | some d' => (d', [])
    | none => (d, ["bad-op"])

/-! ## specification oracle -/

def contains (s sub : String) : Bool := (s.splitOn sub).length > 1

/-- the decimal number that follows the last occurrence of "signal " in a message -/
def signalNumberIn (msg : String) : Option Nat :=
  match (msg.splitOn "signal ").reverse with
  | last :: _ :: _ => (last.takeWhile Char.isDigit).toString.toNat?
  | _ => none

/-- failure classes as the oracle recognises them in a message text -/
inductive OClass
  | exitFail | killed (n : Nat) | stopped | fork | wait | giveUp
deriving Repr, DecidableEq

def OClass.describe : OClass → String
  | .exitFail => "failed-in-separate-process"
  | .killed n => s!"killed-by-signal-{n}"
  | .stopped => "stopped"
  | .fork => "fork-failed"
  | .wait => "waitpid-failed"
  | .giveUp => "waitpid-EINTR-giving-up"

def OClass.matchesText (c : OClass) (msg : String) : Bool :=
  match c with
  | .exitFail => contains msg "Failed in separate process" && !contains msg "signal"
  | .killed n => contains msg "killed by signal" && signalNumberIn msg == some n
  | .stopped => contains msg "Stopped"
  | .fork => contains msg "fork"
  | .wait => contains msg "waitpid" && !contains msg "EINTR"
  | .giveUp => contains msg "waitpid" && contains msg "EINTR"

/-- expected item: class, and whether it may be absent -/
structure Exp where
  cls      : OClass
  optional : Bool := false

/-- do the observed messages match the expected sequence (in order; optional items may be
    missing; when `lenient`, extra messages are tolerated between the expected ones) -/
def matchSeq (lenient : Bool) : List Exp → List String → Bool
  | [], [] => true
  | [], _ :: _ => lenient
  | e :: es, [] => e.optional && matchSeq lenient es []
  | e :: es, m :: ms =>
    (e.cls.matchesText m && matchSeq lenient es ms)
    || (e.optional && matchSeq lenient es (m :: ms))
    || (lenient && matchSeq lenient (e :: es) ms)

def describeExp (es : List Exp) : String :=
  "[" ++ ", ".intercalate (es.map (fun e => e.cls.describe ++ (if e.optional then "?" else ""))) ++ "]"

/-- The property asks for *a* bound on the retries, not for a particular one.  The oracle takes
    the bound the source currently states (regenerated `retryBound`, the `N` of
    `amountOfRetries > N`): up to `N` interrupted waits must be retried (giving up earlier loses the
    child), and after `N + 2` the parent must have given up (the code's counting is off by one or
    two against its own message, which the property does not constrain). -/
def retriesPromised : Nat := Gen.SepProcC.retryBound
def retriesSlack : Nat := 2

/-- tick scenario: from this many signal deliveries during one wait on, the parent must have given
    up (generous margin over `retriesPromised + retriesSlack`: a few signals may land between two
    waitpid calls instead of interrupting one) -/
def tickDemand : Nat := max 100 (3 * (retriesPromised + retriesSlack))

def expOfClass : StatusClass → List Exp
  | .exited 0 => []
  | .exited _ => [{ cls := .exitFail }]
  | .signaled n => [{ cls := .killed n }]
  | .stopped _ => [{ cls := .stopped }]
  | .other => []

structure Walk where
  exp     : List Exp := []
  eintrs  : Nat := 0
  stops   : Nat := 0
  lenient : Bool := false

/-- walk the `c` wait results the parent used: every one but the last must leave the child
    alive, the last must end the waiting -/
def walkWaits (t : Nat) (outs : List WaitOutcome) (c : Nat) : Except String Walk := do
  let mut w : Walk := {}
  let mut i := 0
  for o in outs.take c do
    let last := i + 1 == c
    match o with
    | .eintr =>
      w := { w with eintrs := w.eintrs + 1 }
      if last then
        if w.eintrs ≤ retriesPromised then
          throw s!"test {t}: the parent gave up waiting after only {w.eintrs} interrupted waits (child lost)"
        w := { w with exp := w.exp ++ [{ cls := .giveUp }] }
      else if w.eintrs > retriesPromised + retriesSlack then
        throw s!"test {t}: the parent retried an interrupted wait more than {retriesPromised + retriesSlack} times (unbounded retry)"
    | .error =>
      if !last then throw s!"test {t}: the parent went on waiting after waitpid had failed"
      w := { w with exp := w.exp ++ [{ cls := .wait }] }
    | .status s =>
      let k := classify s
      if k.terminal && !last then throw s!"test {t}: the parent went on waiting after the child was gone (wait result {i})"
      if !k.terminal && last then throw s!"test {t}: the parent stopped waiting although the child was neither exited nor killed (wait result {i}, child lost)"
      if k == .other then w := { w with lenient := true }
      if k.isStopped then w := { w with stops := w.stops + 1 }
      w := { w with exp := w.exp ++ expOfClass k }
    i := i + 1
  return w

def ignoredSignals : List Nat := [17, 18, 23, 28]
def ttyStopSignals : List Nat := [20, 21, 22]       -- discarded instead of stopping in an orphaned process group

/-- what a real child does, from its action list: expected failures and whether it ends by itself -/
def realExpected (phase : String) : List (String × Nat) → Bool → List Exp
  | [], failed => if failed then [{ cls := .exitFail }] else []
  | (a, n) :: rest, failed =>
    if a == "stop" then { cls := .stopped } :: realExpected phase rest failed
    else if a == "exit" then (if n % 256 == 0 then [] else [{ cls := .exitFail }])
    else if a == "fail" then
      (if phase == "pre" || phase == "post" then realExpected phase rest true else [{ cls := .exitFail }])
    else if a == "signal" then
      if terminatingSignals.contains n then [{ cls := .killed n }]
      else if n == 19 then { cls := .stopped } :: realExpected phase rest failed
      else if ttyStopSignals.contains n then { cls := .stopped, optional := true } :: realExpected phase rest failed
      else realExpected phase rest failed
    else realExpected phase rest failed

def specTest (t : Nat) (s : TSpec) (o : TObs) : Except String Unit := do
  if !o.started then throw s!"test {t} was not run (a later test did not run after an earlier one died)"
  if o.inrunner then throw s!"test {t} was executed inside the runner process although separate-process mode was requested (not forked)"
  if !o.ended then throw s!"test {t} was started but the parent never finished it"
  if o.forked.length != 1 then throw s!"test {t}: fork called {o.forked.length} times"
  if s.forkFails || o.forked == ["realfail"] then
    if !(matchSeq false [{ cls := .fork }] o.fails) then
      throw s!"test {t}: fork failed, expected exactly one fork failure, got {o.fails}"
    if o.consumed.getD 0 != 0 || !o.rwaits.isEmpty then throw s!"test {t}: waited although fork had failed"
    return
  if !s.real then
    let some c := o.consumed | throw s!"test {t}: no consumed line"
    let outs := s.outs ++ [.status 0#32]
    if c == 0 then throw s!"test {t}: the parent never waited for its child"
    if c > outs.length then throw s!"test {t}: more waits than the harness can answer"
    let w ← walkWaits t outs c
    if !(matchSeq w.lenient w.exp o.fails) then
      throw s!"test {t}: failures recorded {o.fails} but the events were {describeExp w.exp} (one failure per death event, none for a normal exit)"
    if o.conts.getD 0 != w.stops then
      throw s!"test {t}: {w.stops} stop events but {o.conts.getD 0} SIGCONT sent (a stopped child would never go on)"
  else if s.tick > 0 && s.inject == 0 then
    -- a real child while a periodic signal (handler without SA_RESTART) interrupts the parent's REAL waitpid:
    -- interrupted waits must be retried a bounded number of times
    let base := realExpected s.phase s.actions false
    let eintrs := (o.rwaits.filter WaitOutcome.isEintr).length
    let ticks := o.ticks.getD 0
    let gaveUp := o.fails.any (OClass.giveUp.matchesText ·)
    if gaveUp then
      if !(matchSeq true [{ cls := .giveUp }] o.fails) || (o.fails.filter (OClass.giveUp.matchesText ·)).length != 1 then
        throw s!"test {t}: interrupted waits: expected exactly one giving-up failure, got {o.fails}"
      if eintrs ≤ retriesPromised then
        throw s!"test {t}: the parent gave up after only {eintrs} interrupted waits (child lost)"
    else
      if eintrs > retriesPromised + retriesSlack then
        throw s!"test {t}: {eintrs} interrupted waits were retried without giving up (unbounded retry)"
      if ticks ≥ tickDemand then
        throw s!"test {t}: the parent's wait was hit by {ticks} signals (handler without SA_RESTART) while its child was running, but it never gave up and saw only {eintrs} interrupted waits: interrupted waits are retried without bound below the bounded retry"
      if !(matchSeq false base o.fails) then
        throw s!"test {t}: real child ({s.phase} {s.actions}) recorded {o.fails}, expected {describeExp base}"
      match o.rwaits.getLast? with
      | some (.status st) =>
        if !(classify st).terminal then throw s!"test {t}: the parent stopped waiting for a live child"
      | _ => throw s!"test {t}: the parent never saw its child end"
  else
    -- real child: the scenario says what must be recorded, the recorded waits say how it ended
    let base := realExpected s.phase s.actions false
    if s.inject > retriesPromised + retriesSlack then
      if !(matchSeq false [{ cls := .giveUp }] o.fails) then
        throw s!"test {t}: {s.inject} interrupted waits, expected exactly the giving-up failure, got {o.fails}"
    else if s.inject ≤ retriesPromised then
      if !(matchSeq false base o.fails) then
        throw s!"test {t}: real child ({s.phase} {s.actions}) recorded {o.fails}, expected {describeExp base}"
      -- the child must have been waited for until it was gone
      match o.rwaits.getLast? with
      | some (.status st) =>
        if !(classify st).terminal then throw s!"test {t}: the parent stopped waiting for a live child"
      | _ => throw s!"test {t}: the parent never saw its child end"
      let nstop := (o.rwaits.filter WaitOutcome.isStop).length
      let nstopFail := (o.fails.filter (OClass.stopped.matchesText ·)).length
      if nstop != nstopFail then throw s!"test {t}: {nstop} stops reported by waitpid but {nstopFail} stop failures recorded"

/-- build without fork: `-p` must be reported as not working, once per test, and every test is
    still started; nothing may be forked (one repetition) -/
def specRoundNoFork (d : DState) (ro : RunObs) : Except String Nat := do
  let n := d.tests.size
  if ro.order != runOrder d ro then throw s!"tests started {ro.order}, expected {runOrder d ro}"
  for t in List.range n do
    let o := ro.per[t]!
    if !o.forked.isEmpty then throw s!"test {t}: fork called on a platform without fork"
    if o.inrunner then throw s!"test {t} was executed inside the runner process"
    match o.fails with
    | [m] => if !(contains m "doesn't work on this platform") then throw s!"test {t}: unexpected failure {m}"
    | fs => throw s!"test {t}: expected exactly one 'no fork on this platform' failure, got {fs}"
  return n

/-- one repetition of the run: every test of the registry started, in order, none inside the runner, each one's
    failures exactly its death events; returns the number of failures recorded in it -/
def specRound (d : DState) (ro : RunObs) : Except String Nat := do
  let n := d.tests.size
  if d.nofork then
    return (← specRoundNoFork d ro)
  for t in List.range n do
    if (ro.per[t]!).inrunner then
      throw s!"test {t} was executed inside the runner process although separate-process mode was requested (not forked)"
  let expectedOrder := runOrder d ro
  if ro.order != expectedOrder then throw s!"tests started {ro.order}, expected all of {expectedOrder} (later tests must still run)"
  for t in List.range n do
    if notRunIn d t then
      -- an IGNORE_TEST without run-ignored is outside the property (it is not run); it must not have been forked or run
      if !(ro.per[t]!).forked.isEmpty || !(ro.per[t]!).fails.isEmpty then
        throw s!"test {t} is an IGNORE_TEST and run-ignored is off, but it was run ({(ro.per[t]!).forked} {(ro.per[t]!).fails})"
      continue
    specTest t (d.tests[t]!) (ro.per[t]!)
    if d.nproc0 && (d.tests[t]!).real && !(d.tests[t]!).forkFails && (ro.per[t]!).forked != ["realfail"] then
      throw s!"test {t}: this process cannot fork (RLIMIT_NPROC 0) but the real fork seam reported no failure"
  return (List.range n).foldl (fun acc t => acc + (ro.per[t]!).fails.length) 0

/-- the `round K` lines: the repetitions of the run after the first -/
def roundsAnnounced (obs : List (List String)) : List (Option Nat) :=
  obs.filterMap (fun l => match l with
    | ["round", k] => some k.toNat?
    | "round" :: _ => some none
    | _ => none)

/-- The command line asked for separate-process mode when `-p` is among the arguments as an argument of its own
    (the harness only gives arguments none of which takes a following `-p` as its value: an optional count after
    `-r` / seed after `-s` is a number).  How often the run is repeated is not the property's business: the
    repetitions are taken as the runner made them (`round K` = the registry was started for the K-th time), but every
    repetition must be run to its end, with every test contained in every one of them. -/
def specRun (d : DState) (obs : List (List String)) : Except String Unit := do
  let n := d.tests.size
  let ro := readObs n obs
  if ro.crash then throw "the implementation crashed or hung"
  if ro.deadline then throw "the parent did not finish within the deadline (hanging wait)"
  if !ro.bad.isEmpty then throw s!"unexpected observation: {ro.bad.head!}"
  let ann := roundsAnnounced obs
  let reps := ann.length + 1
  if !ann.isEmpty then
    if !d.cli then throw "the registry was run more than once although the run did not go through the command-line runner"
    if ann != (List.range ann.length).map (fun k => some (k + 2)) then
      throw s!"unexpected observation: repetitions {ann}"
  let segs := splitRounds obs
  let mut total := 0
  for seg in segs do
    total := total + (← specRound d (readObs n seg))
  let notRun := ((List.range n).filter (notRunIn d)).length
  let expectedRuns := reps * (if d.cli || d.nofork then n else n - notRun)
  if ro.runcount != some expectedRuns then throw s!"run count {ro.runcount} for {n} tests ({notRun} ignored, {reps} repetitions)"
  if ro.failures != some total then throw s!"failure count {ro.failures} but {total} failures were recorded"
  if total > 0 && (ro.overall != "fail" || ro.summary != "errors") then
    throw s!"{total} failures but the overall result is {ro.overall}/{ro.summary}"
  if total == 0 && (ro.overall != "ok" || ro.summary != "ok") then
    throw s!"no failure but the overall result is {ro.overall}/{ro.summary}"
  if d.cli then
    match ro.exitcode with
    | none => throw "the command-line runner returned no exit code"
    | some c =>
      if total > 0 && c == 0 then throw s!"{total} failures but the runner's exit code is 0"
      if total == 0 && c != 0 then throw s!"no failure but the runner's exit code is {c}"

def specAll (ops : List Proto.Op) : Option String :=
  let rec go (d : DState) : List Proto.Op → Option String
    | [] => none
    | o :: rest =>
      if o.obs.any (fun l => l.head? == some "crash") then
        (match o.obs.find? (fun l => l.head? == some "inrunner") with
         | some l => some s!"test {" ".intercalate (l.drop 1)} was executed inside the runner process although separate-process mode was requested, and the runner itself died"
         | none =>
           if d.nproc0 && o.op == ["run"] then
             some "the real fork seam fails with EAGAIN in this process (RLIMIT_NPROC 0) and the parent never came back: a failing fork is retried instead of being reported, the remaining tests never run"
           else some "the implementation crashed or hung") else
      match o.op with
      | ["run"] =>
        if d.ran || d.tests.isEmpty then go d rest else
        match specRun d o.obs with
        | .ok _ => go { d with ran := true } rest
        | .error e => some e
      | ["skip"] => go d rest
      | ["nproc0"] =>
        if d.ran || d.tests.isEmpty || d.nproc0 then go d rest
        else if o.obs.any (· == ["forkfail", "unsupported"]) then go { d with nproc0 := true, ran := true } rest
        else go { d with nproc0 := true } rest
      | op =>
        match applyOp d op with
        | some d' => go d' rest
        | none => go d rest
  go {} ops

def main : IO Unit :=
  Proto.driverMain { init := ({} : DState), step := modelStep, spec := specAll }
