import CppUModel.Base.Proto
import CppUModel.Model.Failable
import CppUModel.Spec.Failable
import CppUModel.Gen.FailableCode
import CppUModel.Spec.FailableGen
/-!
Driver for C15: replays harness traces through the model of `FailableMemoryAllocator` and of the
C-level malloc countdown, and judges the implementation's observations with the property's
specification oracle: `Failable.designatedB` / `Failable.unfired` evaluated on the HISTORY of calls
(no allocator state), and a textbook shadow of the countdown.  The MODEL side is executed by the definitions
regenerated from the current source (`Gen/FailableCode.lean`; proved equal to the hand model in Props/C15), so the
correspondence run also validates the translator.  Imports Base/Model/Spec/Gen only.
-/
open Failable

structure DState where
  mode : String := ""
  fa   : State := Gen.Failable.init
  c    : CState := Gen.Failable.cinit
  /-- are the thread-safe `operator new` / malloc overloads on (`turnOnThreadSafeNewDeleteOverloads`) -/
  ts   : Bool := false

def idsLine (tag : String) (ids : List Nat) : String :=
  if ids.isEmpty then tag ++ " -" else tag ++ " " ++ " ".intercalate (ids.map toString)

def renderCheck : CheckResult → String
  | .ok => "check ok"
  | .neverDoneAt f l => s!"check fail at {f} {l}"
  | .neverDoneNumber n => s!"check fail number {n}"

/-- the exact failure text (bytes, hex) as a second observation line -/
def renderCheckText (r : CheckResult) : List String :=
  match checkText r with
  | none => []
  | some t => ["text " ++ Proto.hex t.toUTF8.toList]

def optHex : Option (List UInt8) → String
  | none => "ret null"
  | some bs => "ret " ++ Proto.hex bs

def firedLines (fired : List Node) : List String :=
  if fired.isEmpty then [] else [idsLine "fired" (fired.map (·.id))]

/-- the C-level calls of mode fc run at "<unknown>":0 on top of the installed failable allocator -/
def overStep (d : DState) (r : MallocResult) (ret : String) : DState × List String :=
  ({ d with c := r.st.c, fa := r.st.fa }, [ret] ++ firedLines r.fired ++ [s!"count {(Gen.Failable.getCount r.st.c).2}"])

def modelStep (d : DState) (op : List String) (_obs : List (List String)) : DState × List String :=
  match op with
  | ["mode", m] =>
    -- mode fc: the failable allocator is the current malloc allocator for the whole case
    ({ d with mode := m, c := if m == "fc" then { d.c with cur := .failable } else d.c }, [])
  | ["skip"] => (d, [])
  | ["ts", x] => ({ d with ts := x == "on" }, [])
  | ["failnum", n] =>
    match n.toInt? with
    | some n => ({ d with fa := Gen.Failable.failAllocNumber default d.fa n }, [s!"node {d.fa.nextId}"])
    | none => (d, ["bad-op"])
  | ["failat", n, f, l] =>
    match n.toInt?, l.toNat? with
    | some n, some l => ({ d with fa := Gen.Failable.failNthAllocAt default d.fa n f l }, [s!"node {d.fa.nextId}"])
    | _, _ => (d, ["bad-op"])
  | ["alloc", f, l, fam] =>
    match l.toNat? with
    | some l =>
      -- the malloc family goes through cpputest_malloc_location (countdown, malloc_count)
      let viaMalloc := fam == "m" || fam == "M"
      if d.mode == "fc" && viaMalloc then
        let r := genMallocOver { c := d.c, fa := d.fa } f l
        ({ d with c := r.st.c, fa := r.st.fa },
         [if r.isNull then "ret null" else "ret ok"] ++ firedLines r.fired)
      else
      let c' := if viaMalloc then Gen.Failable.mallocState d.c else d.c
      if viaMalloc && Gen.Failable.mallocNull d.c then ({ d with c := c' }, ["ret null"])
      else
        let r := Gen.Failable.allocMemory d.fa f l
        let fired := r.2.1.map (·.id)
        let fails := r.2.2
        -- what the caller sees: by the regenerated overload tables of the mode that is on
        let ret := match outcome d.ts fam fails with
          | .ok => "ret ok"
          | .null => "ret null"
          | .throws => "ret throw"
        ({ d with fa := r.1, c := c' },
         [ret] ++ (if fired.isEmpty then [] else [idsLine "fired" fired]))
    | none => (d, ["bad-op"])
  | ["check"] => (d, [renderCheck (Gen.Failable.check d.fa)] ++ renderCheckText (Gen.Failable.check d.fa))
  | ["clear"] => ({ d with fa := Gen.Failable.clear d.fa }, [idsLine "freed" ((Gen.Failable.clearFreed d.fa).map (·.id))])
  -- C level
  | ["cd", n] =>
    match n.toInt? with
    | some n => ({ d with c := Gen.Failable.setCountdown d.c n }, [])
    | none => (d, ["bad-op"])
  | ["oom"] => ({ d with c := Gen.Failable.setOutOfMemory d.c }, [])
  | ["notoom"] => ({ d with c := Gen.Failable.setNotOutOfMemory d.c }, [])
  | ["creset"] =>
    let c' := Gen.Failable.countReset d.c
    ({ d with c := c' }, [s!"count {(Gen.Failable.getCount c').2}"])
  | ["crealloc", what, _] =>
    let r := match reallocResult d.c (what == "old") with
      | .ok => "ret ok"
      | .mismatch => "failure mismatch"
      | .crash => "crash"
    ({ d with c := Gen.Failable.reallocState d.c }, [r, s!"count {(Gen.Failable.getCount d.c).2}"])
  | ["cfree", _] =>
    let r := match freeResult d.c with
      | .ok => "ret ok"
      | _ => "failure mismatch"
    ({ d with c := Gen.Failable.freeState d.c }, [r, s!"count {(Gen.Failable.getCount d.c).2}"])
  | ["cmalloc", _] =>
    if d.mode == "fc" then
      let r := genMallocOver { c := d.c, fa := d.fa } "<unknown>" 0
      overStep d r (if r.isNull then "ret null" else "ret ok")
    else
    let c' := Gen.Failable.mallocState d.c
    ({ d with c := c' }, [if Gen.Failable.mallocNull d.c then "ret null" else "ret ok", s!"count {(Gen.Failable.getCount c').2}"])
  | ["cstrdup", hx] =>
    match Proto.unhex? hx with
    | some bs =>
      if d.mode == "fc" then
        let r := genStrdupOver { c := d.c, fa := d.fa } bs "<unknown>" 0
        overStep d r.1 (optHex r.2)
      else
      let r := Gen.Failable.strdup d.c bs
      ({ d with c := r.1 }, [optHex r.2, s!"count {r.1.count}"])
    | none => (d, ["bad-op"])
  | ["cstrndup", hx, n] =>
    match Proto.unhex? hx, n.toNat? with
    | some bs, some n =>
      if d.mode == "fc" then
        let r := genStrndupOver { c := d.c, fa := d.fa } bs n "<unknown>" 0
        overStep d r.1 (optHex r.2)
      else
      let r := Gen.Failable.strndup d.c bs n
      ({ d with c := r.1 }, [optHex r.2, s!"count {r.1.count}"])
    | _, _ => (d, ["bad-op"])
  | ["ccalloc", a, b] =>
    match a.toNat?, b.toNat? with
    | some a, some b =>
      if d.mode == "fc" then
        let r := genCallocOver { c := d.c, fa := d.fa } a b "<unknown>" 0
        overStep d r.1 (match r.2 with | none => "ret null" | some z => s!"ret zeros {z.length}")
      else
      let r := Gen.Failable.calloc d.c a b
      ({ d with c := r.1 },
       [match r.2 with | none => "ret null" | some z => s!"ret zeros {z.length}", s!"count {r.1.count}"])
    | _, _ => (d, ["bad-op"])
  | _ => (d, ["bad-op"])

/-! ## specification oracle -/

/-- ids (sequence numbers) of the designations of the epoch that select the next allocation at
    `(f, l)`; `total` = allocations of the whole epoch so far, `id` = sequence number of the first
    designation of the piece -/
def firingIds (f : String) (l : Nat) (total : Nat) : Nat → List Op → List Nat
  | _, [] => []
  | id, .failNum n :: post =>
    (if n == ((total + 1 : Nat) : Int) then [id] else []) ++ firingIds f l total (id + 1) post
  | id, .failAt n f' l' :: post =>
    (if f' == f && l' == l && n == ((allocsAt f l post + 1 : Nat) : Int) then [id] else [])
      ++ firingIds f l total (id + 1) post
  | id, _ :: post => firingIds f l total id post

/-- ids of the designations of the epoch that have not fired -/
def unfiredIds (before : Nat) : Nat → List Op → List Nat
  | _, [] => []
  | id, .failNum n :: post =>
    (if firedNum before n post then [] else [id]) ++ unfiredIds before (id + 1) post
  | id, .failAt n f l :: post =>
    (if firedAt n f l post then [] else [id]) ++ unfiredIds before (id + 1) post
  | id, .alloc _ _ :: post => unfiredIds (before + 1) id post
  | id, _ :: post => unfiredIds before id post

def countDesig (h : List Op) : Nat := h.countP Op.isDesignation

def sortNat (l : List Nat) : List Nat := (l.toArray.qsort (· < ·)).toList

def obsWith (tag : String) (obs : List (List String)) : Option (List String) :=
  (obs.find? (fun l => l.head? == some tag)).map (·.drop 1)

def parseIds (ws : List String) : List Nat := ws.filterMap (·.toNat?)

structure Shadow where
  mode : String := ""
  hist : List Op := []              -- failable: whole history
  -- C level (textbook): is the simulated out-of-memory in force; pending countdown (n, calls so far)
  oom  : Bool := false
  cd   : Option (Int × Nat) := none
  cnt  : Nat := 0
  /-- mode fc: is the failable allocator still the allocator the malloc path asks (it is until
      `cpputest_malloc_set_not_out_of_memory` is called while no out-of-memory is simulated, which resets the
      malloc allocator to the default one) -/
  installed : Bool := false
  /-- the failable allocator WAS installed and the malloc allocator has been reset under it: which allocator
      answers from here on is outside the property; the oracle keeps judging the C level only -/
  detached : Bool := false

def Shadow.allocating (sh : Shadow) : Shadow × Bool :=
  -- one allocating call under the countdown: the k-th call after `cd n` fails iff 0 ≤ n ≤ k
  let sh1 := match sh.cd with
    | some (n, k) => if 1 ≤ n ∧ n ≤ ((k + 1 : Nat) : Int) then { sh with oom := true, cd := none }
                     else { sh with cd := some (n, k + 1) }
    | none => sh
  ({ sh1 with cnt := sh1.cnt + 1 }, sh1.oom)

/-- `malloc_count` = allocating calls since the last reset, whatever their result -/
def checkCount (sh : Shadow) (o : Proto.Op) : Except String Unit := do
  if obsWith "count" o.obs != some [toString sh.cnt] then
    throw s!"malloc_count is {(obsWith "count" o.obs).getD []}, the number of allocating calls since the last reset is {sh.cnt}"

/-- an allocation that REACHES the failable allocator at `(f, l)`: it fails iff it is designated (judged on the
    history of the calls that reached the allocator), and consumes exactly the designations that select it;
    `null` = the implementation's result was NULL / bad_alloc -/
def judgeFailable (sh : Shadow) (f : String) (l : Nat) (null : Bool) (o : Proto.Op) : Except String Shadow := do
  let e := epoch sh.hist
  let want := designatedB sh.hist f l
  let baseId := countDesig sh.hist - countDesig e
  let wantIds := sortNat (firingIds f l (allocs e) baseId e)
  let gotIds := sortNat (parseIds ((obsWith "fired" o.obs).getD []))
  if !null then
    if want then throw s!"allocation at {f}:{l} (global index {allocs e + 1}) is designated but succeeded"
    if !gotIds.isEmpty then throw s!"a designation was consumed by an allocation that succeeded"
  else
    if !want then throw s!"allocation at {f}:{l} (global index {allocs e + 1}) is not designated but failed"
    if gotIds != wantIds then throw s!"failing allocation consumed designations {gotIds}, the designated ones are {wantIds}"
  return { sh with hist := sh.hist ++ [.alloc f l] }

/-- one call of the malloc path in mode fc at `(f, l)`: the countdown / simulated out-of-memory decides first (then the
    failable allocator is not even asked: nothing is consumed, its indices do not move); otherwise the installed
    failable allocator decides; returns the shadow and whether the call has to return NULL -/
def judgeOver (sh : Shadow) (f : String) (l : Nat) (null : Bool) (o : Proto.Op) : Except String Shadow := do
  let (sh', failC) := sh.allocating
  if failC then
    if !null then throw "allocation succeeded under simulated out-of-memory"
    if (obsWith "fired" o.obs).isSome then throw "a designation of the failable allocator was consumed by an allocation that the simulated out-of-memory refused"
    return sh'
  else if sh'.detached then return sh'
  else if sh'.installed then judgeFailable sh' f l null o
  else
    if null then throw "allocation failed although neither the countdown nor an installed failable allocator designates it"
    return sh'

def specStep (sh : Shadow) (o : Proto.Op) : Except String Shadow := do
  let ret := obsWith "ret" o.obs
  if sh.detached && ["failnum", "failat", "check", "clear"].contains (o.op.headD "") then return sh
  if sh.detached && o.op.headD "" == "alloc" && !(["m", "M"].contains (o.op.getLastD "")) then return sh
  match o.op with
  | ["mode", m] => return { sh with mode := m, installed := m == "fc" }
  | ["skip"] => return sh
  -- the overload mode changes nothing the property speaks about: every allocation is judged as before
  | ["ts", _] => return sh
  | ["failnum", n] =>
    let some n := n.toInt? | throw "bad failnum"
    if obsWith "node" o.obs != some [toString (countDesig sh.hist)] then throw "designation did not create exactly one node"
    return { sh with hist := sh.hist ++ [.failNum n] }
  | ["failat", n, f, l] =>
    let some n := n.toInt? | throw "bad failat"
    let some l := l.toNat? | throw "bad failat"
    if obsWith "node" o.obs != some [toString (countDesig sh.hist)] then throw "designation did not create exactly one node"
    return { sh with hist := sh.hist ++ [.failAt n f l] }
  | ["alloc", f, l, fam] =>
    let some l := l.toNat? | throw "bad alloc"
    if sh.mode == "fc" && (fam == "m" || fam == "M") then
      match ret with
      | some ["ok"] => judgeOver sh f l false o
      | some ["null"] => judgeOver sh f l true o
      | _ => throw "allocation without result"
    else
    let e := epoch sh.hist
    let want := designatedB sh.hist f l
    let baseId := countDesig sh.hist - countDesig e
    let wantIds := sortNat (firingIds f l (allocs e) baseId e)
    let gotIds := sortNat (parseIds ((obsWith "fired" o.obs).getD []))
    let sh' := { sh with hist := sh.hist ++ [.alloc f l], cnt := if fam == "m" || fam == "M" then sh.cnt + 1 else sh.cnt }
    match ret with
    | some ["ok"] =>
      if want then throw s!"allocation at {f}:{l} (global index {allocs e + 1}) is designated but succeeded"
      if !gotIds.isEmpty then throw s!"a designation was consumed by an allocation that succeeded"
      return sh'
    | some [r] =>
      -- the throwing new / new[] forms fail by std::bad_alloc, everything else by NULL: in either overload mode
      let wantR := if ["n", "a", "p", "q", "W"].contains fam then "throw" else "null"
      if r != wantR then throw s!"unexpected result {r} for family {fam} (a failing allocation of this form has to end in {wantR})"
      if !want then throw s!"allocation at {f}:{l} (global index {allocs e + 1}) is not designated but failed"
      if gotIds != wantIds then throw s!"failing allocation consumed designations {gotIds}, the designated ones are {wantIds}"
      return sh'
    | _ => throw "allocation without result"
  | ["check"] =>
    let u := unfired sh.hist
    match obsWith "check" o.obs with
    | some ["ok"] =>
      if !u.isEmpty then throw s!"{u.length} designated failure(s) never happened but the check passed"
      return sh
    | some ["fail", "number", n] =>
      let some n := n.toInt? | throw "bad check line"
      if !(u.contains (.failNum n)) then throw s!"check reports allocation number {n}, which is not an outstanding designation"
      return sh
    | some ["fail", "at", f, l] =>
      let some l := l.toNat? | throw "bad check line"
      if !(u.any (fun d => match d with | .failAt _ f' l' => f' == f && l' == l | _ => false)) then
        throw s!"check reports {f}:{l}, where no designation is outstanding"
      return sh
    | _ => throw "check: result not understood"
  | ["clear"] =>
    let e := epoch sh.hist
    let baseId := countDesig sh.hist - countDesig e
    let wantIds := sortNat (unfiredIds 0 baseId e)
    let gotIds := sortNat (parseIds ((obsWith "freed" o.obs).getD []))
    if gotIds != wantIds then throw s!"clear released designations {gotIds}, outstanding were {wantIds}"
    return { sh with hist := sh.hist ++ [.clear] }
  -- C level
  | ["cd", n] =>
    let some n := n.toInt? | throw "bad cd"
    if n == 0 then return { sh with oom := true, cd := none }
    else if n < 0 then return { sh with cd := none }
    else return { sh with cd := some (n, 0) }
  | ["oom"] => return { sh with oom := true }
  | ["notoom"] =>
    -- called while nothing is simulated, it resets the malloc allocator to the default one
    return { sh with oom := false, cd := none, installed := sh.installed && sh.oom,
                     detached := sh.detached || (sh.installed && !sh.oom) }
  | ["creset"] => return { sh with cnt := 0 }
  | ["crealloc", _, _] =>
    -- realloc is outside the property (and outside the countdown): only malloc_count is judged
    checkCount sh o
    return sh
  | ["cfree", _] =>
    checkCount sh o
    return sh
  | ["cmalloc", _] =>
    if sh.mode == "fc" then
      let sh' ← match ret with
        | some ["ok"] => judgeOver sh "<unknown>" 0 false o
        | some ["null"] => judgeOver sh "<unknown>" 0 true o
        | _ => throw "malloc without result"
      checkCount sh' o
      return sh'
    let (sh', fail) := sh.allocating
    match ret with
    | some ["null"] => if !fail then throw "malloc failed outside the simulated out-of-memory"
    | some ["ok"] => if fail then throw "malloc succeeded under simulated out-of-memory"
    | _ => throw "malloc without result"
    checkCount sh' o
    return sh'
  | ["cstrdup", hx] =>
    let some bs := Proto.unhex? hx | throw "bad cstrdup"
    if sh.mode == "fc" then
      let sh' ← match ret with
        | some ["null"] => judgeOver sh "<unknown>" 0 true o
        | some [r] =>
          if Proto.unhex? r != some (bs ++ [0]) then throw "strdup: wrong content"
          judgeOver sh "<unknown>" 0 false o
        | _ => throw "strdup without result"
      checkCount sh' o
      return sh'
    let (sh', fail) := sh.allocating
    match ret with
    | some ["null"] => if !fail then throw "strdup returned NULL although its allocation was not designated to fail"
    | some [r] =>
      if fail then throw "strdup returned a buffer although its allocation fails"
      if Proto.unhex? r != some (bs ++ [0]) then throw "strdup: wrong content"
    | _ => throw "strdup without result"
    checkCount sh' o
    return sh'
  | ["cstrndup", hx, n] =>
    let some bs := Proto.unhex? hx | throw "bad cstrndup"
    let some n := n.toNat? | throw "bad cstrndup"
    if sh.mode == "fc" then
      let sh' ← match ret with
        | some ["null"] => judgeOver sh "<unknown>" 0 true o
        | some [r] =>
          if Proto.unhex? r != some (bs.take n ++ [0]) then throw "strndup: wrong content"
          judgeOver sh "<unknown>" 0 false o
        | _ => throw "strndup without result"
      checkCount sh' o
      return sh'
    let (sh', fail) := sh.allocating
    match ret with
    | some ["null"] => if !fail then throw "strndup returned NULL although its allocation was not designated to fail"
    | some [r] =>
      if fail then throw "strndup returned a buffer although its allocation fails"
      if Proto.unhex? r != some (bs.take n ++ [0]) then throw "strndup: wrong content"
    | _ => throw "strndup without result"
    checkCount sh' o
    return sh'
  | ["ccalloc", a, b] =>
    let some a := a.toNat? | throw "bad ccalloc"
    let some b := b.toNat? | throw "bad ccalloc"
    if a * b ≥ 2 ^ 64 then
      if ret != some ["null"] then throw "calloc with an overflowing product did not return NULL"
      checkCount sh o
      return sh
    if sh.mode == "fc" then
      let sh' ← match ret with
        | some ["null"] => judgeOver sh "<unknown>" 0 true o
        | some ["zeros", z] =>
          if z.toNat? != some (a * b) then throw "calloc: wrong size"
          judgeOver sh "<unknown>" 0 false o
        | _ => throw "calloc: result not NULL and not zero filled"
      checkCount sh' o
      return sh'
    let (sh', fail) := sh.allocating
    match ret with
    | some ["null"] => if !fail then throw "calloc returned NULL although its allocation was not designated to fail"
    | some ["zeros", z] =>
      if fail then throw "calloc returned a buffer although its allocation fails"
      if z.toNat? != some (a * b) then throw "calloc: wrong size"
    | _ => throw "calloc: result not NULL and not zero filled"
    checkCount sh' o
    return sh'
  | _ => throw "bad-op"

def specAll (ops : List Proto.Op) : Option String :=
  let rec go (sh : Shadow) (i : Nat) : List Proto.Op → Option String
    | [] => none
    | o :: rest =>
      match specStep sh o with
      | .ok sh' => go sh' (i+1) rest
      | .error e => some s!"op#{i} {" ".intercalate o.op}: {e}"
  go {} 0 ops

def main : IO Unit :=
  Proto.driverMain { init := ({} : DState), step := modelStep, spec := specAll }
