import CppUModel.Base.Proto
import CppUModel.Model.AllocLayout
import CppUModel.Model.AllocLayoutCode
/-!
Driver for C05: replays harness traces through the allocation-layout model — every detector call
(`allocMemory`, `reallocMemory`, `deallocMemory`, `storeLeakInformation`) is executed by the statement
lists REGENERATED from the current source (`Gen/AllocLayoutCode.lean`, interpreter
`Model/AllocLayoutCode.lean`) — and judges the
implementation's observations with the property's specification oracle (a shadow table of live
blocks with their expected contents, Nat arithmetic, independent of the model).
Environment inputs (what the platform / the recording allocator answered) are read from the
implementation's observation lines.  Imports Base/Model/Gen only.
-/
open AllocLayout

/-! ## shared helpers -/

/-- the byte pattern the harness writes into user bytes: `(seed*37 + i*11 + (i>>8)*3 + 1) & 0xff` -/
def pat (seed i : Nat) : UInt8 := UInt8.ofNat ((seed * 37 + i * 11 + (i / 256) * 3 + 1) % 256)

def patRange (seed lo hi : Nat) : List UInt8 := (List.range (hi - lo)).map (fun k => pat seed (lo + k))

def fnv (bs : List UInt8) : UInt64 :=
  bs.foldl (fun h b => (h ^^^ b.toUInt64) * 1099511628211) 14695981039346656037

def hex64 (x : UInt64) : String :=
  String.ofList ((List.range 16).map (fun k => Proto.hexDigit ((x.toNat / 16 ^ (15 - k)) % 16)))

def contentLine (bs : List UInt8) : String :=
  if bs.length ≤ 256 then s!"content {bs.length} {Proto.hex bs}" else s!"content {bs.length} #{hex64 (fnv bs)}"

def famOf : String → Option Nat
  | "new" => some 0
  | "newarr" => some 1
  | "malloc" => some 2
  | _ => none

/-- observation lines with a given first word, as lists of numbers -/
def obsNums (obs : List (List String)) (w : String) : List (List Nat) :=
  obs.filterMap fun l => match l with
    | h :: rest => if h == w then some (rest.filterMap String.toNat?) else none
    | [] => none

/-! ## model replay -/

/-- a block replayed at size level (`balloc` / `brealloc` / `bfree`): only its edges are ever looked at -/
structure BigBlk where
  id      : Nat
  size    : Nat
  seed    : Nat
  fam     : Nat
  sep     : Bool
  nodeId  : Nat
  guardOk : Bool      -- the guard bytes were put right behind the user bytes (and so survive the client's writes)

structure DState where
  big      : List BigBlk := []
  cfg      : Cfg := defaultCfg
  det      : State := {}
  glob     : State := {}
  oom      : Bool := false
  nullnew  : Bool := false
  failures : Nat := 0

def nodeImg (c : Cfg) : NodeImage := fun _ => List.replicate c.node.toNat 0x4e

def zeros (n : Nat) : List UInt8 := List.replicate n 0

def ansOf (dflt : Bool) (l : Option (List Nat)) : Ans :=
  match l with
  | some [req, id] => if id == 0 then (if dflt then .fail else .null) else .block id (zeros req)
  | _ => .null

/-- contents of the block the platform realloc hands back: the common prefix, then fresh bytes -/
def reallocImage (old : List UInt8) (req : Nat) : List UInt8 :=
  old.take req ++ zeros (req - min old.length req)

def ransOf (m : List Block) (l : Option (List Nat)) : RAns :=
  match l with
  | some [old, req, id] =>
    if id == 0 then .null
    else .moved id (reallocImage ((findBlock m old).map (·.bytes) |>.getD []) req)
  | _ => .null

def renderEv (glob : Bool) (quietNull : Bool) : Ev → List String
  | .ualloc req id => if glob then (if quietNull && id == 0 then [] else [s!"pm {req.toNat} {id}"]) else [s!"ualloc {req.toNat} {id}"]
  | .unode sz id => if glob then (if quietNull && id == 0 then [] else [s!"pm {sz.toNat} {id}"]) else [s!"unode {sz.toNat} {id}"]
  | .ufree id => if glob then [s!"pf {id}"] else [s!"ufree {id}"]
  | .unodefree id => if glob then [s!"pf {id}"] else [s!"unodefree {id}"]
  | .urealloc old req id => [s!"urealloc {old} {req.toNat} {id}"]
  | .misuse k => [s!"misuse {k}"]

def renderOutcome : Outcome → List String
  | .ptr id => [s!"ret {id} 0", "align 0"]
  | .null => ["ret null"]
  | .badAlloc => ["ret badalloc"]
  | .testFail => ["ret testfail"]
  | .ub why => [s!"ub {why}"]

/-- the harness writes the pattern into user bytes `lo..hi` of block `id` -/
def userWrite (s : State) (id seed lo hi : Nat) : State × List String :=
  match writeBlock s.mem id lo (patRange seed lo hi) with
  | some m => ({ s with mem := m }, [s!"wrote {hi - lo}"])
  | none => (s, ["ub user bytes outside the block"])

def userBytes (s : State) (id n : Nat) : List UInt8 :=
  ((findBlock s.mem id).map (·.bytes) |>.getD []).take n

def recOf (s : State) (id : Nat) : Option Rec := s.tracked.find? (fun r => r.id == id)

def W.of (n : Nat) : W := BitVec.ofNat 64 n

def freeAll (c : Cfg) (s : State) : State :=
  s.tracked.foldl (fun st r => (releaseGen c st r.fam (some r.id) r.sep).1) s

/-- `allocatNodesSeperately` of a private-detector operation: the public wrappers' choice, or the explicit word -/
def sepWord (f : Nat) : Option String → Option Bool
  | none => some (f == famMalloc)
  | some "0" => some false
  | some "1" => some true
  | some _ => none

/-- private-detector `allocMemory`, replayed through the statement list REGENERATED from the source -/
def modelAlloc (d : DState) (obs : List (List String)) (fam size seed : String) (sepw : Option String) : DState × List String :=
  let c := d.cfg
  match famOf fam, size.toNat?, seed.toNat? with
  | some f, some n, some sd =>
    match sepWord f sepw with
    | some sep =>
      let (s1, evs, out) := allocMemoryGen c (nodeImg c) d.det f (W.of n) sep (ansOf false (obsNums obs "ualloc").head?) (ansOf false (obsNums obs "unode").head?)
      let (s2, wl) := match out with
        | .ptr id => userWrite s1 id sd 0 n
        | _ => (s1, [])
      ({ d with det := s2 }, evs.flatMap (renderEv false false) ++ renderOutcome out ++ wl ++ [s!"total {s2.tracked.length + d.big.length}"])
    | none => (d, ["bad-op"])
  | _, _, _ => (d, ["bad-op"])

def modelRealloc (d : DState) (obs : List (List String)) (fam old size seed : String) (sepw : Option String) : DState × List String :=
  let c := d.cfg
  match famOf fam, old.toNat?, size.toNat?, seed.toNat? with
  | some f, some o, some n, some sd =>
    match sepWord f sepw with
    | some sep =>
      let oldSize := ((recOf d.det o).map (·.size.toNat)).getD 0
      let ptr := if o == 0 then none else some o
      let (s1, evs, out) := reallocMemoryGen c (nodeImg c) d.det f ptr (W.of n) sep (ransOf d.det.mem (obsNums obs "urealloc").head?) (ansOf false (obsNums obs "unode").head?)
      let keep := min oldSize n
      let (s2, wl) := match out with
        | .ptr id =>
          let (s2, wl) := userWrite s1 id sd keep n
          (s2, [contentLine (userBytes s1 id keep)] ++ wl)
        | _ => (s1, [])
      -- environment: realloc(p, 0) released the block although it answered NULL
      let pf := (obsNums obs "platform-freed").filterMap List.head?
      let s3 := { s2 with mem := pf.foldl dropBlock s2.mem }
      ({ d with det := s3 }, (evs.flatMap (renderEv false false)).flatMap (fun l => if l.startsWith "urealloc" then l :: pf.map (fun i => s!"platform-freed {i}") else [l])
         ++ renderOutcome out ++ wl ++ [s!"total {s3.tracked.length + d.big.length}"])
    | none => (d, ["bad-op"])
  | _, _, _, _ => (d, ["bad-op"])

def modelFree (d : DState) (fam id : String) (sepw : Option String) : DState × List String :=
  match famOf fam, id.toNat? with
  | some f, some i =>
    match sepWord f sepw with
    | some sep =>
      let (s1, evs, out) := releaseGen d.cfg d.det f (some i) sep
      let ubl := match out with | .ub why => [s!"ub {why}"] | _ => []
      ({ d with det := s1 }, evs.flatMap (renderEv false false) ++ ubl ++ [s!"total {s1.tracked.length + d.big.length}"])
    | none => (d, ["bad-op"])
  | _, _ => (d, ["bad-op"])

/-! ### blocks replayed at size level (`Plan` of the model): requests of 2^32 bytes and more -/

def edgeLen : Nat := 32

def edgeLine (name : String) (bs : List UInt8) : String :=
  s!"{name} {bs.length} {if bs.isEmpty then "-" else Proto.hex bs}"

/-- the harness' pattern in the window `lo..hi`, at most `edgeLen` bytes -/
def patWin (seed lo hi : Nat) : List UInt8 := patRange seed lo (min hi (lo + edgeLen))

def bigTotal (d : DState) (big : List BigBlk) : String := s!"total {d.det.tracked.length + big.length}"

def idOf2 (l : Option (List Nat)) : Nat := match l with | some [_, i] => i | _ => 0
def idOf3 (l : Option (List Nat)) : Nat := match l with | some [_, _, i] => i | _ => 0

/-- what lies right behind the user bytes, as the plan puts the guard bytes -/
def behindLine (c : Cfg) (p : Plan) (n : Nat) : String :=
  if c.guard.toNat == 0 then "behind 0 -"
  else if p.guardOff == n then edgeLine "behind" (guardImage c)
  else s!"behind {c.guard.toNat} ?"

/-- the bookkeeping writes of `storeLeakInformation` stay inside the block -/
def planFits (c : Cfg) (p : Plan) : Bool :=
  p.guardOff + c.guard.toNat ≤ p.req.toNat && (match p.nodeAt with | some o => o + c.node.toNat ≤ p.req.toNat | none => true)

def bigSuccess (d : DState) (p : Plan) (evs : List String) (rest : List BigBlk) (f id nid n sd : Nat) (pre : List String) :
    DState × List String :=
  if !planFits d.cfg p then (d, evs ++ ["ub bookkeeping written outside the block"])
  else
    let b : BigBlk := ⟨id, n, sd, f, p.nodeAt.isNone, nid, p.guardOff == n⟩
    let big := b :: rest
    ({ d with big := big }, evs ++ [s!"ret {id} 0", "align 0"] ++ pre ++ [behindLine d.cfg p n, "wrote-edges", bigTotal d big])

def modelBAlloc (d : DState) (obs : List (List String)) (fam size seed sepw : String) : DState × List String :=
  let c := d.cfg
  match famOf fam, size.toNat?, seed.toNat?, sepWord 0 (some sepw) with
  | some f, some n, some sd, some sep0 =>
    match allocPlan c (W.of n) sep0 with
    | none => (d, ["ret null", bigTotal d d.big])
    | some p =>
      let id := idOf2 (obsNums obs "ualloc").head?
      let l1 := [s!"ualloc {p.req.toNat} {id}"]
      if id == 0 then (d, l1 ++ ["ret null", bigTotal d d.big])
      else if p.nodeAt.isNone then
        let nid := idOf2 (obsNums obs "unode").head?
        if nid == 0 then (d, l1 ++ [s!"unode {c.node.toNat} 0", s!"ufree {id}", "ret null", bigTotal d d.big])
        else bigSuccess d p (l1 ++ [s!"unode {c.node.toNat} {nid}"]) d.big f id nid n sd []
      else bigSuccess d p l1 d.big f id 0 n sd []
  | _, _, _, _ => (d, ["bad-op"])

def modelBRealloc (d : DState) (obs : List (List String)) (fam old size seed sepw : String) : DState × List String :=
  let c := d.cfg
  match famOf fam, old.toNat?, size.toNat?, seed.toNat?, sepWord 0 (some sepw) with
  | some f, some o, some n, some sd, some sep0 =>
    match reallocPlan c (W.of n) sep0 with
    | none => (d, ["ret null", bigTotal d d.big])
    | some p =>
      let oldB := if o == 0 then none else d.big.find? (·.id == o)
      if o != 0 && oldB.isNone then (d, ["misuse nonallocated", "ret null", bigTotal d d.big])
      else
        let rest := d.big.filter (·.id != o)
        -- checkForCorruption of the old record
        let chk : List String := match oldB with
          | none => []
          | some b => if b.fam != f then ["misuse mismatch"] else if !b.guardOk then ["misuse corruption"]
                      else if p.nodeAt.isNone && b.sep then [s!"unodefree {b.nodeId}"] else []
        let id := idOf3 (obsNums obs "urealloc").head?
        let l1 := chk ++ [s!"urealloc {o} {p.req.toNat} {id}"]
        let nid := idOf2 (obsNums obs "unode").head?
        if id == 0 then
          match oldB with
          | none => (d, l1 ++ ["ret null", bigTotal d d.big])
          | some b =>
            if p.nodeAt.isNone then
              if nid == 0 then (d, l1 ++ [s!"unode {c.node.toNat} 0", "ub node allocation returned NULL, dereferenced"])
              else
                let big := { b with sep := true, nodeId := nid } :: rest
                ({ d with big := big }, l1 ++ [s!"unode {c.node.toNat} {nid}", "ret null", bigTotal d big])
            else
              let big := { b with sep := false, nodeId := 0 } :: rest
              ({ d with big := big }, l1 ++ ["ret null", bigTotal d big])
        else
          let oldSize := (oldB.map (·.size)).getD 0
          let oldSeed := (oldB.map (·.seed)).getD 0
          let keep := min oldSize n
          let pre := [edgeLine "head" (patWin oldSeed 0 keep)] ++
            (if o != 0 && n ≥ oldSize then [edgeLine "tail" (patWin oldSeed (oldSize - edgeLen) oldSize)] else [])
          if p.nodeAt.isNone then
            if nid == 0 then (d, l1 ++ [s!"unode {c.node.toNat} 0", "ub node allocation returned NULL, dereferenced"])
            else bigSuccess d p (l1 ++ [s!"unode {c.node.toNat} {nid}"]) rest f id nid n sd pre
          else bigSuccess d p l1 rest f id 0 n sd pre
  | _, _, _, _, _ => (d, ["bad-op"])

def modelBFree (d : DState) (fam id sepw : String) : DState × List String :=
  match famOf fam, id.toNat?, sepWord 0 (some sepw) with
  | some f, some i, some sep0 =>
    match d.big.find? (·.id == i) with
    | none => (d, ["misuse nonallocated", bigTotal d d.big])
    | some b =>
      let big := d.big.filter (·.id != i)
      let chk : List String :=
        if b.fam != f then ["misuse mismatch"] else if !b.guardOk then ["misuse corruption"]
        else if forcedSep d.cfg sep0 && b.sep then [s!"unodefree {b.nodeId}"] else []
      ({ d with big := big }, chk ++ [s!"ufree {i}", bigTotal d big])
  | _, _, _ => (d, ["bad-op"])

/-- the `mem_leak_operator_new*` function a `gnew` form ends up in (the `(file, int line)` overloads share the debug variants) -/
def variantOfForm (v : String) : Option NewVariant :=
  findVariant ("mem_leak_operator_" ++ (if v == "new_debug_int" then "new_debug" else if v == "new_array_debug_int" then "new_array_debug" else v))

def modelStep (d : DState) (op : List String) (obs : List (List String)) : DState × List String :=
  let c := d.cfg
  let ni := nodeImg c
  let ual := (obsNums obs "ualloc").head?
  let uno := (obsNums obs "unode").head?
  let ure := (obsNums obs "urealloc").head?
  let pms := obsNums obs "pm"
  match op with
  | ["config"] =>
    let c' : Cfg := match (obsNums obs "cfg").head? with
      | some [_, _, chk] => if chk == 0 then noCheckCfg else defaultCfg
      | _ => defaultCfg
    ({ d with cfg := c' }, [s!"cfg {c'.guard.toNat} {c'.node.toNat} {if c'.check then 1 else 0}"])
  | ["fail", _, _] => (d, [])
  | ["skip"] => (d, [])
  | ["alloc", fam, size, seed] => modelAlloc d obs fam size seed none
  | ["allocx", fam, size, seed, sep] => modelAlloc d obs fam size seed (some sep)
  | ["realloc", fam, old, size, seed] => modelRealloc d obs fam old size seed none
  | ["reallocx", fam, old, size, seed, sep] => modelRealloc d obs fam old size seed (some sep)
  | ["free", fam, id] => modelFree d fam id none
  | ["balloc", fam, size, seed, sep] => modelBAlloc d obs fam size seed sep
  | ["brealloc", fam, old, size, seed, sep] => modelBRealloc d obs fam old size seed sep
  | ["bfree", fam, id, sep] => modelBFree d fam id sep
  | ["freex", fam, id, sep] => modelFree d fam id (some sep)
  | ["gcrashalloc", _] => (d, [])
  | ["gthreadsafe", _] => (d, [])
  | ["peek", id, size] =>
    match id.toNat?, size.toNat? with
    | some i, some n => (d, [contentLine (userBytes d.det i n)])
    | _, _ => (d, ["bad-op"])
  | ["gpeek", id, size] =>
    match id.toNat?, size.toNat? with
    | some i, some n => (d, [contentLine (userBytes d.glob i n)])
    | _, _ => (d, ["bad-op"])
  | ["goom", w] => ({ d with oom := w == "on" }, [])
  | ["gnullnew", w] => ({ d with nullnew := w == "on" }, [])
  | ["gmalloc", size, seed] =>
    match size.toNat?, seed.toNat? with
    | some n, some sd =>
      let a1 := if d.oom then Ans.null else ansOf true pms.head?
      let (s1, evs, out) := cMallocGen c ni d.glob (W.of n) a1 (ansOf true (pms.drop 1).head?)
      let (s2, wl) := match out with
        | .ptr id => userWrite s1 id sd 0 n
        | _ => (s1, [])
      ({ d with glob := s2, failures := d.failures + (if out == .testFail then 1 else 0) },
       evs.flatMap (renderEv true d.oom) ++ renderOutcome out ++ wl ++ [s!"delta {(s2.tracked.length : Int) - d.glob.tracked.length}"])
    | _, _ => (d, ["bad-op"])
  | ["gcalloc", num, size, seed] =>
    match num.toNat?, size.toNat?, seed.toNat? with
    | some k, some n, some sd =>
      let a1 := if d.oom then Ans.null else ansOf true pms.head?
      let (s1, evs, out) := cCallocGen c ni d.glob (W.of k) (W.of n) a1 (ansOf true (pms.drop 1).head?)
      let tot := (W.of k * W.of n).toNat
      let (s2, wl) := match out with
        | .ptr id =>
          let (s2, wl) := userWrite s1 id sd 0 tot
          (s2, [contentLine (userBytes s1 id tot)] ++ wl)
        | _ => (s1, [])
      ({ d with glob := s2, failures := d.failures + (if out == .testFail then 1 else 0) },
       evs.flatMap (renderEv true d.oom) ++ renderOutcome out ++ wl ++ [s!"delta {(s2.tracked.length : Int) - d.glob.tracked.length}"])
    | _, _, _ => (d, ["bad-op"])
  | ["grealloc", old, size, seed] =>
    match old.toNat?, size.toNat?, seed.toNat? with
    | some o, some n, some sd =>
      let oldSize := ((recOf d.glob o).map (·.size.toNat)).getD 0
      let ptr := if o == 0 then none else some o
      let (s1, evs, out) := cReallocGen c ni d.glob ptr (W.of n) (ransOf d.glob.mem ure) (if d.oom then Ans.null else ansOf true pms.head?)
      let keep := min oldSize n
      let (s2, wl) := match out with
        | .ptr id =>
          let (s2, wl) := userWrite s1 id sd keep n
          (s2, [contentLine (userBytes s1 id keep)] ++ wl)
        | _ => (s1, [])
      let pf := (obsNums obs "platform-freed").filterMap List.head?
      let s3 := { s2 with mem := pf.foldl dropBlock s2.mem }
      ({ d with glob := s3, failures := d.failures + (if out == .testFail then 1 else 0) },
       (evs.flatMap (renderEv true d.oom)).flatMap (fun l => if l.startsWith "urealloc" then l :: pf.map (fun i => s!"platform-freed {i}") else [l])
         ++ renderOutcome out ++ wl ++ [s!"delta {(s3.tracked.length : Int) - d.glob.tracked.length}"])
    | _, _, _ => (d, ["bad-op"])
  | "gstrdup" :: h :: rest | "gstrndup" :: h :: rest =>
    match Proto.unhex? h, (match rest with | [] => some none | [n] => n.toNat?.map some | _ => none) with
    | some str, some nOpt =>
      let buf := str ++ [0]
      let a1 := if d.oom then Ans.null else ansOf true pms.head?
      let a2 := ansOf true (pms.drop 1).head?
      let (s1, evs, out) := match nOpt with
        | none => cStrdupGen c ni d.glob buf a1 a2
        | some n => cStrndupGen c ni d.glob buf (W.of n) a1 a2
      let cl := match out with
        | .ptr id => [contentLine (userBytes s1 id (((recOf s1 id).map (·.size.toNat)).getD 0))]
        | _ => []
      ({ d with glob := s1, failures := d.failures + (if out == .testFail then 1 else 0) },
       evs.flatMap (renderEv true d.oom) ++ renderOutcome out ++ cl ++ [s!"delta {(s1.tracked.length : Int) - d.glob.tracked.length}"])
    | _, _ => (d, ["bad-op"])
  | ["gfree", id] =>
    match id.toNat? with
    | some i =>
      let (s1, evs, _) := cFreeGen c d.glob (some i)
      ({ d with glob := s1 }, evs.flatMap (renderEv true false) ++ [s!"delta {(s1.tracked.length : Int) - d.glob.tracked.length}"])
    | none => (d, ["bad-op"])
  | ["gdelete", id] | ["gdeletex", _, id] =>
    match id.toNat? with
    | some i =>
      let f := ((recOf d.glob i).map (·.fam)).getD famNew
      let (s1, evs, _) := operatorDeleteGen c d.glob (f == famNewArray) (some i)
      ({ d with glob := s1 }, evs.flatMap (renderEv true false) ++ [s!"delta {(s1.tracked.length : Int) - d.glob.tracked.length}"])
    | none => (d, ["bad-op"])
  | ["gnew", v, size, seed] =>
    match variantOfForm v, size.toNat?, seed.toNat? with
    | some var, some n, some sd =>
      let a1 := if d.nullnew then Ans.null else ansOf true pms.head?
      let (s1, evs, out) := operatorNewGen c ni d.glob var (W.of n) a1 (ansOf true (pms.drop 1).head?)
      let (s2, wl) := match out with
        | .ptr id => userWrite s1 id sd 0 n
        | _ => (s1, [])
      ({ d with glob := s2, failures := d.failures + (if out == .testFail then 1 else 0) },
       evs.flatMap (renderEv true d.nullnew) ++ renderOutcome out ++ wl ++ [s!"delta {(s2.tracked.length : Int) - d.glob.tracked.length}"])
    | _, _, _ => (d, ["bad-op"])
  | ["finish"] =>
    let s1 := freeAll c d.det
    let g1 := freeAll c d.glob
    ({ d with det := s1, glob := g1, oom := false, nullnew := false, big := [] },
     ["cleanup-misuse 0", s!"total {s1.tracked.length}",
      s!"gfreed {d.glob.tracked.length} {(g1.tracked.length : Int) - d.glob.tracked.length}", s!"failures {d.failures}"])
  | _ => (d, ["bad-op"])

/-! ## specification oracle (shadow table over the implementation's observations) -/

structure SBlk where
  id      : Nat
  size    : Nat
  content : List UInt8
  fam     : Nat
  glob    : Bool

/-- a live block the harness looks at through its edges only: first and last 32 bytes hold the pattern of `seed` -/
structure SBig where
  id   : Nat
  size : Nat
  seed : Nat

structure Shadow where
  big     : List SBig := []
  guard   : Nat := 3
  node    : Nat := 64
  check   : Bool := true
  live    : List SBlk := []
  total   : Nat := 0          -- private detector total as last reported
  oom     : Bool := false
  nullnew : Bool := false

inductive Ret | ptr (id off : Nat) | null | badalloc | testfail | unknown | missing
deriving DecidableEq

def retOf (obs : List (List String)) : Ret :=
  match obs.find? (fun l => l.head? == some "ret") with
  | some ["ret", "null"] => .null
  | some ["ret", "badalloc"] => .badalloc
  | some ["ret", "testfail"] => .testfail
  | some ["ret", a, b] => match a.toNat?, b.toNat? with
    | some i, some o => .ptr i o
    | _, _ => .unknown
  | some _ => .unknown
  | none => .missing

def two64 : Nat := 18446744073709551616

def hasLine (obs : List (List String)) (l : List String) : Bool := obs.any (· == l)
def misuses (obs : List (List String)) : List String :=
  obs.filterMap fun l => match l with | ["misuse", k] => some k | _ => none

/-- ids of data blocks handed back to the platform in this operation -/
def freedIds (obs : List (List String)) : List Nat :=
  (obsNums obs "ufree" ++ obsNums obs "pf" ++ obsNums obs "unodefree").filterMap List.head?

/-- size of the underlying block `id` as granted in this operation -/
def grantedSize (obs : List (List String)) (id : Nat) : Option Nat :=
  let fromTwo := (obsNums obs "ualloc" ++ obsNums obs "pm").findSome? fun l => match l with
    | [req, i] => if i == id then some req else none
    | _ => none
  match fromTwo with
  | some r => some r
  | none => (obsNums obs "urealloc").findSome? fun l => match l with
    | [_, req, i] => if i == id then some req else none
    | _ => none

def cstr (bs : List UInt8) : List UInt8 := bs.takeWhile (· != 0)

/-- checks common to every successful allocation: the block comes from the platform in this very call, is
    aligned, has room for `size` user bytes plus guard plus (inline layout) the record, does not coincide with
    another live block, and every user byte was written -/
def checkBlock (sh : Shadow) (obs : List (List String)) (what : String) (id off size : Nat) (inline : Bool)
    (except : Nat) (wrote : Option Nat) : Except String Unit := do
  let some req := grantedSize obs id | throw s!"{what}: returned pointer is not inside a block the platform handed out in this call"
  if sh.live.any (fun b => b.id == id && id != except) then throw s!"{what}: returned block {id} is still live"
  let book := sh.guard + (if inline then sh.node else 0)
  if off + size + book > req then
    throw s!"{what}: underlying block of {req} bytes cannot hold {size} user bytes at offset {off} plus {book} bytes of bookkeeping"
  if !hasLine obs ["align", "0"] then throw s!"{what}: returned pointer is not 16-byte aligned"
  match wrote with
  | some n => if !hasLine obs ["wrote", toString n] then throw s!"{what}: user bytes not all written"
  | none => pure ()

def contentOk (obs : List (List String)) (expect : List UInt8) : Bool :=
  hasLine obs (Proto.words (contentLine expect))

def intOf (s : String) : Option Int := s.toInt?

def deltaOf (obs : List (List String)) : Option Int :=
  obs.findSome? fun l => match l with | ["delta", d] => d.toInt? | _ => none
def totalOf (obs : List (List String)) : Option Nat :=
  obs.findSome? fun l => match l with | ["total", d] => d.toNat? | _ => none

/-- a failed request: nothing tracked changed, no live block given back -/
def checkFailed (sh : Shadow) (obs : List (List String)) (what : String) (glob : Bool) : Except String Unit := do
  let gone := (obsNums obs "platform-freed").filterMap List.head?
  if sh.live.any (fun b => gone.contains b.id) then
    throw s!"{what} returned NULL and keeps the old block tracked, but the platform released that block (realloc to 0 bytes frees it)"
  let fr := freedIds obs
  if sh.live.any (fun b => fr.contains b.id) then throw s!"{what} failed but released a live block"
  if sh.big.any (fun b => fr.contains b.id || gone.contains b.id) then throw s!"{what} failed but released a live block"
  if glob then
    if deltaOf obs != some 0 then throw s!"{what} failed but the number of tracked blocks changed"
  else
    if totalOf obs != some sh.total then throw s!"{what} failed but the number of tracked blocks changed"

def overflows (sh : Shadow) (size : Nat) (inline : Bool) : Bool :=
  size + sh.guard + (if sh.check then 8 else 0) + (if inline then sh.node else 0) ≥ two64

/-- what a global allocation request asks for, decoded from the operation words alone -/
structure Req where
  what   : String
  size?  : Option Nat               -- `none`: count x size overflows size_t
  inline : Bool
  fam    : Nat
  expect : Option (Unit → List UInt8)  -- contents the new block must show right after the call (lazy: sizes can be huge)
  wrote  : Option Nat               -- user bytes the harness then writes
  okNull : Bool
  okBad  : Bool
  after  : Unit → List UInt8        -- contents after the harness wrote its pattern

def decodeReq (sh : Shadow) (op : List String) : Except String Req :=
  match op with
  | ["gmalloc", size, seed] =>
    match size.toNat?, seed.toNat? with
    | some n, some sd => pure ⟨s!"cpputest_malloc({n})", some n, false, 2, none, some n, true, false, fun _ => patRange sd 0 n⟩
    | _, _ => throw "bad gmalloc"
  | ["gcalloc", num, size, seed] =>
    match num.toNat?, size.toNat?, seed.toNat? with
    | some k, some n, some sd =>
      if k * n ≥ two64 then pure ⟨s!"cpputest_calloc({k},{n})", none, false, 2, none, none, true, false, fun _ => []⟩
      else pure ⟨s!"cpputest_calloc({k},{n})", some (k * n), false, 2, some (fun _ => zeros (k * n)), some (k * n), true, false, fun _ => patRange sd 0 (k * n)⟩
    | _, _, _ => throw "bad gcalloc"
  | ["gstrdup", h] =>
    match Proto.unhex? h with
    | some s => pure ⟨"cpputest_strdup", some ((cstr s).length + 1), false, 2, some (fun _ => cstr s ++ [0]), none, true, false, fun _ => cstr s ++ [0]⟩
    | none => throw "bad gstrdup"
  | ["gstrndup", h, n] =>
    match Proto.unhex? h, n.toNat? with
    | some s, some k =>
      pure ⟨s!"cpputest_strndup(n={k})", some (((cstr s).take k).length + 1), false, 2, some (fun _ => (cstr s).take k ++ [0]), none, true, false,
            fun _ => (cstr s).take k ++ [0]⟩
    | _, _ => throw "bad gstrndup"
  | ["gnew", v, size, seed] =>
    match size.toNat?, seed.toNat? with
    | some n, some sd =>
      pure ⟨s!"operator {v}({n})", some n, sh.check,
            if v == "new_array" || v == "new_array_nothrow" || v == "new_array_debug" || v == "new_array_debug_int" then 1 else 0,
            none, some n, v == "new_nothrow" || v == "new_array_nothrow", !(v == "new_nothrow" || v == "new_array_nothrow"),
            fun _ => patRange sd 0 n⟩
    | _, _ => throw "bad gnew"
  | _ => throw "bad-op"

def specStep (sh : Shadow) (o : Proto.Op) : Except String Shadow := do
  let obs := o.obs
  let ms := misuses obs
  if hasLine obs ["ufree", "0"] || hasLine obs ["unodefree", "0"] then
    throw "the platform free was handed a pointer that is not the start of a live platform block"
  match o.op with
  | ["config"] =>
    match (obsNums obs "cfg").head? with
    | some [g, n, c] => return { sh with guard := g, node := n, check := c != 0 }
    | _ => throw "no cfg line"
  | ["fail", _, _] => return sh
  | ["skip"] => return sh
  | ["goom", w] => return { sh with oom := w == "on" }
  | ["gnullnew", w] => return { sh with nullnew := w == "on" }
  | ["gcrashalloc", _] => return sh
  | ["gthreadsafe", _] => return sh
  | "alloc" :: fam :: size :: seed :: [] | "allocx" :: fam :: size :: seed :: [_] =>
    let some f := famOf fam | throw "bad alloc"
    let some n := size.toNat? | throw "bad alloc"
    let some sd := seed.toNat? | throw "bad alloc"
    if !ms.isEmpty then throw s!"alloc({n}) reported misuse {ms}"
    -- the record is inline unless the caller asked for a separate node (the malloc family; `allocx … 1`) or the build forces it
    let sepAsked := match o.op with | ["allocx", _, _, _, w] => w == "1" | _ => f == 2
    let inline := !sepAsked && sh.check
    match retOf obs with
    | .ptr id off =>
      if overflows sh n inline then throw s!"alloc({n}): size overflows once bookkeeping is added, yet a block was returned"
      checkBlock sh obs s!"alloc({n})" id off n inline 0 (some n)
      if totalOf obs != some (sh.total + 1) then throw s!"alloc({n}) succeeded but the tracked total did not grow by one"
      return { sh with live := ⟨id, n, patRange sd 0 n, f, false⟩ :: sh.live, total := sh.total + 1 }
    | .missing => return sh      -- the implementation died: reported as a crash
    | .unknown => throw s!"alloc({n}): returned pointer is not inside a block the platform handed out"
    | _ => checkFailed sh obs s!"alloc({n})" false; return sh
  | "realloc" :: fam :: old :: size :: seed :: [] | "reallocx" :: fam :: old :: size :: seed :: [_] =>
    let some f := famOf fam | throw "bad realloc"
    let some oid := old.toNat? | throw "bad realloc"
    let some n := size.toNat? | throw "bad realloc"
    let some sd := seed.toNat? | throw "bad realloc"
    let sepAsked := match o.op with | ["reallocx", _, _, _, _, w] => w == "1" | _ => f == 2
    let inline := !sepAsked && sh.check
    let oldB := sh.live.find? (fun b => b.id == oid && !b.glob)
    if oid != 0 && oldB.isNone then
      -- stale pointer: one report, NULL, nothing changes
      if ms != ["nonallocated"] then throw s!"realloc of a pointer that is not tracked: reports {ms}"
      if retOf obs != .null && retOf obs != .missing then throw "realloc of a pointer that is not tracked returned a block"
      checkFailed sh obs "realloc(stale)" false
      return sh
    if !ms.isEmpty then throw s!"realloc({n}) of a live block reported misuse {ms}"
    let oldSize := (oldB.map (·.size)).getD 0
    let oldContent := (oldB.map (·.content)).getD []
    let keep := min oldSize n
    match retOf obs with
    | .ptr id off =>
      if overflows sh n inline then throw s!"realloc({n}): size overflows once bookkeeping is added, yet a block was returned"
      checkBlock sh obs s!"realloc({n})" id off n inline oid (some (n - keep))
      if !contentOk obs (oldContent.take keep) then throw s!"realloc({oldSize} -> {n}) did not preserve the first {keep} bytes"
      let want := if oid == 0 then sh.total + 1 else sh.total
      if totalOf obs != some want then throw s!"realloc({n}) succeeded but the tracked total is not {want}"
      let rest := sh.live.filter (fun b => !(b.id == oid && !b.glob))
      return { sh with live := ⟨id, n, oldContent.take keep ++ patRange sd keep n, f, false⟩ :: rest, total := want }
    | .missing => return sh
    | .unknown => throw s!"realloc({n}): returned pointer is not inside a block the platform handed out"
    | _ => checkFailed sh obs s!"realloc({n})" false; return sh
  | ["free", _, id] | ["freex", _, id, _] =>
    let some i := id.toNat? | throw "bad free"
    match sh.live.find? (fun b => b.id == i && !b.glob) with
    | some _ =>
      if !ms.isEmpty then throw s!"free of live block {i} reported misuse {ms} (block no longer tracked or damaged)"
      if ((obsNums obs "ufree").filter (· == [i])).length != 1 then
        throw s!"free of live block {i}: the platform free was not called exactly once with the block's own pointer"
      if sh.live.any (fun b => b.id != i && (freedIds obs).contains b.id) then
        throw s!"free of live block {i} also released another live block"
      if totalOf obs != some (sh.total - 1) then throw s!"free of live block {i}: tracked total did not shrink by one"
      return { sh with live := sh.live.filter (fun b => !(b.id == i && !b.glob)), total := sh.total - 1 }
    | none =>
      if ms != ["nonallocated"] then throw s!"free of a pointer that is not tracked: reports {ms}"
      checkFailed sh obs "free(stale)" false
      return sh
  | ["balloc", fam, size, seed, sepw] =>
    let some _ := famOf fam | throw "bad balloc"
    let some n := size.toNat? | throw "bad balloc"
    let some sd := seed.toNat? | throw "bad balloc"
    if !ms.isEmpty then throw s!"alloc({n}) reported misuse {ms}"
    let inline := sepw != "1" && sh.check
    match retOf obs with
    | .ptr id off =>
      if overflows sh n inline then throw s!"alloc({n}): size overflows once bookkeeping is added, yet a block was returned"
      checkBlock sh obs s!"alloc({n})" id off n inline 0 none
      if sh.big.any (·.id == id) then throw s!"alloc({n}): returned block {id} is still live"
      if !hasLine obs ["wrote-edges"] then throw s!"alloc({n}): first and last user bytes not written"
      if totalOf obs != some (sh.total + 1) then throw s!"alloc({n}) succeeded but the tracked total did not grow by one"
      return { sh with big := ⟨id, n, sd⟩ :: sh.big, total := sh.total + 1 }
    | .missing => return sh
    | .unknown => throw s!"alloc({n}): returned pointer is not inside a block the platform handed out"
    | _ => checkFailed sh obs s!"alloc({n})" false; return sh
  | ["brealloc", fam, old, size, seed, sepw] =>
    let some _ := famOf fam | throw "bad brealloc"
    let some oid := old.toNat? | throw "bad brealloc"
    let some n := size.toNat? | throw "bad brealloc"
    let some sd := seed.toNat? | throw "bad brealloc"
    let inline := sepw != "1" && sh.check
    let oldB := sh.big.find? (·.id == oid)
    if oid != 0 && oldB.isNone then
      if ms != ["nonallocated"] then throw s!"realloc of a pointer that is not tracked: reports {ms}"
      if retOf obs != .null && retOf obs != .missing then throw "realloc of a pointer that is not tracked returned a block"
      checkFailed sh obs "realloc(stale)" false
      return sh
    if !ms.isEmpty then throw s!"realloc({n}) of a live block reported misuse {ms}"
    let oldSize := (oldB.map (·.size)).getD 0
    let oldSeed := (oldB.map (·.seed)).getD 0
    let keep := min oldSize n
    match retOf obs with
    | .ptr id off =>
      if overflows sh n inline then throw s!"realloc({n}): size overflows once bookkeeping is added, yet a block was returned"
      checkBlock sh obs s!"realloc({n})" id off n inline oid none
      if sh.big.any (fun b => b.id == id && id != oid) then throw s!"realloc({n}): returned block {id} is still live"
      -- realloc preserves the first min(old,new) bytes: their first 32 and (when the block grew) their last 32 are looked at
      let hd := patRange oldSeed 0 (min keep 32)
      if keep > 0 && !hasLine obs ["head", toString hd.length, Proto.hex hd] then
        throw s!"realloc({oldSize} -> {n}) did not preserve the first {keep} bytes (damage within the first {hd.length})"
      let tl := patRange oldSeed (oldSize - 32) oldSize
      if oid != 0 && n ≥ oldSize && oldSize > 0 && !hasLine obs ["tail", toString tl.length, Proto.hex tl] then
        throw s!"realloc({oldSize} -> {n}) did not preserve the first {keep} bytes (damage within the last {tl.length} of them)"
      if !hasLine obs ["wrote-edges"] then throw s!"realloc({n}): first and last user bytes not written"
      let want := if oid == 0 then sh.total + 1 else sh.total
      if totalOf obs != some want then throw s!"realloc({n}) succeeded but the tracked total is not {want}"
      return { sh with big := ⟨id, n, sd⟩ :: sh.big.filter (·.id != oid), total := want }
    | .missing => return sh
    | .unknown => throw s!"realloc({n}): returned pointer is not inside a block the platform handed out"
    | _ => checkFailed sh obs s!"realloc({n})" false; return sh
  | ["bfree", _, id, _] =>
    let some i := id.toNat? | throw "bad bfree"
    match sh.big.find? (·.id == i) with
    | some b =>
      if !ms.isEmpty then throw s!"free of live block {i} ({b.size} bytes) reported misuse {ms} (block no longer tracked or damaged)"
      if ((obsNums obs "ufree").filter (· == [i])).length != 1 then
        throw s!"free of live block {i}: the platform free was not called exactly once with the block's own pointer"
      if sh.live.any (fun b => (freedIds obs).contains b.id) || sh.big.any (fun b => b.id != i && (freedIds obs).contains b.id) then
        throw s!"free of live block {i} also released another live block"
      if totalOf obs != some (sh.total - 1) then throw s!"free of live block {i}: tracked total did not shrink by one"
      return { sh with big := sh.big.filter (·.id != i), total := sh.total - 1 }
    | none =>
      if ms != ["nonallocated"] then throw s!"free of a pointer that is not tracked: reports {ms}"
      checkFailed sh obs "free(stale)" false
      return sh
  | ["peek", id, _] | ["gpeek", id, _] =>
    let some i := id.toNat? | throw "bad peek"
    match sh.live.find? (fun b => b.id == i) with
    | some b => if contentOk obs b.content then return sh else throw s!"live block {i} no longer holds its contents"
    | none => return sh
  | "gmalloc" :: _ | "gcalloc" :: _ | "gstrdup" :: _ | "gstrndup" :: _ | "gnew" :: _ =>
    if !ms.isEmpty then throw s!"{" ".intercalate o.op} reported misuse {ms}"
    let rq ← decodeReq sh o.op
    let what := rq.what
    match retOf obs with
    | .ptr id off =>
      let some size := rq.size? | throw s!"{what}: the product overflows size_t, yet a block was returned"
      if overflows sh size rq.inline then throw s!"{what}: size overflows once bookkeeping is added, yet a block was returned"
      checkBlock sh obs what id off size rq.inline 0 rq.wrote
      match rq.expect with
      | some e => if !contentOk obs (e ()) then throw s!"{what}: contents of the new block are not as specified"
      | none => pure ()
      if deltaOf obs != some 1 then throw s!"{what} succeeded but the tracked total did not grow by one"
      return { sh with live := ⟨id, size, rq.after (), rq.fam, true⟩ :: sh.live }
    | .null =>
      if !rq.okNull then throw s!"{what} returned NULL instead of throwing std::bad_alloc"
      checkFailed sh obs what true; return sh
    | .badalloc =>
      if !rq.okBad then throw s!"{what} threw std::bad_alloc"
      checkFailed sh obs what true; return sh
    | .testfail => checkFailed sh obs what true; return sh
    | .unknown => throw s!"{what}: returned pointer is not inside a block the platform handed out"
    | .missing => return sh
  | ["grealloc", old, size, seed] =>
    let some oid := old.toNat? | throw "bad grealloc"
    let some n := size.toNat? | throw "bad grealloc"
    let some sd := seed.toNat? | throw "bad grealloc"
    if !ms.isEmpty then throw s!"cpputest_realloc({n}) reported misuse {ms}"
    let oldB := sh.live.find? (fun b => b.id == oid && b.glob)
    let oldSize := (oldB.map (·.size)).getD 0
    let oldContent := (oldB.map (·.content)).getD []
    let keep := min oldSize n
    match retOf obs with
    | .ptr id off =>
      if overflows sh n false then throw s!"cpputest_realloc({n}): size overflows once bookkeeping is added, yet a block was returned"
      checkBlock sh obs s!"cpputest_realloc({n})" id off n false oid (some (n - keep))
      if !contentOk obs (oldContent.take keep) then throw s!"cpputest_realloc({oldSize} -> {n}) did not preserve the first {keep} bytes"
      let want : Int := if oid == 0 then 1 else 0
      if deltaOf obs != some want then throw s!"cpputest_realloc({n}) succeeded but the tracked total changed by other than {want}"
      let rest := sh.live.filter (fun b => !(b.id == oid && b.glob))
      return { sh with live := ⟨id, n, oldContent.take keep ++ patRange sd keep n, 2, true⟩ :: rest }
    | .badalloc => throw "cpputest_realloc threw std::bad_alloc"
    | .unknown => throw s!"cpputest_realloc({n}): returned pointer is not inside a block the platform handed out"
    | .missing => return sh
    | _ => checkFailed sh obs s!"cpputest_realloc({n})" true; return sh
  | ["gfree", id] | ["gdelete", id] | ["gdeletex", _, id] =>
    let some i := id.toNat? | throw "bad gfree"
    if !ms.isEmpty then throw s!"release of live block {i} reported misuse {ms}"
    if ((obsNums obs "pf").filter (· == [i])).length != 1 then
      throw s!"release of live block {i}: the platform free was not called exactly once with the block's own pointer"
    if sh.live.any (fun b => b.id != i && (freedIds obs).contains b.id) then
      throw s!"release of live block {i} also released another live block"
    if deltaOf obs != some (-1) then throw s!"release of live block {i}: tracked total did not shrink by one"
    return { sh with live := sh.live.filter (fun b => !(b.id == i && b.glob)) }
  | ["finish"] =>
    if !hasLine obs ["cleanup-misuse", "0"] then throw "releasing the remaining live blocks reported misuse (a block was no longer tracked, or damaged)"
    if totalOf obs != some 0 then throw "blocks still tracked after everything was released"
    let k := (sh.live.filter (·.glob)).length
    if !hasLine obs ["gfreed", toString k, toString (-(k : Int))] then
      throw s!"releasing the {k} remaining live blocks of the global detector did not reduce its total by {k}"
    return { sh with live := [], big := [], total := 0 }
  | _ => throw "bad-op"

def specAll (ops : List Proto.Op) : Option String :=
  let rec go (sh : Shadow) (i : Nat) : List Proto.Op → Option String
    | [] => none
    | o :: rest =>
      match specStep sh o with
      | .ok sh' => go sh' (i+1) rest
      | .error e => some s!"op#{i} {" ".intercalate o.op}: {e}"
  go {} 0 ops

def main : IO Unit :=
  Proto.driverMain { init := ({} : DState), step := modelStep, spec := specAll }
