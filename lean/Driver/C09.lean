import CppUModel.Base.Proto
import CppUModel.Model.MockValue
import CppUModel.Model.MockNamedValueList
import CppUModel.Model.MockEntry
import CppUModel.Model.MockReturn
import CppUModel.Model.MockData
import CppUModel.Gen.MockEquals
/-!
Driver for C09.

* model replay: the value tokens of every op are turned into `Mock.MVal`s and the REGENERATED
  `Gen.MockEquals.equalsGen` / `get…Gen` are evaluated (so every generated function is run against the
  real function on the same inputs);
* specification oracle: an independent reading of the same tokens (`SVal`: decimal integers as `Int`,
  bytes, pool indices, doubles) judged by the property's own words — mathematical equality of the
  denoted integers in both directions, identity / content / length+content, the left operand's
  tolerance with NaN equal to nothing, different types never equal, a getter returns exactly the
  stored integer or fails.  The oracle never mentions `MVal`, `equalsGen` or the getters.
-/
open Mock

/-! ## token parsing shared by both readers (syntax only) -/

def splitTok (t : String) : List String := t.splitOn ":"

def hex64? (s : String) : Option UInt64 :=
  if s.length != 16 then none else
  s.toList.foldl (fun acc c => match acc, Proto.hexVal? c with
    | some a, some d => some (a * 16 + UInt64.ofNat d)
    | _, _ => none) (some 0)

def bytes? (s : String) : Option (List UInt8) := Proto.unhex? s

/-! ## model side -/

/-- behaviour of the harness' comparator objects 1..4 -/
def comparatorSem (id a b : Nat) : Bool :=
  if id == 1 then a % 3 == b % 3 else if id == 2 then a == b else if id == 3 then true else false

def comparatorText (id : Option Nat) (a : Nat) : Bytes :=
  match id with
  | some 1 => decNat a
  | some 2 => decNat a
  | some 3 => ascii "T" ++ decNat a
  | _ => []

/-- state of a case: the four repositories, which one is the default, the value list (items = sequence number, type name) -/
structure DState where
  repos : List Repo := [[{ name := "CmpId", comparator := some 2, copier := none },
                         { name := "CmpMod3", comparator := some 1, copier := none }], [], [], []]
  dflt : Option Nat := some 0
  list : NList (Nat × String) := []
  next : Nat := 1
  data : Store := []                 -- the data store of mock()
  mockRepo : Repo := []              -- mock()'s own repository (the default repository while a mock() call runs)

def DState.defaultRepo (st : DState) : Option Repo := st.dflt.bind fun i => st.repos[i]?

def cstr (b : Bytes) : Bytes := b.takeWhile (· != 0)    -- a C string ends at its first NUL

/-- value token ↦ the value, and the comparator / copier the setter found (object values only) -/
def mvalOf (st : DState) (tok : String) : Option (MVal × Option Nat × Option Nat) :=
  let plain (v : Option MVal) := v.map fun v => (v, none, none)
  match splitTok tok with
  | ["int", n] => plain (n.toInt?.map fun v => .int (BitVec.ofInt 32 v))
  | ["uint", n] => plain (n.toInt?.map fun v => .uint (BitVec.ofInt 32 v))
  | ["long", n] => plain (n.toInt?.map fun v => .long (BitVec.ofInt 64 v))
  | ["ulong", n] => plain (n.toInt?.map fun v => .ulong (BitVec.ofInt 64 v))
  | ["llong", n] => plain (n.toInt?.map fun v => .llong (BitVec.ofInt 64 v))
  | ["ullong", n] => plain (n.toInt?.map fun v => .ullong (BitVec.ofInt 64 v))
  | ["bool", "0"] => plain (some (.bool false))
  | ["bool", "1"] => plain (some (.bool true))
  | ["dbl", v, t] =>
    match hex64? v, hex64? t with
    | some v, some t => plain (some (.dbl (classify (Float.ofBits v)) (classify (Float.ofBits t))))
    | _, _ => none
  | ["dbld", v] =>       -- setValue(double): the default tolerance
    match hex64? v with
    | some v => plain (some (.dbl (classify (Float.ofBits v)) (classify Gen.MockEquals.defaultDoubleTolerance)))
    | none => none
  | ["str", "null"] => plain (some (.str none))
  | ["str", h] => plain ((bytes? h).map fun b => .str (some (cstr b)))
  | ["mem", h] => plain ((bytes? h).map .mem)
  | ["ptr", k] => plain (k.toNat?.map .ptr)
  | ["cptr", k] => plain (k.toNat?.map .cptr)
  | ["fptr", k] => plain (k.toNat?.map .fptr)
  | ["obj", ty, k] | ["cobj", ty, k] =>
    k.toNat?.map fun k =>
      let l := lookupForType st.defaultRepo ty
      (setObjectPointer st.defaultRepo comparatorSem ty k, l.1, l.2)
  | _ => none

def tokKind (tok : String) : String := (splitTok tok).headD ""

def b01 (b : Bool) : String := if b then "1" else "0"

def showGet (name : String) (signed : Bool) {w : Nat} (r : Except Fail (BitVec w)) : String :=
  match r with
  | .ok v => s!"{name} ok {if signed then v.toInt else (v.toNat : Int)}"
  | .error _ => s!"{name} fail"

def showX {α} (name : String) (render : α → String) (r : Except Fail α) : String :=
  match r with
  | .ok v => s!"{name} ok {render v}"
  | .error _ => s!"{name} fail"

def hex16 (u : UInt64) : String :=
  String.ofList ((List.range 16).map fun i => Proto.hexDigit ((u.toNat >>> (4 * (15 - i))) % 16))

def showD : D Float → String
  | .nan => "nan"
  | .inf neg => if neg then "inf-" else "inf+"
  | .fin x => hex16 x.toBits

def idStr (o : Option Nat) : String := toString (o.getD 0)

def obsBytes (tag : String) (obs : List (List String)) : Option Bytes :=
  obs.findSome? fun l => match l with
    | [t, h] => if t == tag then bytes? h else none
    | _ => none
def obsNat (tag : String) (obs : List (List String)) : Option Nat :=
  obs.findSome? fun l => match l with
    | [t, n] => if t == tag then n.toNat? else none
    | _ => none

def nameArg (w : String) : Option (Option Bytes) :=
  if w == "null" then some none else (bytes? w).map fun b => some (cstr b)

/-- `<entry>.<kind>:<n>` -/
def apiTok (tok : String) : Option (String × String × Int) :=
  match tok.splitOn ":" with
  | [ek, n] =>
    match ek.splitOn ".", n.toInt? with
    | [e, k], some v => some (e, k, v)
    | _, _ => none
  | _ => none

def retWords : List String := ["Int", "UnsignedInt", "LongInt", "UnsignedLongInt", "LongLongInt", "UnsignedLongLongInt"]
def lowerFirst (w : String) : String := match w.toList with
  | c :: cs => String.ofList (c.toLower :: cs)
  | [] => w
/-- the 24 readers in the order the harness calls them -/
def retReaderNames : List (String × String) :=
  (retWords.flatMap fun w => [("call", s!"return{w}Value"), ("call", s!"return{w}ValueOrDefault")]) ++
  (retWords.flatMap fun w => [("support", s!"{lowerFirst w}ReturnValue"), ("support", s!"return{w}ValueOrDefault")])

/-- `<entry>.<value token>` of eqapix ↦ (entry, integer kind + number | non-integer argument list) -/
def xTok (tok : String) : Option (String × (String × Int ⊕ XArg)) :=
  match tok.splitOn "." with
  | [e, val] =>
    let arg : Option (String × Int ⊕ XArg) :=
      match splitTok val with
      | ["bool", n] => if e == "c" then n.toInt?.map fun v => .inr (.cint v)
                       else if n == "0" then some (.inr (.bool false)) else if n == "1" then some (.inr (.bool true)) else none
      | ["dbl", v, t] =>
        match hex64? v, hex64? t with
        | some v, some t => some (.inr (.dbl2 (classify (Float.ofBits v)) (classify (Float.ofBits t))))
        | _, _ => none
      | ["dbld", v] => (hex64? v).map fun v => .inr (.dbl (classify (Float.ofBits v)))
      | ["str", "null"] => some (.inr (.str none))
      | ["str", h] => (bytes? h).map fun b => .inr (.str (some (cstr b)))
      | ["mem", h] => (bytes? h).map fun b => .inr (.mem b)
      | ["ptr", k] => k.toNat?.map fun k => .inr (.ptr k)
      | ["cptr", k] => k.toNat?.map fun k => .inr (.cptr k)
      | ["fptr", k] => k.toNat?.map fun k => .inr (.fptr k)
      | [k, n] => if intKinds.contains k then n.toInt?.map fun v => .inl (k, v) else none
      | _ => none
    arg.map fun a => (e, a)
  | _ => none

/-- the value an entry point of class `cls` creates for an eqapix token -/
def xValue (cls : String) (t : String × (String × Int ⊕ XArg)) : Option MVal :=
  match t.2 with
  | .inl (k, v) => entryValue cls t.1 k v
  | .inr a => entryValueX cls t.1 a

/-- data argument of a `dset` op -/
def dArg (api tok : String) : Option DArg :=
  match splitTok tok with
  | ["bool", n] => if api == "c" then n.toInt?.map fun v => .x (.cint v)
                   else if n == "0" then some (.x (.bool false)) else if n == "1" then some (.x (.bool true)) else none
  | ["int", n] => n.toInt?.map fun v => .int "int" v
  | ["uint", n] => n.toInt?.map fun v => .int "uint" v
  | ["dbld", v] => (hex64? v).map fun v => .x (.dbl (classify (Float.ofBits v)))
  | ["str", "null"] => some (.x (.str none))
  | ["str", h] => (bytes? h).map fun b => .x (.str (some (cstr b)))
  | ["ptr", k] => k.toNat?.map fun k => .x (.ptr k)
  | ["cptr", k] => k.toNat?.map fun k => .x (.cptr k)
  | ["fptr", k] => k.toNat?.map fun k => .x (.fptr k)
  | ["obj", ty, k] => k.toNat?.map fun k => .obj ty k
  | ["cobj", ty, k] => k.toNat?.map fun k => .cobj ty k
  | _ => none

/-- setter call a value token stands for (op `cell`) -/
def setOpOf (tok : String) : Option SetOp :=
  match splitTok tok with
  | ["mem", h] => (bytes? h).map .mem
  | ["obj", ty, k] | ["cobj", ty, k] => k.toNat?.map fun k => .obj ty k
  | _ => none

def showGetters (a : MVal) : List String := [
  showGet "getIntValue" Gen.MockEquals.getIntValueSigned (Gen.MockEquals.getIntValueGen a),
  showGet "getUnsignedIntValue" Gen.MockEquals.getUnsignedIntValueSigned (Gen.MockEquals.getUnsignedIntValueGen a),
  showGet "getLongIntValue" Gen.MockEquals.getLongIntValueSigned (Gen.MockEquals.getLongIntValueGen a),
  showGet "getUnsignedLongIntValue" Gen.MockEquals.getUnsignedLongIntValueSigned (Gen.MockEquals.getUnsignedLongIntValueGen a),
  showGet "getLongLongIntValue" Gen.MockEquals.getLongLongIntValueSigned (Gen.MockEquals.getLongLongIntValueGen a),
  showGet "getUnsignedLongLongIntValue" Gen.MockEquals.getUnsignedLongLongIntValueSigned (Gen.MockEquals.getUnsignedLongLongIntValueGen a)]

def setRepo (st : DState) (i : Nat) (r : Repo) : DState := { st with repos := st.repos.set i r }

def modelStep0 (st : DState) (op : List String) (obs : List (List String)) : DState × List String :=
  match op with
  | ["eq", ta, tb] =>
    match mvalOf st ta, mvalOf st tb with
    | some (a, _, _), some (b, _, _) => (st, [s!"r {b01 (Gen.MockEquals.equalsGen a b)} {b01 (Gen.MockEquals.equalsGen b a)}"])
    | _, _ => (st, ["bad-op"])
  | ["eqapi", te, ta] =>
    -- the value each entry point creates is looked up in the regenerated wiring (Model/MockEntry.lean); the expectation's
    -- `equals` is what `MockCheckedExpectedCall::hasInputParameter` asks
    match apiTok te, apiTok ta with
    | some (ea, ek, ev), some (aa, ak, av) =>
      match entryValue "expected" ea ek ev, entryValue "actual" aa ak av with
      | some e, some a => (st, [s!"p {b01 (Gen.MockEquals.hasInputParameterGen (some e) a false)}"])
      | _, _ => (st, ["bad-op"])
    | _, _ => (st, ["bad-op"])
  | ["eqapix", te, ta] =>
    -- as eqapi, for every parameter kind; the question asked is the REGENERATED `hasInputParameter` (expectation found by name)
    match xTok te, xTok ta with
    | some e, some a =>
      match xValue "expected" e, xValue "actual" a with
      | some e, some a => (st, [s!"p {b01 (Gen.MockEquals.hasInputParameterGen (some e) a false)}"])
      | _, _ => (st, ["bad-op"])
    | _, _ => (st, ["bad-op"])
  | ["dset", api, n, tok] =>
    -- while a mock() call runs the default repository is mock()'s own
    match nameArg n, dArg api tok with
    | some (some name), some d =>
      match dataEntry (some st.mockRepo) comparatorSem api d with
      | some f => ({ st with data := st.data.update name f }, [])
      | none => (st, ["unmodelled"])
    | _, _ => (st, ["bad-op"])
  | ["dget", n] =>
    match nameArg n with
    | some (some name) =>
      let c := st.data.getData name
      (st, [s!"t {Proto.hex (ascii c.val.type_)}", s!"cmp {idStr c.cmp} {idStr c.cop}"] ++ showGetters c.val)
    | _ => (st, ["bad-op"])
  | ["deq", n1, n2] =>
    match nameArg n1, nameArg n2 with
    | some (some a), some (some b) =>
      let x := (st.data.getData a).val
      let y := (st.data.getData b).val
      (st, [s!"r {b01 (Gen.MockEquals.equalsGen x y)} {b01 (Gen.MockEquals.equalsGen y x)}"])
    | _, _ => (st, ["bad-op"])
  | ["dhas", n] =>
    match nameArg n with
    | some (some name) => (st, [s!"has {b01 (st.data.getValueByName name).isSome}"])
    | _ => (st, ["bad-op"])
  | ["dinstall", ty, id] =>
    match id.toNat? with
    | some id => ({ st with mockRepo := st.mockRepo.installComparator ty id }, [])
    | none => (st, ["bad-op"])
  | ["dcopier", ty, id] =>
    match id.toNat? with
    | some id => ({ st with mockRepo := st.mockRepo.installCopier ty id }, [])
    | none => (st, ["bad-op"])
  | ["dremove"] => ({ st with mockRepo := st.mockRepo.clear }, [])
  | ["dclear"] => ({ st with data := [] }, [])
  | "cell" :: toks =>
    -- fold over the tokens: `def:<r|none>` switches the default repository, a value token is one setter call under the
    -- repository in force at that moment
    let step (acc : Option (DState × List (Option Repo × SetOp))) (t : String) : Option (DState × List (Option Repo × SetOp)) :=
      acc.bind fun (s, ops) =>
        match splitTok t with
        | ["def", "none"] => some ({ s with dflt := none }, ops)
        | ["def", r] => r.toNat?.map fun r => ({ s with dflt := some r }, ops)
        | _ =>
          match setOpOf t with
          | some o => some (s, ops ++ [(s.defaultRepo, o)])
          | none => (mvalOf s t).map fun (v, _, _) => (s, ops ++ [(s.defaultRepo, SetOp.plain v)])
    match toks.foldl step (some (st, [])) with
    | some (st', ops) =>
      match (toks.filter fun t => !t.startsWith "def:").getLast?.bind (mvalOf st') with
      | some (f, _, _) =>
        let c := Cell.run comparatorSem Cell.fresh ops
        (st', [s!"t {Proto.hex (ascii c.val.type_)}", s!"size {c.size}", s!"cmp {idStr c.cmp} {idStr c.cop}",
               s!"r {b01 (Gen.MockEquals.equalsGen c.val f)} {b01 (Gen.MockEquals.equalsGen f c.val)}"])
      | none => (st, ["bad-op"])
    | none => (st, ["bad-op"])
  | ["getret", tv, td] =>
    -- the stored return value is what `andReturnValue(<typed value>)` creates; every reader is followed through the
    -- regenerated reader → getter table (Model/MockReturn.lean)
    let stored : Option (Option MVal) :=
      if tv == "none" then some none else
      match tv.splitOn ":" with
      | [k, n] => (n.toInt?.bind fun v => mkInt k v).map some
      | _ => none
    match stored, td.toInt? with
    | some stored, some d =>
      (st, retReaderNames.map fun (level, reader) =>
        match readerResult level reader stored d with
        | some (.ok n) => s!"{level}.{reader} ok {n}"
        | some (.error _) => s!"{level}.{reader} fail"
        | none => s!"{level}.{reader} unmodelled")
    | _, _ => (st, ["bad-op"])
  | ["compat", ta, tb] =>
    match mvalOf st ta, mvalOf st tb with
    | some (a, _, _), some (b, _, _) =>
      (st, [s!"c {b01 (Gen.MockEquals.compatibleForCopyingGen a b)} {b01 (Gen.MockEquals.compatibleForCopyingGen b a)}"])
    | _, _ => (st, ["bad-op"])
  | ["tostr", ta] =>
    match mvalOf st ta with
    | some (a, cmp, _) =>
      -- environment inputs: libc's %.6g rendering and the machine address, as the implementation reported them
      let env : Env := { g6 := (obsBytes "g6" obs).getD [], addrOf := fun _ => (obsNat "addr" obs).getD 0,
                         valueToString := comparatorText cmp }
      let envLines := obs.filterMap fun l => match l with
        | ["g6", h] => some s!"g6 {h}"
        | ["addr", n] => some s!"addr {n}"
        | _ => none
      (st, envLines ++ [s!"t {Proto.hex (ascii a.type_)}", s!"s {Proto.hex (Gen.MockEquals.toStringGen env a)}"])
    | none => (st, ["bad-op"])
  | ["name", x, y] =>
    match nameArg x, nameArg y with
    | some x, some y =>
      let v := NamedValue.new (simpleStringOfCStr x)
      let env : Env := { g6 := [], addrOf := fun _ => 0, valueToString := fun _ => [] }
      (st, [s!"n0 {Proto.hex v.getName}", s!"t0 {Proto.hex (ascii v.val.type_)}",
            s!"s0 {Proto.hex (Gen.MockEquals.toStringGen env v.val)}", s!"n1 {Proto.hex (v.setName y).getName}"])
    | _, _ => (st, ["bad-op"])
  | ["get", ta] =>
    match mvalOf st ta with
    | some (a, _, _) => (st, [
        showGet "getIntValue" Gen.MockEquals.getIntValueSigned (Gen.MockEquals.getIntValueGen a),
        showGet "getUnsignedIntValue" Gen.MockEquals.getUnsignedIntValueSigned (Gen.MockEquals.getUnsignedIntValueGen a),
        showGet "getLongIntValue" Gen.MockEquals.getLongIntValueSigned (Gen.MockEquals.getLongIntValueGen a),
        showGet "getUnsignedLongIntValue" Gen.MockEquals.getUnsignedLongIntValueSigned (Gen.MockEquals.getUnsignedLongIntValueGen a),
        showGet "getLongLongIntValue" Gen.MockEquals.getLongLongIntValueSigned (Gen.MockEquals.getLongLongIntValueGen a),
        showGet "getUnsignedLongLongIntValue" Gen.MockEquals.getUnsignedLongLongIntValueSigned (Gen.MockEquals.getUnsignedLongLongIntValueGen a)])
    | none => (st, ["bad-op"])
  | ["getx", ta] =>
    match mvalOf st ta with
    | some (a, cmp, cop) =>
      let isObj := tokKind ta == "obj" || tokKind ta == "cobj"
      (st, [
        showX "getBoolValue" b01 (Gen.MockEquals.getBoolValueGen a),
        showX "getDoubleValue" showD (Gen.MockEquals.getDoubleValueGen a),
        showX "getDoubleTolerance" showD (Gen.MockEquals.getDoubleToleranceGen a),
        showX "getStringValue" (fun (s : Option Bytes) => match s with | none => "null" | some b => Proto.hex b) (Gen.MockEquals.getStringValueGen a),
        showX "getPointerValue" (fun (k : Nat) => toString k) (Gen.MockEquals.getPointerValueGen a),
        showX "getConstPointerValue" (fun (k : Nat) => toString k) (Gen.MockEquals.getConstPointerValueGen a),
        showX "getFunctionPointerValue" (fun (k : Nat) => toString k) (Gen.MockEquals.getFunctionPointerValueGen a),
        showX "getMemoryBuffer" (fun (b : Bytes) => Proto.hex b) (Gen.MockEquals.getMemoryBufferGen a),
        showX "getSize" (fun (n : BitVec 64) => toString n.toNat) (Gen.MockEquals.getSizeGen a)]
        ++ (if isObj then [
          showX "getObjectPointer" (fun (k : Nat) => toString k) (Gen.MockEquals.getObjectPointerGen a),
          showX "getConstObjectPointer" (fun (k : Nat) => toString k) (Gen.MockEquals.getConstObjectPointerGen a)] else [])
        ++ [s!"getComparator ok {idStr cmp}", s!"getCopier ok {idStr cop}"])
    | none => (st, ["bad-op"])
  | ["ladd", n, ta] =>
    match nameArg n, mvalOf st ta with
    | some (some name), some (a, _, _) =>
      ({ st with list := st.list.add (name, (st.next, a.type_)), next := st.next + 1 }, [s!"added {st.next}"])
    | _, _ => (st, ["bad-op"])
  | ["lget", n] =>
    match nameArg n with
    | some (some name) =>
      match st.list.getValueByName name with
      | some (seq, _) => (st, [s!"item {seq}"])
      | none => (st, ["item none"])
    | _ => (st, ["bad-op"])
  | ["llist"] => (st, st.list.map fun (n, (seq, ty)) => s!"it {seq} {Proto.hex n} {Proto.hex (ascii ty)}")
  | ["lclear"] => ({ st with list := st.list.clear, next := st.next }, [])
  | ["rcmp", r, ty, id] =>
    match r.toNat?, id.toNat? with
    | some r, some id => (setRepo st r ((st.repos.getD r []).installComparator ty id), [])
    | _, _ => (st, ["bad-op"])
  | ["rcop", r, ty, id] =>
    match r.toNat?, id.toNat? with
    | some r, some id => (setRepo st r ((st.repos.getD r []).installCopier ty id), [])
    | _, _ => (st, ["bad-op"])
  | ["rget", r, ty] =>
    match r.toNat? with
    | some r =>
      let rp := st.repos.getD r []
      (st, [s!"got {idStr (rp.getComparatorForType ty)} {idStr (rp.getCopierForType ty)}"])
    | none => (st, ["bad-op"])
  | ["rimport", r, r2] =>
    match r.toNat?, r2.toNat? with
    | some r, some r2 => (setRepo st r ((st.repos.getD r []).installAll (st.repos.getD r2 [])), [])
    | _, _ => (st, ["bad-op"])
  | ["rclear", r] =>
    match r.toNat? with
    | some r => (setRepo st r (st.repos.getD r []).clear, [])
    | none => (st, ["bad-op"])
  | ["rdefault", "none"] => ({ st with dflt := none }, [])
  | ["rdefault", r] =>
    match r.toNat? with
    | some r => ({ st with dflt := some r }, [])
    | none => (st, ["bad-op"])
  | ["skip"] => (st, [])
  | _ => (st, ["bad-op"])

/-- the scenario ops run `mock().clear()`, which empties the data store -/
def modelStep (st : DState) (op : List String) (obs : List (List String)) : DState × List String :=
  let r := modelStep0 st op obs
  match op with
  | "eqapi" :: _ | "eqapix" :: _ | "getret" :: _ => ({ r.1 with data := [] }, r.2)
  | _ => r

/-! ## specification oracle -/

inductive SVal where
  | int (ty : String) (v : Int)            -- one of the six integer types, the integer it denotes
  | bool (b : Bool)
  | dbl (v tol : Float)
  | str (content : List UInt8)             -- NULL and "" both have empty content
  | mem (b : List UInt8)
  | ptr (kind : String) (k : Nat)          -- ptr / cptr / fptr, pool index (injective in the address)
  | obj (ty : String) (k : Nat)

def intRange (ty : String) : Option (Int × Int) :=
  match ty with
  | "int" => some (-2147483648, 2147483647)
  | "uint" => some (0, 4294967295)
  | "long" => some (-9223372036854775808, 9223372036854775807)
  | "ulong" => some (0, 18446744073709551615)
  | "llong" => some (-9223372036854775808, 9223372036854775807)
  | "ullong" => some (0, 18446744073709551615)
  | _ => none

def svalOf (tok : String) : Except String SVal :=
  match splitTok tok with
  | [ty, n] =>
    match intRange ty with
    | some (lo, hi) =>
      match n.toInt? with
      | some v => if lo ≤ v ∧ v ≤ hi then .ok (.int ty v) else .error s!"{tok}: value outside the range of the type"
      | none => .error s!"{tok}: not a decimal integer"
    | none =>
      match ty, n with
      | "bool", "0" => .ok (.bool false)
      | "bool", "1" => .ok (.bool true)
      | "str", "null" => .ok (.str [])
      | "str", h => match bytes? h with
        | some b => .ok (.str (b.takeWhile (· != 0)))
        | none => .error s!"{tok}: bad hex"
      | "mem", h => match bytes? h with
        | some b => .ok (.mem b)
        | none => .error s!"{tok}: bad hex"
      | "dbld", h => match hex64? h with
        | some v => .ok (.dbl (Float.ofBits v) 0.005)      -- the documented default tolerance of setValue(double)
        | none => .error s!"{tok}: bad double bits"
      | "ptr", k | "cptr", k | "fptr", k => match k.toNat? with
        | some k => .ok (.ptr ty k)
        | none => .error s!"{tok}: bad index"
      | _, _ => .error s!"{tok}: unknown value token"
  | ["dbl", v, t] =>
    match hex64? v, hex64? t with
    | some v, some t => .ok (.dbl (Float.ofBits v) (Float.ofBits t))
    | _, _ => .error s!"{tok}: bad double bits"
  | ["obj", ty, k] | ["cobj", ty, k] =>
    match k.toNat? with
    | some k => .ok (.obj ty k)
    | none => .error s!"{tok}: bad index"
  | _ => .error s!"{tok}: unknown value token"

/-- doubles: NaN is equal to nothing (as value or as tolerance); the same infinity is equal to itself;
    otherwise the distance |a − b| (extended reals: +inf when exactly one operand is infinite or the
    infinities are opposite) must be within the tolerance `t` of the LEFT operand -/
def specDouble (a b t : Float) : Bool :=
  if a.isNaN || b.isNaN || t.isNaN then false
  else if a.isInf && b.isInf && ((a > 0) == (b > 0)) then true
  else Float.abs (a - b) ≤ t

/-- what `a.equals(b)` and `b.equals(a)` must be; `none` = the property says nothing -/
def expectedEq (a b : SVal) : Option (Bool × Bool) :=
  match a, b with
  | .int _ x, .int _ y => some (x == y, x == y)                 -- same mathematical integer, either side
  | .bool x, .bool y => some (x == y, x == y)
  | .dbl x tx, .dbl y ty => some (specDouble x y tx, specDouble y x ty)
  | .str x, .str y => some (x == y, x == y)
  | .mem x, .mem y => some (x.length == y.length && x == y, x.length == y.length && x == y)
  | .ptr k1 x, .ptr k2 y => if k1 == k2 then some (x == y, x == y) else some (false, false)
  | .obj t1 _, .obj t2 _ => if t1 == t2 then none else some (false, false)
  | _, _ => some (false, false)                                  -- different types are never equal

def find2 (tag : String) (obs : List (List String)) : Option (String × String) :=
  obs.findSome? fun l => match l with
    | [t, x, y] => if t == tag then some (x, y) else none
    | _ => none

def getterNames : List String :=
  ["getIntValue", "getUnsignedIntValue", "getLongIntValue", "getUnsignedLongIntValue",
   "getLongLongIntValue", "getUnsignedLongLongIntValue"]

/-- shadow of the data store for the oracle: C-string name ↦ (entry, token) of the LAST write -/
abbrev Shadow := List (List UInt8 × String × String)

def shadowName (w : String) : Option (List UInt8) :=
  if w == "null" then none else (bytes? w).map fun b => b.takeWhile (· != 0)

def Shadow.last (sh : Shadow) (name : List UInt8) : Option (String × String) :=
  (sh.find? fun x => x.1 == name).map (·.2)

/-- the value a data write stored, in the oracle's own terms (the C interface takes an `int` for a bool) -/
def dataSVal (api tok : String) : Except String SVal :=
  match splitTok tok with
  | ["bool", n] =>
    if api == "c" then (match n.toInt? with
      | some v => .ok (.bool (v != 0))
      | none => .error s!"{tok}: not an int")
    else svalOf tok
  | _ => svalOf tok

def shadowStep (sh : Shadow) (op : List String) : Shadow :=
  match op with
  | ["dset", api, n, tok] =>
    match shadowName n with
    | some name => (name, api, tok) :: sh
    | none => sh
  | ["dclear"] | "eqapi" :: _ | "eqapix" :: _ | "getret" :: _ => []
  | _ => sh

def specOp (sh : Shadow) (o : Proto.Op) : Except String Unit := do
  match o.op with
  | ["eq", ta, tb] =>
    let a ← svalOf ta
    let b ← svalOf tb
    let some (x, y) := find2 "r" o.obs | throw "equals produced no result"
    if !(x == "0" || x == "1") || !(y == "0" || y == "1") then throw s!"malformed result {x} {y}"
    match expectedEq a b with
    | none => pure ()
    | some (e1, e2) =>
      if x != b01 e1 then throw s!"a.equals(b) = {x}, must be {b01 e1}"
      if y != b01 e2 then throw s!"b.equals(a) = {y}, must be {b01 e2}"
  | ["eqapi", te, ta] =>
    -- whichever way the two values enter (C++ overload, explicit C++ method, C interface): the call matches the expectation
    -- exactly when they are the same integer
    let parse (t : String) : Except String Int :=
      match t.splitOn ":" with
      | [ek, n] =>
        match ek.splitOn ".", n.toInt? with
        | [e, k], some v =>
          if !(e == "ovl" || e == "exp" || e == "c") then .error s!"{t}: unknown entry point" else
          match intRange k with
          | some (lo, hi) => if lo ≤ v ∧ v ≤ hi then .ok v else .error s!"{t}: value outside the range of the type"
          | none => .error s!"{t}: not an integer kind"
        | _, _ => .error s!"{t}: malformed"
      | _ => .error s!"{t}: malformed"
    let e ← parse te
    let a ← parse ta
    let ls := o.obs.filter fun l => l.head? == some "p"
    match ls with
    | [[_, r]] =>
      let want := b01 (e == a)
      if r != want then throw s!"scenario {if r == "1" then "passed" else "failed"}, must {if e == a then "pass" else "fail"}: expected parameter {e}, actual parameter {a}"
    | _ => throw "no scenario result"
  | ["eqapix", te, ta] =>
    -- every parameter kind through every entry point: the call matches exactly when the property says the EXPECTATION (left)
    -- equals the actual value; a double without an explicit tolerance carries the documented default 0.005
    let parse (t : String) : Except String SVal :=
      match t.splitOn "." with
      | [e, val] =>
        if !(e == "ovl" || e == "exp" || e == "c") then .error s!"{t}: unknown entry point" else
        match splitTok val with
        | ["bool", n] =>
          if e == "c" then (match n.toInt? with
            | some v => .ok (.bool (v != 0))                      -- the C interface: any non-zero int is true
            | none => .error s!"{t}: not an int")
          else svalOf val
        | _ => svalOf val
      | _ => .error s!"{t}: malformed"
    let e ← parse te
    let a ← parse ta
    let ls := o.obs.filter fun l => l.head? == some "p"
    match ls, expectedEq e a with
    | [[_, r]], some (want, _) =>
      if r != b01 want then throw s!"scenario {if r == "1" then "passed" else "failed"}, must {if want then "pass" else "fail"}"
    | [[_, _]], none => pure ()
    | _, _ => throw "no scenario result"
  | ["getret", tv, td] =>
    -- every reader returns exactly the stored integer or fails the test; an …OrDefault reader returns the default when
    -- (and only when) no return value was set
    let some d := td.toInt? | throw "bad default"
    let stored : Option Int ← (if tv == "none" then pure none else do
      let a ← svalOf tv
      match a with
      | .int _ v => pure (some v)
      | _ => throw s!"{tv}: not an integer")
    for l in o.obs do
      match l with
      | [r, "fail"] =>
        if stored.isNone && (r.splitOn "OrDefault").length > 1 then throw s!"{r}({d}) failed the test although no return value was set"
      | [r, "ok", n] =>
        let some x := n.toInt? | throw s!"{r}: malformed result {n}"
        match stored with
        | some v => if x != v then throw s!"{r} returned {x} for the stored return value {v}"
        | none => if (r.splitOn "OrDefault").length > 1 && x != d then throw s!"{r}({d}) returned {x} with no return value set"
      | _ => throw s!"unexpected observation {" ".intercalate l}"
    if o.obs.length != 24 then throw s!"{o.obs.length} reader observations instead of 24"
  | ["get", ta] =>
    let a ← svalOf ta
    match a with
    | .int _ v =>
      for g in getterNames do
        let ls := o.obs.filter fun l => l.head? == some g
        match ls with
        | [[_, "fail"]] => pure ()                                -- the test failed: allowed
        | [[_, "ok", n]] =>
          match n.toInt? with
          | some r => if r != v then throw s!"{g}() returned {r} for the stored integer {v}"
          | none => throw s!"{g}: malformed result {n}"
        | _ => throw s!"{g}: no (or an inconsistent) observation"
    | _ => pure ()
  | ["dget", n] =>
    -- an integer stored in the data store and read back through any integer getter: exactly that integer, or the test fails
    match (shadowName n).bind sh.last with
    | some (api, tok) =>
      match dataSVal api tok with
      | .ok (.int _ v) =>
        for g in getterNames do
          let ls := o.obs.filter fun l => l.head? == some g
          match ls with
          | [[_, "fail"]] => pure ()
          | [[_, "ok", r]] =>
            match r.toInt? with
            | some r => if r != v then throw s!"{g}() returned {r} for the stored integer {v}"
            | none => throw s!"{g}: malformed result {r}"
          | _ => throw s!"{g}: no (or an inconsistent) observation"
      | _ => pure ()
    | none => pure ()
  | ["deq", n1, n2] =>
    -- the two stored values compare as the property says (the LAST write of each name counts)
    match (shadowName n1).bind sh.last, (shadowName n2).bind sh.last with
    | some (a1, t1), some (a2, t2) =>
      let a ← dataSVal a1 t1
      let b ← dataSVal a2 t2
      let some (x, y) := find2 "r" o.obs | throw "equals produced no result"
      match expectedEq a b with
      | none => pure ()
      | some (e1, e2) =>
        if x != b01 e1 then throw s!"a.equals(b) = {x}, must be {b01 e1}"
        if y != b01 e2 then throw s!"b.equals(a) = {y}, must be {b01 e2}"
    | _, _ => pure ()
  | "cell" :: toks =>
    -- after any history of setters the object compares with a fresh value of the LAST setter as that value with itself
    match (toks.filter fun t => !t.startsWith "def:").getLast? with
    | some t =>
      let a ← svalOf t
      let some (x, y) := find2 "r" o.obs | throw "equals produced no result"
      match expectedEq a a with
      | none => pure ()
      | some (e1, e2) =>
        if x != b01 e1 then throw s!"v.equals(fresh) = {x}, must be {b01 e1}"
        if y != b01 e2 then throw s!"fresh.equals(v) = {y}, must be {b01 e2}"
    | none => throw "bad-op"
  | "dset" :: _ | "dhas" :: _ | "dinstall" :: _ | "dcopier" :: _ | ["dremove"] | ["dclear"] => pure ()
  | ["skip"] => pure ()
  -- the property speaks about equality and the integer getters only: the other operations are checked by the
  -- model/implementation correspondence
  | "compat" :: _ | "tostr" :: _ | "name" :: _ | "getx" :: _ | "ladd" :: _ | "lget" :: _ | ["llist"] | ["lclear"]
  | "rcmp" :: _ | "rcop" :: _ | "rget" :: _ | "rimport" :: _ | "rclear" :: _ | "rdefault" :: _ => pure ()
  | _ => throw "bad-op"

def specAll (ops : List Proto.Op) : Option String :=
  let rec go (i : Nat) (sh : Shadow) : List Proto.Op → Option String
    | [] => none
    | o :: rest =>
      match specOp sh o with
      | .ok _ => go (i + 1) (shadowStep sh o.op) rest
      | .error e => some s!"op#{i} {" ".intercalate o.op}: {e}"
  go 0 [] ops

def main : IO Unit :=
  Proto.driverMain { init := ({} : DState), step := modelStep, spec := specAll }
