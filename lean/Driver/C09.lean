import CppUModel.Base.Proto
import CppUModel.Model.MockValue
import CppUModel.Gen.MockEquals
/-!
Driver for C09.

* model replay: the value tokens of every op are turned into `Mock.MVal`s and the REGENERATED
  `Gen.MockEquals.equalsGen` / `get…Gen` are evaluated (so every generated function is run against the
  real function on the same inputs);
* specification oracle: an independent reading of the same tokens (`SVal`: decimal integers as `Int`,
  bytes, pool indices, doubles) judged by the property's own words — mathematical equality of the
  denoted integers in both directions, identity / content / length+content, the left operand's
  tolerance with NaN equal to nothing, different types never equal, a getter returns exactly the
  stored integer or fails.  The oracle never mentions `MVal`, `equalsGen` or the getters.
-/
open Mock

/-! ## token parsing shared by both readers (syntax only) -/

def splitTok (t : String) : List String := t.splitOn ":"

def hex64? (s : String) : Option UInt64 :=
  if s.length != 16 then none else
  s.toList.foldl (fun acc c => match acc, Proto.hexVal? c with
    | some a, some d => some (a * 16 + UInt64.ofNat d)
    | _, _ => none) (some 0)

def bytes? (s : String) : Option (List UInt8) := Proto.unhex? s

/-! ## model side -/

def comparatorFor (ty : String) : Option (Nat → Nat → Bool) :=
  if ty == "CmpMod3" then some (fun a b => a % 3 == b % 3)
  else if ty == "CmpId" then some (fun a b => a == b)
  else none

def mvalOf (tok : String) : Option MVal :=
  match splitTok tok with
  | ["int", n] => n.toInt?.map fun v => .int (BitVec.ofInt 32 v)
  | ["uint", n] => n.toInt?.map fun v => .uint (BitVec.ofInt 32 v)
  | ["long", n] => n.toInt?.map fun v => .long (BitVec.ofInt 64 v)
  | ["ulong", n] => n.toInt?.map fun v => .ulong (BitVec.ofInt 64 v)
  | ["llong", n] => n.toInt?.map fun v => .llong (BitVec.ofInt 64 v)
  | ["ullong", n] => n.toInt?.map fun v => .ullong (BitVec.ofInt 64 v)
  | ["bool", "0"] => some (.bool false)
  | ["bool", "1"] => some (.bool true)
  | ["dbl", v, t] =>
    match hex64? v, hex64? t with
    | some v, some t => some (.dbl (classify (Float.ofBits v)) (classify (Float.ofBits t)))
    | _, _ => none
  | ["str", "null"] => some (.str none)
  | ["str", h] => (bytes? h).map fun b => .str (some (b.takeWhile (· != 0)))   -- a C string ends at its first NUL
  | ["mem", h] => (bytes? h).map .mem
  | ["ptr", k] => k.toNat?.map .ptr
  | ["cptr", k] => k.toNat?.map .cptr
  | ["fptr", k] => k.toNat?.map .fptr
  | ["obj", ty, k] => k.toNat?.map fun k => .obj ty k (comparatorFor ty)
  | ["cobj", ty, k] => k.toNat?.map fun k => .obj ty k (comparatorFor ty)
  | _ => none

def b01 (b : Bool) : String := if b then "1" else "0"

def showGet (name : String) (signed : Bool) {w : Nat} (r : Except Fail (BitVec w)) : String :=
  match r with
  | .ok v => s!"{name} ok {if signed then v.toInt else (v.toNat : Int)}"
  | .error _ => s!"{name} fail"

def modelStep (_ : Unit) (op : List String) (_ : List (List String)) : Unit × List String :=
  match op with
  | ["eq", ta, tb] =>
    match mvalOf ta, mvalOf tb with
    | some a, some b => ((), [s!"r {b01 (Gen.MockEquals.equalsGen a b)} {b01 (Gen.MockEquals.equalsGen b a)}"])
    | _, _ => ((), ["bad-op"])
  | ["get", ta] =>
    match mvalOf ta with
    | some a => ((), [
        showGet "getIntValue" Gen.MockEquals.getIntValueSigned (Gen.MockEquals.getIntValueGen a),
        showGet "getUnsignedIntValue" Gen.MockEquals.getUnsignedIntValueSigned (Gen.MockEquals.getUnsignedIntValueGen a),
        showGet "getLongIntValue" Gen.MockEquals.getLongIntValueSigned (Gen.MockEquals.getLongIntValueGen a),
        showGet "getUnsignedLongIntValue" Gen.MockEquals.getUnsignedLongIntValueSigned (Gen.MockEquals.getUnsignedLongIntValueGen a),
        showGet "getLongLongIntValue" Gen.MockEquals.getLongLongIntValueSigned (Gen.MockEquals.getLongLongIntValueGen a),
        showGet "getUnsignedLongLongIntValue" Gen.MockEquals.getUnsignedLongLongIntValueSigned (Gen.MockEquals.getUnsignedLongLongIntValueGen a)])
    | none => ((), ["bad-op"])
  | ["skip"] => ((), [])
  | _ => ((), ["bad-op"])

/-! ## specification oracle -/

inductive SVal where
  | int (ty : String) (v : Int)            -- one of the six integer types, the integer it denotes
  | bool (b : Bool)
  | dbl (v tol : Float)
  | str (content : List UInt8)             -- NULL and "" both have empty content
  | mem (b : List UInt8)
  | ptr (kind : String) (k : Nat)          -- ptr / cptr / fptr, pool index (injective in the address)
  | obj (ty : String) (k : Nat)

def intRange (ty : String) : Option (Int × Int) :=
  match ty with
  | "int" => some (-2147483648, 2147483647)
  | "uint" => some (0, 4294967295)
  | "long" => some (-9223372036854775808, 9223372036854775807)
  | "ulong" => some (0, 18446744073709551615)
  | "llong" => some (-9223372036854775808, 9223372036854775807)
  | "ullong" => some (0, 18446744073709551615)
  | _ => none

def svalOf (tok : String) : Except String SVal :=
  match splitTok tok with
  | [ty, n] =>
    match intRange ty with
    | some (lo, hi) =>
      match n.toInt? with
      | some v => if lo ≤ v ∧ v ≤ hi then .ok (.int ty v) else .error s!"{tok}: value outside the range of the type"
      | none => .error s!"{tok}: not a decimal integer"
    | none =>
      match ty, n with
      | "bool", "0" => .ok (.bool false)
      | "bool", "1" => .ok (.bool true)
      | "str", "null" => .ok (.str [])
      | "str", h => match bytes? h with
        | some b => .ok (.str (b.takeWhile (· != 0)))
        | none => .error s!"{tok}: bad hex"
      | "mem", h => match bytes? h with
        | some b => .ok (.mem b)
        | none => .error s!"{tok}: bad hex"
      | "ptr", k | "cptr", k | "fptr", k => match k.toNat? with
        | some k => .ok (.ptr ty k)
        | none => .error s!"{tok}: bad index"
      | _, _ => .error s!"{tok}: unknown value token"
  | ["dbl", v, t] =>
    match hex64? v, hex64? t with
    | some v, some t => .ok (.dbl (Float.ofBits v) (Float.ofBits t))
    | _, _ => .error s!"{tok}: bad double bits"
  | ["obj", ty, k] | ["cobj", ty, k] =>
    match k.toNat? with
    | some k => .ok (.obj ty k)
    | none => .error s!"{tok}: bad index"
  | _ => .error s!"{tok}: unknown value token"

/-- doubles: NaN is equal to nothing (as value or as tolerance); the same infinity is equal to itself;
    otherwise the distance |a − b| (extended reals: +inf when exactly one operand is infinite or the
    infinities are opposite) must be within the tolerance `t` of the LEFT operand -/
def specDouble (a b t : Float) : Bool :=
  if a.isNaN || b.isNaN || t.isNaN then false
  else if a.isInf && b.isInf && ((a > 0) == (b > 0)) then true
  else Float.abs (a - b) ≤ t

/-- what `a.equals(b)` and `b.equals(a)` must be; `none` = the property says nothing -/
def expectedEq (a b : SVal) : Option (Bool × Bool) :=
  match a, b with
  | .int _ x, .int _ y => some (x == y, x == y)                 -- same mathematical integer, either side
  | .bool x, .bool y => some (x == y, x == y)
  | .dbl x tx, .dbl y ty => some (specDouble x y tx, specDouble y x ty)
  | .str x, .str y => some (x == y, x == y)
  | .mem x, .mem y => some (x.length == y.length && x == y, x.length == y.length && x == y)
  | .ptr k1 x, .ptr k2 y => if k1 == k2 then some (x == y, x == y) else some (false, false)
  | .obj t1 _, .obj t2 _ => if t1 == t2 then none else some (false, false)
  | _, _ => some (false, false)                                  -- different types are never equal

def find2 (tag : String) (obs : List (List String)) : Option (String × String) :=
  obs.findSome? fun l => match l with
    | [t, x, y] => if t == tag then some (x, y) else none
    | _ => none

def getterNames : List String :=
  ["getIntValue", "getUnsignedIntValue", "getLongIntValue", "getUnsignedLongIntValue",
   "getLongLongIntValue", "getUnsignedLongLongIntValue"]

def specOp (o : Proto.Op) : Except String Unit := do
  match o.op with
  | ["eq", ta, tb] =>
    let a ← svalOf ta
    let b ← svalOf tb
    let some (x, y) := find2 "r" o.obs | throw "equals produced no result"
    if !(x == "0" || x == "1") || !(y == "0" || y == "1") then throw s!"malformed result {x} {y}"
    match expectedEq a b with
    | none => pure ()
    | some (e1, e2) =>
      if x != b01 e1 then throw s!"a.equals(b) = {x}, must be {b01 e1}"
      if y != b01 e2 then throw s!"b.equals(a) = {y}, must be {b01 e2}"
  | ["get", ta] =>
    let a ← svalOf ta
    match a with
    | .int _ v =>
      for g in getterNames do
        let ls := o.obs.filter fun l => l.head? == some g
        match ls with
        | [[_, "fail"]] => pure ()                                -- the test failed: allowed
        | [[_, "ok", n]] =>
          match n.toInt? with
          | some r => if r != v then throw s!"{g}() returned {r} for the stored integer {v}"
          | none => throw s!"{g}: malformed result {n}"
        | _ => throw s!"{g}: no (or an inconsistent) observation"
    | _ => pure ()
  | ["skip"] => pure ()
  | _ => throw "bad-op"

def specAll (ops : List Proto.Op) : Option String :=
  let rec go (i : Nat) : List Proto.Op → Option String
    | [] => none
    | o :: rest =>
      match specOp o with
      | .ok _ => go (i + 1) rest
      | .error e => some s!"op#{i} {" ".intercalate o.op}: {e}"
  go 0 ops

def main : IO Unit :=
  Proto.driverMain { init := (), step := modelStep, spec := specAll }
