import CppUModel.Base.Proto
import CppUModel.Model.SimpleStringOps
import CppUModel.Spec.TextExt
import CppUModel.Gen.StringPrims
/-!
Driver for C13: replays harness traces through the `SimpleString` model (`SStr.step`) and judges
the implementation's observations with the specification oracle: the textbook definitions of
`Spec/Text.lean` / `Spec/TextExt.lean` evaluated on the operands (shadow values taken from the
implementation's own `val` lines), plus the allocator pairing rule on the implementation's
`alloc`/`free` events.  Imports Base/Model/Spec only.
-/
open SStr CStr

/-! ## parsing operation lines -/

def bytes? (s : String) : Option (List UInt8) := Proto.unhex? s
def cbuf (h : List UInt8) : Buf := h.takeWhile (· != 0) ++ [0]
def pos? (s : String) : Option Nat := if s = "npos" then some npos else s.toNat?
def byte? (s : String) : Option UInt8 := (bytes? s).map fun b => b.headD 0

def doubleClass (bits : Nat) : Nat :=      -- 0 NaN, 1 Inf, 2 finite
  if (bits / 4503599627370496) % 2048 = 2047 then (if bits % 4503599627370496 ≠ 0 then 0 else 1) else 2

def nanLit : Buf := SStr.lit "Nan - Not a number"
def infLit : Buf := SStr.lit "Inf - Infinity"

def plainFmts : List String :=
  ["fmts", "fmt2", "sfint", "sflong", "sfll", "sfuint", "sfulong", "sfull", "sfbool", "sfchar",
   "hexint", "hexuint", "hexlong", "hexulong", "hexll", "hexull", "hexptr", "hexfptr", "ordinal"]
def bracketFmts : List String := ["brint", "bruint", "brlong", "brulong", "brll", "brull"]

def parseFmt (w : List String) : Option (String × Fmt) :=
  match w with
  | ["vfmts", l, _] => some (l, .vplain)
  | ["sfcstr", l, h] => (bytes? h).map fun b => (l, .cstr (cbuf b))
  | ["sfstd", l, h] => (bytes? h).map fun b => (l, .cstr (cbuf b))
  | ["sfornull", l, "null"] => some (l, .orNull none)
  | ["sfornull", l, h] => (bytes? h).map fun b => (l, .orNull (some (cbuf b)))
  | ["psfornull", l, "null"] => some (l, .printableOrNull none)
  | ["psfornull", l, h] => (bytes? h).map fun b => (l, .printableOrNull (some (cbuf b)))
  | ["sfss", l, a] => some (l, .copyOf a)
  | ["sfnullptr", l] => some (l, .cstr nullLit)
  | ["sfptr", l, _] => some (l, .pointer)
  | ["sffptr", l, _] => some (l, .pointer)
  | ["sfdouble", l, bits, _] =>
    bits.toNat?.map fun b =>
      match doubleClass b with
      | 0 => (l, .cstr nanLit)
      | 1 => (l, .cstr infLit)
      | _ => (l, .plain)
  | ["hexsc", l, v] => v.toInt?.map fun i => (l, .hexSC (i < 0))
  | ["brsc", l, v] => v.toInt?.map fun i => (l, .bracketsSC (i < 0))
  | ["brstr", l, a] => some (l, .bracketsStr a)
  | ["binary", l, h] => (bytes? h).map fun b => (l, .binary b.length)
  | ["binaryornull", l, h] => (bytes? h).map fun b => (l, .binaryOrNull false b.length)
  | ["binarynull", l, k] => k.toNat?.map fun k => (l, .binaryOrNull true k)
  | ["binarysize", l, h] => (bytes? h).map fun b => (l, .binarySize b.length)
  | ["binarysizeornull", l, h] => (bytes? h).map fun b => (l, .binarySizeOrNull false b.length)
  | ["binarysizenull", l, k] => k.toNat?.map fun k => (l, .binarySizeOrNull true k)
  | ["masked", l, v, m, k] =>
    match v.toNat?, m.toNat?, k.toNat? with
    | some v, some m, some k => some (l, .masked v m k)
    | _, _, _ => none
  | op :: l :: _ =>
    if plainFmts.contains op then some (l, .plain)
    else if bracketFmts.contains op then some (l, .brackets)
    else none
  | _ => none

def parseCollAct (s : String) : Option CollAct :=
  match s.splitOn ":" with
  | ["alloc", n] => n.toNat?.map .alloc
  | ["set", i, a] => i.toNat?.map fun i => .set i a
  | ["get", i] => i.toNat?.map .get
  | ["size"] => some .size
  | _ => none

def parseOp (w : List String) : Option Op :=
  match w with
  | ["skip"] => some .skip
  | "coll" :: acts => (acts.mapM parseCollAct).map .coll
  | ["selfassignc", l] => some (.selfassignc l)
  | ["selfrepl", l, h] => (bytes? h).map fun b => .selfrepl l (cbuf b)
  | ["selfreplw", l, h] => (bytes? h).map fun b => .selfreplw l (cbuf b)
  | ["junk", b] => (byte? b).map .junk
  | ["new", l, h] => (bytes? h).map fun b => .new l (cbuf b)
  | ["newnull", l] => some (.newnull l)
  | ["rep", l, h, k] => do let b ← bytes? h; let k ← k.toNat?; pure (.rep l (cbuf b) k)
  | ["copy", l, a] => some (.copy l a)
  | ["assign", l, a] => some (.assign l a)
  | ["plus", l, a, b] => some (.plus l a b)
  | ["pluseq", l, a] => some (.pluseq l a)
  | ["pluseqc", l, h] => (bytes? h).map fun b => .pluseqc l (cbuf b)
  | ["del", l] => some (.del l)
  | ["delall"] => some .delall
  | ["eq", a, b] => some (.eq a b)
  | ["ne", a, b] => some (.ne a b)
  | ["eqnc", a, b] => some (.eqnc a b)
  | ["contains", a, b] => some (.contains a b)
  | ["containsnc", a, b] => some (.containsnc a b)
  | ["starts", a, b] => some (.starts a b)
  | ["ends", a, b] => some (.ends a b)
  | ["count", a, b] => some (.count a b)
  | ["find", a, c] => (byte? c).map fun c => .find a c
  | ["findfrom", a, p, c] => do let p ← pos? p; let c ← byte? c; pure (.findfrom a p c)
  | ["at", a, p] => (pos? p).map fun p => .at a p
  | ["size", a] => some (.size a)
  | ["isempty", a] => some (.isempty a)
  | ["cstr", a] => some (.cstr a)
  | ["substr", l, a, p, n] => do let p ← pos? p; let n ← pos? n; pure (.substr l a p n)
  | ["substr1", l, a, p] => (pos? p).map fun p => .substr1 l a p
  | ["fromtill", l, a, c1, c2] => do let c1 ← byte? c1; let c2 ← byte? c2; pure (.fromtill l a c1 c2)
  | ["lower", l, a] => some (.lower l a)
  | ["printable", l, a] => some (.printable l a)
  | ["split", a, d] => some (.split a d)
  | ["replc", a, c1, c2] => do let c1 ← byte? c1; let c2 ← byte? c2; pure (.replc a c1 c2)
  | ["repl", a, h1, h2] => do let b1 ← bytes? h1; let b2 ← bytes? h2; pure (.repl a (cbuf b1) (cbuf b2))
  | ["pad", a, b, c] => (byte? c).map fun c => .pad a b c
  | ["copybuf", a, n] => n.toNat?.map fun n => .copybuf a n
  | ["copybufnull", a, n] => n.toNat?.map fun n => .copybufnull a n
  | ["strlen", h] => (bytes? h).map fun b => .strlen (cbuf b)
  | ["strcmp", h1, h2] => do let b1 ← bytes? h1; let b2 ← bytes? h2; pure (.strcmp (cbuf b1) (cbuf b2))
  | ["strncmp", h1, h2, n] => do let b1 ← bytes? h1; let b2 ← bytes? h2; let n ← pos? n; pure (.strncmp (cbuf b1) (cbuf b2) n)
  | ["strncpy", "null", s, n] => do let s ← bytes? s; let n ← pos? n; pure (.strncpy none (cbuf s) n)
  | ["strncpy", d, s, n] => do let d ← bytes? d; let s ← bytes? s; let n ← pos? n; pure (.strncpy (some d) (cbuf s) n)
  | ["strstr", h1, h2] => do let b1 ← bytes? h1; let b2 ← bytes? h2; pure (.strstr (cbuf b1) (cbuf b2))
  | ["memcmp", h1, h2, n] => do let b1 ← bytes? h1; let b2 ← bytes? h2; let n ← n.toNat?; pure (.memcmp b1 b2 n)
  | ["atoi", h] => (bytes? h).map fun b => .atoi (cbuf b)
  | ["atou", h] => (bytes? h).map fun b => .atou (cbuf b)
  | ["tolower", c] => (byte? c).map .tolower
  | _ => (parseFmt w).map fun p => .fmt p.1 p.2

/-! ## model replay -/

structure DState where
  store : Store := []
  next : Nat := 1
  junk : UInt8 := 0xCD

def vsnOfObs (obs : List (List String)) : List VsnRes :=
  obs.filterMap fun l =>
    match l with
    | ["vsn", _, ret, text] =>
      match ret.toNat?, bytes? text with
      | some r, some t => some ⟨r, t⟩
      | _, _ => none
    | _ => none

def renderEv : Ev → String
  | .alloc id n => s!"alloc {id} {n}"
  | .free id n => s!"free {id} {n}"
  | .vsn size ret text => s!"vsn {size} {ret} " ++ Proto.hex text
  | .out l => l

/-- The primitives as REGENERATED from the source on this run (`Gen/StringPrims.lean`), executed on the same
    operands as the hand-written model, rendered like the model's observation lines.  `Props/C13.lean` proves the
    two equal (`gen_…_is_model`); here the regenerated code is also RUN, so a translator defect or a source change
    shows up as a `gen-differs` line in the model's trace (= a disagreement with the implementation's trace). -/
def genPrimLines (o : Op) : Option (List String) :=
  let r {α} (e : Except Err α) (f : α → String) : List String :=
    match e with
    | .ok a => [f a]
    | .error e => ["error " ++ e.render]
  let nat (n : Nat) : String := if n = npos then "ret npos" else s!"ret {n}"
  let int (i : Int) : String := s!"ret {i}"
  match o with
  | .strlen h => some (r (Gen.StrPrims.StrLen (h.length + 1) h 0) nat)
  | .strcmp h1 h2 => some (r (Gen.StrPrims.StrCmp (h1.length + 1) h1 0 h2 0) int)
  | .strncmp h1 h2 n => some (r (Gen.StrPrims.StrNCmp (n + 1) h1 0 h2 0 n) int)
  | .strncpy none s n => some (r (Gen.StrPrims.StrNCpy (n + 1) true [] 0 s 0 n) fun p =>
      match p.1 with | none => "ret null" | some i => s!"ret {i}")
  | .strncpy (some d) s n => some (r (Gen.StrPrims.StrNCpy (n + 1) false d 0 s 0 n) fun p =>
      match p.1 with | some 0 => "buf " ++ Proto.hex p.2 | _ => "buf " ++ Proto.hex p.2 ++ " returned-pointer-is-not-dst")
  | .strstr h1 h2 => some (r (Gen.StrPrims.StrStr (max h1.length h2.length + 1) h1 0 h2 0) fun x =>
      match x with | some i => s!"ret {i}" | none => "ret null")
  | .memcmp h1 h2 n => some (r (Gen.StrPrims.MemCmp (n + 1) h1 0 h2 0 n) int)
  | .atoi h => some (r (Gen.StrPrims.AtoI (h.length + 1) h 0) int)
  | .atou h => some (r (Gen.StrPrims.AtoU (h.length + 1) h 0) nat)
  | .tolower c => some ["ret " ++ Proto.hex [Gen.StrPrims.ToLower c]]
  | _ => none

/-- all 256 bytes: the five regenerated character classes and `ToLower` against the hand-written ones -/
def classDiffs : List String :=
  (List.range 256).filterMap fun n =>
    let c := UInt8.ofNat n
    if Gen.StrPrims.isDigit c == CStr.isDigit c && Gen.StrPrims.isSpace c == CStr.isSpace c &&
       Gen.StrPrims.isUpper c == CStr.isUpper c && Gen.StrPrims.isControl c == CStr.isControl c &&
       Gen.StrPrims.isControlWithShortEscapeSequence c == CStr.isControlWithShortEscapeSequence c &&
       Gen.StrPrims.ToLower c == CStr.ToLower c then none
    else some (Proto.hexByte c)

/-- the allocation-free methods as regenerated (`Gen.StrPrims.m_*`), on the buffers of the live objects -/
def genMethodLines (st : Store) (o : Op) : Option (List String) :=
  let r {α} (e : Except Err α) (f : α → String) : List String :=
    match e with
    | .ok a => [f a]
    | .error e => ["error " ++ e.render]
  let nat (n : Nat) : String := if n = npos then "ret npos" else s!"ret {n}"
  let bool (b : Bool) : String := if b then "ret 1" else "ret 0"
  let fuel2 (x y : Obj) : Nat := max x.buf.length y.buf.length + 1
  match o with
  | .size a => (st.get? a).map fun x => r (Gen.StrPrims.m_size (x.buf.length + 1) x.buf) nat
  | .isempty a => (st.get? a).map fun x => r (Gen.StrPrims.m_isEmpty (x.buf.length + 1) x.buf) bool
  | .at a p => (st.get? a).map fun x => r (Gen.StrPrims.m_at (x.buf.length + 1) x.buf p) fun c => "ret " ++ Proto.hex [c]
  | .find a c => (st.get? a).map fun x => r (Gen.StrPrims.m_find (x.buf.length + 1) x.buf c) nat
  | .findfrom a p c => (st.get? a).map fun x => r (Gen.StrPrims.m_findFrom (x.buf.length + 1) x.buf p c) nat
  | .contains a b => do let x ← st.get? a; let y ← st.get? b; pure (r (Gen.StrPrims.m_contains (fuel2 x y) x.buf y.buf) bool)
  | .starts a b => do let x ← st.get? a; let y ← st.get? b; pure (r (Gen.StrPrims.m_startsWith (fuel2 x y) x.buf y.buf) bool)
  | .ends a b => do let x ← st.get? a; let y ← st.get? b; pure (r (Gen.StrPrims.m_endsWith (fuel2 x y) x.buf y.buf) bool)
  | _ => none

def withGen (st : Store) (o : Op) (model : List String) : List String :=
  let cls : List String :=
    match o with
    | .junk _ => if classDiffs.isEmpty then [] else ["gen-differs character-class " ++ " ".intercalate classDiffs]
    | _ => []
  match (genPrimLines o).orElse (fun _ => genMethodLines st o) with
  | none => model ++ cls
  | some g => if g == model then model else model ++ ["gen-differs " ++ " | ".intercalate g]

def modelStep (d : DState) (op : List String) (obs : List (List String)) : DState × List String :=
  match parseOp op with
  | none => (d, ["bad-op"])
  | some o =>
    let w : World := { next := d.next, log := [], junk := d.junk, vsn := vsnOfObs obs }
    match step d.store o w with
    | .ok (st, w') => ({ store := st, next := w'.next, junk := w'.junk }, withGen d.store o (w'.log.map renderEv))
    | .error e => (d, withGen d.store o ["error " ++ e.render])

/-! ## specification oracle (implementation's observations only) -/

open Text TextExt

structure Shadow where
  vals : List (String × Bytes) := []      -- label ↦ contents (from the implementation's `val` lines)
  live : List (Nat × Nat) := []           -- outstanding buffers: id, requested size

def Shadow.get? (sh : Shadow) (l : String) : Option Bytes := (sh.vals.find? (·.1 == l)).map (·.2)
def Shadow.put (sh : Shadow) (l : String) (v : Bytes) : Shadow :=
  { sh with vals := (sh.vals.filter (·.1 != l)) ++ [(l, v)] }

def applyEvents (sh : Shadow) (obs : List (List String)) : Except String Shadow := do
  let mut sh := sh
  for l in obs do
    match l with
    | ["alloc", id, n] =>
      match id.toNat?, n.toNat? with
      | some id, some n =>
        if sh.live.any (·.1 == id) then throw s!"allocator handed out live buffer {id}"
        sh := { sh with live := (id, n) :: sh.live }
      | _, _ => throw "malformed alloc line"
    | ["free", id, n] =>
      match id.toNat?, n.toNat? with
      | some id, some n =>
        match sh.live.find? (·.1 == id) with
        | none => throw s!"buffer {id} released but not outstanding (released twice or never requested)"
        | some (_, m) =>
          if m != n then throw s!"buffer {id} requested with size {m} but released with size {n}"
          sh := { sh with live := sh.live.filter (·.1 != id) }
      | _, _ => throw "malformed free line"
    | _ => pure ()
  return sh

/-- the fast-path rule of `VStringFromFormat` on the observed `vsnprintf` calls -/
def checkVsn : List (List String) → Except String Unit
  | ["vsn", "100", r, _] :: rest =>
    match r.toNat? with
    | some r =>
      if r < 100 then checkVsn rest
      else
        match rest.find? (fun l => l.head? == some "vsn") with
        | some ["vsn", sz, r2, _] =>
          if sz.toNat? == some (r + 1) && r2.toNat? == some r then checkVsn rest
          else throw s!"formatted length {r}: second vsnprintf call got size {sz}, expected {r + 1}"
        | _ => throw s!"formatted length {r} ≥ 100 but no second vsnprintf call"
    | none => throw "vsnprintf failed"
  | _ :: rest => checkVsn rest
  | [] => pure ()

def hexw (b : Bytes) : String := Proto.hex b

def firstVal (obs : List (List String)) (k : Nat := 0) : Option Bytes :=
  ((obs.filter fun l => l.head? == some "val")[k]?).bind fun l => match l with | [_, h] => bytes? h | _ => none
def firstRet (obs : List (List String)) : Option String :=
  (obs.find? fun l => l.head? == some "ret").bind fun l => match l with | [_, r] => some r | _ => none
def firstBuf (obs : List (List String)) : Option String :=
  (obs.find? fun l => l.head? == some "buf").bind fun l => match l with | [_, r] => some r | _ => none

def expectVal (what : String) (obs : List (List String)) (expected : Bytes) (k : Nat := 0) : Except String Bytes :=
  match firstVal obs k with
  | none => throw s!"{what}: no result"
  | some v => if v == expected then pure v else throw s!"{what}: result {hexw v}, textbook {hexw expected}"

def expectRet (what : String) (obs : List (List String)) (expected : String) : Except String Unit :=
  match firstRet obs with
  | none => throw s!"{what}: no result"
  | some r => if r == expected then pure () else throw s!"{what}: returned {r}, textbook {expected}"

def natRet (n : Option Nat) : String := match n with | some n => toString n | none => "npos"
def boolRet (b : Bool) : String := if b then "1" else "0"

def toSigned (bits : Nat) (v : Int) : Int :=
  let m : Int := (2 : Int) ^ bits
  let r := v % m
  if r ≥ m / 2 then r - m else r
def toUnsigned (bits : Nat) (v : Int) : Nat := (v % ((2 : Int) ^ bits)).toNat

def lastVsnText (obs : List (List String)) : Option Bytes :=
  ((obs.filter fun l => l.head? == some "vsn").getLast?).bind fun l =>
    match l with | [_, _, _, t] => bytes? t | _ => none

/-- expected contents of a formatted-construction operation, `none` = not an operation of this family -/
def fmtExpected (sh : Shadow) (w : List String) (obs : List (List String)) : Option (Except String Bytes) :=
  let br (b : Bytes) : Bytes := ofString "(0x" ++ b ++ ofString ")"
  match w with
  | ["fmts", _, h] => (bytes? h).map fun b => pure (cut b)
  | ["vfmts", _, h] => (bytes? h).map fun b => pure (cut b)
  | ["fmt2", _, h, v] => do let b ← bytes? h; let v ← v.toInt?; pure (pure (ofString "<" ++ cut b ++ ofString "|" ++ decInt (toSigned 32 v) ++ ofString ">"))
  | ["sfint", _, v] => v.toInt?.map fun v => pure (decInt (toSigned 32 v))
  | ["sflong", _, v] => v.toInt?.map fun v => pure (decInt (toSigned 64 v))
  | ["sfll", _, v] => v.toInt?.map fun v => pure (decInt (toSigned 64 v))
  | ["sfuint", _, v] => v.toInt?.map fun v => pure (dec (toUnsigned 32 v))
  | ["sfulong", _, v] => v.toInt?.map fun v => pure (dec (toUnsigned 64 v))
  | ["sfull", _, v] => v.toInt?.map fun v => pure (dec (toUnsigned 64 v))
  | ["sfbool", _, v] => some (pure (if v != "0" then ofString "true" else ofString "false"))
  | ["sfchar", _, c] => (byte? c).map fun c => pure (cut [c])
  | ["sfcstr", _, h] => (bytes? h).map fun b => pure (cut b)
  | ["sfstd", _, h] => (bytes? h).map fun b => pure (cut b)
  | ["sfornull", _, "null"] => some (pure nullText)
  | ["sfornull", _, h] => (bytes? h).map fun b => pure (cut b)
  | ["psfornull", _, "null"] => some (pure nullText)
  | ["psfornull", _, h] => (bytes? h).map fun b => pure (TextExt.printable (cut b))
  | ["sfss", _, a] => some (match sh.get? a with | some v => pure v | none => throw "unknown operand")
  | ["sfnullptr", _] => some (pure nullText)
  | ["sfptr", _, v] => v.toNat?.map fun v => pure (ofString "0x" ++ hexLower v)
  | ["sffptr", _, v] => v.toNat?.map fun v => pure (ofString "0x" ++ hexLower v)
  | ["sfdouble", _, bits, _] =>
    bits.toNat?.map fun b =>
      match doubleClass b with
      | 0 => pure (ofString "Nan - Not a number")
      | 1 => pure (ofString "Inf - Infinity")
      | _ => match lastVsnText obs with
             | some t => pure t               -- finite values: what printf printed (trusted)
             | none => throw "no vsnprintf call"
  | ["hexint", _, v] => v.toInt?.map fun v => pure (hexLower (toUnsigned 32 v))
  | ["hexuint", _, v] => v.toInt?.map fun v => pure (hexLower (toUnsigned 32 v))
  | ["hexlong", _, v] => v.toInt?.map fun v => pure (hexLower (toUnsigned 64 v))
  | ["hexulong", _, v] => v.toInt?.map fun v => pure (hexLower (toUnsigned 64 v))
  | ["hexll", _, v] => v.toInt?.map fun v => pure (hexLower (toUnsigned 64 v))
  | ["hexull", _, v] => v.toInt?.map fun v => pure (hexLower (toUnsigned 64 v))
  | ["hexptr", _, v] => v.toInt?.map fun v => pure (hexLower (toUnsigned 64 v))
  | ["hexfptr", _, v] => v.toInt?.map fun v => pure (hexLower (toUnsigned 64 v))
  | ["hexsc", _, v] => v.toInt?.map fun v => pure (hexLower (toUnsigned 8 v))
  | ["brint", _, v] => v.toInt?.map fun v => pure (br (hexLower (toUnsigned 32 v)))
  | ["bruint", _, v] => v.toInt?.map fun v => pure (br (hexLower (toUnsigned 32 v)))
  | ["brlong", _, v] => v.toInt?.map fun v => pure (br (hexLower (toUnsigned 64 v)))
  | ["brulong", _, v] => v.toInt?.map fun v => pure (br (hexLower (toUnsigned 64 v)))
  | ["brll", _, v] => v.toInt?.map fun v => pure (br (hexLower (toUnsigned 64 v)))
  | ["brull", _, v] => v.toInt?.map fun v => pure (br (hexLower (toUnsigned 64 v)))
  | ["brsc", _, v] => v.toInt?.map fun v => pure (br (hexLower (toUnsigned 8 v)))
  | ["brstr", _, a] => some (match sh.get? a with | some v => pure (br v) | none => throw "unknown operand")
  | ["ordinal", _, n] => n.toNat?.map fun n => pure (ordinal (n % 4294967296))
  | ["binary", _, h] => (bytes? h).map fun b => pure (binary b)
  | ["binaryornull", _, h] => (bytes? h).map fun b => pure (binary b)
  | ["binarynull", _, _] => some (pure nullText)
  | ["binarysize", _, h] => (bytes? h).map fun b => pure (binaryWithSize b)
  | ["binarysizeornull", _, h] => (bytes? h).map fun b => pure (binaryWithSize b)
  | ["binarysizenull", _, _] => some (pure nullText)
  | ["masked", _, v, m, k] =>
    match v.toNat?, m.toNat?, k.toNat? with
    | some v, some m, some k => some (pure (maskedBits v m k))
    | _, _, _ => none
  | _ => none

def tokLines (obs : List (List String)) : List Bytes :=
  obs.filterMap fun l => match l with | ["tok", _, h] => bytes? h | _ => none

def need (sh : Shadow) (l : String) : Except String Bytes :=
  match sh.get? l with
  | some v => pure v
  | none => throw s!"operand {l} unknown to the oracle"

def specStep (sh : Shadow) (o : Proto.Op) : Except String Shadow := do
  let obs := o.obs
  let sh ← applyEvents sh obs
  checkVsn obs
  let mk (l : String) (what : String) (expected : Bytes) : Except String Shadow := do
    let v ← expectVal what obs expected
    pure (sh.put l v)
  let sh ← (match o.op with
    | ["skip"] => pure sh
    | ["junk", _] => pure sh
    | ["new", l, h] => do
      let some b := bytes? h | throw "bad-op"
      mk l "SimpleString(const char*)" (cut b)
    | ["newnull", l] => mk l "SimpleString(NULL)" []
    | ["rep", l, h, k] => do
      let some b := bytes? h | throw "bad-op"
      let some k := k.toNat? | throw "bad-op"
      mk l "SimpleString(s, repeatCount)" (repeatStr (cut b) k)
    | ["copy", l, a] => do mk l "copy constructor" (← need sh a)
    | ["assign", l, a] => do mk l "operator=" (← need sh a)
    | ["plus", l, a, b] => do mk l "operator+" ((← need sh a) ++ (← need sh b))
    | ["pluseq", l, a] => do mk l "operator+=" ((← need sh l) ++ (← need sh a))
    | ["pluseqc", l, h] => do
      let some b := bytes? h | throw "bad-op"
      mk l "operator+=(const char*)" ((← need sh l) ++ cut b)
    | ["del", l] => pure { sh with vals := sh.vals.filter (·.1 != l) }
    | ["delall"] => pure { sh with vals := [] }
    | ["eq", a, b] => do expectRet "operator==" obs (boolRet ((← need sh a) == (← need sh b))); pure sh
    | ["ne", a, b] => do expectRet "operator!=" obs (boolRet ((← need sh a) != (← need sh b))); pure sh
    | ["eqnc", a, b] => do expectRet "equalsNoCase" obs (boolRet (Text.equalsNoCase (← need sh a) (← need sh b))); pure sh
    | ["contains", a, b] => do expectRet "contains" obs (boolRet (isInfix (← need sh a) (← need sh b))); pure sh
    | ["containsnc", a, b] => do expectRet "containsNoCase" obs (boolRet (Text.containsNoCase (← need sh a) (← need sh b))); pure sh
    | ["starts", a, b] => do expectRet "startsWith" obs (boolRet (Text.startsWith (← need sh a) (← need sh b))); pure sh
    | ["ends", a, b] => do expectRet "endsWith" obs (boolRet (Text.endsWith (← need sh a) (← need sh b))); pure sh
    | ["count", a, b] => do expectRet "count" obs (toString (Text.count (← need sh a) (← need sh b))); pure sh
    | ["find", a, c] => do
      let some c := byte? c | throw "bad-op"
      expectRet "find" obs (natRet (Text.find (← need sh a) c)); pure sh
    | ["findfrom", a, p, c] => do
      let some c := byte? c | throw "bad-op"
      let some p := pos? p | throw "bad-op"
      expectRet "findFrom" obs (natRet (Text.findFrom (← need sh a) p c)); pure sh
    | ["at", a, p] => do
      let some p := pos? p | throw "bad-op"
      let v ← need sh a
      expectRet "at" obs (hexw [(cz v).getD p 0]); pure sh
    | ["size", a] => do expectRet "size" obs (toString (← need sh a).length); pure sh
    | ["isempty", a] => do expectRet "isEmpty" obs (boolRet (← need sh a).isEmpty); pure sh
    | ["cstr", a] => do let _ ← expectVal "asCharString" obs (← need sh a); pure sh
    | ["substr", l, a, p, n] => do
      let some p := pos? p | throw "bad-op"
      let some n := pos? n | throw "bad-op"
      mk l "subString(pos, amount)" (Text.subString (← need sh a) p n)
    | ["substr1", l, a, p] => do
      let some p := pos? p | throw "bad-op"
      mk l "subString(pos)" (Text.subStringFrom (← need sh a) p)
    | ["fromtill", l, a, c1, c2] => do
      let some c1 := byte? c1 | throw "bad-op"
      let some c2 := byte? c2 | throw "bad-op"
      mk l "subStringFromTill" (Text.subStringFromTill (← need sh a) c1 c2)
    | ["lower", l, a] => do mk l "lowerCase" (Text.lower (← need sh a))
    | ["printable", l, a] => do mk l "printable" (TextExt.printable (← need sh a))
    | ["split", a, d] => do
      let va ← need sh a
      let vd ← need sh d
      let toks := tokLines obs
      if !vd.isEmpty then
        let expected := TextExt.split va vd
        if toks != expected then
          throw s!"split: tokens {toks.map hexw}, textbook {expected.map hexw}"
      if !(obs.contains ["ntok", toString toks.length]) then throw "split: size() differs from the number of tokens"
      if !(obs.contains ["oobtok", "-"]) then throw "split: element past the end is not the empty string"
      pure sh
    | ["replc", a, c1, c2] => do
      let some c1 := byte? c1 | throw "bad-op"
      let some c2 := byte? c2 | throw "bad-op"
      mk a "replace(char, char)" (cut (Text.replaceByte (← need sh a) c1 c2))
    | ["repl", a, h1, h2] => do
      let some b1 := bytes? h1 | throw "bad-op"
      let some b2 := bytes? h2 | throw "bad-op"
      let va ← need sh a
      if (cut b1).isEmpty then
        -- empty pattern: only termination and memory safety are required
        match firstVal obs with
        | some v => pure (sh.put a v)
        | none => throw "replace: no result"
      else mk a "replace(to, with)" (Text.replaceAll va (cut b1) (cut b2))
    | ["pad", a, b, c] => do
      let some c := byte? c | throw "bad-op"
      let va ← need sh a
      let vb ← need sh b
      let e := if a == b then (va, va) else padToSameLength va vb c
      let r1 ← expectVal "padStringsToSameLength (first)" obs e.1 0
      let r2 ← expectVal "padStringsToSameLength (second)" obs e.2 1
      pure ((sh.put a r1).put b r2)
    | ["copybuf", a, n] => do
      let some n := n.toNat? | throw "bad-op"
      let e := hexw (copyOut (← need sh a) (List.replicate n 0xEE))
      if firstBuf obs != some e then throw s!"copyToBuffer: buffer {firstBuf obs}, textbook {e}"
      pure sh
    | ["copybufnull", _, _] => do
      if firstBuf obs != some "null" then throw "copyToBuffer(NULL): no result"
      pure sh
    | "coll" :: acts => do
      -- shadow collection: allocate(n) gives n empty strings; an index past the end reads as ""
      -- and a store there is not visible afterwards; size() is the last allocate
      let mut items : List Bytes := []
      let mut expected : List (List String) := []
      for a in acts do
        match parseCollAct a with
        | some (.alloc n) => items := List.replicate n []
        | some (.set i l) =>
          let v ← need sh l
          if i < items.length then items := items.set i v
        | some (.get i) => expected := expected ++ [["cval", hexw (items.getD i [])]]
        | some .size => expected := expected ++ [["csize", toString items.length]]
        | none => throw "bad-op"
      let got := obs.filter fun l => l.head? == some "cval" || l.head? == some "csize"
      if got != expected then
        throw s!"SimpleStringCollection: observed {got}, textbook {expected}"
      pure sh
    | ["selfassignc", l] => do mk l "operator=(own asCharString())" (← need sh l)
    | ["selfrepl", l, h] => do
      let some b := bytes? h | throw "bad-op"
      let v ← need sh l
      if v.isEmpty then
        match firstVal obs with
        | some r => pure (sh.put l r)
        | none => throw "replace: no result"
      else mk l "replace(own asCharString(), with)" (Text.replaceAll v v (cut b))
    | ["selfreplw", l, h] => do
      let some b := bytes? h | throw "bad-op"
      let v ← need sh l
      if (cut b).isEmpty then
        match firstVal obs with
        | some r => pure (sh.put l r)
        | none => throw "replace: no result"
      else mk l "replace(to, own asCharString())" (Text.replaceAll v (cut b) v)
    | ["strlen", h] => do
      let some b := bytes? h | throw "bad-op"
      expectRet "StrLen" obs (toString (cut b).length)
      pure sh
    | ["strcmp", h1, h2] => do
      let some b1 := bytes? h1 | throw "bad-op"
      let some b2 := bytes? h2 | throw "bad-op"
      expectRet "StrCmp" obs (toString (Text.cmp (cut b1) (cut b2))); pure sh
    | ["strncmp", h1, h2, n] => do
      let some b1 := bytes? h1 | throw "bad-op"
      let some b2 := bytes? h2 | throw "bad-op"
      let some n := pos? n | throw "bad-op"
      expectRet "StrNCmp" obs (toString (Text.ncmp n (cut b1) (cut b2))); pure sh
    | ["strncpy", "null", _, _] => do expectRet "StrNCpy(NULL)" obs "null"; pure sh
    | ["strncpy", d, s, n] => do
      let some d := bytes? d | throw "bad-op"
      let some s := bytes? s | throw "bad-op"
      let some n := pos? n | throw "bad-op"
      let e := hexw (TextExt.strNCpy d (cut s) n)
      if firstBuf obs != some e then throw s!"StrNCpy: buffer {firstBuf obs}, textbook {e}"
      pure sh
    | ["strstr", h1, h2] => do
      let some b1 := bytes? h1 | throw "bad-op"
      let some b2 := bytes? h2 | throw "bad-op"
      expectRet "StrStr" obs (match TextExt.strStr (cut b1) (cut b2) with | some i => toString i | none => "null"); pure sh
    | ["memcmp", h1, h2, n] => do
      let some b1 := bytes? h1 | throw "bad-op"
      let some b2 := bytes? h2 | throw "bad-op"
      let some n := n.toNat? | throw "bad-op"
      expectRet "MemCmp" obs (toString (TextExt.memCmp n b1 b2)); pure sh
    | ["atoi", h] => do
      let some b := bytes? h | throw "bad-op"
      -- defined when the value fits `int`
      if atoiMagnitude (cut b) ≤ 2147483647 then expectRet "AtoI" obs (toString (TextExt.atoi (cut b)))
      pure sh
    | ["atou", h] => do
      let some b := bytes? h | throw "bad-op"
      expectRet "AtoU" obs (toString (TextExt.atou (cut b)))
      pure sh
    | ["tolower", c] => do
      let some c := byte? c | throw "bad-op"
      expectRet "ToLower" obs (hexw [Text.lowerByte c])
      pure sh
    | w =>
      match fmtExpected sh w obs with
      | some e => do
        let e ← e
        match w with
        | _ :: l :: _ => mk l (w.headD "?") e
        | _ => throw "bad-op"
      | none => throw "bad-op")
  -- the harness' second reference (std::string / libc) must agree as well
  for l in obs do
    match l with
    | "xref" :: what => throw ("independent reference (std::string / libc) disagrees: " ++ " ".intercalate what)
    | _ => pure ()
  -- every temporary buffer is back; each live object owns exactly one buffer
  if sh.live.length != sh.vals.length then
    throw s!"{sh.live.length} buffers outstanding for {sh.vals.length} live objects after the operation"
  return sh

def specAll (ops : List Proto.Op) : Option String :=
  let rec go (sh : Shadow) (i : Nat) : List Proto.Op → Option String
    | [] => none
    | o :: rest =>
      match specStep sh o with
      | .ok sh' => go sh' (i + 1) rest
      | .error e => some s!"op#{i} {o.op.headD "?"}: {e}"
  go {} 0 ops

def main : IO Unit :=
  Proto.driverMain { init := ({} : DState), step := modelStep, spec := specAll }
