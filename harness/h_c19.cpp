// C19 differential harness: every scenario is run TWICE on the real code, each time as the body of a
// real test in a fresh TestTestingFixture:
//   x-run: through the C++ interface  mock() / mock("s")            (printed first)
//   c-run: through the C   interface  mock_c() / mock_scope_c("s")  (the C failure reporter ends the test C-style)
// For both runs every operation prints its observations (returned values with type tag, output-parameter bytes) and
// the run ends with the verdict and the full failure text.  In the x-run every operation also prints the C++ call the
// harness makes (`call ...`): this is the hand-written "documented meaning" of the C table entry, which the Lean model
// must reproduce by replaying the C-level dispatch through the wiring tables regenerated from MockSupport_c.{h,cpp}.
//
// Scenario language (one C-level operation per line; strings are hex, "-" = empty):
//   M0                  mock_c()                       |  M <scope>          mock_scope_c(scope)
//   S <field> <args>    call through the MockSupport_c table returned by the last M
//   E <field> <args>    call through the MockExpectedCall_c table returned by the last expect…/with…/andReturn…
//   A <field> <args>    call through the MockActualCall_c table returned by the last actualCall/with…
// Argument kinds: n hex string, i/u int/unsigned (32 bit), l/U long/unsigned long, q/Q long long/unsigned long long,
//   d double (16 hex digits, bit pattern), p synthetic pointer (decimal), m hex bytes, z size, o object o0..o7,
//   b output buffer b0..b3.
// crashOnFailure(non-zero) is part of the language: the crash method is a recorder (`crash` observation).
#include "fixture.h"
#include "CppUTestExt/MockSupport.h"
#include "CppUTestExt/MockSupport_c.h"
#include "CppUTest/MemoryLeakDetector.h"
#include "CppUTest/MemoryLeakWarningPlugin.h"
#include <stdint.h>
#include <errno.h>
#include <limits.h>

#undef new

namespace {

// ------------------------------------------------------------------------------------------------ pools
struct Obj { int key; int id; int wild; };    // o6, o7 are patterns: `wild` = "matches anything" when it is the EXPECTED object
Obj g_objs[8];
const size_t OUTN = 4, OUTSZ = 16;
unsigned char g_out[OUTN][OUTSZ], g_outSeen[OUTN][OUTSZ];

struct Op { char t; std::string field; vh::Words a; std::vector<std::string> dec; std::string raw; std::string sig; bool ok; };
std::vector<Op> g_ops;
char g_run = 'x';

extern "C" {
// custom type "functions" of the C interface, installed through BOTH interfaces.
// The comparator is ASYMMETRIC: the first operand is the expected object (MockNamedValue::equals passes
// (expected, actual)); only an EXPECTED pattern object matches anything, a pattern on the actual side does not.
// It returns 2 (not 1) for equal objects so that the `!= 0` conversion of the comparator adaptor is exercised.
static int objEqual_c(const void* expected, const void* actual) {
    const Obj* e = (const Obj*) expected; const Obj* a = (const Obj*) actual;
    return (e->wild || e->key == a->key) ? 2 : 0;
}
static const char* objToString_c(const void* a) {
    static char buf[64];
    const Obj* o = (const Obj*) a;
    if (o->wild) snprintf(buf, sizeof buf, "Obj(<any>, id=%d)", o->id);
    else snprintf(buf, sizeof buf, "Obj(key=%d, id=%d)", o->key, o->id);
    return buf;
}
// the copier's direction is observable: dst gets a transformed copy (dst content != src content), src is untouched
static void objCopy_c(void* dst, const void* src) {
    const Obj* s = (const Obj*) src; Obj d;
    d.key = s->key; d.id = s->id + 1000; d.wild = s->wild;
    memcpy(dst, &d, sizeof d);
}
}

// the same custom type through the C++ interface
class XComparator : public MockNamedValueComparator {
public:
    virtual bool isEqual(const void* a, const void* b) CPPUTEST_OVERRIDE { return objEqual_c(a, b) != 0; }
    virtual SimpleString valueToString(const void* a) CPPUTEST_OVERRIDE { return SimpleString(objToString_c(a)); }
};
class XCopier : public MockNamedValueCopier {
public:
    virtual void copy(void* dst, const void* src) CPPUTEST_OVERRIDE { objCopy_c(dst, src); }
};
std::vector<XComparator*> g_xcomparators;
std::vector<XCopier*> g_xcopiers;

// ------------------------------------------------------------------------------------------------ printing
void obs(const char* fmt, ...) {
    va_list ap; va_start(ap, fmt);
    fprintf(stdout, "%co ", g_run); vfprintf(stdout, fmt, ap); va_end(ap); fputc('\n', stdout);
}
std::string hexs(const char* s) { return s ? vh::hex(std::string(s)) : std::string("null"); }
std::string pri(long long v) { char b[32]; snprintf(b, sizeof b, "%lld", v); return b; }
std::string pru(unsigned long long v) { char b[32]; snprintf(b, sizeof b, "%llu", v); return b; }
std::string prd(double d) { unsigned long long u; memcpy(&u, &d, 8); char b[32]; snprintf(b, sizeof b, "%016llx", u); return b; }
// pointers that point into the harness' own pools are printed as labels (stable across processes)
std::string plabel(const void* p) {
    if (!p) return "0";
    for (size_t i = 0; i < 8; i++) if (p == &g_objs[i]) return "o" + pru(i);
    for (size_t i = 0; i < OUTN; i++) if (p == g_out[i]) return "b" + pru(i);
    for (size_t i = 0; i < g_ops.size(); i++)
        for (size_t k = 0; k < g_ops[i].dec.size(); k++)
            if (p == (const void*) g_ops[i].dec[k].data()) return "a" + pru(i) + "." + pru(k);
    return pru((unsigned long long) (uintptr_t) p);
}
void dump_out() {
    for (size_t i = 0; i < OUTN; i++)
        if (memcmp(g_out[i], g_outSeen[i], OUTSZ) != 0) {
            obs("out b%lu %s", (unsigned long) i, vh::hex(g_out[i], OUTSZ).c_str());
            memcpy(g_outSeen[i], g_out[i], OUTSZ);
        }
}

// crashOnFailure: the crash method of the test shell is replaced by a recorder, so that "the reporter crashed the test"
// is an observation (one `crash` line per call of UT_CRASH) and the run goes on to the terminator
void record_crash() { obs("crash"); fflush(stdout); }

// ------------------------------------------------------------------------------------------------ op table
struct FieldSig { const char* table; const char* field; const char* sig; };
#define GETSIGS(T) \
    {T, "hasReturnValue", ""}, {T, "returnValue", ""}, \
    {T, "boolReturnValue", ""}, {T, "returnBoolValueOrDefault", "i"}, {T, "intReturnValue", ""}, {T, "returnIntValueOrDefault", "i"}, \
    {T, "unsignedIntReturnValue", ""}, {T, "returnUnsignedIntValueOrDefault", "u"}, {T, "longIntReturnValue", ""}, {T, "returnLongIntValueOrDefault", "l"}, \
    {T, "unsignedLongIntReturnValue", ""}, {T, "returnUnsignedLongIntValueOrDefault", "U"}, {T, "longLongIntReturnValue", ""}, {T, "returnLongLongIntValueOrDefault", "q"}, \
    {T, "unsignedLongLongIntReturnValue", ""}, {T, "returnUnsignedLongLongIntValueOrDefault", "Q"}, {T, "stringReturnValue", ""}, {T, "returnStringValueOrDefault", "n"}, \
    {T, "doubleReturnValue", ""}, {T, "returnDoubleValueOrDefault", "d"}, {T, "pointerReturnValue", ""}, {T, "returnPointerValueOrDefault", "p"}, \
    {T, "constPointerReturnValue", ""}, {T, "returnConstPointerValueOrDefault", "p"}, {T, "functionPointerReturnValue", ""}, {T, "returnFunctionPointerValueOrDefault", "p"}
#define WITHSIGS(T) \
    {T, "withBoolParameters", "ni"}, {T, "withIntParameters", "ni"}, {T, "withUnsignedIntParameters", "nu"}, {T, "withLongIntParameters", "nl"}, \
    {T, "withUnsignedLongIntParameters", "nU"}, {T, "withLongLongIntParameters", "nq"}, {T, "withUnsignedLongLongIntParameters", "nQ"}, \
    {T, "withDoubleParameters", "nd"}, {T, "withStringParameters", "nn"}, {T, "withPointerParameters", "np"}, {T, "withConstPointerParameters", "np"}, \
    {T, "withFunctionPointerParameters", "np"}, {T, "withMemoryBufferParameter", "nmz"}, {T, "withParameterOfType", "nno"}
const FieldSig SIGS[] = {
    WITHSIGS("E"),
    {"E", "withDoubleParametersAndTolerance", "ndd"}, {"E", "withOutputParameterReturning", "nmz"}, {"E", "withOutputParameterOfTypeReturning", "nno"},
    {"E", "withUnmodifiedOutputParameter", "n"}, {"E", "ignoreOtherParameters", ""},
    {"E", "andReturnBoolValue", "i"}, {"E", "andReturnUnsignedIntValue", "u"}, {"E", "andReturnIntValue", "i"}, {"E", "andReturnLongIntValue", "l"},
    {"E", "andReturnUnsignedLongIntValue", "U"}, {"E", "andReturnLongLongIntValue", "q"}, {"E", "andReturnUnsignedLongLongIntValue", "Q"},
    {"E", "andReturnDoubleValue", "d"}, {"E", "andReturnStringValue", "n"}, {"E", "andReturnPointerValue", "p"}, {"E", "andReturnConstPointerValue", "p"},
    {"E", "andReturnFunctionPointerValue", "p"},
    WITHSIGS("A"),
    {"A", "withOutputParameter", "nb"}, {"A", "withOutputParameterOfType", "nnb"},
    GETSIGS("A"),
    {"S", "strictOrder", ""}, {"S", "expectOneCall", "n"}, {"S", "expectNoCall", "n"}, {"S", "expectNCalls", "un"}, {"S", "actualCall", "n"},
    GETSIGS("S"),
    {"S", "setBoolData", "ni"}, {"S", "setIntData", "ni"}, {"S", "setUnsignedIntData", "nu"}, {"S", "setStringData", "nn"}, {"S", "setDoubleData", "nd"},
    {"S", "setPointerData", "np"}, {"S", "setConstPointerData", "np"}, {"S", "setFunctionPointerData", "np"}, {"S", "setDataObject", "nno"},
    {"S", "setDataConstObject", "nno"}, {"S", "getData", "n"}, {"S", "disable", ""}, {"S", "enable", ""}, {"S", "ignoreOtherCalls", ""},
    {"S", "checkExpectations", ""}, {"S", "expectedCallsLeft", ""}, {"S", "clear", ""}, {"S", "crashOnFailure", "u"},
    {"S", "installComparator", "n"}, {"S", "installCopier", "n"}, {"S", "removeAllComparatorsAndCopiers", ""},
};

bool is_hex(const std::string& s) {
    if (s == "-") return true;
    if (s.size() % 2) return false;
    for (size_t i = 0; i < s.size(); i++) if (vh::hexval(s[i]) < 0 || (s[i] >= 'A' && s[i] <= 'F')) return false;
    return true;
}
bool canon_signed(const std::string& s, long long lo, long long hi) {
    errno = 0; char* e = 0; long long v = strtoll(s.c_str(), &e, 10);
    return !s.empty() && !*e && errno == 0 && v >= lo && v <= hi && pri(v) == s;
}
bool canon_unsigned(const std::string& s, unsigned long long hi) {
    if (s.empty() || s[0] == '-') return false;
    errno = 0; char* e = 0; unsigned long long v = strtoull(s.c_str(), &e, 10);
    return !*e && errno == 0 && v <= hi && pru(v) == s;
}
bool check_arg(char k, const std::string& s, std::string& dec) {
    switch (k) {
    case 'n': if (!is_hex(s)) return false; dec = vh::unhex(s); return dec.find('\0') == std::string::npos;
    case 'm': if (!is_hex(s)) return false; dec = vh::unhex(s); return true;
    case 'i': return canon_signed(s, INT_MIN, INT_MAX);
    case 'u': return canon_unsigned(s, UINT_MAX);
    case 'l': case 'q': return canon_signed(s, LLONG_MIN, LLONG_MAX);
    case 'U': case 'Q': case 'p': return canon_unsigned(s, ULLONG_MAX);
    case 'z': return canon_unsigned(s, 4096);
    case 'd': return s.size() == 16 && is_hex(s);
    case 'o': return s.size() == 2 && s[0] == 'o' && s[1] >= '0' && s[1] <= '7';
    case 'b': return s.size() == 2 && s[0] == 'b' && s[1] >= '0' && s[1] < (char) ('0' + OUTN);
    }
    return false;
}

// parse and validate one line; invalid lines stay in the list as !ok (printed as `> skip`)
Op parse_op(const vh::Words& w, const std::string& raw) {
    Op o; o.raw = raw; o.ok = false; o.t = '?';
    if (w.empty()) return o;
    if (w[0] == "M0" && w.size() == 1) { o.t = 'M'; o.field = "mock_c"; o.ok = true; return o; }
    // `P <word>`: a remark of the generator about the scenario (e.g. `P aligned`); echoed, not executed
    if (w[0] == "P" && w.size() == 2) { o.t = 'P'; o.field = w[1]; o.ok = true; return o; }
    // `T`: the operations after it are executed in the TEARDOWN of the test (the real runner calls teardown also when the
    // body was left by the C-style / exception terminator after a failure)
    if (w[0] == "T" && w.size() == 1) { o.t = 'T'; o.field = "teardown"; o.ok = true; return o; }
    if (w[0] == "M" && w.size() == 2) {
        o.t = 'M'; o.field = "mock_scope_c"; o.a.push_back(w[1]); o.dec.resize(1);
        o.ok = check_arg('n', w[1], o.dec[0]); return o;
    }
    if ((w[0] == "S" || w[0] == "E" || w[0] == "A") && w.size() >= 2) {
        for (size_t i = 0; i < sizeof SIGS / sizeof SIGS[0]; i++)
            if (w[0] == SIGS[i].table && w[1] == SIGS[i].field) {
                o.t = w[0][0]; o.field = w[1]; o.sig = SIGS[i].sig;
                if (w.size() - 2 != o.sig.size()) return o;
                o.a.assign(w.begin() + 2, w.end()); o.dec.resize(o.a.size());
                for (size_t k = 0; k < o.a.size(); k++) if (!check_arg(o.sig[k], o.a[k], o.dec[k])) return o;
                // sizes never exceed the buffer they describe; output values fit the actual side's buffers
                for (size_t k = 0; k + 1 < o.a.size(); k++)
                    if (o.sig[k] == 'm' && o.sig[k + 1] == 'z' && vh::to_u64(o.a[k + 1]) > o.dec[k].size()) return o;
                if (o.field == "withOutputParameterReturning" && vh::to_u64(o.a[2]) > OUTSZ) return o;
                o.ok = true; return o;
            }
    }
    return o;
}

// argument accessors for the current op
const Op* g_o = 0;
#define STR(k)  (g_o->dec[k].c_str())
#define INT(k)  (vh::to_i64(g_o->a[k]))
#define UNS(k)  (vh::to_u64(g_o->a[k]))
#define PTR(k)  ((void*) (uintptr_t) vh::to_u64(g_o->a[k]))
#define FPT(k)  ((void (*)()) (uintptr_t) vh::to_u64(g_o->a[k]))
#define BUF(k)  ((const unsigned char*) g_o->dec[k].data())
#define OBJ(k)  ((void*) &g_objs[g_o->a[k][1] - '0'])
#define OUTB(k) ((void*) g_out[g_o->a[k][1] - '0'])
double DBL(size_t k) { unsigned long long u = strtoull(g_o->a[k].c_str(), 0, 16); double d; memcpy(&d, &u, 8); return d; }
#define A(k) (g_o->a[k].c_str())

// ------------------------------------------------------------------------------------------------ values with type tag
const char* tagname(MockValueType_c t) {
    switch (t) {
    case MOCKVALUETYPE_BOOL: return "MOCKVALUETYPE_BOOL";
    case MOCKVALUETYPE_UNSIGNED_INTEGER: return "MOCKVALUETYPE_UNSIGNED_INTEGER";
    case MOCKVALUETYPE_INTEGER: return "MOCKVALUETYPE_INTEGER";
    case MOCKVALUETYPE_LONG_INTEGER: return "MOCKVALUETYPE_LONG_INTEGER";
    case MOCKVALUETYPE_UNSIGNED_LONG_INTEGER: return "MOCKVALUETYPE_UNSIGNED_LONG_INTEGER";
    case MOCKVALUETYPE_LONG_LONG_INTEGER: return "MOCKVALUETYPE_LONG_LONG_INTEGER";
    case MOCKVALUETYPE_UNSIGNED_LONG_LONG_INTEGER: return "MOCKVALUETYPE_UNSIGNED_LONG_LONG_INTEGER";
    case MOCKVALUETYPE_DOUBLE: return "MOCKVALUETYPE_DOUBLE";
    case MOCKVALUETYPE_STRING: return "MOCKVALUETYPE_STRING";
    case MOCKVALUETYPE_POINTER: return "MOCKVALUETYPE_POINTER";
    case MOCKVALUETYPE_CONST_POINTER: return "MOCKVALUETYPE_CONST_POINTER";
    case MOCKVALUETYPE_FUNCTIONPOINTER: return "MOCKVALUETYPE_FUNCTIONPOINTER";
    case MOCKVALUETYPE_MEMORYBUFFER: return "MOCKVALUETYPE_MEMORYBUFFER";
    case MOCKVALUETYPE_OBJECT: return "MOCKVALUETYPE_OBJECT";
    }
    return "?";
}
void print_cvalue(const MockValue_c& v) {
    std::string p;
    switch (v.type) {
    case MOCKVALUETYPE_BOOL: p = pri(v.value.boolValue); break;
    case MOCKVALUETYPE_UNSIGNED_INTEGER: p = pru(v.value.unsignedIntValue); break;
    case MOCKVALUETYPE_INTEGER: p = pri(v.value.intValue); break;
    case MOCKVALUETYPE_LONG_INTEGER: p = pri(v.value.longIntValue); break;
    case MOCKVALUETYPE_UNSIGNED_LONG_INTEGER: p = pru(v.value.unsignedLongIntValue); break;
    case MOCKVALUETYPE_LONG_LONG_INTEGER: p = pri(v.value.longLongIntValue); break;
    case MOCKVALUETYPE_UNSIGNED_LONG_LONG_INTEGER: p = pru(v.value.unsignedLongLongIntValue); break;
    case MOCKVALUETYPE_DOUBLE: p = prd(v.value.doubleValue); break;
    case MOCKVALUETYPE_STRING: p = hexs(v.value.stringValue); break;
    case MOCKVALUETYPE_POINTER: p = plabel(v.value.pointerValue); break;
    case MOCKVALUETYPE_CONST_POINTER: p = plabel(v.value.constPointerValue); break;
    case MOCKVALUETYPE_FUNCTIONPOINTER: p = pru((unsigned long long) (uintptr_t) v.value.functionPointerValue); break;
    case MOCKVALUETYPE_MEMORYBUFFER: p = plabel(v.value.memoryBufferValue); break;
    case MOCKVALUETYPE_OBJECT: p = plabel(v.value.objectValue); break;
    default: p = "?";
    }
    obs("val %s %s", tagname(v.type), p.c_str());
}
// the C++ value: its type string and the payload read with the getter of that type
void print_xvalue(const MockNamedValue& v) {
    SimpleString t = v.getType();
    std::string p;
    if (t == "bool") p = pri(v.getBoolValue() ? 1 : 0);
    else if (t == "int") p = pri(v.getIntValue());
    else if (t == "unsigned int") p = pru(v.getUnsignedIntValue());
    else if (t == "long int") p = pri(v.getLongIntValue());
    else if (t == "unsigned long int") p = pru(v.getUnsignedLongIntValue());
    else if (t == "long long int") p = pri(v.getLongLongIntValue());
    else if (t == "unsigned long long int") p = pru(v.getUnsignedLongLongIntValue());
    else if (t == "double") p = prd(v.getDoubleValue());
    else if (t == "const char*") p = hexs(v.getStringValue());
    else if (t == "void*") p = plabel(v.getPointerValue());
    else if (t == "const void*") p = plabel(v.getConstPointerValue());
    else if (t == "void (*)()") p = pru((unsigned long long) (uintptr_t) v.getFunctionPointerValue());
    else if (t == "const unsigned char*") p = plabel(v.getMemoryBuffer());
    else p = plabel(v.getObjectPointer());
    obs("val %s %s", vh::hex(std::string(t.asCharString())).c_str(), p.c_str());
}

// ------------------------------------------------------------------------------------------------ the two interpreters
MockSupport_c* c_sup = 0; MockExpectedCall_c* c_ec = 0; MockActualCall_c* c_ac = 0;
MockSupport* x_sup = 0; MockExpectedCall* x_ec = 0; MockActualCall* x_ac = 0;

bool F(const char* f) { return g_o->field == f; }
void call(const char* fmt, ...) {
    va_list ap; va_start(ap, fmt); fputs("call ", stdout); vfprintf(stdout, fmt, ap); va_end(ap); fputc('\n', stdout);
}

// return-value getters: X(field, fieldOrDefault, kind, C type, print C, C++ method on the actual call (plain, default),
//                         C++ method on MockSupport (plain, default), C++ type, default converted for C++, print C++, arg kind)
#define GETTERS(X) \
    X(boolReturnValue, returnBoolValueOrDefault, "bool", (int) INT(0), pri(r), returnBoolValue, boolReturnValue, returnBoolValueOrDefault, "bool", (INT(0) != 0), pri(r ? 1 : 0), (INT(0) != 0 ? "1" : "0")) \
    X(intReturnValue, returnIntValueOrDefault, "int", (int) INT(0), pri(r), returnIntValue, intReturnValue, returnIntValueOrDefault, "int", (int) INT(0), pri(r), A(0)) \
    X(unsignedIntReturnValue, returnUnsignedIntValueOrDefault, "uint", (unsigned int) UNS(0), pru(r), returnUnsignedIntValue, unsignedIntReturnValue, returnUnsignedIntValueOrDefault, "uint", (unsigned int) UNS(0), pru(r), A(0)) \
    X(longIntReturnValue, returnLongIntValueOrDefault, "long", (long int) INT(0), pri(r), returnLongIntValue, longIntReturnValue, returnLongIntValueOrDefault, "long", (long int) INT(0), pri(r), A(0)) \
    X(unsignedLongIntReturnValue, returnUnsignedLongIntValueOrDefault, "ulong", (unsigned long int) UNS(0), pru(r), returnUnsignedLongIntValue, unsignedLongIntReturnValue, returnUnsignedLongIntValueOrDefault, "ulong", (unsigned long int) UNS(0), pru(r), A(0)) \
    X(longLongIntReturnValue, returnLongLongIntValueOrDefault, "llong", (long long) INT(0), pri(r), returnLongLongIntValue, longLongIntReturnValue, returnLongLongIntValueOrDefault, "llong", (long long) INT(0), pri(r), A(0)) \
    X(unsignedLongLongIntReturnValue, returnUnsignedLongLongIntValueOrDefault, "ullong", (unsigned long long) UNS(0), pru(r), returnUnsignedLongLongIntValue, unsignedLongLongIntReturnValue, returnUnsignedLongLongIntValueOrDefault, "ullong", (unsigned long long) UNS(0), pru(r), A(0)) \
    X(stringReturnValue, returnStringValueOrDefault, "string", STR(0), hexs(r), returnStringValue, stringReturnValue, returnStringValueOrDefault, "string", STR(0), hexs(r), A(0)) \
    X(doubleReturnValue, returnDoubleValueOrDefault, "double", DBL(0), prd(r), returnDoubleValue, doubleReturnValue, returnDoubleValueOrDefault, "double", DBL(0), prd(r), A(0)) \
    X(pointerReturnValue, returnPointerValueOrDefault, "ptr", PTR(0), plabel(r), returnPointerValue, pointerReturnValue, returnPointerValueOrDefault, "ptr", PTR(0), plabel(r), A(0)) \
    X(constPointerReturnValue, returnConstPointerValueOrDefault, "cptr", (const void*) PTR(0), plabel(r), returnConstPointerValue, constPointerReturnValue, returnConstPointerValueOrDefault, "cptr", (const void*) PTR(0), plabel(r), A(0)) \
    X(functionPointerReturnValue, returnFunctionPointerValueOrDefault, "fptr", (void (*)(void)) FPT(0), pru((unsigned long long) (uintptr_t) r), returnFunctionPointerValue, functionPointerReturnValue, returnFunctionPointerValueOrDefault, "fptr", FPT(0), pru((unsigned long long) (uintptr_t) r), A(0))

// ---- C interface
bool exec_c_getter(bool onSupport) {
#define X(plain, dflt, kind, cdef, cprint, xaPlain, xsPlain, xDflt, xkind, xdef, xprint, xarg) \
    if (F(#plain)) { if (onSupport) { auto r = c_sup->plain(); obs("ret " kind " %s", (cprint).c_str()); } \
                     else { auto r = c_ac->plain(); obs("ret " kind " %s", (cprint).c_str()); } return true; } \
    if (F(#dflt)) { if (onSupport) { auto r = c_sup->dflt(cdef); obs("ret " kind " %s", (cprint).c_str()); } \
                    else { auto r = c_ac->dflt(cdef); obs("ret " kind " %s", (cprint).c_str()); } return true; }
    GETTERS(X)
#undef X
    if (F("hasReturnValue")) { int r = onSupport ? c_sup->hasReturnValue() : c_ac->hasReturnValue(); obs("ret bool %d", r); return true; }
    if (F("returnValue")) { MockValue_c v = onSupport ? c_sup->returnValue() : c_ac->returnValue(); print_cvalue(v); return true; }
    return false;
}

void exec_c() {
    const char t = g_o->t;
    if (t == 'M') { c_sup = F("mock_c") ? mock_c() : mock_scope_c(STR(0)); return; }
    if (t == 'E') {
        MockExpectedCall_c* e = c_ec;
        if (F("withBoolParameters")) e = e->withBoolParameters(STR(0), (int) INT(1));
        else if (F("withIntParameters")) e = e->withIntParameters(STR(0), (int) INT(1));
        else if (F("withUnsignedIntParameters")) e = e->withUnsignedIntParameters(STR(0), (unsigned int) UNS(1));
        else if (F("withLongIntParameters")) e = e->withLongIntParameters(STR(0), (long int) INT(1));
        else if (F("withUnsignedLongIntParameters")) e = e->withUnsignedLongIntParameters(STR(0), (unsigned long int) UNS(1));
        else if (F("withLongLongIntParameters")) e = e->withLongLongIntParameters(STR(0), (long long) INT(1));
        else if (F("withUnsignedLongLongIntParameters")) e = e->withUnsignedLongLongIntParameters(STR(0), (unsigned long long) UNS(1));
        else if (F("withDoubleParameters")) e = e->withDoubleParameters(STR(0), DBL(1));
        else if (F("withDoubleParametersAndTolerance")) e = e->withDoubleParametersAndTolerance(STR(0), DBL(1), DBL(2));
        else if (F("withStringParameters")) e = e->withStringParameters(STR(0), STR(1));
        else if (F("withPointerParameters")) e = e->withPointerParameters(STR(0), PTR(1));
        else if (F("withConstPointerParameters")) e = e->withConstPointerParameters(STR(0), PTR(1));
        else if (F("withFunctionPointerParameters")) e = e->withFunctionPointerParameters(STR(0), (void (*)(void)) FPT(1));
        else if (F("withMemoryBufferParameter")) e = e->withMemoryBufferParameter(STR(0), BUF(1), (size_t) UNS(2));
        else if (F("withParameterOfType")) e = e->withParameterOfType(STR(0), STR(1), OBJ(2));
        else if (F("withOutputParameterReturning")) e = e->withOutputParameterReturning(STR(0), BUF(1), (size_t) UNS(2));
        else if (F("withOutputParameterOfTypeReturning")) e = e->withOutputParameterOfTypeReturning(STR(0), STR(1), OBJ(2));
        else if (F("withUnmodifiedOutputParameter")) e = e->withUnmodifiedOutputParameter(STR(0));
        else if (F("ignoreOtherParameters")) e = e->ignoreOtherParameters();
        else if (F("andReturnBoolValue")) e = e->andReturnBoolValue((int) INT(0));
        else if (F("andReturnUnsignedIntValue")) e = e->andReturnUnsignedIntValue((unsigned int) UNS(0));
        else if (F("andReturnIntValue")) e = e->andReturnIntValue((int) INT(0));
        else if (F("andReturnLongIntValue")) e = e->andReturnLongIntValue((long int) INT(0));
        else if (F("andReturnUnsignedLongIntValue")) e = e->andReturnUnsignedLongIntValue((unsigned long int) UNS(0));
        else if (F("andReturnLongLongIntValue")) e = e->andReturnLongLongIntValue((long long) INT(0));
        else if (F("andReturnUnsignedLongLongIntValue")) e = e->andReturnUnsignedLongLongIntValue((unsigned long long) UNS(0));
        else if (F("andReturnDoubleValue")) e = e->andReturnDoubleValue(DBL(0));
        else if (F("andReturnStringValue")) e = e->andReturnStringValue(STR(0));
        else if (F("andReturnPointerValue")) e = e->andReturnPointerValue(PTR(0));
        else if (F("andReturnConstPointerValue")) e = e->andReturnConstPointerValue(PTR(0));
        else if (F("andReturnFunctionPointerValue")) e = e->andReturnFunctionPointerValue((void (*)(void)) FPT(0));
        c_ec = e;
        return;
    }
    if (t == 'A') {
        MockActualCall_c* a = c_ac;
        if (exec_c_getter(false)) return;
        if (F("withBoolParameters")) a = a->withBoolParameters(STR(0), (int) INT(1));
        else if (F("withIntParameters")) a = a->withIntParameters(STR(0), (int) INT(1));
        else if (F("withUnsignedIntParameters")) a = a->withUnsignedIntParameters(STR(0), (unsigned int) UNS(1));
        else if (F("withLongIntParameters")) a = a->withLongIntParameters(STR(0), (long int) INT(1));
        else if (F("withUnsignedLongIntParameters")) a = a->withUnsignedLongIntParameters(STR(0), (unsigned long int) UNS(1));
        else if (F("withLongLongIntParameters")) a = a->withLongLongIntParameters(STR(0), (long long) INT(1));
        else if (F("withUnsignedLongLongIntParameters")) a = a->withUnsignedLongLongIntParameters(STR(0), (unsigned long long) UNS(1));
        else if (F("withDoubleParameters")) a = a->withDoubleParameters(STR(0), DBL(1));
        else if (F("withStringParameters")) a = a->withStringParameters(STR(0), STR(1));
        else if (F("withPointerParameters")) a = a->withPointerParameters(STR(0), PTR(1));
        else if (F("withConstPointerParameters")) a = a->withConstPointerParameters(STR(0), PTR(1));
        else if (F("withFunctionPointerParameters")) a = a->withFunctionPointerParameters(STR(0), (void (*)(void)) FPT(1));
        else if (F("withMemoryBufferParameter")) a = a->withMemoryBufferParameter(STR(0), BUF(1), (size_t) UNS(2));
        else if (F("withParameterOfType")) a = a->withParameterOfType(STR(0), STR(1), OBJ(2));
        else if (F("withOutputParameter")) a = a->withOutputParameter(STR(0), OUTB(1));
        else if (F("withOutputParameterOfType")) a = a->withOutputParameterOfType(STR(0), STR(1), OUTB(2));
        c_ac = a;
        return;
    }
    // 'S'
    if (exec_c_getter(true)) return;
    if (F("strictOrder")) c_sup->strictOrder();
    else if (F("expectOneCall")) c_ec = c_sup->expectOneCall(STR(0));
    else if (F("expectNoCall")) c_sup->expectNoCall(STR(0));
    else if (F("expectNCalls")) c_ec = c_sup->expectNCalls((unsigned int) UNS(0), STR(1));
    else if (F("actualCall")) c_ac = c_sup->actualCall(STR(0));
    else if (F("setBoolData")) c_sup->setBoolData(STR(0), (int) INT(1));
    else if (F("setIntData")) c_sup->setIntData(STR(0), (int) INT(1));
    else if (F("setUnsignedIntData")) c_sup->setUnsignedIntData(STR(0), (unsigned int) UNS(1));
    else if (F("setStringData")) c_sup->setStringData(STR(0), STR(1));
    else if (F("setDoubleData")) c_sup->setDoubleData(STR(0), DBL(1));
    else if (F("setPointerData")) c_sup->setPointerData(STR(0), PTR(1));
    else if (F("setConstPointerData")) c_sup->setConstPointerData(STR(0), PTR(1));
    else if (F("setFunctionPointerData")) c_sup->setFunctionPointerData(STR(0), (void (*)(void)) FPT(1));
    else if (F("setDataObject")) c_sup->setDataObject(STR(0), STR(1), OBJ(2));
    else if (F("setDataConstObject")) c_sup->setDataConstObject(STR(0), STR(1), OBJ(2));
    else if (F("getData")) { MockValue_c v = c_sup->getData(STR(0)); print_cvalue(v); }
    else if (F("disable")) c_sup->disable();
    else if (F("enable")) c_sup->enable();
    else if (F("ignoreOtherCalls")) c_sup->ignoreOtherCalls();
    else if (F("checkExpectations")) c_sup->checkExpectations();
    else if (F("expectedCallsLeft")) { int r = c_sup->expectedCallsLeft(); obs("ret bool %d", r); }
    else if (F("clear")) { c_sup->clear(); c_ec = 0; c_ac = 0; }
    else if (F("crashOnFailure")) c_sup->crashOnFailure((unsigned) UNS(0));
    else if (F("installComparator")) c_sup->installComparator(STR(0), objEqual_c, objToString_c);
    else if (F("installCopier")) c_sup->installCopier(STR(0), objCopy_c);
    else if (F("removeAllComparatorsAndCopiers")) c_sup->removeAllComparatorsAndCopiers();
}

// ---- C++ interface: prints the call it makes, then makes it
bool exec_x_getter(bool onSupport) {
    const char* rc = onSupport ? "sup" : "ac";
#define X(plain, dflt, kind, cdef, cprint, xaPlain, xsPlain, xDflt, xkind, xdef, xprint, xarg) \
    if (F(#plain)) { if (onSupport) { call("%s " #xsPlain "()", rc); auto r = x_sup->xsPlain(); obs("ret " kind " %s", (xprint).c_str()); } \
                     else { call("%s " #xaPlain "()", rc); auto r = x_ac->xaPlain(); obs("ret " kind " %s", (xprint).c_str()); } return true; } \
    if (F(#dflt)) { call("%s " #xDflt "(" xkind ") %s", rc, xarg); \
                    bool h = onSupport ? x_sup->hasReturnValue() : x_ac->hasReturnValue(); obs("has %d", h ? 1 : 0); \
                    if (onSupport) { auto r = x_sup->xDflt(xdef); obs("ret " kind " %s", (xprint).c_str()); } \
                    else { auto r = x_ac->xDflt(xdef); obs("ret " kind " %s", (xprint).c_str()); } return true; }
    GETTERS(X)
#undef X
    if (F("hasReturnValue")) { call("%s hasReturnValue()", rc); bool r = onSupport ? x_sup->hasReturnValue() : x_ac->hasReturnValue(); obs("ret bool %d", r ? 1 : 0); return true; }
    if (F("returnValue")) { call("%s returnValue()", rc); MockNamedValue v = onSupport ? x_sup->returnValue() : x_ac->returnValue(); print_xvalue(v); return true; }
    return false;
}

// parameters of the thirteen plain types, on either chain object
template <class Call> Call* exec_x_with(Call* c, const char* rc) {
    if (F("withBoolParameters")) { call("%s withParameter(string,bool) %s %d", rc, A(0), INT(1) != 0 ? 1 : 0); return &c->withParameter(STR(0), INT(1) != 0); }
    if (F("withIntParameters")) { call("%s withParameter(string,int) %s %s", rc, A(0), A(1)); return &c->withParameter(STR(0), (int) INT(1)); }
    if (F("withUnsignedIntParameters")) { call("%s withParameter(string,uint) %s %s", rc, A(0), A(1)); return &c->withParameter(STR(0), (unsigned int) UNS(1)); }
    if (F("withLongIntParameters")) { call("%s withParameter(string,long) %s %s", rc, A(0), A(1)); return &c->withParameter(STR(0), (long int) INT(1)); }
    if (F("withUnsignedLongIntParameters")) { call("%s withParameter(string,ulong) %s %s", rc, A(0), A(1)); return &c->withParameter(STR(0), (unsigned long int) UNS(1)); }
    if (F("withLongLongIntParameters")) { call("%s withParameter(string,llong) %s %s", rc, A(0), A(1)); return &c->withParameter(STR(0), (long long) INT(1)); }
    if (F("withUnsignedLongLongIntParameters")) { call("%s withParameter(string,ullong) %s %s", rc, A(0), A(1)); return &c->withParameter(STR(0), (unsigned long long) UNS(1)); }
    if (F("withDoubleParameters")) { call("%s withParameter(string,double) %s %s", rc, A(0), A(1)); return &c->withParameter(STR(0), DBL(1)); }
    if (F("withStringParameters")) { call("%s withParameter(string,string) %s %s", rc, A(0), A(1)); return &c->withParameter(STR(0), STR(1)); }
    if (F("withPointerParameters")) { call("%s withParameter(string,ptr) %s %s", rc, A(0), A(1)); return &c->withParameter(STR(0), PTR(1)); }
    if (F("withConstPointerParameters")) { call("%s withParameter(string,cptr) %s %s", rc, A(0), A(1)); return &c->withParameter(STR(0), (const void*) PTR(1)); }
    if (F("withFunctionPointerParameters")) { call("%s withParameter(string,fptr) %s %s", rc, A(0), A(1)); return &c->withParameter(STR(0), FPT(1)); }
    if (F("withMemoryBufferParameter")) { call("%s withParameter(string,membuf,size) %s %s %s", rc, A(0), A(1), A(2)); return &c->withParameter(STR(0), BUF(1), (size_t) UNS(2)); }
    if (F("withParameterOfType")) { call("%s withParameterOfType(string,string,cptr) %s %s %s", rc, A(0), A(1), A(2)); return &c->withParameterOfType(STR(0), STR(1), (const void*) OBJ(2)); }
    return 0;
}

void exec_x() {
    const char t = g_o->t;
    if (t == 'M') { call("mock %s", F("mock_c") ? "-" : A(0)); x_sup = F("mock_c") ? &mock() : &mock(STR(0)); return; }
    if (t == 'E') {
        MockExpectedCall* e = exec_x_with(x_ec, "ec");
        if (e) { x_ec = e; return; }
        e = x_ec;
        if (F("withDoubleParametersAndTolerance")) { call("ec withParameter(string,double,double) %s %s %s", A(0), A(1), A(2)); e = &e->withParameter(STR(0), DBL(1), DBL(2)); }
        else if (F("withOutputParameterReturning")) { call("ec withOutputParameterReturning(string,cptr,size) %s %s %s", A(0), A(1), A(2)); e = &e->withOutputParameterReturning(STR(0), BUF(1), (size_t) UNS(2)); }
        else if (F("withOutputParameterOfTypeReturning")) { call("ec withOutputParameterOfTypeReturning(string,string,cptr) %s %s %s", A(0), A(1), A(2)); e = &e->withOutputParameterOfTypeReturning(STR(0), STR(1), (const void*) OBJ(2)); }
        else if (F("withUnmodifiedOutputParameter")) { call("ec withUnmodifiedOutputParameter(string) %s", A(0)); e = &e->withUnmodifiedOutputParameter(STR(0)); }
        else if (F("ignoreOtherParameters")) { call("ec ignoreOtherParameters()"); e = &e->ignoreOtherParameters(); }
        else if (F("andReturnBoolValue")) { call("ec andReturnValue(bool) %d", INT(0) != 0 ? 1 : 0); e = &e->andReturnValue(INT(0) != 0); }
        else if (F("andReturnUnsignedIntValue")) { call("ec andReturnValue(uint) %s", A(0)); e = &e->andReturnValue((unsigned int) UNS(0)); }
        else if (F("andReturnIntValue")) { call("ec andReturnValue(int) %s", A(0)); e = &e->andReturnValue((int) INT(0)); }
        else if (F("andReturnLongIntValue")) { call("ec andReturnValue(long) %s", A(0)); e = &e->andReturnValue((long int) INT(0)); }
        else if (F("andReturnUnsignedLongIntValue")) { call("ec andReturnValue(ulong) %s", A(0)); e = &e->andReturnValue((unsigned long int) UNS(0)); }
        else if (F("andReturnLongLongIntValue")) { call("ec andReturnValue(llong) %s", A(0)); e = &e->andReturnValue((long long) INT(0)); }
        else if (F("andReturnUnsignedLongLongIntValue")) { call("ec andReturnValue(ullong) %s", A(0)); e = &e->andReturnValue((unsigned long long) UNS(0)); }
        else if (F("andReturnDoubleValue")) { call("ec andReturnValue(double) %s", A(0)); e = &e->andReturnValue(DBL(0)); }
        else if (F("andReturnStringValue")) { call("ec andReturnValue(string) %s", A(0)); e = &e->andReturnValue(STR(0)); }
        else if (F("andReturnPointerValue")) { call("ec andReturnValue(ptr) %s", A(0)); e = &e->andReturnValue(PTR(0)); }
        else if (F("andReturnConstPointerValue")) { call("ec andReturnValue(cptr) %s", A(0)); e = &e->andReturnValue((const void*) PTR(0)); }
        else if (F("andReturnFunctionPointerValue")) { call("ec andReturnValue(fptr) %s", A(0)); e = &e->andReturnValue(FPT(0)); }
        x_ec = e;
        return;
    }
    if (t == 'A') {
        if (exec_x_getter(false)) return;
        MockActualCall* a = exec_x_with(x_ac, "ac");
        if (a) { x_ac = a; return; }
        a = x_ac;
        if (F("withOutputParameter")) { call("ac withOutputParameter(string,ptr) %s %s", A(0), A(1)); a = &a->withOutputParameter(STR(0), OUTB(1)); }
        else if (F("withOutputParameterOfType")) { call("ac withOutputParameterOfType(string,string,ptr) %s %s %s", A(0), A(1), A(2)); a = &a->withOutputParameterOfType(STR(0), STR(1), OUTB(2)); }
        x_ac = a;
        return;
    }
    // 'S'
    if (exec_x_getter(true)) return;
    if (F("strictOrder")) { call("sup strictOrder()"); x_sup->strictOrder(); }
    else if (F("expectOneCall")) { call("sup expectOneCall(string) %s", A(0)); x_ec = &x_sup->expectOneCall(STR(0)); }
    else if (F("expectNoCall")) { call("sup expectNoCall(string) %s", A(0)); x_sup->expectNoCall(STR(0)); }
    else if (F("expectNCalls")) { call("sup expectNCalls(uint,string) %s %s", A(0), A(1)); x_ec = &x_sup->expectNCalls((unsigned int) UNS(0), STR(1)); }
    else if (F("actualCall")) {
        call("sup actualCall(string) %s", A(0)); x_ac = &x_sup->actualCall(STR(0));
        obs("ackind %s", x_ac == &MockIgnoredActualCall::instance() ? "ignored" : "checked");
    }
    else if (F("setBoolData")) { call("sup setData(string,bool) %s %d", A(0), INT(1) != 0 ? 1 : 0); x_sup->setData(STR(0), INT(1) != 0); }
    else if (F("setIntData")) { call("sup setData(string,int) %s %s", A(0), A(1)); x_sup->setData(STR(0), (int) INT(1)); }
    else if (F("setUnsignedIntData")) { call("sup setData(string,uint) %s %s", A(0), A(1)); x_sup->setData(STR(0), (unsigned int) UNS(1)); }
    else if (F("setStringData")) { call("sup setData(string,string) %s %s", A(0), A(1)); x_sup->setData(STR(0), STR(1)); }
    else if (F("setDoubleData")) { call("sup setData(string,double) %s %s", A(0), A(1)); x_sup->setData(STR(0), DBL(1)); }
    else if (F("setPointerData")) { call("sup setData(string,ptr) %s %s", A(0), A(1)); x_sup->setData(STR(0), PTR(1)); }
    else if (F("setConstPointerData")) { call("sup setData(string,cptr) %s %s", A(0), A(1)); x_sup->setData(STR(0), (const void*) PTR(1)); }
    else if (F("setFunctionPointerData")) { call("sup setData(string,fptr) %s %s", A(0), A(1)); x_sup->setData(STR(0), FPT(1)); }
    else if (F("setDataObject")) { call("sup setDataObject(string,string,ptr) %s %s %s", A(0), A(1), A(2)); x_sup->setDataObject(STR(0), STR(1), OBJ(2)); }
    else if (F("setDataConstObject")) { call("sup setDataConstObject(string,string,cptr) %s %s %s", A(0), A(1), A(2)); x_sup->setDataConstObject(STR(0), STR(1), (const void*) OBJ(2)); }
    else if (F("getData")) { call("sup getData(string) %s", A(0)); MockNamedValue v = x_sup->getData(STR(0)); print_xvalue(v); }
    else if (F("disable")) { call("sup disable()"); x_sup->disable(); }
    else if (F("enable")) { call("sup enable()"); x_sup->enable(); }
    else if (F("ignoreOtherCalls")) { call("sup ignoreOtherCalls()"); x_sup->ignoreOtherCalls(); }
    else if (F("checkExpectations")) { call("sup checkExpectations()"); x_sup->checkExpectations(); }
    else if (F("expectedCallsLeft")) { call("sup expectedCallsLeft()"); bool r = x_sup->expectedCallsLeft(); obs("ret bool %d", r ? 1 : 0); }
    else if (F("clear")) { call("sup clear()"); x_sup->clear(); x_ec = 0; x_ac = 0; }   // the call objects are gone
    else if (F("crashOnFailure")) { call("sup crashOnFailure(bool) %d", UNS(0) != 0 ? 1 : 0); x_sup->crashOnFailure(UNS(0) != 0); }
    else if (F("installComparator")) {
        call("sup installComparator(string,comparator) %s new", A(0));
        g_xcomparators.push_back(new XComparator); x_sup->installComparator(STR(0), *g_xcomparators.back());
    }
    else if (F("installCopier")) {
        call("sup installCopier(string,copier) %s new", A(0));
        g_xcopiers.push_back(new XCopier); x_sup->installCopier(STR(0), *g_xcopiers.back());
    }
    else if (F("removeAllComparatorsAndCopiers")) { call("sup removeAllComparatorsAndCopiers()"); x_sup->removeAllComparatorsAndCopiers(); }
}

// the body of the test: all state is global (a failing C-interface call leaves with longjmp)
size_t g_i = 0;
size_t g_tstart = 0;      // index of the `T` line (or the number of operations)
size_t g_body_stop = 0;
void run_ops(size_t from, size_t to) {
    for (g_i = from; g_i < to; g_i++) {
        g_o = &g_ops[g_i];
        bool have = g_o->ok && (g_o->t == 'M' || g_o->t == 'P' || g_o->t == 'T' ||
            (g_o->t == 'S' && (g_run == 'x' ? (void*) x_sup : (void*) c_sup)) ||
            (g_o->t == 'E' && (g_run == 'x' ? (void*) x_ec : (void*) c_ec)) ||
            (g_o->t == 'A' && (g_run == 'x' ? (void*) x_ac : (void*) c_ac)));
        if (!have) { vh::emit("> skip"); continue; }
        vh::emit("> %c %lu %s", g_run, (unsigned long) g_i, g_o->raw.c_str());
        fflush(stdout);
        if (g_o->t == 'P' || g_o->t == 'T') continue;
        // how a failing call is left: the C++ interface throws (this build has exceptions), the C interface must use the
        // exception-free terminator (longjmp: control never comes back here).  An exception is recorded and passed on.
        try {
            if (g_run == 'x') exec_x(); else exec_c();
        } catch (...) {
            obs("left exception"); fflush(stdout);
            throw;
        }
        dump_out();
    }
}
void body() { g_body_stop = 0; run_ops(0, g_tstart); }
// teardown: runs after the body, also when a failure ended the body.  A mock failure clears the mock (the call objects
// are gone), so the chain pointers of the test are dropped: teardown starts a new chain if it wants one.
void teardown() {
    g_body_stop = g_i;
    if (g_tstart >= g_ops.size()) return;
    x_ec = 0; x_ac = 0; c_ec = 0; c_ac = 0;
    run_ops(g_tstart, g_ops.size());
}

// the failure text: the fixture's output without progress dots and the final summary (which counts checks)
std::string failure_text(const std::string& out) {
    size_t e = out.rfind("\nErrors (");
    if (e == std::string::npos) e = out.rfind("\nOK (");
    std::string t = e == std::string::npos ? out : out.substr(0, e);
    size_t b = 0;
    while (b < t.size() && (t[b] == '\n' || t[b] == '.')) b++;
    return t.substr(b);
}

// allocations made through the (tracked) global operator new that are still alive: the adaptor nodes of the C layer
// are such allocations, so "removeAllComparatorsAndCopiers gives every node back" is observable as a difference of 0
long live_allocations() {
    return (long) MemoryLeakWarningPlugin::getGlobalDetector()->totalMemoryLeaks(mem_leak_period_all);
}

void one_run(char which) {
    g_run = which;
    const long allocatedBefore = live_allocations();
    size_t failures = 0;
    memset(g_out, 0xA5, sizeof g_out); memset(g_outSeen, 0xA5, sizeof g_outSeen);
    for (int i = 0; i < 8; i++) { g_objs[i].key = i < 6 ? i / 2 : 90 + i; g_objs[i].id = 100 + i; g_objs[i].wild = i >= 6; }
    UtestShell::setCrashMethod(record_crash);
    {
        TestTestingFixture fixture;
        fixture.setTestFunction(body);
        fixture.setTeardown(teardown);
        fixture.runAllTests();
        dump_out();
        vh::emit("> %c end", which);
        obs("stopped %lu %lu", (unsigned long) g_body_stop, (unsigned long) g_i);
        obs("objects %s", vh::hex(g_objs, sizeof g_objs).c_str());     // a copier must never write into its source
        obs("verdict %lu %s", (unsigned long) fixture.getFailureCount(),
            vh::hex(failure_text(fixture.getOutput().asCharString())).c_str());
        failures = fixture.getFailureCount();
    }
    // leave the global mock as a fresh process would find it
    UtestShell::resetCrashMethod();
    if (which == 'c') mock_c()->crashOnFailure(0);
    mock().crashOnFailure(false);
    mock().clear();
    mock().removeAllComparatorsAndCopiers();
    if (which == 'c') { mock_c()->removeAllComparatorsAndCopiers(); mock().clear(); }
    x_sup = 0; x_ec = 0; x_ac = 0; c_sup = 0; c_ec = 0; c_ac = 0;
    for (size_t i = 0; i < g_xcomparators.size(); i++) delete g_xcomparators[i];
    for (size_t i = 0; i < g_xcopiers.size(); i++) delete g_xcopiers[i];
    std::vector<XComparator*>().swap(g_xcomparators);
    std::vector<XCopier*>().swap(g_xcopiers);
    // only for passing runs: a failing C call is left by longjmp, which skips the destructors of the failure objects
    if (failures == 0) obs("leaked %ld", live_allocations() - allocatedBefore);
}

void run_case(const vh::Case& c) {
    g_ops.clear();
    g_ops.reserve(c.ops.size());
    for (size_t i = 0; i < c.ops.size(); i++) g_ops.push_back(parse_op(c.ops[i], c.raw[i]));
    g_tstart = g_ops.size();
    for (size_t i = 0; i < g_ops.size(); i++) if (g_ops[i].ok && g_ops[i].t == 'T') { g_tstart = i; break; }
    one_run('x');
    one_run('c');
}

} // namespace

int main() { return vh::run_all(run_case); }
