// C12 correspondence harness: runs the real command-line parser on one argument vector per case.
//
// ops (one case = one argument vector, program name "prog" is added by the harness):
//   time <ms>                          value returned by GetPlatformSpecificTimeInMillis (default 123456)
//   arg <hex>                          one raw argument (arbitrary NUL-free bytes; "-" = empty string)
//   opt <A|S> <spec words> = <hex>..   one documented option (abstract description for the oracle)
//                                      together with its rendering; the harness uses the part after "="
//   bad <spec words> = <hex>..         a documented rejection (-h, -s0, -t without group.name, unknown -o kind,
//                                      unknown argument), same convention
// at the end of every case the harness itself emits
//   > parse    CommandLineArguments(ac, av).parse(plugin): result, every getter, the filter chains
//              (asString()), which tests of the 12-test probe registry the filters select
//   > run      a CommandLineTestRunner over the probe registry with recording outputs: outputs created,
//              help/usage printed, registry calls, tests run (in order), return value.  Skipped when the
//              repeat count is above 3 (also for a rejected vector: a broken runner would repeat for ever).
//   > plugins  (emitted first) every argument that starts with "-p" and is longer than "-p" is handed to the head of
//              the plugin chain (TestPlugin::parseAllArguments): which recording plugins were asked, the answer
//   > runall   the static CommandLineTestRunner::RunAllTests(ac, av) on the same registry (real outputs; console
//              captured through PlatformSpecificFPuts, files stubbed): plugins installed/removed around the run,
//              help/usage, tests run, return value; which REAL outputs were created: names of the files opened
//              (sorted, unique), TeamCity service messages seen, the shuffle seed line and
//              the "Test run i of n" lines.  Skipped like `run`.
//   (`run` also reports `seedline` / `runheaders` of the recording console; `plugins` reports what the real
//    MemoryReporterPlugin made of a -pmemoryreport=<type> argument: `memformatter <hex type> <normal|code|none>`)
// Plugin chain (head first): RecA("-pacc…"), SetPointerPlugin, RecB("-pb…"), MemoryLeakWarningPlugin,
// MockSupportPlugin, MemoryReporterPlugin, RecC("-pc…").
// Environment lines (inputs of the model): `time`, `plugin <chain index> <hexarg> <ret>`.
#include "common.h"
#include <fcntl.h>
#include "CppUTest/TestHarness.h"
#include "CppUTest/CommandLineArguments.h"
#include "CppUTest/CommandLineTestRunner.h"
#include "CppUTest/TestRegistry.h"
#include "CppUTest/TestPlugin.h"
#include "CppUTest/TestOutput.h"
#include "CppUTest/TestFilter.h"
#include "CppUTest/MemoryLeakWarningPlugin.h"
#include "CppUTest/PlatformSpecificFunctions.h"
#include "CppUTestExt/MockSupportPlugin.h"
#include "CppUTestExt/MemoryReporterPlugin.h"
#include "CppUTestExt/MemoryReportFormatter.h"
#include "CppUTestExt/CodeMemoryReportFormatter.h"
#include <set>

#undef new

namespace {

unsigned long g_time = 123456;
unsigned long fake_time() { return g_time; }

// a recording plugin: its answer is a function of the argument it is asked about
std::vector<int> g_asked;
struct RecPlugin : public TestPlugin {
    int idx; std::string accepts; bool quiet;
    RecPlugin(int i, const char* name, const char* prefix) : TestPlugin(name), idx(i), accepts(prefix), quiet(false) {}
    bool parseArguments(int ac, const char* const* av, int index) CPPUTEST_OVERRIDE {
        std::string a = (index >= 0 && index < ac) ? av[index] : "";
        bool ret = a.compare(0, accepts.size(), accepts) == 0;
        g_asked.push_back(idx);
        if (!quiet) vh::emit("plugin %d %s %d", idx, vh::hex(a).c_str(), ret ? 1 : 0);
        return ret;
    }
};

// the real MemoryReporterPlugin; records what `-pmemoryreport=<type>` makes of its argument
struct RecMemoryReporter : public MemoryReporterPlugin {
    bool quiet;
    RecMemoryReporter() : quiet(false) {}
    MemoryReportFormatter* createMemoryFormatter(const SimpleString& type) CPPUTEST_OVERRIDE {
        MemoryReportFormatter* f = MemoryReporterPlugin::createMemoryFormatter(type);
        const char* kind = !f ? "none" : dynamic_cast<CodeMemoryReportFormatter*>(f) ? "code"
                         : dynamic_cast<NormalMemoryReportFormatter*>(f) ? "normal" : "other";
        if (!quiet) vh::emit("memformatter %s %s", vh::hex(std::string(type.asCharString())).c_str(), kind);
        return f;
    }
};

// the chain of the harness: three recording plugins around the real ones
struct Chain {
    RecPlugin a, b, c;
    SetPointerPlugin setPointer;
    MemoryLeakWarningPlugin memLeak;
    MockSupportPlugin mock;
    RecMemoryReporter memReport;
    Chain() : a(0, "RecA", "-pacc"), b(2, "RecB", "-pb"), c(6, "RecC", "-pc"), setPointer("HarnessSetPointer"),
              memLeak("HarnessMemLeak"), mock("HarnessMock") {}
    void quiet(bool q) { a.quiet = b.quiet = c.quiet = memReport.quiet = q; }
    void installInto(TestRegistry& r) {      // installPlugin prepends: last installed = head
        r.installPlugin(&c); r.installPlugin(&memReport); r.installPlugin(&mock); r.installPlugin(&memLeak);
        r.installPlugin(&b); r.installPlugin(&setPointer); r.installPlugin(&a);
    }
};

std::string g_put;
void cap_flush() {}
std::vector<std::string> g_files;
PlatformSpecificFile stub_fopen(const char* name, const char*) { g_files.push_back(name ? name : ""); return (PlatformSpecificFile) &g_put; }
void stub_fputs(const char* str, PlatformSpecificFile f) { if (f == PlatformSpecificStdOut) g_put += str; }   // files: dropped
void stub_fclose(PlatformSpecificFile) {}

// what the (console-like) output printed about shuffling and repetition:
//   seedline <n|->        the number after "Test order shuffling enabled with seed: " (first occurrence)
//   runheaders <i/n,..|-> every line "Test run <i> of <n>"
void emit_console_facts(const std::string& text) {
    static const std::string key = "Test order shuffling enabled with seed: ";
    size_t p = text.find(key);
    if (p == std::string::npos) vh::emit("seedline -");
    else {
        size_t q = p + key.size(), e = q;
        while (e < text.size() && text[e] != '\n') e++;
        vh::emit("seedline %s", text.substr(q, e - q).c_str());
    }
    std::string heads;
    size_t pos = 0;
    while (pos < text.size()) {
        size_t e = text.find('\n', pos);
        if (e == std::string::npos) e = text.size();
        std::string line = text.substr(pos, e - pos);
        unsigned long i = 0, n = 0; char tail = 0;
        if (line.compare(0, 9, "Test run ") == 0 && sscanf(line.c_str(), "Test run %lu of %lu%c", &i, &n, &tail) == 2) {
            char b[64]; snprintf(b, sizeof b, "%s%lu/%lu", heads.empty() ? "" : ",", i, n); heads += b;
        }
        pos = e + 1;
    }
    vh::emit("runheaders %s", heads.empty() ? "-" : heads.c_str());
}

struct Probe { const char* group; const char* name; bool ignored; };
const Probe PROBES[12] = {
    {"Alpha", "one", false}, {"Alpha", "two", false}, {"Alpha", "onetwo", false},
    {"AlphaBeta", "one", false}, {"AlphaBeta", "One", false}, {"Beta", "two", false},
    {"Beta", "t_1", false}, {"beta", "one", false}, {"G1", "x", false},
    {"G1", "one", false}, {"Net_IO", "two", true}, {"Alpha", "x", true},
};

int g_pipe[2] = {-1, -1};

struct ProbeTest : public Utest {
    int idx;
    explicit ProbeTest(int i) : idx(i) {}
    void testBody() CPPUTEST_OVERRIDE { unsigned char b = (unsigned char) idx; if (write(g_pipe[1], &b, 1) != 1) _exit(3); }
};
struct ProbeShell : public UtestShell {
    int idx;
    ProbeShell(int i) : UtestShell(PROBES[i].group, PROBES[i].name, "probe.cpp", (size_t) (10 + i)), idx(i) {}
    Utest* createTest() CPPUTEST_OVERRIDE { return new ProbeTest(idx); }
};
struct ProbeIgnoredShell : public IgnoredUtestShell {
    int idx;
    ProbeIgnoredShell(int i) : IgnoredUtestShell(PROBES[i].group, PROBES[i].name, "probe.cpp", (size_t) (10 + i)), idx(i) {}
    Utest* createTest() CPPUTEST_OVERRIDE { return new ProbeTest(idx); }
};

std::vector<std::string> g_calls;

bool g_logPlugins = false;

struct RecRegistry : public TestRegistry {
    void installPlugin(TestPlugin* p) CPPUTEST_OVERRIDE {
        if (g_logPlugins) g_calls.push_back(std::string("install:") + p->getName().asCharString());
        TestRegistry::installPlugin(p);
    }
    void removePluginByName(const SimpleString& name) CPPUTEST_OVERRIDE {
        if (g_logPlugins) g_calls.push_back(std::string("remove:") + name.asCharString());
        TestRegistry::removePluginByName(name);
    }
    void runAllTests(TestResult& r) CPPUTEST_OVERRIDE { g_calls.push_back("runAllTests"); TestRegistry::runAllTests(r); }
    void shuffleTests(size_t seed) CPPUTEST_OVERRIDE {
        char b[64]; snprintf(b, sizeof b, "shuffleTests:%lu", (unsigned long) seed); g_calls.push_back(b);
        TestRegistry::shuffleTests(seed);
    }
    void reverseTests() CPPUTEST_OVERRIDE { g_calls.push_back("reverseTests"); TestRegistry::reverseTests(); }
    void listTestGroupNames(TestResult& r) CPPUTEST_OVERRIDE { g_calls.push_back("listTestGroupNames"); TestRegistry::listTestGroupNames(r); }
    void listTestGroupAndCaseNames(TestResult& r) CPPUTEST_OVERRIDE { g_calls.push_back("listTestGroupAndCaseNames"); TestRegistry::listTestGroupAndCaseNames(r); }
    void listTestLocations(TestResult& r) CPPUTEST_OVERRIDE { g_calls.push_back("listTestLocations"); TestRegistry::listTestLocations(r); }
    void setRunTestsInSeperateProcess() CPPUTEST_OVERRIDE { g_calls.push_back("setRunTestsInSeperateProcess"); TestRegistry::setRunTestsInSeperateProcess(); }
};

std::string g_console;
std::vector<std::string> g_outputs;

struct RecConsole : public ConsoleTestOutput {
    void printBuffer(const char* s) CPPUTEST_OVERRIDE { g_console += s; }
    void flush() CPPUTEST_OVERRIDE {}
    int verbosity() const { return (int) verbose_; }
    bool colored() const { return color_; }
};
RecConsole* g_lastConsole = 0;

struct RecOther : public TestOutput {          // stands for the JUnit / TeamCity writer (no files are written)
    void printBuffer(const char*) CPPUTEST_OVERRIDE {}
    void flush() CPPUTEST_OVERRIDE {}
};

struct ProbeRunner : public CommandLineTestRunner {
    ProbeRunner(int ac, const char* const* av, TestRegistry* r) : CommandLineTestRunner(ac, av, r) {}
    TestOutput* createTeamCityOutput() CPPUTEST_OVERRIDE { g_outputs.push_back("teamcity"); return new RecOther; }
    TestOutput* createJUnitOutput(const SimpleString& pkg) CPPUTEST_OVERRIDE {
        g_outputs.push_back("junit:" + vh::hex(std::string(pkg.asCharString()))); return new RecOther;
    }
    TestOutput* createConsoleOutput() CPPUTEST_OVERRIDE { g_outputs.push_back("console"); g_lastConsole = new RecConsole; return g_lastConsole; }
    TestOutput* createCompositeOutput(TestOutput* a, TestOutput* b) CPPUTEST_OVERRIDE {
        g_outputs.push_back("composite"); return CommandLineTestRunner::createCompositeOutput(a, b);
    }
};

void emit_filters(const char* tag, const TestFilter* f) {
    for (; f; f = f->getNext()) {
        SimpleString s = f->asString();
        vh::emit("%s %s", tag, vh::hex(std::string(s.asCharString())).c_str());
    }
}

void run_case(const vh::Case& c) {
    MemoryLeakWarningPlugin::turnOffNewDeleteOverloads();   // plain malloc/new: ASan sees every string buffer exactly
    GetPlatformSpecificTimeInMillis = fake_time;
    std::vector<std::string> args;
    args.push_back("prog");
    for (size_t i = 0; i < c.ops.size(); i++) {
        const vh::Words& w = c.ops[i];
        if (w[0] == "time" && w.size() >= 2) { g_time = (unsigned long) vh::to_u64(w[1]); vh::emit_op(c.raw[i]); }
        else if (w[0] == "arg" && w.size() >= 2) { args.push_back(vh::unhex(w[1])); vh::emit_op(c.raw[i]); }
        else if (w[0] == "opt" || w[0] == "bad") {
            size_t k = 1;
            while (k < w.size() && w[k] != "=") k++;
            if (k >= w.size()) { vh::emit("> skip"); continue; }
            for (size_t j = k + 1; j < w.size(); j++) args.push_back(vh::unhex(w[j]));
            vh::emit_op(c.raw[i]);
        }
        else vh::emit("> skip");
    }
    // exact-size heap copies of every argument (no slack after the terminator)
    std::vector<char*> av;
    for (size_t i = 0; i < args.size(); i++) {
        char* p = (char*) malloc(args[i].size() + 1);
        memcpy(p, args[i].c_str(), args[i].size() + 1);
        av.push_back(p);
    }
    int ac = (int) av.size();

    Chain chain;
    TestRegistry chainHolder;
    chain.installInto(chainHolder);
    TestPlugin* head = chainHolder.getFirstPlugin();

    // ---- stage 0: the plugin chain on every -p<x> argument
    vh::emit("> plugins");
    for (int i = 1; i < ac; i++) {
        if (strncmp(av[i], "-p", 2) != 0 || av[i][2] == 0) continue;
        g_asked.clear();
        bool ret = head->parseAllArguments(ac, av.data(), i);
        std::string asked;
        for (size_t k = 0; k < g_asked.size(); k++) { char b[8]; snprintf(b, sizeof b, "%s%d", k ? "," : "", g_asked[k]); asked += b; }
        vh::emit("chain %s asked=%s ret=%d", vh::hex(std::string(av[i])).c_str(), asked.empty() ? "-" : asked.c_str(), ret ? 1 : 0);
    }
    chain.quiet(true);

    // ---- stage 1: the parser
    vh::emit("> parse");
    vh::emit("time %lu", g_time);
    size_t repeat = 0; bool ok = false;
    {
        CommandLineArguments a(ac, av.data());
        ok = a.parse(head);
        vh::emit("result %s", ok ? "ok" : "reject");
        vh::emit("needHelp %d", (int) a.needHelp());
        vh::emit("verbose %d", (int) a.isVerbose());
        vh::emit("veryVerbose %d", (int) a.isVeryVerbose());
        vh::emit("color %d", (int) a.isColor());
        vh::emit("separateProcess %d", (int) a.runTestsInSeperateProcess());
        vh::emit("listGroups %d", (int) a.isListingTestGroupNames());
        vh::emit("listNames %d", (int) a.isListingTestGroupAndCaseNames());
        vh::emit("listLocations %d", (int) a.isListingTestLocations());
        vh::emit("runIgnored %d", (int) a.isRunIgnored());
        vh::emit("reversing %d", (int) a.isReversing());
        vh::emit("crashOnFail %d", (int) a.isCrashingOnFail());
        vh::emit("rethrow %d", (int) a.isRethrowingExceptions());
        vh::emit("repeat %lu", (unsigned long) a.getRepeatCount());
        vh::emit("shuffling %d", (int) a.isShuffling());
        vh::emit("seed %lu", (unsigned long) a.getShuffleSeed());
        vh::emit("output eclipse=%d junit=%d teamcity=%d", (int) a.isEclipseOutput(), (int) a.isJUnitOutput(), (int) a.isTeamCityOutput());
        vh::emit("package %s", vh::hex(std::string(a.getPackageName().asCharString())).c_str());
        emit_filters("gfilter", a.getGroupFilters());
        emit_filters("nfilter", a.getNameFilters());
        std::string sel;
        for (int i = 0; i < 12; i++) {
            UtestShell t(PROBES[i].group, PROBES[i].name, "probe.cpp", 1);
            sel.push_back(t.shouldRun(a.getGroupFilters(), a.getNameFilters()) ? '1' : '0');
        }
        vh::emit("select %s", sel.c_str());
        repeat = a.getRepeatCount();
    }

    // ---- stage 2: the runner applies the configuration
    vh::emit("> run");
    if (repeat > 3) { vh::emit("skipped"); }
    else {
        if (pipe(g_pipe) != 0) _exit(3);
        fcntl(g_pipe[0], F_SETFL, O_NONBLOCK);
        RecRegistry registry;
        std::vector<UtestShell*> shells;
        for (int i = 0; i < 12; i++)
            shells.push_back(PROBES[i].ignored ? (UtestShell*) new ProbeIgnoredShell(i) : (UtestShell*) new ProbeShell(i));
        for (int i = 11; i >= 0; i--) registry.addTest(shells[(size_t) i]);    // addTest prepends: order 0..11
        chain.installInto(registry);
        g_logPlugins = true;
        int rc;
        int verbosity = -1, colored = -1;
        {
            ProbeRunner runner(ac, av.data(), &registry);
            rc = runner.runAllTestsMain();
            if (g_lastConsole) { verbosity = g_lastConsole->verbosity(); colored = g_lastConsole->colored() ? 1 : 0; }
        }
        g_logPlugins = false;
        vh::emit("rc %d", rc);
        std::string outs;
        for (size_t i = 0; i < g_outputs.size(); i++) outs += (i ? "," : "") + g_outputs[i];
        vh::emit("outputs %s", outs.empty() ? "-" : outs.c_str());
        vh::emit("console verbosity=%d color=%d", verbosity, colored);
        CommandLineArguments texts(0, 0);
        vh::emit("printed %s", g_console == texts.help() ? "help" : g_console == texts.usage() ? "usage" : "other");
        emit_console_facts(g_console);
        std::string calls;
        for (size_t i = 0; i < g_calls.size(); i++) calls += (i ? "," : "") + g_calls[i];
        vh::emit("calls %s", calls.empty() ? "-" : calls.c_str());
        std::vector<int> ran;
        unsigned char buf[256]; ssize_t n;
        while ((n = read(g_pipe[0], buf, sizeof buf)) > 0) for (ssize_t i = 0; i < n; i++) ran.push_back(buf[i]);
        bool shuffled = false;
        for (size_t i = 0; i < g_calls.size(); i++) if (g_calls[i].compare(0, 12, "shuffleTests") == 0) shuffled = true;
        if (shuffled) std::sort(ran.begin(), ran.end());     // the order is rand()'s business (C02)
        std::string rs;
        for (size_t i = 0; i < ran.size(); i++) { char b[8]; snprintf(b, sizeof b, "%s%d", i ? "," : "", ran[i]); rs += b; }
        vh::emit("ran %s %s", shuffled ? "sorted" : "inorder", rs.empty() ? "-" : rs.c_str());
        const TestTerminator* term = &UtestShell::getCurrentTestTerminator();
        vh::emit("statics crashOnFail=%d rethrow=%d", dynamic_cast<const CrashingTestTerminator*>(term) ? 1 : 0,
                 (int) UtestShell::isRethrowingExceptions());
        UtestShell::restoreDefaultTestTerminator();
        UtestShell::setRethrowExceptions(true);
        for (size_t i = 0; i < shells.size(); i++) delete shells[i];
        close(g_pipe[0]); close(g_pipe[1]);
    }

    // ---- stage 3: the static entry point CommandLineTestRunner::RunAllTests(ac, av)
    vh::emit("> runall");
    if (repeat > 3) { vh::emit("skipped"); }
    else {
        g_calls.clear(); g_put.clear(); g_files.clear();
        if (pipe(g_pipe) != 0) _exit(3);
        fcntl(g_pipe[0], F_SETFL, O_NONBLOCK);
        RecRegistry registry;
        std::vector<UtestShell*> shells;
        for (int i = 0; i < 12; i++)
            shells.push_back(PROBES[i].ignored ? (UtestShell*) new ProbeIgnoredShell(i) : (UtestShell*) new ProbeShell(i));
        for (int i = 11; i >= 0; i--) registry.addTest(shells[(size_t) i]);
        chain.installInto(registry);
        int before = registry.countPlugins();
        registry.setCurrentRegistry(&registry);
        void (*oldFlush)(void) = PlatformSpecificFlush;
        void (*oldFPuts)(const char*, PlatformSpecificFile) = PlatformSpecificFPuts;
        PlatformSpecificFlush = cap_flush;
        PlatformSpecificFOpen = stub_fopen; PlatformSpecificFPuts = stub_fputs; PlatformSpecificFClose = stub_fclose;
        g_logPlugins = true;
        int rc = CommandLineTestRunner::RunAllTests(ac, av.data());
        g_logPlugins = false;
        PlatformSpecificFPuts = oldFPuts; PlatformSpecificFlush = oldFlush;
        registry.setCurrentRegistry(0);
        vh::emit("rc %d", rc);
        CommandLineArguments texts(0, 0);
        vh::emit("printed %s", g_put == texts.help() ? "help" : g_put == texts.usage() ? "usage" : "other");
        // the REAL outputs created by createJUnitOutput / createTeamCityOutput / createConsoleOutput / createCompositeOutput:
        // files opened (JUnit: one per group, name carries the -k package), TeamCity service messages, console text
        emit_console_facts(g_put);
        {
            bool shuf = false;
            for (size_t i = 0; i < g_calls.size(); i++) if (g_calls[i].compare(0, 12, "shuffleTests") == 0) shuf = true;
            std::set<std::string> names;                                       // order and multiplicity are C16's business
            for (size_t i = 0; i < g_files.size(); i++) {
                const std::string& f = g_files[i];
                // a group block without a started test is written under the empty group name ("…_.xml"; no probe group
                // ends with '_'); whether such a block exists after shuffling depends on rand(): dropped then
                bool emptyGroup = f.size() >= 5 && f.compare(f.size() - 5, 5, "_.xml") == 0;
                if (!(shuf && emptyGroup)) names.insert(f);
            }
            std::string fs;
            for (std::set<std::string>::const_iterator it = names.begin(); it != names.end(); ++it) fs += (fs.empty() ? "" : ",") + vh::hex(*it);
            vh::emit("files %s", fs.empty() ? "-" : fs.c_str());
            vh::emit("teamcity %d", g_put.find("##teamcity[") != std::string::npos ? 1 : 0);
        }
        std::string calls;
        for (size_t i = 0; i < g_calls.size(); i++) calls += (i ? "," : "") + g_calls[i];
        vh::emit("calls %s", calls.empty() ? "-" : calls.c_str());
        std::vector<int> ran;
        unsigned char buf[256]; ssize_t n;
        while ((n = read(g_pipe[0], buf, sizeof buf)) > 0) for (ssize_t i = 0; i < n; i++) ran.push_back(buf[i]);
        bool shuffled = false;
        for (size_t i = 0; i < g_calls.size(); i++) if (g_calls[i].compare(0, 12, "shuffleTests") == 0) shuffled = true;
        if (shuffled) std::sort(ran.begin(), ran.end());
        std::string rs;
        for (size_t i = 0; i < ran.size(); i++) { char b[8]; snprintf(b, sizeof b, "%s%d", i ? "," : "", ran[i]); rs += b; }
        vh::emit("ran %s %s", shuffled ? "sorted" : "inorder", rs.empty() ? "-" : rs.c_str());
        vh::emit("registry plugins before=%d after=%d memleak=%d setpointer=%d", before, registry.countPlugins(),
                 registry.getPluginByName(DEF_PLUGIN_MEM_LEAK) ? 1 : 0, registry.getPluginByName(DEF_PLUGIN_SET_POINTER) ? 1 : 0);
        for (size_t i = 0; i < shells.size(); i++) delete shells[i];
    }
    for (size_t i = 0; i < av.size(); i++) free(av[i]);
}

} // namespace

int main() { return vh::run_all(run_case); }
