// Shared by h_c16.cpp (JUnit) and h_c20.cpp (TeamCity): a private TestRegistry filled with scripted
// test shells described by operation lines, run through the real runner with a given TestOutput.
//
//   package <hex>                              (used by C16 only)
//   filter <hex pattern> <strict 0|1> <invert 0|1>
//   repeat <n>                                 the SAME output object receives n runs of the registry (CommandLineTestRunner's
//                                              -r<n> loop: printTestRun(i, n), a fresh TestResult, runAllTests)
//   verbose <0|1|2>                            TestOutput::verbose(level_quiet | level_verbose | level_veryVerbose) before the run
//   test <hex group> <hex name> <hex file> <line> <run|ign>     (ign = IgnoredUtestShell)
//   print <hex file> <line> <hex text>         UtestShell::print(text, file, line)
//   fail  <hex file> <line> <hex message>      addFailure(TestFailure(..)), the test goes on
//   failx <hex file> <line> <hex message>      UtestShell::fail(..): counts a check, leaves the test
//   failmsg <hex message>                      addFailure(TestFailure(cur, message)): the constructor without a location
//   failloc <hex file> <line>                  addFailure(TestFailure(cur, file, line)): the constructor without a message
//   postfail <hex message>                     a TestPlugin's postTestAction does result.addFailure(TestFailure(&test, message))
//   checks <n>                                 countCheck() n times
//   tick <ms>                                  the stubbed millisecond clock advances
//   realio                                     real-I/O sub-mode for the next run(s): the file / stdout function pointers stay at the
//                                              platform's real implementations (see h_c16.cpp / h_c20.cpp)
//   separate                                   (C20, with realio) run with -p: every test in its own process
//   run
//
// The millisecond clock and the time string are stubbed through their function-pointer seams:
// the clock only moves on `tick`, so test and group times are determined by the script.
#ifndef VERIF_H_C16_UTIL_H
#define VERIF_H_C16_UTIL_H
#include "common.h"
#include "CppUTest/TestHarness.h"
#include "CppUTest/TestRegistry.h"
#include "CppUTest/TestOutput.h"
#include "CppUTest/TestResult.h"
#include "CppUTest/TestFilter.h"
#include "CppUTest/TestFailure.h"
#include "CppUTest/TestPlugin.h"
#include "CppUTest/PlatformSpecificFunctions.h"

namespace vo {

static unsigned long g_clock = 0;
static unsigned long fake_millis() { return g_clock; }
static const char* g_time_string = "2001-02-03T04:05:06";     // h_c16 replaces it on `timestr <hex>`
static const char* fake_time_string() { return g_time_string; }
static bool g_real_time_string = false;                        // h_c16 `realtime`: leave the platform's own time string in place
static const char* (*g_platform_time_string)() = 0;

struct Action {
    enum Kind { PRINT, FAIL, FAILX, FAILMSG, FAILLOC, POSTFAIL, CHECKS, TICK } kind;
    std::string file, text;
    size_t line, n;
};

struct Script {
    std::string group, name, file;
    size_t line;
    bool ignored;
    std::vector<Action> acts;
};

inline void run_actions(const std::vector<Action>& acts) {
    for (size_t i = 0; i < acts.size(); i++) {
        const Action& a = acts[i];
        UtestShell* cur = UtestShell::getCurrent();
        switch (a.kind) {
        case Action::PRINT: cur->print(a.text.c_str(), a.file.c_str(), a.line); break;
        case Action::FAIL: cur->addFailure(TestFailure(cur, a.file.c_str(), a.line, SimpleString(a.text.c_str()))); break;
        case Action::FAILX: cur->fail(a.text.c_str(), a.file.c_str(), a.line); break;   // does not return
        case Action::FAILMSG: cur->addFailure(TestFailure(cur, SimpleString(a.text.c_str()))); break;
        case Action::FAILLOC: cur->addFailure(TestFailure(cur, a.file.c_str(), a.line)); break;
        case Action::POSTFAIL: break;      // belongs to the plugin
        case Action::CHECKS: for (size_t k = 0; k < a.n; k++) cur->countCheck(); break;
        case Action::TICK: g_clock += a.n; break;
        }
    }
}

class ScriptedUtest : public Utest {
public:
    explicit ScriptedUtest(const Script* s) : s_(s) {}
    void testBody() CPPUTEST_OVERRIDE { run_actions(s_->acts); }
private:
    const Script* s_;
};

class ScriptedShell : public UtestShell {
public:
    explicit ScriptedShell(const Script* s) : UtestShell(s->group.c_str(), s->name.c_str(), s->file.c_str(), s->line), s_(s) {}
    Utest* createTest() CPPUTEST_OVERRIDE { return new ScriptedUtest(s_); }
private:
    const Script* s_;
};

class ScriptedIgnoredShell : public IgnoredUtestShell {
public:
    explicit ScriptedIgnoredShell(const Script* s) : IgnoredUtestShell(s->group.c_str(), s->name.c_str(), s->file.c_str(), s->line), s_(s) {}
    Utest* createTest() CPPUTEST_OVERRIDE { return new ScriptedUtest(s_); }
private:
    const Script* s_;
};

// a plugin whose post-test action reports the script's `postfail` failures, the way the leak plugin or a
// user plugin does: result.addFailure(TestFailure(&test, message))
class ScriptedPlugin : public TestPlugin {
public:
    ScriptedPlugin() : TestPlugin("scripted") {}
    std::map<UtestShell*, const Script*> scripts;
    void postTestAction(UtestShell& test, TestResult& result) CPPUTEST_OVERRIDE {
        std::map<UtestShell*, const Script*>::iterator it = scripts.find(&test);
        if (it == scripts.end()) return;
        const std::vector<Action>& acts = it->second->acts;
        for (size_t i = 0; i < acts.size(); i++)
            if (acts[i].kind == Action::POSTFAIL) result.addFailure(TestFailure(&test, SimpleString(acts[i].text.c_str())));
    }
};

struct Registry {
    std::string package;
    bool has_filter; std::string filter; bool strict, invert;
    int verbosity;
    int repeat;
    bool realio, separate;
    std::vector<Script> scripts;
    Registry() : has_filter(false), strict(false), invert(false), verbosity(0), repeat(1), realio(false), separate(false) {}
};

inline bool is_number(const std::string& s) {
    if (s.empty() || s.size() > 18) return false;
    for (size_t i = 0; i < s.size(); i++) if (s[i] < '0' || s[i] > '9') return false;
    return true;
}
inline bool is_hex(const std::string& s) {
    if (s == "-") return true;
    if (s.empty() || s.size() % 2) return false;
    for (size_t i = 0; i < s.size(); i++) if (vh::hexval(s[i]) < 0) return false;
    return true;
}

inline std::string join(const vh::Words& w) {
    std::string s;
    for (size_t i = 0; i < w.size(); i++) { if (i) s += " "; s += w[i]; }
    return s;
}

// applies one definition line; false = malformed / not applicable (printed as `> skip`)
inline bool apply_op(Registry& r, const vh::Words& w) {
    if (w[0] == "package" && w.size() == 2 && is_hex(w[1])) { r.package = vh::unhex(w[1]); return true; }
    if (w[0] == "repeat" && w.size() == 2 && w[1].size() == 1 && w[1][0] >= '1' && w[1][0] <= '9') { r.repeat = w[1][0] - '0'; return true; }
    if (w[0] == "realio" && w.size() == 1) { r.realio = true; return true; }
    if (w[0] == "separate" && w.size() == 1) { r.separate = true; return true; }
    if (w[0] == "verbose" && w.size() == 2 && (w[1] == "0" || w[1] == "1" || w[1] == "2")) { r.verbosity = w[1][0] - '0'; return true; }
    if (w[0] == "filter" && w.size() == 4 && is_hex(w[1])) {
        r.has_filter = true; r.filter = vh::unhex(w[1]); r.strict = w[2] == "1"; r.invert = w[3] == "1"; return true;
    }
    if (w[0] == "test" && w.size() == 6 && is_hex(w[1]) && is_hex(w[2]) && is_hex(w[3]) && is_number(w[4])) {
        Script s; s.group = vh::unhex(w[1]); s.name = vh::unhex(w[2]); s.file = vh::unhex(w[3]);
        s.line = (size_t) vh::to_u64(w[4]); s.ignored = w[5] == "ign";
        r.scripts.push_back(s); return true;
    }
    if ((w[0] == "print" || w[0] == "fail" || w[0] == "failx") && w.size() == 4 && is_hex(w[1]) && is_number(w[2]) && is_hex(w[3])) {
        if (r.scripts.empty()) return true;      // no test yet: the line has no effect (the model does the same)
        Action a; a.kind = w[0] == "print" ? Action::PRINT : w[0] == "fail" ? Action::FAIL : Action::FAILX;
        a.file = vh::unhex(w[1]); a.line = (size_t) vh::to_u64(w[2]); a.text = vh::unhex(w[3]); a.n = 0;
        r.scripts.back().acts.push_back(a); return true;
    }
    if ((w[0] == "failmsg" || w[0] == "postfail") && w.size() == 2 && is_hex(w[1])) {
        if (r.scripts.empty()) return true;
        Action a; a.kind = w[0] == "failmsg" ? Action::FAILMSG : Action::POSTFAIL; a.line = 0; a.n = 0; a.text = vh::unhex(w[1]);
        r.scripts.back().acts.push_back(a); return true;
    }
    if (w[0] == "failloc" && w.size() == 3 && is_hex(w[1]) && is_number(w[2])) {
        if (r.scripts.empty()) return true;
        Action a; a.kind = Action::FAILLOC; a.file = vh::unhex(w[1]); a.line = (size_t) vh::to_u64(w[2]); a.n = 0;
        r.scripts.back().acts.push_back(a); return true;
    }
    if ((w[0] == "checks" || w[0] == "tick") && w.size() == 2 && is_number(w[1])) {
        if (r.scripts.empty()) return true;
        Action a; a.kind = w[0] == "checks" ? Action::CHECKS : Action::TICK; a.line = 0; a.n = (size_t) vh::to_u64(w[1]);
        r.scripts.back().acts.push_back(a); return true;
    }
    return false;
}

// the private registry built from the scripts (tests in script order, the scripted plugin installed)
struct Built {
    std::vector<UtestShell*> shells;
    TestRegistry reg;
    ScriptedPlugin plugin;
    explicit Built(const Registry& r) {
        for (size_t i = 0; i < r.scripts.size(); i++) {
            const Script* s = &r.scripts[i];
            if (s->ignored) shells.push_back(new ScriptedIgnoredShell(s));
            else shells.push_back(new ScriptedShell(s));
        }
        for (size_t i = shells.size(); i > 0; i--) reg.addTest(shells[i - 1]);     // addTest prepends
        for (size_t i = 0; i < shells.size(); i++) plugin.scripts[shells[i]] = &r.scripts[i];
        reg.installPlugin(&plugin);
    }
    ~Built() { for (size_t i = 0; i < shells.size(); i++) delete shells[i]; }
};

inline void stub_clock() {
    GetPlatformSpecificTimeInMillis = fake_millis;
    if (!g_platform_time_string) g_platform_time_string = GetPlatformSpecificTimeString;
    GetPlatformSpecificTimeString = g_real_time_string ? g_platform_time_string : fake_time_string;
    g_clock = 0;
}

// builds the private registry and runs it with `out`
inline void run_registry(const Registry& r, TestOutput& out) {
    stub_clock();
    out.verbose(r.verbosity == 2 ? TestOutput::level_veryVerbose : r.verbosity == 1 ? TestOutput::level_verbose : TestOutput::level_quiet);
    Built b(r);
    TestFilter filter(r.filter.c_str());
    if (r.strict) filter.strictMatching();
    if (r.invert) filter.invertMatching();
    if (r.has_filter) b.reg.setNameFilters(&filter);
    for (int i = 1; i <= r.repeat; i++) {          // CommandLineTestRunner::runAllTests' repeat loop
        out.printTestRun((size_t) i, (size_t) r.repeat);
        TestResult result(out);
        b.reg.runAllTests(result);
    }
}

} // namespace vo
#endif
