// C01 correspondence harness: scripted tests run through the real CommandLineTestRunner.
//
// A case describes a test program (tests with setup/body/teardown scripts, plugins that report
// errors, a command line) and then says `run`.  The scripts are interpreted with the REAL
// macros (FAIL, CHECK, FAIL_TEXT_C, CHECK_C, their _LOCATION forms, TEST_EXIT, throw), the tests
// are real UtestShell / IgnoredUtestShell objects in a private TestRegistry, and the registry is
// run by a real CommandLineTestRunner.  Observed, in one stream and in real order:
//   t <hex>                      every string the console output hands to PlatformSpecificFPuts
//   enter <phase> <depth>        the framework called the test's setup()/testBody()/teardown()
//   mark <phase> <n> <depth>     a `mark` statement ran        (depth = jmp_buf_index, hook H1)
//   plug <name> <pre|post> <d>   a plugin action ran
//   ended <depth> <cur> <failed> after runOneTest returned: jmp_buf_index, UtestShell::getCurrent()
//                                ("-" = back outside any test), the shell's hasFailed()
//   clock <v>                    one reading of the clock seam (scripted by the `clock` op; an
//                                environment input of the model)
//   ret <v>                      value returned by runAllTestsMain
//   propagated <std|other>       rethrow mode: the exception left runAllTestsMain
//   final <depth> <cur>
//   (`rethrow <0|1>` between two `run`s: the next CommandLineTestRunner of the same process gets / does not get -e; a case is
//    a SEQUENCE of runner invocations in one process, the program may be extended between them)
//   u <hex>                      `composite` runs (-ojunit -v with the JUnit writer replaced by a second recording console
//                                output): every string output ONE of the CompositeTestOutput received, in order, after `final`
//
// `env <eclipse|vs|detect>`: TestOutput::setWorkingEnvironment before the run (format of the failure location).
// Real-I/O sub-mode (`realio` before `run`): the program is run by the real CommandLineTestRunner in a grand-child whose
// stdout is a fully buffered pipe, with the real ConsoleTestOutput and the platform's fputs/fflush (no seam, no observation
// lines, clock fixed at 0); observed:   out <hex of the bytes that arrived on the pipe> / ret <v> / final <depth> -
#include "common.h"
#include <errno.h>
#include <stdexcept>
#include "CppUTest/TestHarness.h"
#include "CppUTest/TestHarness_c.h"
#include "CppUTest/TestRegistry.h"
#include "CppUTest/TestOutput.h"
#include "CppUTest/TestPlugin.h"
#include "CppUTest/TestFailure.h"
#include "CppUTest/CommandLineTestRunner.h"
#include "CppUTest/PlatformSpecificFunctions.h"

#ifndef CPPUTEST_VERIF_HOOKS
#error "the harness needs hook H1 (compile with -DCPPUTEST_VERIF_HOOKS)"
#endif
extern "C" int cpputest_verif_jmp_buf_index(void);

namespace {

const char* const FILES[4] = { "tests/alpha.cpp", "tests/beta.cpp", "src/helper.c", "x" };
const char* const PHASE[3] = { "setup", "body", "teardown" };

enum Kind { MARK, PASS, PASSC, FAILCPP, CHECKCPP, FAILC, CHECKC, FAILPLAIN, CHECKPLAIN, FAILCPLAIN, CHECKCPLAIN,
            FAILTEST, FAILTESTPLAIN, SHELLFAIL, SHELLFAILC, THROWSTD, THROWOTHER, EXITTEST, EXITTESTC, CHECKKIND };

// one real check per assert function / macro family (`checkKind <k> <pass|fail> <file> <line>`)
enum CK { CK_CHECK, CK_CHECKTEXT, CK_CHECKEQUAL, CK_LONGS, CK_ULONGS, CK_LONGLONGS, CK_ULONGLONGS, CK_BYTES, CK_SBYTES,
          CK_POINTERS, CK_FPOINTERS, CK_DOUBLES, CK_STRCMP, CK_STRNCMP, CK_STRCMPNOCASE, CK_STRCMPCONTAINS,
          CK_STRCMPNOCASECONTAINS, CK_MEMCMP0, CK_MEMCMP, CK_BITS, CK_COMPARE, CK_ENUMSINT, CK_THROWS,
          CK_CINT, CK_CREAL, CK_CSTRING, CK_CPOINTER, CK_CMEMCMP0, CK_CMEMCMP, CK_CBITS, CK_CHECKC, CK_COUNT };
const char* const CKNAME[CK_COUNT] = { "check", "checkText", "checkEqual", "longs", "ulongs", "longlongs", "ulonglongs", "bytes",
          "sbytes", "pointers", "fpointers", "doubles", "strcmp", "strncmp", "strcmpNocase", "strcmpContains",
          "strcmpNocaseContains", "memcmp0", "memcmp", "bits", "compare", "enumsInt", "throws",
          "cInt", "cReal", "cString", "cPointer", "cMemcmp0", "cMemcmp", "cBits", "checkC" };

struct St { Kind kind; int n; int file; size_t line; int ck; bool pass; };   // file: -1 = the test's own file

struct TestDef {
    std::string label, group, name;
    const char* file; size_t line; bool ignored;
    std::vector<St> ph[3];
};

struct PErr { std::string only; const char* file; size_t line; };   // only == "*": every test

struct PluginDef { std::string name; bool enabled; std::vector<PErr> pre, post; };

#if CPPUTEST_HAVE_EXCEPTIONS
void maybe_throw(bool yes) { if (yes) throw std::runtime_error("x"); }
#endif

// ---- the plain macros: one site each, on five consecutive lines
enum { SITE_LINE0 = __LINE__ + 1 };
void site_fail_plain()   { FAIL("failplain"); }
void site_check_plain()  { CHECK(false); }
void site_failc_plain()  { FAIL_TEXT_C("failcplain"); }
void site_checkc_plain() { CHECK_C(0); }
void site_failtest_plain() { FAIL_TEST("failtestplain"); }
void site_bytes(int a) { BYTES_EQUAL(0x101, a); }
void site_compare(int b) { CHECK_COMPARE(1, <, b); }
#if CPPUTEST_HAVE_EXCEPTIONS
void site_throws(bool pass) { CHECK_THROWS(std::runtime_error, maybe_throw(pass)); }
#else
void site_throws(bool) { }
#endif
enum { SITE_COUNT = 8 };

void fp_a() {}
void fp_b() {}
enum Colour { RED = 1, BLUE = 2 };

// ONE real check of kind `ck`; `pass` chooses operands that satisfy / violate it (with length 0 both pass)
void do_check(int ck, bool pass, const char* f, size_t l) {
    static const unsigned char m1[3] = { 1, 2, 3 }, m2[3] = { 1, 2, 3 }, m3[3] = { 1, 9, 3 };
    static int target1 = 0, target2 = 0;
    switch (ck) {
    case CK_CHECK: CHECK_TRUE_LOCATION(pass, "CHECK", "cond", NULLPTR, f, l); break;
    case CK_CHECKTEXT: CHECK_TRUE_LOCATION((bool) (pass), "CHECK", "cond", "txt", f, l); break;
    case CK_CHECKEQUAL: CHECK_EQUAL_LOCATION(1, pass ? 1 : 2, NULLPTR, f, l); break;
    case CK_LONGS: LONGS_EQUAL_LOCATION(1, pass ? 1 : 2, NULLPTR, f, l); break;
    case CK_ULONGS: UNSIGNED_LONGS_EQUAL_LOCATION(1, pass ? 1 : 2, NULLPTR, f, l); break;
    case CK_LONGLONGS: LONGLONGS_EQUAL_LOCATION(1, pass ? 1 : 2, NULLPTR, f, l); break;
    case CK_ULONGLONGS: UNSIGNED_LONGLONGS_EQUAL_LOCATION(1, pass ? 1 : 2, NULLPTR, f, l); break;
    case CK_BYTES: site_bytes(pass ? 0x201 : 0x202); break;
    case CK_SBYTES: SIGNED_BYTES_EQUAL_TEXT_LOCATION(-1, pass ? -1 : 2, NULLPTR, f, l); break;
    case CK_POINTERS: POINTERS_EQUAL_LOCATION((void*) 0x1000, pass ? (void*) 0x1000 : (void*) 0x2000, NULLPTR, f, l); break;
    case CK_FPOINTERS: FUNCTIONPOINTERS_EQUAL_LOCATION((void (*)()) 0x1000, pass ? (void (*)()) 0x1000 : (void (*)()) 0x2000, NULLPTR, f, l); break;
    case CK_DOUBLES: DOUBLES_EQUAL_LOCATION(10.0, pass ? 10.0 : 20.0, 5.0, NULLPTR, f, l); break;
    case CK_STRCMP: STRCMP_EQUAL_LOCATION("abc", pass ? "abc" : "abd", NULLPTR, f, l); break;
    case CK_STRNCMP: STRNCMP_EQUAL_LOCATION("abc", pass ? "abd" : "axd", 2, NULLPTR, f, l); break;
    case CK_STRCMPNOCASE: STRCMP_NOCASE_EQUAL_LOCATION("abc", pass ? "ABC" : "ABD", NULLPTR, f, l); break;
    case CK_STRCMPCONTAINS: STRCMP_CONTAINS_LOCATION("bc", pass ? "abcd" : "abd", NULLPTR, f, l); break;
    case CK_STRCMPNOCASECONTAINS: STRCMP_NOCASE_CONTAINS_LOCATION("bc", pass ? "aBCd" : "abd", NULLPTR, f, l); break;
    case CK_MEMCMP0: { size_t n = (size_t) (target1 * 0); MEMCMP_EQUAL_LOCATION(m1, pass ? m2 : m3, n, NULLPTR, f, l); } break;
    case CK_MEMCMP: MEMCMP_EQUAL_LOCATION(m1, pass ? m2 : m3, 3, NULLPTR, f, l); break;
    case CK_BITS: BITS_LOCATION(0x15, pass ? 0x35 : 0x14, 0x0F, NULLPTR, f, l); break;
    case CK_COMPARE: site_compare(pass ? 2 : 0); break;
    case CK_ENUMSINT: ENUMS_EQUAL_TYPE_LOCATION(int, RED, pass ? RED : BLUE, NULLPTR, f, l); break;
    case CK_THROWS: site_throws(pass); break;
    case CK_CINT: CHECK_EQUAL_C_INT_LOCATION(1, pass ? 1 : 2, NULLPTR, f, l); break;
    case CK_CREAL: CHECK_EQUAL_C_REAL_LOCATION(10.0, pass ? 10.0 : 20.0, 5.0, NULLPTR, f, l); break;
    case CK_CSTRING: CHECK_EQUAL_C_STRING_LOCATION("abc", pass ? "abc" : "abd", NULLPTR, f, l); break;
    case CK_CPOINTER: CHECK_EQUAL_C_POINTER_LOCATION((void*) 0x1000, pass ? (void*) 0x1000 : (void*) 0x2000, NULLPTR, f, l); break;
    case CK_CMEMCMP0: { size_t n = (size_t) (target1 * 0); CHECK_EQUAL_C_MEMCMP_LOCATION(m1, pass ? m2 : m3, n, NULLPTR, f, l); } break;
    case CK_CMEMCMP: CHECK_EQUAL_C_MEMCMP_LOCATION(m1, pass ? m2 : m3, 3, NULLPTR, f, l); break;
    case CK_CBITS: CHECK_EQUAL_C_BITS_LOCATION(0x15, pass ? 0x35 : 0x14, 0x0F, sizeof(unsigned int), NULLPTR, f, l); break;
    case CK_CHECKC: CHECK_C_LOCATION(pass ? 1 : 0, "cond", NULLPTR, f, l); break;
    }
}

void emit_words(const vh::Words& w) {
    std::string s;
    for (size_t i = 0; i < w.size(); i++) { if (i) s += " "; s += w[i]; }
    vh::emit_op(s);
}

int depth() { return cpputest_verif_jmp_buf_index(); }

bool g_quiet = false;                        // real-I/O sub-mode: no observation lines on stdout
std::vector<std::string>* g_channel_one = 0; // composite runs: what output one received

// The interpreter holds no object with a destructor while a check can fail (a longjmp leaves
// through this frame).
void interpret(const TestDef* d, int ph) {
    if (!g_quiet) vh::emit("enter %s %d", PHASE[ph], depth());
    const std::vector<St>& v = d->ph[ph];
    for (size_t i = 0; i < v.size(); i++) {
        const St& s = v[i];
        const char* f = s.file < 0 ? d->file : FILES[s.file & 3];
        switch (s.kind) {
        case MARK: if (!g_quiet) vh::emit("mark %s %d %d", PHASE[ph], s.n, depth()); break;
        case PASS: CHECK(true); break;
        case PASSC: CHECK_C(1); break;
        case FAILCPP: FAIL_LOCATION("failcpp", f, s.line); break;
        case CHECKCPP: CHECK_TRUE_LOCATION(false, "CHECK", "false", NULLPTR, f, s.line); break;
        case FAILC: FAIL_TEXT_C_LOCATION("failc", f, s.line); break;
        case CHECKC: CHECK_C_LOCATION(0, "0", NULLPTR, f, s.line); break;
        case FAILPLAIN: site_fail_plain(); break;
        case CHECKPLAIN: site_check_plain(); break;
        case FAILCPLAIN: site_failc_plain(); break;
        case CHECKCPLAIN: site_checkc_plain(); break;
        case FAILTEST: FAIL_TEST_LOCATION("failtest", f, s.line); break;
        case FAILTESTPLAIN: site_failtest_plain(); break;
        case SHELLFAIL: UtestShell::getCurrent()->fail("shellfail", f, s.line); break;
        case SHELLFAILC: UtestShell::getCurrent()->fail("shellfailc", f, s.line, TestTerminatorWithoutExceptions()); break;
        case EXITTESTC: UtestShell::getCurrent()->exitTest(TestTerminatorWithoutExceptions()); break;
        case CHECKKIND: do_check(s.ck, s.pass, f, s.line); break;
#if CPPUTEST_HAVE_EXCEPTIONS
        case THROWSTD: throw std::runtime_error("boom");
        case THROWOTHER: throw 42;
#else
        case THROWSTD: case THROWOTHER: break;      // never stored in this build
#endif
        case EXITTEST: TEST_EXIT; break;
        }
    }
}

class ScriptTest : public Utest {
public:
    explicit ScriptTest(const TestDef* d) : d_(d) {}
    void setup() CPPUTEST_OVERRIDE { interpret(d_, 0); }
    void testBody() CPPUTEST_OVERRIDE { interpret(d_, 1); }
    void teardown() CPPUTEST_OVERRIDE { interpret(d_, 2); }
private:
    const TestDef* d_;
};

class ScriptShell : public UtestShell {
public:
    explicit ScriptShell(const TestDef* d) : UtestShell(d->group.c_str(), d->name.c_str(), d->file, d->line), d_(d) {}
    Utest* createTest() CPPUTEST_OVERRIDE { return new ScriptTest(d_); }
private:
    const TestDef* d_;
};

class IgnoredScriptShell : public IgnoredUtestShell {
public:
    explicit IgnoredScriptShell(const TestDef* d) : IgnoredUtestShell(d->group.c_str(), d->name.c_str(), d->file, d->line), d_(d) {}
    Utest* createTest() CPPUTEST_OVERRIDE { return new ScriptTest(d_); }
private:
    const TestDef* d_;
};

class RecordingPlugin : public TestPlugin {
public:
    explicit RecordingPlugin(const PluginDef* d) : TestPlugin(d->name.c_str()), d_(d) {}
    void preTestAction(UtestShell& test, TestResult& result) CPPUTEST_OVERRIDE {
        if (!g_quiet) vh::emit("plug %s pre %d", d_->name.c_str(), depth());
        report(d_->pre, "pre-error", test, result);
    }
    void postTestAction(UtestShell& test, TestResult& result) CPPUTEST_OVERRIDE {
        if (!g_quiet) vh::emit("plug %s post %d", d_->name.c_str(), depth());
        report(d_->post, "post-error", test, result);
    }
private:
    static void report(const std::vector<PErr>& errs, const char* msg, UtestShell& test, TestResult& result) {
        for (size_t i = 0; i < errs.size(); i++)
            if (errs[i].only == "*" || test.getName() == errs[i].only.c_str())
                result.addFailure(TestFailure(&test, errs[i].file, errs[i].line, msg));
    }
    const PluginDef* d_;
};

UtestShell* g_outside = 0;
// an exception left runAllTests (rethrow mode): the process is expected to end; no further run in this case
bool g_process_dirty = false;

std::string current_name() {
    UtestShell* c = UtestShell::getCurrent();
    return c == g_outside ? std::string("-") : std::string(c->getName().asCharString());
}

// the real console output; only adds the observation line after each test
class ObservingOutput : public ConsoleTestOutput {
public:
    ObservingOutput() : cur_(0) {}
    void printCurrentTestStarted(const UtestShell& test) CPPUTEST_OVERRIDE {
        cur_ = &test;
        ConsoleTestOutput::printCurrentTestStarted(test);
    }
    void printCurrentTestEnded(const TestResult& res) CPPUTEST_OVERRIDE {
        vh::emit("ended %d %s %d", depth(), current_name().c_str(), (cur_ && cur_->hasFailed()) ? 1 : 0);
        ConsoleTestOutput::printCurrentTestEnded(res);
    }
private:
    const UtestShell* cur_;
};

// stands in for the JUnit writer as output ONE of the CompositeTestOutput: a console output that records
class ChannelOneOutput : public ConsoleTestOutput {
public:
    void printBuffer(const char* s) CPPUTEST_OVERRIDE { if (g_channel_one) g_channel_one->push_back(s); }
    void flush() CPPUTEST_OVERRIDE {}
};

class Runner : public CommandLineTestRunner {
public:
    Runner(int ac, const char* const* av, TestRegistry* r) : CommandLineTestRunner(ac, av, r) {}
protected:
    TestOutput* createConsoleOutput() CPPUTEST_OVERRIDE {
        if (g_quiet) return new ConsoleTestOutput;       // the real thing, on the real stdout
        return new ObservingOutput;
    }
    TestOutput* createJUnitOutput(const SimpleString&) CPPUTEST_OVERRIDE { return new ChannelOneOutput; }
};

// ---- seams
extern "C" {
static void seam_fputs(const char* s, PlatformSpecificFile) { vh::emit("t %s", vh::hex(s, strlen(s)).c_str()); }
static void seam_flush(void) {}
// scripted clock: reading i = base + step * i + offs[i % n]
static unsigned long g_clock_base = 0, g_clock_step = 0, g_clock_calls = 0;
static unsigned long g_clock_offs[8] = { 0 }; static unsigned g_clock_n = 1;
static unsigned long zero_time(void) { return 0; }
static unsigned long seam_time(void) {
    unsigned long v = g_clock_base + g_clock_step * g_clock_calls + g_clock_offs[g_clock_calls % g_clock_n];
    g_clock_calls++;
    vh::emit("clock %lu", v);
    return v;
}
}

bool is_ident(const std::string& s) {
    if (s.empty() || s.size() > 40) return false;
    for (size_t i = 0; i < s.size(); i++) {
        char c = s[i];
        if (!((c >= 'a' && c <= 'z') || (c >= 'A' && c <= 'Z') || (c >= '0' && c <= '9') || c == '_')) return false;
    }
    return true;
}

int file_index(const std::string& w) {      // "t" = the test's file, "0".."3" = FILES
    if (w == "t") return -1;
    if (w.size() == 1 && w[0] >= '0' && w[0] <= '3') return w[0] - '0';
    return -2;
}

struct Program {
    std::string rep;            // none | bare | a<N> | s<N>
    int verbosity;              // 0, 1 (-v), 2 (-vv), 3 (-v -vv)
    bool runIgnored, color, rethrow, separate, haveCfg, composite, realio;
    std::string env;            // eclipse | vs | detect
    std::vector<std::pair<std::string, std::string> > filters;
    std::vector<PluginDef*> plugins;
    std::vector<TestDef*> tests;
    Program() : rep("none"), verbosity(0), runIgnored(false), color(false), rethrow(false), separate(false), haveCfg(false),
                composite(false), realio(false), env("detect") {}
};

TestDef* find_test(Program& p, const std::string& label) {
    for (size_t i = 0; i < p.tests.size(); i++) if (p.tests[i]->label == label) return p.tests[i];
    return 0;
}
PluginDef* find_plugin(Program& p, const std::string& name) {
    for (size_t i = 0; i < p.plugins.size(); i++) if (p.plugins[i]->name == name) return p.plugins[i];
    return 0;
}

bool parse_stmt(const vh::Words& w, size_t at, St& s) {
    s.n = 0; s.file = -1; s.line = 0; s.ck = 0; s.pass = true;
    if (at >= w.size()) return false;
    const std::string& k = w[at];
    size_t rest = w.size() - at - 1;
    if (k == "checkKind" && rest == 4 && (w[at + 2] == "pass" || w[at + 2] == "fail")) {
        int ck = -1;
        for (int i = 0; i < CK_COUNT; i++) if (w[at + 1] == CKNAME[i]) ck = i;
        if (ck < 0) return false;
#if !CPPUTEST_HAVE_EXCEPTIONS
        if (ck == CK_THROWS) return false;       // the macro does not exist in this build
#endif
        s.kind = CHECKKIND; s.ck = ck; s.pass = w[at + 2] == "pass";
        s.file = file_index(w[at + 3]); s.line = (size_t) vh::to_u64(w[at + 4]);
        return s.file != -2;
    }
    if (k == "mark" && rest == 1) { s.kind = MARK; s.n = (int) vh::to_u64(w[at + 1]); return true; }
    if (k == "pass" && rest == 0) { s.kind = PASS; return true; }
    if (k == "passc" && rest == 0) { s.kind = PASSC; return true; }
    if ((k == "failcpp" || k == "checkcpp" || k == "failc" || k == "checkc" || k == "failtest" || k == "shellfail" ||
         k == "shellfailc") && rest == 2) {
        s.kind = k == "failcpp" ? FAILCPP : k == "checkcpp" ? CHECKCPP : k == "failc" ? FAILC : k == "checkc" ? CHECKC :
                 k == "failtest" ? FAILTEST : k == "shellfail" ? SHELLFAIL : SHELLFAILC;
        s.file = file_index(w[at + 1]); s.line = (size_t) vh::to_u64(w[at + 2]);
        return s.file != -2;
    }
    if (k == "failplain" && rest == 0) { s.kind = FAILPLAIN; return true; }
    if (k == "checkplain" && rest == 0) { s.kind = CHECKPLAIN; return true; }
    if (k == "failcplain" && rest == 0) { s.kind = FAILCPLAIN; return true; }
    if (k == "checkcplain" && rest == 0) { s.kind = CHECKCPLAIN; return true; }
    if (k == "failtestplain" && rest == 0) { s.kind = FAILTESTPLAIN; return true; }
    if (k == "exit" && rest == 0) { s.kind = EXITTEST; return true; }
    if (k == "exitc" && rest == 0) { s.kind = EXITTESTC; return true; }
#if CPPUTEST_HAVE_EXCEPTIONS
    if (k == "throwstd" && rest == 0) { s.kind = THROWSTD; return true; }
    if (k == "throwother" && rest == 0) { s.kind = THROWOTHER; return true; }
#endif
    return false;
}

int run_program(Program& p) {
    std::vector<std::string> args;
    args.push_back("h_c01");
    if (p.composite) args.push_back("-ojunit");   // with -v / -vv: CompositeTestOutput(JUnit stand-in, console)
    if (!p.rethrow) args.push_back("-e");         // rethrow mode off unless the case asks for it
    if (p.verbosity & 1) args.push_back("-v");
    if (p.verbosity & 2) args.push_back("-vv");
    if (p.color) args.push_back("-c");
    if (p.separate) args.push_back("-p");         // every test in a forked child; its lines reach the same stdout, in order
    if (p.runIgnored) args.push_back("-ri");
    for (size_t i = 0; i < p.filters.size(); i++) { args.push_back("-" + p.filters[i].first); args.push_back(p.filters[i].second); }
    if (p.rep == "bare") args.push_back("-r");
    else if (p.rep[0] == 'a') args.push_back("-r" + p.rep.substr(1));
    else if (p.rep[0] == 's') { args.push_back("-r"); args.push_back(p.rep.substr(1)); }
    std::vector<const char*> av;
    for (size_t i = 0; i < args.size(); i++) av.push_back(args[i].c_str());

    TestRegistry reg;
    std::vector<UtestShell*> shells;
    for (size_t i = p.tests.size(); i-- > 0;) {   // addTest prepends: add in reverse so that the run order is the op order
        UtestShell* s = p.tests[i]->ignored ? (UtestShell*) new IgnoredScriptShell(p.tests[i]) : (UtestShell*) new ScriptShell(p.tests[i]);
        shells.push_back(s);
        reg.addTest(s);
    }
    std::vector<RecordingPlugin*> plugins;
    for (size_t i = 0; i < p.plugins.size(); i++) {     // installPlugin prepends: the last one is the head of the chain
        RecordingPlugin* pl = new RecordingPlugin(p.plugins[i]);
        if (!p.plugins[i]->enabled) pl->disable();
        plugins.push_back(pl);
        reg.installPlugin(pl);
    }
    int ret = 0;
    g_clock_calls = 0;
    std::vector<std::string> channel_one;
    g_channel_one = &channel_one;
    TestOutput::setWorkingEnvironment(p.env == "vs" ? TestOutput::visualStudio : p.env == "eclipse" ? TestOutput::eclipse
                                                                                                 : TestOutput::detectEnvironment);
#if CPPUTEST_HAVE_EXCEPTIONS
    const char* propagated = 0;
    try {
        Runner runner((int) av.size(), &av[0], &reg);
        ret = runner.runAllTestsMain();
    }
    catch (const std::exception&) { propagated = "std"; }
    catch (...) { propagated = "other"; }
    if (propagated) { if (!g_quiet) vh::emit("propagated %s", propagated); g_process_dirty = true; ret = -1; }
    else if (!g_quiet) vh::emit("ret %d", ret);
#else
    {
        Runner runner((int) av.size(), &av[0], &reg);
        ret = runner.runAllTestsMain();
    }
    if (!g_quiet) vh::emit("ret %d", ret);
#endif
    TestOutput::setWorkingEnvironment(TestOutput::detectEnvironment);
    g_channel_one = 0;
    if (!g_quiet) {
        vh::emit("final %d %s", depth(), current_name().c_str());
        if (p.composite)
            for (size_t i = 0; i < channel_one.size(); i++) vh::emit("u %s", vh::hex(channel_one[i]).c_str());
    }
    for (size_t i = 0; i < plugins.size(); i++) delete plugins[i];
    for (size_t i = 0; i < shells.size(); i++) delete shells[i];
    return ret;
}

void (*g_real_fputs)(const char*, PlatformSpecificFile) = 0;
void (*g_real_flush)() = 0;

std::string read_all(int fd) {
    std::string data; char buf[65536]; ssize_t n;
    while ((n = read(fd, buf, sizeof buf)) > 0 || (n < 0 && errno == EINTR)) if (n > 0) data.append(buf, (size_t) n);
    return data;
}

// the program through the real runner on the real stdout (a fully buffered pipe) in a process of its own
void run_real_io(Program& p) {
    fflush(stdout); fflush(stderr);
    int fd[2], rfd[2];
    if (pipe(fd) != 0 || pipe(rfd) != 0) { vh::emit("crash realio-child no-pipe"); return; }
    pid_t pid = fork();
    if (pid == 0) {
        alarm(40);
        close(fd[0]); close(rfd[0]);
        dup2(fd[1], 1);
        close(fd[1]);
        setvbuf(stdout, 0, _IOFBF, 0);          // what stdout is when it goes to a pipe or a file
        PlatformSpecificFPuts = g_real_fputs;
        PlatformSpecificFlush = g_real_flush;
        GetPlatformSpecificTimeInMillis = zero_time;
        g_quiet = true;
        int ret = run_program(p);
        fflush(stdout);
        char buf[96];
        int n = snprintf(buf, sizeof buf, "%d %d %s", ret, depth(), current_name().c_str());
        if (write(rfd[1], buf, (size_t) n) < 0) _exit(3);
        _exit(0);
    }
    close(fd[1]); close(rfd[1]);
    std::string data = read_all(fd[0]);
    std::string res = read_all(rfd[0]);
    close(fd[0]); close(rfd[0]);
    int st = 0;
    while (waitpid(pid, &st, 0) < 0 && errno == EINTR) { }
    vh::emit("out %s", vh::hex(data).c_str());
    vh::Words w = vh::split(res);
    if (w.size() == 3) { vh::emit("ret %s", w[0].c_str()); vh::emit("final %s %s", w[1].c_str(), w[2].c_str()); }
    if (WIFSIGNALED(st)) vh::emit("crash realio-child signal %d", WTERMSIG(st));
    else if (WIFEXITED(st) && WEXITSTATUS(st) != 0) vh::emit("crash realio-child exit %d", WEXITSTATUS(st));
}

void run_case(const vh::Case& c) {
    if (!g_real_fputs) { g_real_fputs = PlatformSpecificFPuts; g_real_flush = PlatformSpecificFlush; }
    PlatformSpecificFPuts = seam_fputs;
    PlatformSpecificFlush = seam_flush;
    GetPlatformSpecificTimeInMillis = seam_time;
    g_outside = UtestShell::getCurrent();
    Program p;
    for (size_t i = 0; i < c.ops.size(); i++) {
        vh::Words w = c.ops[i];
        if (w[0] == "cfg" && w.size() == 4) { w.push_back("0"); w.push_back("0"); }   // older replays: no colour / rethrow fields
        if (w[0] == "cfg" && w.size() == 6) w.push_back("0");                         // older replays: no -p field
        const std::string& op = w[0];
        if (op == "cfg" && w.size() == 7 && !p.haveCfg && (w[6] == "0" || (w[6] == "1" && w[5] == "0")) &&
            (w[1] == "none" || w[1] == "bare" || ((w[1][0] == 'a' || w[1][0] == 's') && w[1].size() >= 2 && w[1].size() <= 3 &&
              w[1].find_first_not_of("0123456789", 1) == std::string::npos)) &&
            (w[2] == "0" || w[2] == "1" || w[2] == "2" || w[2] == "3") && (w[3] == "0" || w[3] == "1") &&
            (w[4] == "0" || w[4] == "1") && (w[5] == "0" || w[5] == "1")) {
            p.haveCfg = true; p.rep = w[1]; p.verbosity = w[2][0] - '0'; p.runIgnored = w[3] == "1";
            p.color = w[4] == "1"; p.rethrow = w[5] == "1"; p.separate = w[6] == "1";
            emit_words(w);
#if CPPUTEST_HAVE_EXCEPTIONS
            vh::emit("variant exc");
#else
            vh::emit("variant noexc");
#endif
            // the lines of the five plain macro sites (their functions are laid out one per line)
            // (bytes, compare and throws follow; the throws site sits two lines further in the exceptions build)
            vh::emit("sites %s %d %d %d %d %d %d %d %d", vh::hex(std::string(__FILE__)).c_str(),
                     SITE_LINE0, SITE_LINE0 + 1, SITE_LINE0 + 2, SITE_LINE0 + 3, SITE_LINE0 + 4, SITE_LINE0 + 5, SITE_LINE0 + 6,
                     SITE_LINE0 + 8);
        }
        else if (op == "clock" && w.size() >= 4 && w.size() <= 11) {      // clock <base> <step> <off>...
            bool ok = true;
            for (size_t k = 1; k < w.size(); k++)
                if (w[k].empty() || w[k].size() > 18 || w[k].find_first_not_of("0123456789") != std::string::npos) ok = false;
            if (ok) {
                g_clock_base = vh::to_u64(w[1]); g_clock_step = vh::to_u64(w[2]);
                g_clock_n = (unsigned) (w.size() - 3);
                for (unsigned k = 0; k < g_clock_n; k++) g_clock_offs[k] = vh::to_u64(w[3 + k]);
                emit_words(w);
            }
            else vh::emit("> skip");
        }
        else if (op == "filter" && w.size() == 3 && (w[1] == "sg" || w[1] == "sn" || w[1] == "xsg" || w[1] == "xsn") && is_ident(w[2])) {
            p.filters.push_back(std::make_pair(w[1], w[2]));
            emit_words(w);
        }
        else if (op == "plugin" && w.size() == 3 && is_ident(w[1]) && !find_plugin(p, w[1]) && (w[2] == "0" || w[2] == "1")) {
            PluginDef* d = new PluginDef; d->name = w[1]; d->enabled = w[2] == "1";
            p.plugins.push_back(d);
            emit_words(w);
        }
        else if (op == "perr" && w.size() == 6 && find_plugin(p, w[1]) && (w[2] == "pre" || w[2] == "post") &&
                 (w[3] == "*" || is_ident(w[3])) && file_index(w[4]) >= 0) {
            PErr e; e.only = w[3]; e.file = FILES[file_index(w[4])]; e.line = (size_t) vh::to_u64(w[5]);
            PluginDef* d = find_plugin(p, w[1]);
            (w[2] == "pre" ? d->pre : d->post).push_back(e);
            emit_words(w);
        }
        else if (op == "test" && w.size() == 7 && is_ident(w[1]) && !find_test(p, w[1]) && is_ident(w[2]) && is_ident(w[3]) &&
                 file_index(w[4]) >= 0 && (w[6] == "0" || w[6] == "1")) {
            TestDef* d = new TestDef; d->label = w[1]; d->group = w[2]; d->name = w[3];
            d->file = FILES[file_index(w[4])]; d->line = (size_t) vh::to_u64(w[5]); d->ignored = w[6] == "1";
            p.tests.push_back(d);
            emit_words(w);
        }
        else if (op == "s" && w.size() >= 4 && find_test(p, w[1]) && (w[2] == "setup" || w[2] == "body" || w[2] == "teardown")) {
            St s;
            if (parse_stmt(w, 3, s)) {
                find_test(p, w[1])->ph[w[2] == "setup" ? 0 : w[2] == "body" ? 1 : 2].push_back(s);
                emit_words(w);
            }
            else vh::emit("> skip");
        }
        else if (op == "env" && w.size() == 2 && (w[1] == "eclipse" || w[1] == "vs" || w[1] == "detect")) {
            p.env = w[1];
            emit_words(w);
        }
        else if (op == "composite" && w.size() == 1 && p.haveCfg && !p.composite && !p.realio && p.verbosity != 0 && !p.separate && !p.rethrow) {
            p.composite = true;         // -ojunit with -v / -vv: the runner builds a CompositeTestOutput
            emit_words(w);
        }
        else if (op == "realio" && w.size() == 1 && p.haveCfg && !p.realio && !p.composite && !p.rethrow) {
            p.realio = true;
            emit_words(w);
        }
        else if (op == "rethrow" && w.size() == 2 && (w[1] == "0" || w[1] == "1") && p.haveCfg && !p.composite && !p.realio && !p.separate) {
            // the NEXT runner of this process is started without (1) / with (0) -e; everything the earlier runners left in the
            // process (the static UtestShell::rethrowExceptions_, jmp_buf_index, current test / result) carries over
            p.rethrow = w[1] == "1";
            emit_words(w);
        }
        else if (op == "run" && w.size() == 1 && p.haveCfg && !g_process_dirty) {
            vh::emit_op("run");
            if (p.realio) run_real_io(p); else run_program(p);
        }
        else vh::emit("> skip");
    }
}

} // namespace

int main() { return vh::run_all(run_case, 60); }
