// Runs a scenario inside a real CppUTest test (so UtestShell::getCurrent(), the failure
// mechanism and printing behave as in a test) with the output captured in a string buffer.
#ifndef VERIF_HARNESS_FIXTURE_H
#define VERIF_HARNESS_FIXTURE_H
#include "common.h"
#include "CppUTest/TestHarness.h"
#include "CppUTest/TestTestingFixture.h"

namespace vh {

static TestTestingFixture* g_fixture = 0;

inline size_t fixture_output_size() { return g_fixture ? g_fixture->getOutput().size() : 0; }
inline std::string fixture_output() { return g_fixture ? std::string(g_fixture->getOutput().asCharString()) : std::string(); }

// runs fn() as the body of a test; returns the number of failures recorded
inline size_t in_fixture(void (*fn)()) {
    TestTestingFixture fixture;
    g_fixture = &fixture;
    fixture.setTestFunction(fn);
    fixture.runAllTests();
    size_t f = fixture.getFailureCount();
    g_fixture = 0;
    return f;
}

} // namespace vh
#endif
