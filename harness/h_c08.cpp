// C08 correspondence harness: interprets scenario lines against the real mock()/mock("scope")
// API inside a test fixture.  A recording MockFailureReporter is installed as the standard
// reporter; it records the failure message and stops the scenario at the first failure by
// throwing a private exception (as the default reporter would leave the test).
//
// ops (S = scope name, "-" = the global mock):
//   strict S | ioc S | enable S | disable S | check S | clear S | left S
//   expect S <N|one|no> F [o:ID] [p:NAME:T:V] [out:NAME:HEX] [ret:T:V] [iop] ...   (applied in order)
//   call S F [o:ID] [p:NAME:T:V] [out:NAME] ... [r]                                 (applied in order; r last)
//   T:V = i:<int> u:<unsigned> l:<long> ul:<unsigned long> ll:<long long> ull:<unsigned long long>
//         s:<hex bytes> p:<id> cp:<id> b:<0|1> m:<hex bytes>   (return values: i u s p cp b)
// observations: ret none | ret T:V, out NAME <8 bytes hex>, left 0|1, fail <first line of the message>
#include <deque>
#include "fixture.h"
#include "CppUTestExt/MockSupport.h"
#include "CppUTestExt/MockFailure.h"
#include "CppUTestExt/MockSupportPlugin.h"
#include "CppUTest/TestRegistry.h"
#include "CppUTest/TestOutput.h"

namespace {

struct Stop {};

struct RecordingReporter : public MockFailureReporter {
    std::string first; int count;
    RecordingReporter() : count(0) {}
    virtual void failTest(const MockFailure& failure) CPPUTEST_OVERRIDE {
        count++;
        if (count == 1) first = failure.getMessage().asCharString();
        throw Stop();
    }
};

const vh::Case* g_case = 0;

std::vector<std::string> splitc(const std::string& s) {
    std::vector<std::string> out; std::string cur;
    for (size_t i = 0; i < s.size(); i++) { if (s[i] == ':') { out.push_back(cur); cur.clear(); } else cur.push_back(s[i]); }
    out.push_back(cur);
    return out;
}

bool is_num(const std::string& s, bool neg) {
    if (s.empty()) return false;
    size_t i = 0; if (neg && s[0] == '-') i = 1;
    if (i >= s.size()) return false;
    for (; i < s.size(); i++) if (s[i] < '0' || s[i] > '9') return false;
    return true;
}
bool is_hex(const std::string& s) {
    if (s == "-") return true;
    if (s.empty() || s.size() % 2) return false;
    for (size_t i = 0; i < s.size(); i++) if (vh::hexval(s[i]) < 0) return false;
    return true;
}
bool is_name(const std::string& s) {
    if (s.empty()) return false;
    for (size_t i = 0; i < s.size(); i++) if (!isalnum((unsigned char) s[i]) && s[i] != '_') return false;
    return true;
}
bool valid_val(const std::string& t, const std::string& v) {
    if (t == "i" || t == "l" || t == "ll") return is_num(v, true);
    if (t == "u" || t == "ul" || t == "ull" || t == "p" || t == "cp") return is_num(v, false);
    if (t == "b") return v == "0" || v == "1";
    if (t == "s" || t == "m") return is_hex(v);
    return false;
}

void* fake_ptr(unsigned long base, const std::string& id) { return (void*) (uintptr_t) (base + vh::to_u64(id)); }

// the first line of the message; the value after `: <` of "Unexpected parameter value" is cut off
std::string canonical_first_line(const std::string& msg) {
    std::string l = msg.substr(0, msg.find('\n'));
    const char* pv = "Mock Failure: Unexpected parameter value";
    if (l.compare(0, strlen(pv), pv) == 0) {
        size_t k = l.find("\": <");
        if (k != std::string::npos) l = l.substr(0, k + 1);
    }
    return l;
}

struct Scenario {
    std::deque<std::string> pool;                 // strings / buffers the expectations point to
    std::deque<std::vector<unsigned char> > bufs; // output buffers of the call being made
    const char* keep(const std::string& s) { pool.push_back(s); return pool.back().c_str(); }

    static MockSupport& scope(const std::string& s) { return s == "-" ? mock() : mock(s.c_str()); }

    bool valid_expect(const vh::Words& w) {
        if (w.size() < 4 || !is_name(w[3])) return false;
        if (!(w[2] == "one" || w[2] == "no" || is_num(w[2], false))) return false;
        if (w[2] == "no" && w.size() > 4) return false;
        for (size_t i = 4; i < w.size(); i++) {
            std::vector<std::string> f = splitc(w[i]);
            if (f.size() == 1 && f[0] == "iop") continue;
            if (f.size() == 2 && f[0] == "o" && is_num(f[1], false)) continue;
            if (f.size() == 4 && f[0] == "p" && is_name(f[1]) && valid_val(f[2], f[3])) continue;
            if (f.size() == 3 && f[0] == "out" && is_name(f[1]) && is_hex(f[2]) && vh::unhex(f[2]).size() <= 8) continue;
            if (f.size() == 3 && f[0] == "ret" && f[1] != "m" && f[1] != "l" && f[1] != "ul" && f[1] != "ll" && f[1] != "ull" &&
                valid_val(f[1], f[2])) continue;
            return false;
        }
        return true;
    }
    bool valid_call(const vh::Words& w) {
        if (w.size() < 3 || !is_name(w[2])) return false;
        for (size_t i = 3; i < w.size(); i++) {
            std::vector<std::string> f = splitc(w[i]);
            if (f.size() == 1 && f[0] == "r" && i + 1 == w.size()) continue;
            if (f.size() == 2 && f[0] == "o" && is_num(f[1], false)) continue;
            if (f.size() == 4 && f[0] == "p" && is_name(f[1]) && valid_val(f[2], f[3])) continue;
            if (f.size() == 2 && f[0] == "out" && is_name(f[1])) continue;
            return false;
        }
        return true;
    }

    void do_expect(const vh::Words& w) {
        MockSupport& ms = scope(w[1]);
        if (w[2] == "no") { ms.expectNoCall(w[3].c_str()); return; }
        MockExpectedCall& e = (w[2] == "one") ? ms.expectOneCall(w[3].c_str())
                                              : ms.expectNCalls((unsigned int) vh::to_u64(w[2]), w[3].c_str());
        for (size_t i = 4; i < w.size(); i++) {
            std::vector<std::string> f = splitc(w[i]);
            if (f[0] == "iop") e.ignoreOtherParameters();
            else if (f[0] == "o") e.onObject(fake_ptr(0x2000, f[1]));
            else if (f[0] == "out") {
                std::string data = vh::unhex(f[2]);
                pool.push_back(data);
                e.withOutputParameterReturning(f[1].c_str(), pool.back().data(), data.size());
            }
            else if (f[0] == "ret") {
                const std::string& t = f[1]; const std::string& v = f[2];
                if (t == "i") e.andReturnValue((int) vh::to_i64(v));
                else if (t == "u") e.andReturnValue((unsigned int) vh::to_u64(v));
                else if (t == "s") e.andReturnValue(keep(vh::unhex(v)));
                else if (t == "p") e.andReturnValue(fake_ptr(0x1000, v));
                else if (t == "cp") e.andReturnValue((const void*) fake_ptr(0x1000, v));
                else if (t == "b") e.andReturnValue(v == "1");
            }
            else if (f[0] == "p") {
                const std::string& n = f[1]; const std::string& t = f[2]; const std::string& v = f[3];
                if (t == "i") e.withIntParameter(n.c_str(), (int) vh::to_i64(v));
                else if (t == "u") e.withUnsignedIntParameter(n.c_str(), (unsigned int) vh::to_u64(v));
                else if (t == "l") e.withLongIntParameter(n.c_str(), (long) vh::to_i64(v));
                else if (t == "ul") e.withUnsignedLongIntParameter(n.c_str(), (unsigned long) vh::to_u64(v));
                else if (t == "ll") e.withLongLongIntParameter(n.c_str(), (long long) vh::to_i64(v));
                else if (t == "ull") e.withUnsignedLongLongIntParameter(n.c_str(), (unsigned long long) vh::to_u64(v));
                else if (t == "s") e.withStringParameter(n.c_str(), keep(vh::unhex(v)));
                else if (t == "p") e.withPointerParameter(n.c_str(), fake_ptr(0x1000, v));
                else if (t == "cp") e.withConstPointerParameter(n.c_str(), (const void*) fake_ptr(0x1000, v));
                else if (t == "b") e.withBoolParameter(n.c_str(), v == "1");
                else if (t == "m") {
                    std::string data = vh::unhex(v);
                    pool.push_back(data);
                    e.withMemoryBufferParameter(n.c_str(), (const unsigned char*) pool.back().data(), data.size());
                }
            }
        }
    }

    void print_value(const MockNamedValue& v) {
        SimpleString t = v.getType();
        if (t == "int") vh::emit("ret i:%d", v.getIntValue());
        else if (t == "unsigned int") vh::emit("ret u:%u", v.getUnsignedIntValue());
        else if (t == "const char*") vh::emit("ret s:%s", vh::hex(std::string(v.getStringValue())).c_str());
        else if (t == "void*") vh::emit("ret p:%lu", (unsigned long) ((uintptr_t) v.getPointerValue() - 0x1000));
        else if (t == "const void*") vh::emit("ret cp:%lu", (unsigned long) ((uintptr_t) v.getConstPointerValue() - 0x1000));
        else if (t == "bool") vh::emit("ret b:%d", v.getBoolValue() ? 1 : 0);
        else vh::emit("ret other:%s", vh::hex(std::string(t.asCharString())).c_str());
    }

    void do_call(const vh::Words& w) {
        MockSupport& ms = scope(w[1]);
        bufs.clear();
        std::vector<std::string> outNames;
        MockActualCall& c = ms.actualCall(w[2].c_str());
        for (size_t i = 3; i < w.size(); i++) {
            std::vector<std::string> f = splitc(w[i]);
            if (f[0] == "r") {
                if (c.hasReturnValue()) print_value(c.returnValue());
                else vh::emit("ret none");
            }
            else if (f[0] == "o") c.onObject(fake_ptr(0x2000, f[1]));
            else if (f[0] == "out") {
                bufs.push_back(std::vector<unsigned char>(8, 0xEE));
                outNames.push_back(f[1]);
                c.withOutputParameter(f[1].c_str(), bufs.back().data());
            }
            else if (f[0] == "p") {
                const std::string& n = f[1]; const std::string& t = f[2]; const std::string& v = f[3];
                if (t == "i") c.withIntParameter(n.c_str(), (int) vh::to_i64(v));
                else if (t == "u") c.withUnsignedIntParameter(n.c_str(), (unsigned int) vh::to_u64(v));
                else if (t == "l") c.withLongIntParameter(n.c_str(), (long) vh::to_i64(v));
                else if (t == "ul") c.withUnsignedLongIntParameter(n.c_str(), (unsigned long) vh::to_u64(v));
                else if (t == "ll") c.withLongLongIntParameter(n.c_str(), (long long) vh::to_i64(v));
                else if (t == "ull") c.withUnsignedLongLongIntParameter(n.c_str(), (unsigned long long) vh::to_u64(v));
                else if (t == "s") c.withStringParameter(n.c_str(), keep(vh::unhex(v)));
                else if (t == "p") c.withPointerParameter(n.c_str(), fake_ptr(0x1000, v));
                else if (t == "cp") c.withConstPointerParameter(n.c_str(), (const void*) fake_ptr(0x1000, v));
                else if (t == "b") c.withBoolParameter(n.c_str(), v == "1");
                else if (t == "m") {
                    std::string data = vh::unhex(v);
                    pool.push_back(data);
                    c.withMemoryBufferParameter(n.c_str(), (const unsigned char*) pool.back().data(), data.size());
                }
            }
        }
        for (size_t i = 0; i < bufs.size(); i++)
            vh::emit("out %s %s", outNames[i].c_str(), vh::hex(bufs[i].data(), bufs[i].size()).c_str());
    }
};

std::string joined(const vh::Words& w) {
    std::string s;
    for (size_t i = 0; i < w.size(); i++) { if (i) s += " "; s += w[i]; }
    return s;
}

// one scenario operation (shared by the direct mode and the plugin mode); `rep` is the recording
// reporter of the direct mode (re-installed after clear), 0 in the plugin mode
void exec_op(Scenario& sc, const vh::Words& w, MockFailureReporter* rep) {
    const std::string& op = w[0];
    bool scoped = w.size() >= 2 && (w[1] == "-" || is_name(w[1]));
    if (w.size() == 2 && scoped && (op == "strict" || op == "ioc" || op == "enable" || op == "disable" ||
                                    op == "check" || op == "clear" || op == "left")) {
        vh::emit_op(joined(w));
        MockSupport& ms = Scenario::scope(w[1]);
        if (op == "strict") ms.strictOrder();
        else if (op == "ioc") ms.ignoreOtherCalls();
        else if (op == "enable") ms.enable();
        else if (op == "disable") ms.disable();
        else if (op == "check") ms.checkExpectations();
        else if (op == "clear") { ms.clear(); if (w[1] == "-" && rep) mock().setMockFailureStandardReporter(rep); }
        else if (op == "left") vh::emit("left %d", ms.expectedCallsLeft() ? 1 : 0);
    }
    else if (op == "expect" && scoped && sc.valid_expect(w)) { vh::emit_op(joined(w)); sc.do_expect(w); }
    else if (op == "call" && scoped && sc.valid_call(w)) { vh::emit_op(joined(w)); sc.do_call(w); }
    else vh::emit("> skip");
}

void body() {
    RecordingReporter rep;
    Scenario sc;
    const vh::Case& c = *g_case;
    mock().setMockFailureStandardReporter(&rep);
    try {
        for (size_t i = 0; i < c.ops.size(); i++) exec_op(sc, c.ops[i], &rep);
    }
    catch (const Stop&) {
        vh::emit("fail %s", canonical_first_line(rep.first).c_str());
    }
    // always leave the global mock clean; the reporter object dies with this frame
    mock().setMockFailureStandardReporter(0);
    mock().clear();
}

// ---------------------------------------------------------------------------------------------
// plugin mode: `plugin` as first line, then `test NAME` + scenario lines (+ `fail` = a plain FAIL at
// that point of the test body) for 2..5 scripted tests.  They run in a private TestRegistry with the
// real MockSupportPlugin installed; nothing but the plugin checks expectations and clears the mock.
// Per test: `> test NAME`, the scenario lines that were executed, `> endtest` (printed by teardown(),
// i.e. before the plugin's postTestAction), every failure of the test as `fail <first line>` at the
// moment it is reported, and `verdict pass|fail` when the run has finished the test.

struct RecordingOutput : public StringBufferTestOutput {
    int failures;
    RecordingOutput() : failures(0) {}
    virtual void printCurrentTestStarted(const UtestShell&) CPPUTEST_OVERRIDE { failures = 0; }
    virtual void printFailure(const TestFailure& failure) CPPUTEST_OVERRIDE {
        failures++;
        vh::emit("fail %s", canonical_first_line(failure.getMessage().asCharString()).c_str());
    }
    virtual void printCurrentTestEnded(const TestResult&) CPPUTEST_OVERRIDE { vh::emit("verdict %s", failures ? "fail" : "pass"); }
};

struct ScriptedTest {
    std::string name;
    std::vector<vh::Words> ops;
    Scenario pool;            // must outlive the plugin's postTestAction (expectations point into it)
};
std::deque<ScriptedTest>* g_tests = 0;

class ScriptUtest : public Utest {
    ScriptedTest& t_;
public:
    ScriptUtest(ScriptedTest& t) : t_(t) {}
    virtual void testBody() CPPUTEST_OVERRIDE {
        vh::emit("> test %s", t_.name.c_str());
        for (size_t i = 0; i < t_.ops.size(); i++) {
            const vh::Words& w = t_.ops[i];
            if (w.size() == 1 && w[0] == "fail") { vh::emit_op("fail"); FAIL("scripted"); }
            else exec_op(t_.pool, w, 0);
        }
    }
    virtual void teardown() CPPUTEST_OVERRIDE { vh::emit("> endtest"); }
};

class ScriptShell : public UtestShell {
    ScriptedTest& t_;
public:
    ScriptShell(ScriptedTest& t) : UtestShell("scripted", "test", "h_c08.cpp", 1), t_(t) {}
    virtual Utest* createTest() CPPUTEST_OVERRIDE { return new ScriptUtest(t_); }
};

void run_plugin_case(const vh::Case& c) {
    std::deque<ScriptedTest> tests;
    vh::emit_op("plugin");
    for (size_t i = 1; i < c.ops.size(); i++) {
        const vh::Words& w = c.ops[i];
        if (w[0] == "test" && w.size() == 2 && is_name(w[1])) { tests.push_back(ScriptedTest()); tests.back().name = w[1]; }
        else if (!tests.empty()) tests.back().ops.push_back(w);
        else vh::emit("> skip");
    }
    g_tests = &tests;
    {
        RecordingOutput output;
        TestResult result(output);
        TestRegistry registry;
        MockSupportPlugin plugin;
        std::deque<ScriptShell> shells;
        registry.setCurrentRegistry(&registry);
        registry.installPlugin(&plugin);
        for (size_t i = 0; i < tests.size(); i++) shells.push_back(ScriptShell(tests[i]));
        for (size_t i = 0; i < shells.size(); i++) registry.addTest(&shells[shells.size() - 1 - i]);   // addTest prepends
        registry.runAllTests(result);
        registry.setCurrentRegistry(0);
    }
    mock().clear();
}

void run_case(const vh::Case& c) {
    g_case = &c;
    if (!c.ops.empty() && c.ops[0].size() == 1 && c.ops[0][0] == "plugin") { run_plugin_case(c); return; }
    size_t failures = vh::in_fixture(body);
    if (failures) vh::emit("fixture-failures %lu", (unsigned long) failures);
}

} // namespace

int main() { return vh::run_all(run_case); }
