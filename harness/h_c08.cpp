// C08 correspondence harness: interprets scenario lines against the real mock()/mock("scope")
// API inside a test fixture.  A recording MockFailureReporter is installed as the standard
// reporter; it records the failure message and stops the scenario at the first failure by
// throwing a private exception (as the default reporter would leave the test).
//
// ops (S = scope name, "-" = the global mock):
//   strict S | ioc S | enable S | disable S | check S | clear S | left S
//   expect S <N|one|no> F [o:ID] [p:NAME:T:V] [out:NAME:HEX] [ret:T:V] [iop] ...   (applied in order)
//   call S F [o:ID] [p:NAME:T:V] [out:NAME] ... [r]                                 (applied in order; r last)
//   T:V = i:<int> u:<unsigned> l:<long> ul:<unsigned long> ll:<long long> ull:<unsigned long long>
//         s:<hex bytes> p:<id> cp:<id> b:<0|1> m:<hex bytes>   (return values: i u s p cp b)
// observations: ret none | ret T:V, out NAME <8 bytes hex>, left 0|1, fail <first line of the message>,
//   hist ... (direct mode: the expectation history of the failure text, see emit_history)
#include <deque>
#include "fixture.h"
#include "CppUTestExt/MockSupport.h"
#include "CppUTestExt/MockFailure.h"
#include "CppUTestExt/MockSupportPlugin.h"
#include "CppUTest/TestRegistry.h"
#include "CppUTest/TestOutput.h"

namespace {

struct Stop {};

struct RecordingReporter : public MockFailureReporter {
    std::string first; int count;
    RecordingReporter() : count(0) {}
    virtual void failTest(const MockFailure& failure) CPPUTEST_OVERRIDE {
        count++;
        if (count == 1) first = failure.getMessage().asCharString();
        throw Stop();
    }
};

const vh::Case* g_case = 0;

std::vector<std::string> splitc(const std::string& s) {
    std::vector<std::string> out; std::string cur;
    for (size_t i = 0; i < s.size(); i++) { if (s[i] == ':') { out.push_back(cur); cur.clear(); } else cur.push_back(s[i]); }
    out.push_back(cur);
    return out;
}

bool is_num(const std::string& s, bool neg) {
    if (s.empty()) return false;
    size_t i = 0; if (neg && s[0] == '-') i = 1;
    if (i >= s.size()) return false;
    for (; i < s.size(); i++) if (s[i] < '0' || s[i] > '9') return false;
    return true;
}
bool is_hex(const std::string& s) {
    if (s == "-") return true;
    if (s.empty() || s.size() % 2) return false;
    for (size_t i = 0; i < s.size(); i++) if (vh::hexval(s[i]) < 0) return false;
    return true;
}
bool is_name(const std::string& s) {
    if (s.empty()) return false;
    for (size_t i = 0; i < s.size(); i++) if (!isalnum((unsigned char) s[i]) && s[i] != '_') return false;
    return true;
}
bool valid_val(const std::string& t, const std::string& v) {
    if (t == "i" || t == "l" || t == "ll") return is_num(v, true);
    if (t == "u" || t == "ul" || t == "ull" || t == "p" || t == "cp") return is_num(v, false);
    if (t == "b") return v == "0" || v == "1";
    if (t == "s" || t == "m") return is_hex(v);
    return false;
}

void* fake_ptr(unsigned long base, const std::string& id) { return (void*) (uintptr_t) (base + vh::to_u64(id)); }

// the first line of the message; the value after `: <` of "Unexpected parameter value" is cut off
std::string canonical_first_line(const std::string& msg) {
    std::string l = msg.substr(0, msg.find('\n'));
    const char* pv = "Mock Failure: Unexpected parameter value";
    if (l.compare(0, strlen(pv), pv) == 0) {
        size_t k = l.find("\": <");
        if (k != std::string::npos) l = l.substr(0, k + 1);
    }
    return l;
}


// ---------------------------------------------------------------------------------------------
// The text of a mock failure beyond its first line: the expectation history
// (MockFailure::addExpectationsAndCallHistory / ...RelatedTo, MockExpectedCallsList::
// unfulfilledCallsToString / fulfilledCallsToString / callsWithMissingParametersToString,
// MockCheckedExpectedCall::callToString / missingParametersToString) in canonical form:
//   hist U-section <function|*>   header "EXPECTED calls that WERE NOT fulfilled [related to function: F]"
//   hist F-section <function|*>   header "EXPECTED calls that WERE fulfilled [related to function: F]"
//   hist M-section <function>     header "EXPECTED calls with MISSING parameters related to function: F"
//   hist <U|F|M> <name> o:<id|-> w:<lo>-<hi>|w:- in:<n,..|-> out:<n,..|-> iop:<0|1> <expected> <actual>
//   hist <U|F|M> none             the "<none>" line of an empty section
//   hist m <n,..|->               "MISSING parameters:" line of the preceding M entry (names, in order)
// Parameter values and type names are C09/C14 matters and are dropped here.
std::string csv(const std::vector<std::string>& v) {
    if (v.empty()) return "-";
    std::string s;
    for (size_t i = 0; i < v.size(); i++) { if (i) s += ","; s += v[i]; }
    return s;
}

std::vector<std::string> split_on(const std::string& s, const std::string& sep) {
    std::vector<std::string> out; size_t i = 0;
    if (s.empty()) return out;
    for (;;) {
        size_t k = s.find(sep, i);
        if (k == std::string::npos) { out.push_back(s.substr(i)); break; }
        out.push_back(s.substr(i, k - i)); i = k + sep.size();
    }
    return out;
}

std::string last_word(const std::string& s) {
    size_t k = s.rfind(' ');
    return k == std::string::npos ? s : s.substr(k + 1);
}

// one callToString() line -> canonical entry (without the section letter); "?..." if it cannot be read
std::string canonical_entry(std::string s) {
    std::string obj = "-";
    const char* op = "(object address: ";
    if (s.compare(0, strlen(op), op) == 0) {
        size_t k = s.find(")::");
        if (k == std::string::npos) return "?object " + s;
        unsigned long a = strtoul(s.substr(strlen(op), k - strlen(op)).c_str(), 0, 16);
        char b[32]; snprintf(b, sizeof b, "%lu", a - 0x2000); obj = b;
        s = s.substr(k + 3);
    }
    size_t k = s.find(" -> ");
    if (k == std::string::npos) return "?arrow " + s;
    std::string name = s.substr(0, k);
    s = s.substr(k + 4);
    std::string win = "-";
    unsigned lo = 0, hi = 0;
    if (sscanf(s.c_str(), "expected call order: <%u> -> ", &lo) == 1) { hi = lo; }
    else if (sscanf(s.c_str(), "expected calls order: <%u..%u> -> ", &lo, &hi) == 2) { }
    if (lo) {
        char b[48]; snprintf(b, sizeof b, "%u-%u", lo, hi); win = b;
        s = s.substr(s.find(" -> ") + 4);
    }
    size_t t = s.rfind(" (expected ");
    if (t == std::string::npos) return "?counts " + s;
    unsigned e = 0, a = 0;
    if (sscanf(s.c_str() + t, " (expected %u call%*[^0-9]%u", &e, &a) != 2) return "?counts " + s;
    std::string params = s.substr(0, t);
    int iop = 0;
    std::vector<std::string> ins, outs;
    if (params == "no parameters") { }
    else if (params == "all parameters ignored") iop = 1;
    else {
        std::vector<std::string> items = split_on(params, ", ");
        for (size_t i = 0; i < items.size(); i++) {
            if (items[i] == "other parameters are ignored" && i + 1 == items.size()) { iop = 1; continue; }
            size_t c = items[i].find(": <");
            if (c == std::string::npos) return "?param " + items[i];
            std::string n = last_word(items[i].substr(0, c));
            if (items[i].substr(c + 2) == "<output>") outs.push_back(n); else ins.push_back(n);
        }
    }
    char tail[64]; snprintf(tail, sizeof tail, " iop:%d %u %u", iop, e, a);
    return name + " o:" + obj + " w:" + win + " in:" + csv(ins) + " out:" + csv(outs) + tail;
}

void emit_history(const std::string& msg) {
    std::vector<std::string> lines = split_on(msg, "\n");
    std::string sec;
    for (size_t i = 1; i < lines.size(); i++) {
        const std::string& l = lines[i];
        const char* hm = "\tEXPECTED calls with MISSING parameters related to function: ";
        const char* hu = "\tEXPECTED calls that WERE NOT fulfilled";
        const char* hf = "\tEXPECTED calls that WERE fulfilled";
        const char* rel = " related to function: ";
        const char* mp = "\t\t\tMISSING parameters: ";
        if (l.compare(0, strlen(hm), hm) == 0) { sec = "M"; vh::emit("hist M-section %s", l.substr(strlen(hm)).c_str()); }
        else if (l.compare(0, strlen(hu), hu) == 0 || l.compare(0, strlen(hf), hf) == 0) {
            bool u = l.compare(0, strlen(hu), hu) == 0;
            sec = u ? "U" : "F";
            std::string rest = l.substr(strlen(u ? hu : hf));
            std::string fn = "*";
            if (rest.compare(0, strlen(rel), rel) == 0) fn = rest.substr(strlen(rel));
            else if (rest != ":") fn = "?" + rest;
            vh::emit("hist %s-section %s", sec.c_str(), fn.c_str());
        }
        else if (l.compare(0, strlen(mp), mp) == 0) {
            std::vector<std::string> items = split_on(l.substr(strlen(mp)), ", "), names;
            for (size_t k = 0; k < items.size(); k++) names.push_back(last_word(items[k]));
            vh::emit("hist m %s", csv(names).c_str());
        }
        else if (l.compare(0, 2, "\t\t") == 0 && !sec.empty()) {
            std::string body = l.substr(2);
            if (body == "<none>") vh::emit("hist %s none", sec.c_str());
            else vh::emit("hist %s %s", sec.c_str(), canonical_entry(body).c_str());
        }
        else sec.clear();       // "ACTUAL unexpected parameter ...", "Actual object ...", blank lines
    }
}

struct Scenario {
    std::deque<std::string> pool;                 // strings / buffers the expectations point to
    std::deque<std::vector<unsigned char> > bufs; // output buffers of the call being made
    const char* keep(const std::string& s) { pool.push_back(s); return pool.back().c_str(); }

    static MockSupport& scope(const std::string& s) { return s == "-" ? mock() : mock(s.c_str()); }

    bool valid_expect(const vh::Words& w) {
        if (w.size() < 4 || !is_name(w[3])) return false;
        if (!(w[2] == "one" || w[2] == "no" || is_num(w[2], false))) return false;
        if (w[2] == "no" && w.size() > 4) return false;
        for (size_t i = 4; i < w.size(); i++) {
            std::vector<std::string> f = splitc(w[i]);
            if (f.size() == 1 && f[0] == "iop") continue;
            if (f.size() == 2 && f[0] == "o" && is_num(f[1], false)) continue;
            if (f.size() == 4 && f[0] == "p" && is_name(f[1]) && valid_val(f[2], f[3])) continue;
            if (f.size() == 3 && f[0] == "out" && is_name(f[1]) && is_hex(f[2]) && vh::unhex(f[2]).size() <= 8) continue;
            if (f.size() == 3 && f[0] == "ret" && f[1] != "m" && f[1] != "l" && f[1] != "ul" && f[1] != "ll" && f[1] != "ull" &&
                valid_val(f[1], f[2])) continue;
            return false;
        }
        return true;
    }
    bool valid_call(const vh::Words& w) {
        if (w.size() < 3 || !is_name(w[2])) return false;
        for (size_t i = 3; i < w.size(); i++) {
            std::vector<std::string> f = splitc(w[i]);
            if (f.size() == 1 && f[0] == "r" && i + 1 == w.size()) continue;
            if (f.size() == 2 && f[0] == "o" && is_num(f[1], false)) continue;
            if (f.size() == 4 && f[0] == "p" && is_name(f[1]) && valid_val(f[2], f[3])) continue;
            if (f.size() == 2 && f[0] == "out" && is_name(f[1])) continue;
            return false;
        }
        return true;
    }

    void do_expect(const vh::Words& w) {
        MockSupport& ms = scope(w[1]);
        if (w[2] == "no") { ms.expectNoCall(w[3].c_str()); return; }
        MockExpectedCall& e = (w[2] == "one") ? ms.expectOneCall(w[3].c_str())
                                              : ms.expectNCalls((unsigned int) vh::to_u64(w[2]), w[3].c_str());
        for (size_t i = 4; i < w.size(); i++) {
            std::vector<std::string> f = splitc(w[i]);
            if (f[0] == "iop") e.ignoreOtherParameters();
            else if (f[0] == "o") e.onObject(fake_ptr(0x2000, f[1]));
            else if (f[0] == "out") {
                std::string data = vh::unhex(f[2]);
                pool.push_back(data);
                e.withOutputParameterReturning(f[1].c_str(), pool.back().data(), data.size());
            }
            else if (f[0] == "ret") {
                const std::string& t = f[1]; const std::string& v = f[2];
                if (t == "i") e.andReturnValue((int) vh::to_i64(v));
                else if (t == "u") e.andReturnValue((unsigned int) vh::to_u64(v));
                else if (t == "s") e.andReturnValue(keep(vh::unhex(v)));
                else if (t == "p") e.andReturnValue(fake_ptr(0x1000, v));
                else if (t == "cp") e.andReturnValue((const void*) fake_ptr(0x1000, v));
                else if (t == "b") e.andReturnValue(v == "1");
            }
            else if (f[0] == "p") {
                const std::string& n = f[1]; const std::string& t = f[2]; const std::string& v = f[3];
                if (t == "i") e.withIntParameter(n.c_str(), (int) vh::to_i64(v));
                else if (t == "u") e.withUnsignedIntParameter(n.c_str(), (unsigned int) vh::to_u64(v));
                else if (t == "l") e.withLongIntParameter(n.c_str(), (long) vh::to_i64(v));
                else if (t == "ul") e.withUnsignedLongIntParameter(n.c_str(), (unsigned long) vh::to_u64(v));
                else if (t == "ll") e.withLongLongIntParameter(n.c_str(), (long long) vh::to_i64(v));
                else if (t == "ull") e.withUnsignedLongLongIntParameter(n.c_str(), (unsigned long long) vh::to_u64(v));
                else if (t == "s") e.withStringParameter(n.c_str(), keep(vh::unhex(v)));
                else if (t == "p") e.withPointerParameter(n.c_str(), fake_ptr(0x1000, v));
                else if (t == "cp") e.withConstPointerParameter(n.c_str(), (const void*) fake_ptr(0x1000, v));
                else if (t == "b") e.withBoolParameter(n.c_str(), v == "1");
                else if (t == "m") {
                    std::string data = vh::unhex(v);
                    pool.push_back(data);
                    e.withMemoryBufferParameter(n.c_str(), (const unsigned char*) pool.back().data(), data.size());
                }
            }
        }
    }

    void print_value(const MockNamedValue& v) {
        SimpleString t = v.getType();
        if (t == "int") vh::emit("ret i:%d", v.getIntValue());
        else if (t == "unsigned int") vh::emit("ret u:%u", v.getUnsignedIntValue());
        else if (t == "const char*") vh::emit("ret s:%s", vh::hex(std::string(v.getStringValue())).c_str());
        else if (t == "void*") vh::emit("ret p:%lu", (unsigned long) ((uintptr_t) v.getPointerValue() - 0x1000));
        else if (t == "const void*") vh::emit("ret cp:%lu", (unsigned long) ((uintptr_t) v.getConstPointerValue() - 0x1000));
        else if (t == "bool") vh::emit("ret b:%d", v.getBoolValue() ? 1 : 0);
        else vh::emit("ret other:%s", vh::hex(std::string(t.asCharString())).c_str());
    }

    void do_call(const vh::Words& w) {
        MockSupport& ms = scope(w[1]);
        bufs.clear();
        std::vector<std::string> outNames;
        MockActualCall& c = ms.actualCall(w[2].c_str());
        for (size_t i = 3; i < w.size(); i++) {
            std::vector<std::string> f = splitc(w[i]);
            if (f[0] == "r") {
                if (c.hasReturnValue()) print_value(c.returnValue());
                else vh::emit("ret none");
            }
            else if (f[0] == "o") c.onObject(fake_ptr(0x2000, f[1]));
            else if (f[0] == "out") {
                bufs.push_back(std::vector<unsigned char>(8, 0xEE));
                outNames.push_back(f[1]);
                c.withOutputParameter(f[1].c_str(), bufs.back().data());
            }
            else if (f[0] == "p") {
                const std::string& n = f[1]; const std::string& t = f[2]; const std::string& v = f[3];
                if (t == "i") c.withIntParameter(n.c_str(), (int) vh::to_i64(v));
                else if (t == "u") c.withUnsignedIntParameter(n.c_str(), (unsigned int) vh::to_u64(v));
                else if (t == "l") c.withLongIntParameter(n.c_str(), (long) vh::to_i64(v));
                else if (t == "ul") c.withUnsignedLongIntParameter(n.c_str(), (unsigned long) vh::to_u64(v));
                else if (t == "ll") c.withLongLongIntParameter(n.c_str(), (long long) vh::to_i64(v));
                else if (t == "ull") c.withUnsignedLongLongIntParameter(n.c_str(), (unsigned long long) vh::to_u64(v));
                else if (t == "s") c.withStringParameter(n.c_str(), keep(vh::unhex(v)));
                else if (t == "p") c.withPointerParameter(n.c_str(), fake_ptr(0x1000, v));
                else if (t == "cp") c.withConstPointerParameter(n.c_str(), (const void*) fake_ptr(0x1000, v));
                else if (t == "b") c.withBoolParameter(n.c_str(), v == "1");
                else if (t == "m") {
                    std::string data = vh::unhex(v);
                    pool.push_back(data);
                    c.withMemoryBufferParameter(n.c_str(), (const unsigned char*) pool.back().data(), data.size());
                }
            }
        }
        for (size_t i = 0; i < bufs.size(); i++)
            vh::emit("out %s %s", outNames[i].c_str(), vh::hex(bufs[i].data(), bufs[i].size()).c_str());
    }
};

std::string joined(const vh::Words& w) {
    std::string s;
    for (size_t i = 0; i < w.size(); i++) { if (i) s += " "; s += w[i]; }
    return s;
}

// one scenario operation (shared by the direct mode and the plugin mode); `rep` is the recording
// reporter of the direct mode (re-installed after clear), 0 in the plugin mode
void exec_op(Scenario& sc, const vh::Words& w, MockFailureReporter* rep) {
    const std::string& op = w[0];
    bool scoped = w.size() >= 2 && (w[1] == "-" || is_name(w[1]));
    if (w.size() == 2 && scoped && (op == "strict" || op == "ioc" || op == "enable" || op == "disable" ||
                                    op == "check" || op == "clear" || op == "left")) {
        vh::emit_op(joined(w));
        MockSupport& ms = Scenario::scope(w[1]);
        if (op == "strict") ms.strictOrder();
        else if (op == "ioc") ms.ignoreOtherCalls();
        else if (op == "enable") ms.enable();
        else if (op == "disable") ms.disable();
        else if (op == "check") ms.checkExpectations();
        else if (op == "clear") { ms.clear(); if (w[1] == "-" && rep) mock().setMockFailureStandardReporter(rep); }
        else if (op == "left") vh::emit("left %d", ms.expectedCallsLeft() ? 1 : 0);
    }
    else if (op == "expect" && scoped && sc.valid_expect(w)) { vh::emit_op(joined(w)); sc.do_expect(w); }
    else if (op == "call" && scoped && sc.valid_call(w)) { vh::emit_op(joined(w)); sc.do_call(w); }
    else vh::emit("> skip");
}

void body() {
    RecordingReporter rep;
    Scenario sc;
    const vh::Case& c = *g_case;
    mock().setMockFailureStandardReporter(&rep);
    try {
        for (size_t i = 0; i < c.ops.size(); i++) exec_op(sc, c.ops[i], &rep);
    }
    catch (const Stop&) {
        vh::emit("fail %s", canonical_first_line(rep.first).c_str());
        emit_history(rep.first);
    }
    // always leave the global mock clean; the reporter object dies with this frame
    mock().setMockFailureStandardReporter(0);
    mock().clear();
}

// ---------------------------------------------------------------------------------------------
// plugin mode: `plugin` as first line, then `test NAME` + scenario lines (+ `fail` = a plain FAIL at
// that point of the test body) for 2..5 scripted tests.  They run in a private TestRegistry with the
// real MockSupportPlugin installed; nothing but the plugin checks expectations and clears the mock.
// Per test: `> test NAME`, the scenario lines that were executed, `> endtest` (printed by teardown(),
// i.e. before the plugin's postTestAction), every failure of the test as `fail <first line>` at the
// moment it is reported, and `verdict pass|fail` when the run has finished the test.

struct RecordingOutput : public StringBufferTestOutput {
    int failures;
    RecordingOutput() : failures(0) {}
    virtual void printCurrentTestStarted(const UtestShell&) CPPUTEST_OVERRIDE { failures = 0; }
    virtual void printFailure(const TestFailure& failure) CPPUTEST_OVERRIDE {
        failures++;
        vh::emit("fail %s", canonical_first_line(failure.getMessage().asCharString()).c_str());
    }
    virtual void printCurrentTestEnded(const TestResult&) CPPUTEST_OVERRIDE { vh::emit("verdict %s", failures ? "fail" : "pass"); }
};

struct ScriptedTest {
    std::string name;
    std::vector<vh::Words> ops;
    Scenario pool;            // must outlive the plugin's postTestAction (expectations point into it)
};
std::deque<ScriptedTest>* g_tests = 0;
// teardown mode (`teardown` as first line instead of `plugin`): the same scripted tests in a private
// registry WITHOUT MockSupportPlugin and with the library's DEFAULT MockFailureReporter; every test
// starts from a cleared mock and verifies the mock itself the usual way,
//     teardown() { mock().checkExpectations(); mock().clear(); }
// Every failure the run records for the test is printed as `fail <first line>` when it is reported
// (those of the end-of-test check under `> endtest`), then `verdict pass|fail`.
bool g_teardown_mode = false;

class ScriptUtest : public Utest {
    ScriptedTest& t_;
public:
    ScriptUtest(ScriptedTest& t) : t_(t) {}
    virtual void setup() CPPUTEST_OVERRIDE { if (g_teardown_mode) mock().clear(); }
    virtual void testBody() CPPUTEST_OVERRIDE {
        vh::emit("> test %s", t_.name.c_str());
        for (size_t i = 0; i < t_.ops.size(); i++) {
            const vh::Words& w = t_.ops[i];
            if (w.size() == 1 && w[0] == "fail") { vh::emit_op("fail"); FAIL("scripted"); }
            else exec_op(t_.pool, w, 0);
        }
    }
    virtual void teardown() CPPUTEST_OVERRIDE {
        vh::emit("> endtest");
        if (g_teardown_mode) { mock().checkExpectations(); mock().clear(); }
    }
};

class ScriptShell : public UtestShell {
    ScriptedTest& t_;
public:
    ScriptShell(ScriptedTest& t) : UtestShell("scripted", "test", "h_c08.cpp", 1), t_(t) {}
    virtual Utest* createTest() CPPUTEST_OVERRIDE { return new ScriptUtest(t_); }
};

void run_plugin_case(const vh::Case& c, bool teardownMode) {
    std::deque<ScriptedTest> tests;
    g_teardown_mode = teardownMode;
    vh::emit_op(teardownMode ? "teardown" : "plugin");
    for (size_t i = 1; i < c.ops.size(); i++) {
        const vh::Words& w = c.ops[i];
        if (w[0] == "test" && w.size() == 2 && is_name(w[1])) { tests.push_back(ScriptedTest()); tests.back().name = w[1]; }
        else if (!tests.empty()) tests.back().ops.push_back(w);
        else vh::emit("> skip");
    }
    g_tests = &tests;
    {
        RecordingOutput output;
        TestResult result(output);
        TestRegistry registry;
        MockSupportPlugin plugin;
        std::deque<ScriptShell> shells;
        registry.setCurrentRegistry(&registry);
        if (!teardownMode) registry.installPlugin(&plugin);
        for (size_t i = 0; i < tests.size(); i++) shells.push_back(ScriptShell(tests[i]));
        for (size_t i = 0; i < shells.size(); i++) registry.addTest(&shells[shells.size() - 1 - i]);   // addTest prepends
        registry.runAllTests(result);
        registry.setCurrentRegistry(0);
    }
    g_teardown_mode = false;
    mock().clear();
}

void run_case(const vh::Case& c) {
    g_case = &c;
    if (!c.ops.empty() && c.ops[0].size() == 1 && c.ops[0][0] == "plugin") { run_plugin_case(c, false); return; }
    if (!c.ops.empty() && c.ops[0].size() == 1 && c.ops[0][0] == "teardown") { run_plugin_case(c, true); return; }
    size_t failures = vh::in_fixture(body);
    if (failures) vh::emit("fixture-failures %lu", (unsigned long) failures);
}

} // namespace

int main() { return vh::run_all(run_case); }
