// C04 correspondence harness: leak accounting of a private MemoryLeakDetector over an arena with chosen
// addresses (see h_c04_util.h).  Operations: setup, alloc, free, realloc, period, stage, clear, mark, report.
#include "h_c04_util.h"

static void run_case(const vh::Case& c) { ld::run_case(c, false); }

int main() {
    // the harness process itself must not depend on the code under test: no leak tracking of its own allocations
    MemoryLeakWarningPlugin::turnOffNewDeleteOverloads();
    return vh::run_all(run_case);
}
